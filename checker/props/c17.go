package props

import (
	"fmt"
	"go/constant"
	"go/token"
	"go/types"
	"reflect"
	"strconv"
	"strings"

	"golang.org/x/tools/go/ssa"

	"verif/checker/an"
)

func init() {
	register("C17", Prop{
		Pkgs: []string{"./ipld/unixfs/io", "./ipld/unixfs", "./ipld/unixfs/pb", "./ipld/merkledag", "./ipld/merkledag/pb"},
		Explain: "Decided (structural necessary conditions of 'the block-size estimate equals the serialized size and stays exact under edits'): " +
			"O1 (R-PAIR) every call that changes the links of BasicDirectory.node (ProtoNode methods that store to ProtoNode.links, found from the merkledag sources) is coupled in the same function with updateEstimatedSize for the same name and the same link (the link being added, resp. the link GetNodeLink returned for the name being removed, the other link argument nil) and with totalLinks +1 / -1; for additions only on the nil-error edge; " +
			"O2 (R-CONST) the protobuf schema facts the arithmetic assumes, read from the generated struct tags: unixfs.pb Data{Type=1 varint, Mode=7 varint, Mtime=8 bytes}, IPFSTimestamp{Seconds=1 varint, Nanos=2 fixed32}, merkledag.pb PBLink{Hash=1 bytes, Name=2 bytes, Tsize=3 varint}, PBNode{Data=1 bytes, Links=2 bytes}, all field numbers < 16, Data_Directory < 128; " +
			"O3 (R-SIB) the estimator dataFieldSerializedSize and the encoder pbDataAddStat agree on presence conditions and value expressions: mode present iff mode != 0 with value files.ModePermsToUnixPerms(mode); mtime present iff !mtime.IsZero() with seconds mtime.Unix(); nanos present iff mtime.Nanosecond() > 0; " +
			"O4 (R-FLOW) updateEstimatedSize adds the size of the link parameter that call sites use for additions and subtracts the one used for removals, each under its non-nil guard, and every size call takes Cid and Size from one and the same link; every store to estimatedSize is 0, dataFieldSerializedSize(d.mode, d.mtime) or estimatedSize +/- a size call; every size call of package io (also in the needsToSwitch* pre-checks) and every ipld.Link literal built from other links takes Cid and Size (and Name) from one and the same link; " +
			"O7 (R-FLOW) in the BasicDirectory pre-checks the term of the entry already stored under the name is computed from that link only and subtracted, the term of the entry being added from its own link/node only and added; " +
			"O5 (R-POST) every store to BasicDirectory.node is followed by computeEstimatedSizeAndTotalLinks before the directory is returned; " +
			"O6 (R-TABLE) the dag-pb encoder (marshalImmutable) emits Hash, Name and Tsize unconditionally for every link, from link.Cid, link.Name, link.Size — the three fields linkSerializedSize is given. " +
			"NOT decided: the arithmetic itself (varintLen, tag and length bytes, the 10-byte negative varint) against the reflective/codec encoders; Tsize >= 2^63 (encoder clamps to 0); the HAMT side.",
		Assume: []string{
			"go-codec-dagpb and google.golang.org/protobuf encode according to the dag-pb / proto2 wire format of the schema in the generated files",
			"fields of BasicDirectory are only reachable from package io (Go visibility)",
		},
		Technique: "coupled mutation with value identity (R-PAIR), struct-tag schema facts (R-CONST), guard/value feature table for encoder vs estimator (R-SIB), operator/parameter provenance (R-FLOW), must-follow (R-POST), encoder key table (R-TABLE)",
		Run:       runC17,
	})
}

func runC17(c *an.Ctx) {
	p := c.P
	const md = "ipld/merkledag"
	fns := p.PkgFuncs(c16IO)
	c16ResolveIO(p)
	fNode := c16IOR.bNode
	fEst := c16IOR.bEst
	fTot := c16IOR.bTot
	fLinks := c16IOR.pnLinks
	upd, comp := c17Accounting(p, fEst)
	if !c.Need(fNode != nil && fEst != nil && fTot != nil && fLinks != nil && upd != nil && comp != nil, "BasicDirectory.{node,estimatedSize,totalLinks}, ProtoNode.links, updateEstimatedSize, computeEstimatedSizeAndTotalLinks") {
		return
	}

	// ---- link mutators of ProtoNode (from the merkledag sources)
	mut := map[*ssa.Function]bool{}
	pm := p.Methods(md, "ProtoNode")
	for _, m := range pm {
		for _, st := range an.FieldStores(m, fLinks) {
			if _, base := an.FieldOf(st.Addr); len(m.Params) > 0 && an.SameObj(base, m.Params[0]) {
				mut[m] = true
			}
		}
	}
	for changed := true; changed; {
		changed = false
		for _, m := range pm {
			if mut[m] {
				continue
			}
			for _, call := range an.AllCalls(m) {
				if g := an.Callee(call).Static; g != nil && mut[g] && len(m.Params) > 0 && an.Recv(call) != nil && an.SameObj(an.Recv(call), m.Params[0]) {
					mut[m] = true
					changed = true
				}
			}
		}
	}
	c.Min("ProtoNode methods that change links", len(mut), 1)

	// ---- O1 (on the operations of each function, helper methods of the same
	// directory summarised at their call sites)
	env := &c17Env{p: p, fNode: fNode, fTot: fTot, upd: upd, comp: comp, mut: mut, basic: p.Named(c16IO, "BasicDirectory"), memo: map[*ssa.Function][]c17Op{}}
	addPos, rmPos := -1, -1
	nAdd, nRm := 0, 0
	for _, f := range fns {
		name := an.FuncName(f)
		ops := env.ops(f, 2)
		pick := func(kind string, dir ssa.Value) []c17Op {
			var out []c17Op
			for _, o := range ops {
				if o.kind == kind && o.dir != nil && an.SameObj(o.dir, dir) {
					out = append(out, o)
				}
			}
			return out
		}
		for _, op := range ops {
			if !op.direct || (op.kind != "add" && op.kind != "remove" && op.kind != "replace") {
				continue
			}
			call, dir := op.call, op.dir
			errNonNil := an.NilEdges(f, an.ErrResult(call), false)
			afterSuccess := func(sites []ssa.Instruction) bool {
				if len(sites) == 0 {
					return false
				}
				blocked := map[ssa.Instruction]bool{}
				for _, s := range sites {
					blocked[s] = true
					if !an.OnNilEdgeOf(f, call, s) {
						return false
					}
				}
				return an.ReachesAnyReturn(f, call, errNonNil, blocked) == nil
			}
			switch op.kind {
			case "add":
				nAdd++
				ok, why := false, "no updateEstimatedSize call for this directory in the function"
				for _, u := range pick("upd", dir) {
					why = "updateEstimatedSize is not called with (same name, nil, same link)"
					pos := -1
					switch {
					case u.old != nil && an.IsNilConst(u.old) && u.new != nil && !an.IsNilConst(u.new):
						pos = 2
					case u.new != nil && an.IsNilConst(u.new) && u.old != nil && !an.IsNilConst(u.old):
						pos = 1
					}
					lk := u.new
					if pos == 1 {
						lk = u.old
					}
					if pos < 0 || u.name == nil || !an.SameObj(u.name, op.name) || !an.SameObj(lk, op.link) {
						continue
					}
					why = "updateEstimatedSize is not executed on every successful path after the link was added (or also when adding failed)"
					if afterSuccess([]ssa.Instruction{u.at}) {
						ok = true
						if addPos >= 0 && addPos != pos {
							ok, why = false, "additions pass the link in different parameter positions"
						}
						addPos = pos
					}
				}
				c.Check(ok, "O1", "R-PAIR", name, c15KeyName(call, "node-mutator")+"=>updateEstimatedSize(name,nil,link)", call.Pos(),
					"link addition coupled with the estimate update for the same name and link on the success path",
					"BasicDirectory.node gets a link added by "+an.Callee(call).Name+" but "+why+": estimatedSize no longer equals the serialized block size, so the sharding decision is taken on a wrong size")
				var inc []ssa.Instruction
				for _, t := range pick("tot+", dir) {
					inc = append(inc, t.at)
				}
				c.Check(afterSuccess(inc), "O1", "R-PAIR", name, c15KeyName(call, "node-mutator")+"=>totalLinks+1", call.Pos(),
					"link addition coupled with totalLinks++ on the success path",
					"a link is added to BasicDirectory.node without totalLinks being incremented exactly on the success path: the MaxLinks decision is taken on a wrong count")
			case "remove":
				nRm++
				ok, why := false, "no updateEstimatedSize call for this directory in the function"
				for _, u := range pick("upd", dir) {
					why = "updateEstimatedSize is not called with (same name, link returned by GetNodeLink(same name), nil)"
					pos := -1
					switch {
					case u.old != nil && an.IsNilConst(u.old) && u.new != nil && !an.IsNilConst(u.new):
						pos = 2
					case u.new != nil && an.IsNilConst(u.new) && u.old != nil && !an.IsNilConst(u.old):
						pos = 1
					}
					lk := u.new
					if pos == 1 {
						lk = u.old
					}
					if pos < 0 || u.name == nil || !an.SameObj(u.name, op.name) {
						continue
					}
					// the link comes from a lookup of the same name on the same node, on its nil edge
					var look *c17Op
					for _, l := range pick("lookup", dir) {
						if l.link != nil && an.SameObj(l.link, lk) && an.SameObj(l.name, op.name) {
							ll := l
							look = &ll
						}
					}
					if look == nil {
						continue
					}
					why = "the update is not tied to the removal on every path (it must precede the removal, after a successful GetNodeLink)"
					before := an.MustPrecede(f, call, []ssa.Instruction{u.at})
					if an.OnNilEdgeOf(f, look.call, u.at) && (before || afterSuccess([]ssa.Instruction{u.at})) {
						ok = true
						rmPos = pos
					}
				}
				c.Check(ok, "O1", "R-PAIR", name, c15KeyName(call, "node-mutator")+"=>updateEstimatedSize(name,link,nil)", call.Pos(),
					"link removal coupled with the estimate update for the same name and the link that is removed",
					"a link is removed from BasicDirectory.node by "+an.Callee(call).Name+" but "+why+": estimatedSize no longer equals the serialized block size")
				var dec []ssa.Instruction
				for _, t := range pick("tot-", dir) {
					dec = append(dec, t.at)
				}
				okDec := len(dec) > 0 && (an.MustPrecede(f, call, dec) || afterSuccess(dec))
				c.Check(okDec, "O1", "R-PAIR", name, c15KeyName(call, "node-mutator")+"=>totalLinks-1", call.Pos(),
					"link removal coupled with totalLinks--",
					"a link is removed from BasicDirectory.node without totalLinks being decremented: the MaxLinks decision is taken on a wrong count")
			default: // wholesale replacement (SetLinks, UnmarshalJSON, ...)
				var comps []ssa.Instruction
				for _, cc := range pick("recompute", dir) {
					comps = append(comps, cc.at)
				}
				okF, _ := an.MustFollow(f, call, comps)
				c.Check(len(comps) > 0 && okF, "O1", "R-PAIR", name, c15KeyName(call, "node-mutator")+"=>recompute", call.Pos(),
					"wholesale link change followed by a recomputation of the estimate",
					"the links of BasicDirectory.node are replaced by "+an.Callee(call).Name+" without computeEstimatedSizeAndTotalLinks afterwards")
			}
		}
	}
	c.Min("O1 link additions on BasicDirectory.node", nAdd, 1)
	c.Min("O1 link removals on BasicDirectory.node", nRm, 1)
	if addPos > 0 && rmPos > 0 {
		c.Check(addPos != rmPos, "O1", "R-PAIR", an.FuncName(upd), "add-and-remove-use-different-link-parameters", upd.Pos(),
			"additions and removals use different link parameters of updateEstimatedSize",
			fmt.Sprintf("additions pass their link as argument %d and removals as argument %d of updateEstimatedSize: the same sign is applied to both", addPos, rmPos))
	}

	// ---- O4: body of updateEstimatedSize and shape of all stores to estimatedSize
	c17UpdateBody(c, upd, fEst, addPos, rmPos)
	c17EstStores(c, fns, fEst)

	// ---- O4 (cont.): every size call and every link literal of package io
	// takes its link data from one link
	c17OneLinkPerTerm(c, fns)

	// ---- O7: the size the BasicDirectory pre-checks compare with the threshold
	// (shared with C16): old-entry terms from the old link, subtracted; new-entry
	// terms from the new link, added
	var basicFns []*ssa.Function
	for _, f := range fns {
		if r := f.Signature.Recv(); r != nil && an.TypeIs(r.Type(), c16IO, "BasicDirectory") {
			basicFns = append(basicFns, f)
		}
	}
	(&c16Ctx{c: c}).terms(basicFns, 1, 1)

	// ---- O5: node replaced => recompute
	nNode := 0
	for _, f := range fns {
		for _, st := range an.FieldStores(f, fNode) {
			_, base := an.FieldOf(st.Addr)
			nNode++
			var comps []ssa.Instruction
			for _, cc := range an.LocalCallers([]*ssa.Function{f}, comp) {
				if an.Recv(cc) != nil && an.SameObj(an.Recv(cc), base) {
					comps = append(comps, cc)
				}
			}
			blocked := map[ssa.Instruction]bool{}
			for _, cc := range comps {
				blocked[cc] = true
			}
			ok := len(comps) > 0
			for _, rs := range an.ResultSites(f, 0) {
				if an.IsNilConst(rs.Val) {
					continue // error return: the directory is not handed out
				}
				if an.Reaches(f, st, rs.At, nil, blocked) {
					ok = false
				}
			}
			if f.Signature.Results().Len() == 0 {
				okF, _ := an.MustFollow(f, st, comps)
				ok = ok && okF
			}
			c.Check(ok, "O5", "R-POST", an.FuncName(f), "node-store=>computeEstimatedSizeAndTotalLinks", st.Pos(),
				"BasicDirectory.node assigned and the estimate (re)computed before the directory is handed out",
				"BasicDirectory.node is assigned without computeEstimatedSizeAndTotalLinks on some path to a successful return: estimatedSize/totalLinks describe a different node")
		}
	}
	c.Min("O5 stores to BasicDirectory.node", nNode, 1)

	// O5b: a directory built around an existing node takes the estimator's other
	// inputs (mode and mtime) from it as well
	storesField := func(f *ssa.Function, fld *types.Var, base ssa.Value) bool {
		for _, g := range an.WithClosures(f) {
			for _, st := range an.FieldStores(g, fld) {
				if _, b := an.FieldOf(st.Addr); b != nil && (an.SameObj(b, base) || g != f) {
					return true
				}
			}
		}
		for _, call := range an.AllCalls(f) {
			g := an.Callee(call).Static
			if g == nil || g.Blocks == nil || g.Pkg != f.Pkg {
				continue
			}
			passes := false
			for _, a := range call.Common().Args {
				if an.SameObj(a, base) {
					passes = true
				}
			}
			if passes && len(an.FieldStores(g, fld)) > 0 {
				return true
			}
		}
		return false
	}
	if c16IOR.bMode != nil && c16IOR.bMtime != nil {
		for _, f := range fns {
			for _, st := range an.FieldStores(f, fNode) {
				_, base := an.FieldOf(st.Addr)
				fromOutside := false
				for _, r := range an.Roots(st.Val, nil) {
					if _, isPar := r.(*ssa.Parameter); isPar {
						fromOutside = true
					}
				}
				if !fromOutside || base == nil {
					continue
				}
				c.Check(storesField(f, c16IOR.bMode, base) && storesField(f, c16IOR.bMtime, base), "O5", "R-SIB", an.FuncName(f), "existing-node=>mode-and-mtime-taken-from-it", st.Pos(),
					"mode and mtime are set together with an existing node",
					"a BasicDirectory is built around an existing node without setting both mode and mtime from it: dataFieldSerializedSize(d.mode, d.mtime) then describes another data field than the node's, so the block-size estimate is off for nodes that carry mode/mtime")
			}
		}
	}

	// O5c: changing the estimation mode of an existing BasicDirectory recomputes
	// the estimate (except where the mode is known to be unchanged)
	if set := p.Func(c16IO, "BasicDirectory", "SetSizeEstimationMode"); set != nil {
		var fMode *types.Var
		an.Instrs(set, func(in ssa.Instruction) {
			if st, ok := in.(*ssa.Store); ok {
				if fl, b := an.FieldOf(st.Addr); fl != nil && b != nil && an.SameObj(b, set.Params[0]) && len(set.Params) == 2 {
					t := fl.Type()
					if pt, isP := t.(*types.Pointer); isP {
						t = pt.Elem()
					}
					if types.Identical(t, set.Params[1].Type()) {
						fMode = fl
					}
				}
			}
		})
		nSet := 0
		for _, f := range fns {
			if fMode == nil || f.Parent() != nil || f.Signature.Recv() == nil || !an.TypeIs(f.Signature.Recv().Type(), c16IO, "BasicDirectory") {
				continue
			}
			for _, st := range an.FieldStores(f, fMode) {
				_, base := an.FieldOf(st.Addr)
				if base == nil || !an.SameObj(base, f.Params[0]) {
					continue
				}
				nSet++
				blocked := map[ssa.Instruction]bool{}
				for _, cc := range an.LocalCallers([]*ssa.Function{f}, comp) {
					if an.Recv(cc) != nil && an.SameObj(an.Recv(cc), base) {
						blocked[cc] = true
					}
				}
				// edges on which the new mode equals the previous one
				var olds []ssa.Value
				for _, call := range an.AllCalls(f) {
					if an.Callee(call).Name == "GetSizeEstimationMode" {
						if v := an.CallValue(call); v != nil {
							olds = append(olds, v)
						}
					}
				}
				al := an.Aliases(olds...)
				same := an.CmpEdges(f, func(op token.Token, a, b ssa.Value) (bool, bool) {
					isPar := func(v ssa.Value) bool {
						for _, r := range an.Roots(v, nil) {
							if par, ok := r.(*ssa.Parameter); ok && par != f.Params[0] {
								return true
							}
						}
						return false
					}
					pa, pb := isPar(a), isPar(b)
					if !((pa && al[b]) || (pb && al[a])) {
						return false, false
					}
					switch op {
					case token.EQL:
						return true, false
					case token.NEQ:
						return false, true
					}
					return false, false
				})
				// paths on which the mode is known unchanged are cut; every other path recomputes
				ok := len(blocked) > 0
				for _, r := range an.Returns(f) {
					if f.Recover != nil && r.Block() == f.Recover {
						continue
					}
					if ok && an.Reaches(f, st, r, same, blocked) {
						ok = false
					}
				}
				c.Check(ok, "O5", "R-POST", an.FuncName(f), "mode-store=>recompute-unless-unchanged", st.Pos(),
					"estimation mode changed and the estimate recomputed",
					"the size estimation mode of an existing BasicDirectory is changed without recomputing estimatedSize (other than where the mode is known to be unchanged): the estimate stays in the units of the old mode, so in block mode it is not the serialized size")
			}
		}
		c.Min("O5 stores of the estimation mode in BasicDirectory methods", nSet, 1)
	}

	// ---- O2: schema facts
	c17Schema(c)

	// ---- O3: encoder vs estimator
	c17EncoderVsEstimator(c)

	// ---- O6: dag-pb link encoder emits the three fields unconditionally
	c17LinkEncoder(c)
}

// c17SizeArgsSameLink: Cid and Size (and Name, if taken from a link) arguments
// of a size call come from one link object.
func c17SizeArgsSameLink(call ssa.CallInstruction) (bool, string, ssa.Value) {
	var base ssa.Value
	for _, a := range call.Common().Args {
		for _, l := range an.Deps(a, nil) {
			fl, b := an.LoadedField(l)
			if fl == nil || !an.TypeIs(b.Type(), "github.com/ipfs/go-ipld-format", "Link") {
				continue
			}
			if base == nil {
				base = b
			} else if !an.SameObj(base, b) {
				return false, "arguments are taken from two different links (" + an.PathOf(base) + " and " + an.PathOf(b) + ")", base
			}
		}
	}
	return true, "", base
}

// c17SizeTerm: v is the size of one link: a direct call of a link size function,
// or a call of a function value / package-local helper every target of which
// returns such a call on every path (a per-mode size closure, linkSizeFor).
// base is the link the size is computed from, in terms of the values at v; same
// is false (with why) if some target mixes fields of different links.
func c17SizeTerm(v ssa.Value) (isTerm, same bool, why string, base ssa.Value) {
	call, ok := v.(*ssa.Call)
	if !ok || call.Call.IsInvoke() {
		return false, false, "", nil
	}
	if k := c16SizeKind(call); k == "block" || k == "links" {
		same, why, base = c17SizeArgsSameLink(call)
		return true, same, why, base
	}
	var targets []*ssa.Function
	binding := map[*ssa.FreeVar]ssa.Value{}
	if g := call.Call.StaticCallee(); g != nil {
		targets = []*ssa.Function{g}
	}
	if _, isF := call.Call.Value.(*ssa.Function); !isF || len(targets) == 0 {
		mks, fns, ok := c16FuncTargets(call.Call.Value)
		if !ok {
			return false, false, "", nil
		}
		targets = fns
		for _, mk := range mks {
			g := mk.Fn.(*ssa.Function)
			for i, fv := range g.FreeVars {
				if i < len(mk.Bindings) {
					binding[fv] = mk.Bindings[i]
				}
			}
		}
	}
	same = true
	for _, g := range targets {
		if g.Blocks == nil || g.Pkg == nil || g.Pkg.Pkg.Path() != an.Mod+"/"+c16IO || g.Signature.Results().Len() != 1 {
			return false, false, "", nil
		}
		rs := an.ResultSites(g, 0)
		if len(rs) == 0 {
			return false, false, "", nil
		}
		for _, r := range rs {
			inner, ok := r.Val.(*ssa.Call)
			if !ok || (c16SizeKind(inner) != "block" && c16SizeKind(inner) != "links") {
				return false, false, "", nil
			}
			s1, w1, b1 := c17SizeArgsSameLink(inner)
			if !s1 {
				same, why = false, w1
				continue
			}
			// the link in terms of the caller's values
			var outer ssa.Value
			switch b := b1.(type) {
			case nil:
				continue
			case *ssa.Parameter:
				outer = an.ArgAt(call, an.ParamIndex(g, b))
			case *ssa.FreeVar:
				outer = binding[b]
			}
			if outer == nil {
				same, why = false, "the size function selected for the mode computes the size of a link that is not the one it is given"
				continue
			}
			if base == nil {
				base = outer
			} else if !an.SameObj(base, outer) {
				same, why = false, "the size functions selected for the modes use different links ("+an.PathOf(base)+" and "+an.PathOf(outer)+")"
			}
		}
	}
	return true, same, why, base
}

func c17UpdateBody(c *an.Ctx, upd *ssa.Function, fEst *types.Var, addPos, rmPos int) {
	name := an.FuncName(upd)
	n := 0
	for _, st := range an.FieldStores(upd, fEst) {
		b, ok := st.Val.(*ssa.BinOp)
		if !ok || (b.Op != token.ADD && b.Op != token.SUB) {
			continue
		}
		isTerm, same, why, base := c17SizeTerm(b.Y)
		if !isTerm {
			continue
		}
		n++
		okAll := same
		if same {
			par, isPar := base.(*ssa.Parameter)
			switch {
			case base == nil || !isPar:
				okAll, why = false, "the size is not computed from one of the link parameters"
			default:
				idx := an.ParamIndex(upd, par)
				want := token.ILLEGAL
				if idx == addPos {
					want = token.ADD
				} else if idx == rmPos {
					want = token.SUB
				}
				if addPos <= 0 || rmPos <= 0 || addPos == rmPos {
					want = b.Op // roles of the parameters unknown (reported under O1)
				}
				if want != b.Op {
					okAll, why = false, fmt.Sprintf("the size of parameter %s is applied with '%s' although the call sites pass the %s link there", par.Name(), b.Op, map[bool]string{true: "added", false: "removed"}[idx == addPos])
				} else if !an.GuardedBy(upd, nil, st, an.NilEdges(upd, []ssa.Value{par}, false)) {
					okAll, why = false, "the link parameter "+par.Name()+" is used without its nil test"
				}
			}
		}
		c.Check(okAll, "O4", "R-FLOW", name, "estimatedSize"+b.Op.String()+"=size(link)", st.Pos(),
			"estimate adjusted by the size of the right link with the right sign",
			"updateEstimatedSize adjusts estimatedSize wrongly: "+why+" — the tracked estimate drifts from the serialized size after an add/replace/remove")
	}
	c.Min("O4 adjustments of estimatedSize in updateEstimatedSize", n, 1)
}

func c17EstStores(c *an.Ctx, fns []*ssa.Function, fEst *types.Var) {
	n := 0
	for _, f := range fns {
		for _, st := range an.FieldStores(f, fEst) {
			n++
			_, base := an.FieldOf(st.Addr)
			ok, why := false, ""
			switch v := st.Val.(type) {
			case *ssa.Const:
				ok = v.Value != nil && v.Value.String() == "0"
				why = "constant other than 0"
			case *ssa.Call:
				if v.Call.StaticCallee() != nil && c16SizeKind(v) == "block-data" {
					// dataFieldSerializedSize(d.mode, d.mtime) of the same directory
					ok = true
					for i, want := range []*types.Var{c16IOR.bMode, c16IOR.bMtime} {
						fl, b := an.LoadedField(v.Call.Args[i])
						if fl == nil || fl != want || !an.SameObj(b, base) {
							ok, why = false, "dataFieldSerializedSize is not given this directory's mode and mtime"
						}
					}
				} else {
					why = "assigned from " + an.Callee(v).String()
				}
			case *ssa.BinOp:
				fl, b := an.LoadedField(v.X)
				isTerm, same, w, _ := c17SizeTerm(v.Y)
				ok = (v.Op == token.ADD || v.Op == token.SUB) && fl == fEst && an.SameObj(b, base) && isTerm
				why = "not of the form estimatedSize +/- <size of one link>"
				if ok && !same {
					ok, why = false, w
				}
			default:
				why = "unrecognised value"
			}
			c.Check(ok, "O4", "R-FLOW", an.FuncName(f), "estimatedSize-store-shape", st.Pos(),
				"estimatedSize is reset to 0, set to the data-field size, or adjusted by one link's size",
				"estimatedSize is written with a value that is neither 0, nor dataFieldSerializedSize(d.mode, d.mtime), nor estimatedSize +/- the size of one link ("+why+"): the estimate stops being the serialized size")
		}
	}
	c.Min("O4 stores to estimatedSize", n, 1)
}

type c17Tag struct {
	wire string
	num  int
}

func c17Tags(n *types.Named) map[string]c17Tag {
	out := map[string]c17Tag{}
	if n == nil {
		return out
	}
	st, ok := n.Underlying().(*types.Struct)
	if !ok {
		return out
	}
	for i := 0; i < st.NumFields(); i++ {
		tag := reflect.StructTag(st.Tag(i)).Get("protobuf")
		if tag == "" {
			continue
		}
		parts := strings.Split(tag, ",")
		if len(parts) < 2 {
			continue
		}
		num, err := strconv.Atoi(parts[1])
		if err != nil {
			continue
		}
		out[st.Field(i).Name()] = c17Tag{parts[0], num}
	}
	return out
}

func c17Schema(c *an.Ctx) {
	p := c.P
	type want struct {
		pkg, typ, field, wire string
		num                   int
	}
	table := []want{
		{"ipld/unixfs/pb", "Data", "Type", "varint", 1},
		{"ipld/unixfs/pb", "Data", "Mode", "varint", 7},
		{"ipld/unixfs/pb", "Data", "Mtime", "bytes", 8},
		{"ipld/unixfs/pb", "IPFSTimestamp", "Seconds", "varint", 1},
		{"ipld/unixfs/pb", "IPFSTimestamp", "Nanos", "fixed32", 2},
		{"ipld/merkledag/pb", "PBLink", "Hash", "bytes", 1},
		{"ipld/merkledag/pb", "PBLink", "Name", "bytes", 2},
		{"ipld/merkledag/pb", "PBLink", "Tsize", "varint", 3},
		{"ipld/merkledag/pb", "PBNode", "Data", "bytes", 1},
		{"ipld/merkledag/pb", "PBNode", "Links", "bytes", 2},
	}
	for _, w := range table {
		n := p.Named(w.pkg, w.typ)
		if !c.Need(n != nil, w.pkg+"."+w.typ) {
			continue
		}
		t, ok := c17Tags(n)[w.field]
		pos := n.Obj().Pos()
		c.Check(ok && t.wire == w.wire && t.num == w.num && t.num < 16, "O2", "R-CONST", w.pkg+"."+w.typ, fmt.Sprintf("%s=%d,%s", w.field, w.num, w.wire), pos,
			fmt.Sprintf("%s.%s is field %d (%s), one-byte tag", w.typ, w.field, w.num, w.wire),
			fmt.Sprintf("%s.%s is declared as field %d wire type %q (found=%v) but the size arithmetic in ipld/unixfs/io assumes field %d, %s, one-byte tag: the computed block size is off", w.typ, w.field, t.num, t.wire, ok, w.num, w.wire))
	}
	// the Type value is one byte
	if pk := p.Pkg("ipld/unixfs/pb"); pk != nil {
		if k, ok := pk.Types.Scope().Lookup("Data_Directory").(*types.Const); ok {
			v, exact := constant.Int64Val(k.Val())
			c.Check(exact && v >= 0 && v < 128, "O2", "R-CONST", "ipld/unixfs/pb", "Data_Directory<128", k.Pos(),
				"Data_Directory encodes as a one-byte varint", "Data_Directory no longer fits a one-byte varint: the constant 2 for the Type field in dataFieldSerializedSize is wrong")
		} else {
			c.Problem("constant pb.Data_Directory not found")
		}
	}
}

// c17EncoderVsEstimator compares the guard/value features of pbDataAddStat
// (encoder) and dataFieldSerializedSize (estimator).
func c17EncoderVsEstimator(c *an.Ctx) {
	p := c.P
	est := p.Func(c16IO, "", "dataFieldSerializedSize")
	if est == nil {
		// by role: the package-level (os.FileMode, time.Time) int function
		for _, f := range p.PkgFuncs(c16IO) {
			if f.Parent() == nil && f.Signature.Recv() == nil && f.Signature.Params().Len() == 2 && f.Signature.Results().Len() == 1 &&
				an.TypeIs(f.Signature.Params().At(0).Type(), "io/fs", "FileMode") && an.TypeIs(f.Signature.Params().At(1).Type(), "time", "Time") {
				if b, ok := f.Signature.Results().At(0).Type().Underlying().(*types.Basic); ok && b.Kind() == types.Int {
					est = f
				}
			}
		}
	}
	fMode := p.Field("ipld/unixfs/pb", "Data", "Mode")
	fMtime := p.Field("ipld/unixfs/pb", "Data", "Mtime")
	fNanos := p.Field("ipld/unixfs/pb", "IPFSTimestamp", "Nanos")
	fSecs := p.Field("ipld/unixfs/pb", "IPFSTimestamp", "Seconds")
	if !c.Need(est != nil && fMode != nil && fMtime != nil && fNanos != nil && fSecs != nil, "dataFieldSerializedSize, pb.Data.{Mode,Mtime}, pb.IPFSTimestamp.{Seconds,Nanos}") {
		return
	}
	// encoder: the function of package unixfs that takes (mode, mtime) and stores Data.Mode and Data.Mtime
	var enc *ssa.Function
	for _, f := range p.PkgFuncs("ipld/unixfs") {
		if len(an.FieldStores(f, fMode)) > 0 && len(an.FieldStores(f, fMtime)) > 0 && f.Signature.Recv() == nil {
			if enc != nil {
				// several encoders: take the one the directory constructor path uses (FolderPBDataWithStat)
				if len(an.LocalCallers([]*ssa.Function{p.Func("ipld/unixfs", "", "FolderPBDataWithStat")}, f)) == 0 {
					continue
				}
			}
			enc = f
		}
	}
	if !c.Need(enc != nil, "stat encoder in ipld/unixfs (function storing pb.Data.Mode and pb.Data.Mtime)") {
		return
	}
	type side struct {
		f   *ssa.Function
		cls c17StatCls
	}
	sides := []side{{enc, c17StatClasses(enc, nil)}, {est, c17StatClasses(est, nil)}}
	if !c.Need(sides[0].cls.mode != nil && sides[0].cls.mtime != nil && sides[1].cls.mode != nil && sides[1].cls.mtime != nil, "(mode os.FileMode, mtime time.Time) parameters of encoder and estimator") {
		return
	}
	// the functions that take (mode, mtime) themselves and hand them to the
	// encoder must hand over their own, unchanged values
	for _, caller := range p.PkgFuncs("ipld/unixfs") {
		ccl := c17StatClasses(caller, nil)
		if caller == enc || caller.Parent() != nil || ccl.mode == nil || ccl.mtime == nil {
			continue
		}
		// only the directory data-field builders: functions of nothing but mode and mtime
		if n := caller.Signature.Params().Len(); caller.Signature.Recv() != nil || !((ccl.statPar == nil && n == 2) || (ccl.statPar != nil && n == 1)) {
			continue
		}
		for _, call := range an.LocalCallers([]*ssa.Function{caller}, enc) {
			is := func(pred func(ssa.Value) bool, v ssa.Value) bool {
				if v == nil {
					return false
				}
				if pred(v) {
					return true
				}
				rs := an.Roots(v, nil)
				for _, r := range rs {
					if !pred(r) {
						return false
					}
				}
				return len(rs) > 0
			}
			ok := true
			ecl := sides[0].cls
			if ecl.statPar == nil {
				ok = is(ccl.mode, an.ArgAt(call, an.ParamIndex(enc, ecl.modePar))) && is(ccl.mtime, an.ArgAt(call, an.ParamIndex(enc, ecl.mtimePar)))
			} else if a := an.ArgAt(call, an.ParamIndex(enc, ecl.statPar)); a == nil || ccl.whole == nil || !ccl.whole(a) {
				// a struct literal assembled for the call
				ok = false
				if ld, isLd := a.(*ssa.UnOp); isLd && ld.Op == token.MUL {
					if tmp, isAl := ld.X.(*ssa.Alloc); isAl && tmp.Referrers() != nil {
						got := map[int][]ssa.Value{}
						for _, r := range *tmp.Referrers() {
							if fa, isFA := r.(*ssa.FieldAddr); isFA && fa.Referrers() != nil {
								for _, rr := range *fa.Referrers() {
									if st, isSt := rr.(*ssa.Store); isSt && st.Addr == ssa.Value(fa) {
										got[fa.Field] = append(got[fa.Field], st.Val)
									}
								}
							}
						}
						ok = len(got[ecl.im]) == 1 && len(got[ecl.it]) == 1 && is(ccl.mode, got[ecl.im][0]) && is(ccl.mtime, got[ecl.it][0])
					}
				}
			}
			c.Check(ok, "O3", "R-SIB", an.FuncName(caller), "stat-encoder<=own-mode-and-mtime", call.Pos(),
				"the stat encoder is handed the function's own mode and mtime",
				an.FuncName(caller)+" does not hand its own, unchanged mode and mtime to the stat encoder: the encoded data field is that of another mode/mtime than the one the directory estimates with dataFieldSerializedSize(mode, mtime)")
		}
	}
	dependsOn := func(v ssa.Value, pred func(ssa.Value) bool) bool {
		for _, l := range an.Deps(v, &an.DepOpts{Stop: pred}) {
			if pred(l) {
				return true
			}
		}
		return false
	}
	inPkg := func(g *ssa.Function, top *ssa.Function) bool {
		return g != nil && g.Blocks != nil && g.Pkg != nil && top.Pkg != nil && g.Pkg == top.Pkg && g != top
	}
	for i, s := range sides {
		role := "encoder " + an.FuncName(s.f)
		if i == 1 {
			role = "estimator " + an.FuncName(s.f)
		}
		// analysis units: the function itself and the helpers of its package
		// that it hands mode / mtime to (sites in a helper are guarded by the
		// guards inside the helper or by those of its call site)
		type unit struct {
			f     *ssa.Function
			mode  func(ssa.Value) bool // is this value the mode handed to the top function (nil: not available here)
			mtime func(ssa.Value) bool
			via   ssa.CallInstruction // call site in the top function (nil for the top unit)
		}
		units := []unit{{s.f, s.cls.mode, s.cls.mtime, nil}}
		for _, call := range an.AllCalls(s.f) {
			g := an.Callee(call).Static
			if !inPkg(g, s.f) {
				continue
			}
			off := 0
			if g.Signature.Recv() != nil {
				off = 1
			}
			bind := map[*ssa.Parameter]string{}
			for k, a := range an.Args(call) {
				if k+off >= len(g.Params) {
					continue
				}
				switch {
				case s.cls.mode(a):
					bind[g.Params[k+off]] = "mode"
				case s.cls.mtime(a):
					bind[g.Params[k+off]] = "mtime"
				case s.cls.whole != nil && s.cls.whole(a):
					bind[g.Params[k+off]] = "stat"
				}
			}
			if len(bind) == 0 {
				continue
			}
			cl := c17StatClasses(g, bind)
			if cl.mode != nil || cl.mtime != nil {
				units = append(units, unit{f: g, mode: cl.mode, mtime: cl.mtime, via: call})
			}
		}
		type site struct {
			u  unit
			in ssa.Instruction
		}
		var modeSites, secSites, nanoSites []site
		var modeVals, secVals []struct {
			u unit
			v ssa.Value
		}
		edgesOf := map[string]func(u unit) an.EdgeSet{}
		edgesOf["mode"] = func(u unit) an.EdgeSet {
			if u.mode == nil {
				return an.EdgeSet{}
			}
			return an.CmpEdges(u.f, func(op token.Token, a, b ssa.Value) (bool, bool) {
				var other ssa.Value
				if u.mode(a) {
					other = b
				} else if u.mode(b) {
					other = a
				} else {
					return false, false
				}
				if k, ok := an.ConstOf(other); !ok || k.String() != "0" {
					return false, false
				}
				switch op {
				case token.NEQ, token.GTR:
					return true, false
				case token.EQL:
					return false, true
				}
				return false, false
			})
		}
		edgesOf["mtime"] = func(u unit) an.EdgeSet {
			if u.mtime == nil {
				return an.EdgeSet{}
			}
			return an.CallEdges(u.f, an.M("time", "Time", "IsZero"), -1, u.mtime, false)
		}
		isCallOn := func(u unit, name string) func(ssa.Value) bool {
			return func(v ssa.Value) bool {
				call, ok := an.IsCallTo(v, an.M("time", "Time", name))
				return ok && u.mtime != nil && u.mtime(an.Recv(call))
			}
		}
		edgesOf["nanos"] = func(u unit) an.EdgeSet {
			return an.CmpEdges(u.f, func(op token.Token, a, b ssa.Value) (bool, bool) {
				x, y := a, b
				if _, ok := an.ConstOf(x); ok {
					x, y, op = b, a, an.SwapCmp(op)
				}
				k, ok := an.ConstOf(y)
				if !ok || k.String() != "0" || !dependsOn(x, isCallOn(u, "Nanosecond")) {
					return false, false
				}
				switch op {
				case token.GTR, token.NEQ:
					return true, false
				case token.LEQ, token.EQL:
					return false, true
				}
				return false, false
			})
		}
		isPerms := func(u unit) func(ssa.Value) bool {
			return func(v ssa.Value) bool {
				call, ok := an.IsCallTo(v, an.M("files", "", "ModePermsToUnixPerms"))
				return ok && u.mode != nil && len(call.Call.Args) == 1 && u.mode(call.Call.Args[0])
			}
		}
		for _, u := range units {
			f := u.f
			if i == 0 {
				for _, st := range an.FieldStores(f, fMode) {
					modeSites = append(modeSites, site{u, st})
					modeVals = append(modeVals, struct {
						u unit
						v ssa.Value
					}{u, st.Val})
				}
				for _, st := range an.FieldStores(f, fSecs) {
					secSites = append(secSites, site{u, st})
					secVals = append(secVals, struct {
						u unit
						v ssa.Value
					}{u, st.Val})
				}
				for _, st := range an.FieldStores(f, fMtime) {
					secSites = append(secSites, site{u, st})
				}
				for _, st := range an.FieldStores(f, fNanos) {
					nanoSites = append(nanoSites, site{u, st})
				}
			} else {
				for _, call := range an.AllCalls(f) {
					// the varint length function: package-level (uint64) int
					if g := an.Callee(call).Static; g == nil || g.Pkg != s.f.Pkg || g.Signature.Recv() != nil || g.Signature.Params().Len() != 1 || !c17IsUint64(g.Signature.Params().At(0).Type()) {
						continue
					}
					a := call.Common().Args[0]
					// direct operands only (through conversions): the varintLen of
					// the accumulated sizes also depends on these values
					direct := func(pred func(ssa.Value) bool) bool {
						for _, r := range an.Roots(a, nil) {
							if pred(r) {
								return true
							}
						}
						return false
					}
					switch {
					case direct(isPerms(u)) || (u.mode != nil && direct(u.mode)):
						modeSites = append(modeSites, site{u, call})
						modeVals = append(modeVals, struct {
							u unit
							v ssa.Value
						}{u, a})
					case direct(isCallOn(u, "Unix")):
						secSites = append(secSites, site{u, call})
						secVals = append(secVals, struct {
							u unit
							v ssa.Value
						}{u, a})
					}
				}
				// the nanos contribution: a block entered on the nanos>0 edge exists
				for e := range edgesOf["nanos"](u) {
					if len(e.To().Instrs) > 0 {
						nanoSites = append(nanoSites, site{u, e.To().Instrs[0]})
					}
				}
			}
		}
		if i == 1 {
			// the estimator's own case split on the seconds and its nanos term
			for _, u := range units {
				rootedAt := func(v ssa.Value, name string) bool {
					for _, r := range an.Roots(v, nil) {
						if isCallOn(u, name)(r) {
							return true
						}
					}
					return false
				}
				an.Instrs(u.f, func(in ssa.Instruction) {
					switch in := in.(type) {
					case *ssa.BinOp:
						op, a, b := in.Op, in.X, in.Y
						if _, isK := an.ConstOf(a); isK {
							op, a, b = an.SwapCmp(op), b, a
						}
						k, isK := an.ConstOf(b)
						if !isK || k.String() != "0" || !rootedAt(a, "Unix") {
							return
						}
						switch op {
						case token.GEQ, token.LSS, token.GTR, token.LEQ, token.EQL, token.NEQ:
							c.Check(op == token.GEQ || op == token.LSS, "O3", "R-CMP", an.FuncName(s.f), "seconds-sign-split-at-0", in.Pos(),
								"seconds are split into 'secs >= 0' (varint of the value) and 'secs < 0' (10 bytes)",
								role+": mtime.Unix() is compared with 0 as 'secs "+op.String()+" 0': protobuf encodes exactly the negative int64 values as 10-byte varints, so the seconds term of the estimate is wrong for the value(s) on the wrong side of the split (e.g. the Unix epoch with nanoseconds)")
						}
					case ssa.CallInstruction:
						g := an.Callee(in).Static
						if g == nil || g.Pkg != s.f.Pkg || g.Signature.Recv() != nil || g.Signature.Params().Len() != 1 || !c17IsUint64(g.Signature.Params().At(0).Type()) {
							return
						}
						if rootedAt(in.Common().Args[0], "Nanosecond") {
							c.Check(false, "O3", "R-SIB", an.FuncName(s.f), "nanos-term-is-fixed-width", in.Pos(), "",
								role+": the nanos term is computed as a varint length of mtime.Nanosecond(), but IPFSTimestamp.Nanos is a fixed32 field (tag + 4 bytes, see O2): the estimate differs from the serialized size for most sub-second times")
						}
					}
				})
			}
		}
		top := units[0]
		chk := func(feature, kind string, sites []site, okDetail, bad string) {
			ok := len(sites) > 0
			for _, st := range sites {
				inUnit := edgesOf[kind](st.u)
				g := len(inUnit) > 0 && an.GuardedBy(st.u.f, nil, st.in, inUnit)
				if !g && st.u.via != nil {
					atTop := edgesOf[kind](top)
					g = len(atTop) > 0 && an.GuardedBy(top.f, nil, st.u.via, atTop)
				}
				if !g {
					ok = false
				}
			}
			pos := s.f.Pos()
			if len(sites) > 0 {
				pos = sites[0].in.Pos()
			}
			c.Check(ok, "O3", "R-SIB", an.FuncName(s.f), feature, pos, okDetail, role+": "+bad+" — encoder and estimator disagree on when the field is present, so the estimated data-field size differs from the serialized one for some mode/mtime")
		}
		chk("mode-present-iff-mode!=0", "mode", modeSites, "mode handled exactly where mode != 0", "the mode field is not handled exactly under the condition mode != 0")
		chk("mtime-present-iff-!IsZero", "mtime", secSites, "mtime handled exactly where !mtime.IsZero()", "the mtime field is not handled exactly under the condition !mtime.IsZero()")
		chk("nanos-present-iff-Nanosecond>0", "nanos", nanoSites, "nanos handled exactly where mtime.Nanosecond() > 0", "the nanos field is not handled under the condition mtime.Nanosecond() > 0")
		okV := len(modeVals) > 0
		for _, mv := range modeVals {
			if !dependsOn(mv.v, isPerms(mv.u)) {
				okV = false
			}
		}
		c.Check(okV, "O3", "R-SIB", an.FuncName(s.f), "mode-value=ModePermsToUnixPerms(mode)", s.f.Pos(), "mode value is files.ModePermsToUnixPerms(mode)",
			role+": the mode value is not files.ModePermsToUnixPerms(mode): the varint length of the encoded and of the estimated mode can differ")
		okS := len(secVals) > 0
		for _, sv := range secVals {
			if !dependsOn(sv.v, isCallOn(sv.u, "Unix")) {
				okS = false
			}
		}
		c.Check(okS, "O3", "R-SIB", an.FuncName(s.f), "seconds-value=mtime.Unix()", s.f.Pos(), "seconds value is mtime.Unix()",
			role+": the seconds value is not mtime.Unix(): the varint length of the encoded and of the estimated seconds can differ")
	}
}

// c17StatCls recognises, inside one function, the values that are the mode /
// the mtime the function was handed: the parameters themselves, or the fields
// of a struct parameter that carries both (read through the parameter's
// never-modified local copy). whole recognises the struct value itself.
type c17StatCls struct {
	mode, mtime, whole func(ssa.Value) bool
	// how the values arrive: as two parameters, or in fields im / it of statPar
	modePar, mtimePar, statPar *ssa.Parameter
	im, it                     int
}

// c17StatClasses: bind == nil classifies f's parameters by type (top function);
// otherwise bind says which parameters carry "mode", "mtime" or the "stat" struct.
func c17StatClasses(f *ssa.Function, bind map[*ssa.Parameter]string) c17StatCls {
	isT := func(t types.Type, pkg, name string) bool {
		n, ok := types.Unalias(t).(*types.Named)
		return ok && n.Obj().Name() == name && n.Obj().Pkg() != nil && n.Obj().Pkg().Path() == pkg
	}
	// the struct carrying exactly one FileMode and one Time field
	statIdx := func(t types.Type) (im, it int, ok bool) {
		st, isS := t.Underlying().(*types.Struct)
		if !isS {
			return 0, 0, false
		}
		im, it = -1, -1
		for i := 0; i < st.NumFields(); i++ {
			switch ft := st.Field(i).Type(); {
			case isT(ft, "io/fs", "FileMode"):
				if im >= 0 {
					return 0, 0, false
				}
				im = i
			case isT(ft, "time", "Time"):
				if it >= 0 {
					return 0, 0, false
				}
				it = i
			}
		}
		return im, it, im >= 0 && it >= 0
	}
	var modes, mtimes []func(ssa.Value) bool
	var wholes []func(ssa.Value) bool
	var out c17StatCls
	bad := false
	for _, par := range f.Params {
		par := par
		kind := ""
		if bind != nil {
			kind = bind[par]
		} else {
			switch {
			case isT(par.Type(), "io/fs", "FileMode"):
				kind = "mode"
			case isT(par.Type(), "time", "Time"):
				kind = "mtime"
			default:
				if _, _, ok := statIdx(par.Type()); ok {
					kind = "stat"
				}
			}
		}
		switch kind {
		case "mode":
			modes = append(modes, func(v ssa.Value) bool { return v == ssa.Value(par) })
			out.modePar = par
		case "mtime":
			mtimes = append(mtimes, func(v ssa.Value) bool { return v == ssa.Value(par) })
			out.mtimePar = par
		case "stat":
			im, it, ok := statIdx(par.Type())
			if !ok {
				bad = true
				continue
			}
			// the local copy of the parameter; it must never be written again
			// nor have its address taken, so that every read of a field yields
			// the value the caller passed
			var cell *ssa.Alloc
			if par.Referrers() != nil {
				for _, r := range *par.Referrers() {
					switch r := r.(type) {
					case *ssa.Store:
						if al, isAl := r.Addr.(*ssa.Alloc); isAl && r.Val == ssa.Value(par) && cell == nil {
							cell = al
						} else {
							bad = true
						}
					case *ssa.Field, *ssa.DebugRef, ssa.CallInstruction:
					default:
						bad = true
					}
				}
			}
			if cell != nil && cell.Referrers() != nil {
				for _, r := range *cell.Referrers() {
					switch r := r.(type) {
					case *ssa.Store:
						if r.Val != ssa.Value(par) || r.Addr != ssa.Value(cell) {
							bad = true
						}
					case *ssa.UnOp:
						if r.Op != token.MUL {
							bad = true
						}
					case *ssa.DebugRef:
					case *ssa.FieldAddr:
						if r.Referrers() != nil {
							for _, rr := range *r.Referrers() {
								if ld, isLd := rr.(*ssa.UnOp); !isLd || ld.Op != token.MUL {
									if _, isDbg := rr.(*ssa.DebugRef); !isDbg {
										bad = true
									}
								}
							}
						}
					default:
						bad = true
					}
				}
			}
			whole := func(v ssa.Value) bool {
				if v == ssa.Value(par) {
					return true
				}
				ld, ok := v.(*ssa.UnOp)
				return ok && ld.Op == token.MUL && cell != nil && ld.X == ssa.Value(cell)
			}
			field := func(idx int) func(ssa.Value) bool {
				return func(v ssa.Value) bool {
					switch v := v.(type) {
					case *ssa.Field:
						return v.Field == idx && whole(v.X)
					case *ssa.UnOp:
						fa, ok := v.X.(*ssa.FieldAddr)
						return ok && v.Op == token.MUL && cell != nil && fa.X == ssa.Value(cell) && fa.Field == idx
					}
					return false
				}
			}
			modes = append(modes, field(im))
			mtimes = append(mtimes, field(it))
			wholes = append(wholes, whole)
			out.statPar, out.im, out.it = par, im, it
		}
	}
	if bad || len(modes) > 1 || len(mtimes) > 1 {
		return c17StatCls{} // ambiguous or mutable carrier: not resolved
	}
	if len(modes) == 1 {
		out.mode = modes[0]
	}
	if len(mtimes) == 1 {
		out.mtime = mtimes[0]
	}
	if len(wholes) == 1 {
		out.whole = wholes[0]
	}
	return out
}

// c17LinkEncoder: O6.
func c17LinkEncoder(c *an.Ctx) {
	p := c.P
	const md = "ipld/merkledag"
	// by role: the functions of the package (with their closures) that build a
	// dag-pb link map, i.e. write a "Hash" map entry
	isEntry := an.M("github.com/ipld/go-ipld-prime/fluent/qp", "", "MapEntry")
	var encs []*ssa.Function
	for _, m := range p.PkgFuncs(md) {
		if m.Parent() != nil {
			continue
		}
		for _, cl := range an.WithClosures(m) {
			for _, call := range an.Calls(cl, isEntry) {
				if k, ok := an.ConstOf(call.Common().Args[1]); ok && k.Kind() == constant.String && constant.StringVal(k) == "Hash" {
					encs = append(encs, cl)
				}
			}
		}
	}
	if !c.Need(len(encs) > 0, "the dag-pb link encoder of ipld/merkledag (writes the \"Hash\" map entry)") {
		return
	}
	const role = "ipld/merkledag.dag-pb-link-encoder"
	want := map[string]string{"Hash": "Cid", "Name": "Name", "Tsize": "Size"}
	found := map[string]bool{}
	for _, cl := range encs {
		keys := map[string]ssa.CallInstruction{}
		for _, call := range an.Calls(cl, isEntry) {
			if k, ok := an.ConstOf(call.Common().Args[1]); ok && k.Kind() == constant.String {
				keys[constant.StringVal(k)] = call
			}
		}
		if keys["Hash"] == nil {
			continue
		}
		for key, field := range want {
			call := keys[key]
			ok, why := call != nil, "the link map has no entry "+key
			if ok {
				found[key] = true
				// unconditional: executed on every path through the closure
				if okF := an.MustPrecede(cl, an.Returns(cl)[0], []ssa.Instruction{call}); !okF || len(an.Returns(cl)) != 1 {
					ok, why = false, "the "+key+" entry is written only on some paths"
				}
				src := false
				for _, l := range an.Deps(call.Common().Args[2], nil) {
					if fl, b := an.LoadedField(l); fl != nil && fl.Name() == field && an.TypeIs(b.Type(), "github.com/ipfs/go-ipld-format", "Link") {
						src = true
					}
				}
				if ok && !src {
					ok, why = false, "the "+key+" entry is not built from link."+field
				}
			}
			pos := cl.Pos()
			if call != nil {
				pos = call.Pos()
			}
			c.Check(ok, "O6", "R-TABLE", role, "link-entry-"+key+"<=link."+field+"-unconditional", pos,
				"every encoded link carries "+key+" built from link."+field,
				"dag-pb link encoding: "+why+" — linkSerializedSize counts tag+length+value of Hash, Name and Tsize for every link, so the estimate no longer equals the serialized size")
		}
	}
	c.Min("O6 link entries found in the dag-pb link encoder", len(found), 1)
}

// c17OneLinkPerTerm: O4 for all size calls and *ipld.Link literals of the package.
func c17OneLinkPerTerm(c *an.Ctx, fns []*ssa.Function) {
	nCalls, nLits := 0, 0
	for _, f := range fns {
		name := an.FuncName(f)
		for _, ci := range an.AllCalls(f) {
			if k := c16SizeKind(ci); k != "block" && k != "links" {
				continue
			}
			nCalls++
			same, why, _ := c17SizeArgsSameLink(ci)
			c.Check(same, "O4", "R-FLOW", name, c16CallName(ci)+":Cid-and-Size-of-one-link", ci.Pos(),
				"size call takes its link fields from one link",
				"a size function is given fields of two different links ("+why+"): the size it returns is that of no existing entry (it is off whenever the two links differ in CID length or Tsize varint length), so the estimate / the pre-computed post-operation size is not the serialized size")
		}
		// link literals assembled from fields of other links
		an.Instrs(f, func(in ssa.Instruction) {
			al, ok := in.(*ssa.Alloc)
			if !ok || !an.TypeIs(al.Type(), "github.com/ipfs/go-ipld-format", "Link") || al.Referrers() == nil {
				return
			}
			var base ssa.Value
			ok2, n := true, 0
			for _, r := range *al.Referrers() {
				fa, isFA := r.(*ssa.FieldAddr)
				if !isFA || fa.Referrers() == nil {
					continue
				}
				for _, rr := range *fa.Referrers() {
					st, isSt := rr.(*ssa.Store)
					if !isSt || st.Addr != ssa.Value(fa) {
						continue
					}
					if fl, b := an.LoadedField(st.Val); fl != nil && an.TypeIs(b.Type(), "github.com/ipfs/go-ipld-format", "Link") {
						n++
						if base == nil {
							base = b
						} else if !an.SameObj(base, b) {
							ok2 = false
						}
					}
				}
			}
			if n < 2 {
				return
			}
			nLits++
			c.Check(ok2, "O4", "R-FLOW", name, "Link-literal-from-one-link", al.Pos(),
				"link literal copies Cid/Size from one link",
				"an ipld.Link literal is assembled from fields of two different links: the entry it describes (and its computed size) corresponds to no real entry")
		})
	}
	c.Min("O4 size calls in package io", nCalls, 1)
	c.Min("O4 link literals copied from a link", nLits, 1)
}

// ---- operations on a BasicDirectory, with helper methods summarised

type c17Op struct {
	kind   string // add, remove, replace, lookup, upd, tot+, tot-, recompute
	at     ssa.Instruction
	call   ssa.CallInstruction // the call in the analysed function (possibly a helper call)
	direct bool                // the ProtoNode / update call itself is in this function
	dir    ssa.Value           // the *BasicDirectory
	name   ssa.Value
	link   ssa.Value     // add: link added; lookup: link found
	old    ssa.Value     // upd
	new    ssa.Value     // upd
	rawErr bool          // lookup: the error seen at the call may be the raw ErrLinkNotFound
	via    *ssa.Function // helper method the operation happens in (nil = here)
}

// c17NotFoundEdges: edges of f on which the error (one of the aliases al) is
// known to be (want) / not to be (!want) merkledag.ErrLinkNotFound, from
// errors.Is(err, ErrLinkNotFound) and from direct (in)equality tests.
func c17NotFoundEdges(f *ssa.Function, al map[ssa.Value]bool, want bool) an.EdgeSet {
	const mdPath = an.Mod + "/ipld/merkledag"
	e := an.CallEdges(f, an.M("errors", "", "Is"), 0, func(v ssa.Value) bool { return al[v] }, want)
	for _, cc := range an.Calls(f, an.M("errors", "", "Is")) {
		if al[an.Args(cc)[0]] && !c15IsGlobalLoad(an.Args(cc)[1], mdPath, "ErrLinkNotFound") {
			return an.EdgeSet{}
		}
	}
	cmp := an.CmpEdges(f, func(op token.Token, a, b ssa.Value) (bool, bool) {
		if op != token.EQL && op != token.NEQ {
			return false, false
		}
		var other ssa.Value
		if al[a] {
			other = b
		} else if al[b] {
			other = a
		} else {
			return false, false
		}
		if _, isConst := other.(*ssa.Const); isConst || !c15IsGlobalLoad(other, mdPath, "ErrLinkNotFound") {
			return false, false
		}
		isNF := op == token.EQL
		if want {
			return isNF, !isNF
		}
		return !isNF, isNF
	})
	return e.Union(cmp)
}

type c17Env struct {
	p          *an.Prog
	fNode      *types.Var
	fTot       *types.Var
	upd, comp  *ssa.Function
	mut        map[*ssa.Function]bool
	basic      *types.Named
	memo       map[*ssa.Function][]c17Op
	inProgress map[*ssa.Function]bool
	byName     bool // merkledag sources not loaded: recognise the link mutators of ProtoNode by name
}

func (e *c17Env) isMut(call ssa.CallInstruction) bool {
	ci := an.Callee(call)
	if ci.Static != nil && e.mut[ci.Static] {
		return true
	}
	if e.byName && ci.Recv == "ProtoNode" && strings.HasSuffix(ci.Pkg, "ipld/merkledag") {
		switch ci.Name {
		case "AddRawLink", "AddNodeLink", "RemoveNodeLink", "SetLinks":
			return true
		}
	}
	return false
}

func (e *c17Env) nodeOf(v ssa.Value) (ssa.Value, bool) {
	for _, r := range an.Roots(v, nil) {
		if fl, base := an.LoadedField(r); fl == e.fNode {
			return base, true
		}
	}
	return nil, false
}

// ops lists the operations f performs on BasicDirectory objects: the ones in
// its own body, and — for calls of other BasicDirectory methods — the lookups
// the callee forwards and the accounting it performs on all its normal paths,
// expressed with the caller's values.
func (e *c17Env) ops(f *ssa.Function, depth int) []c17Op {
	const md = "ipld/merkledag"
	var out []c17Op
	for _, call := range an.AllCalls(f) {
		g := an.Callee(call).Static
		if g == nil {
			continue
		}
		recv := an.Recv(call)
		switch {
		case recv != nil && (e.isMut(call) || (an.Callee(call).Recv == "ProtoNode" && an.Callee(call).Name == "GetNodeLink")):
			dir, ok := e.nodeOf(recv)
			if !ok {
				continue
			}
			op := c17Op{at: call, call: call, direct: true, dir: dir}
			for _, a := range an.Args(call) {
				if an.IsString(a.Type()) && op.name == nil {
					op.name = a
				}
				if an.TypeIs(a.Type(), "github.com/ipfs/go-ipld-format", "Link") {
					op.link = a
				}
			}
			switch {
			case !e.isMut(call):
				op.kind = "lookup"
				op.rawErr = true
				if rs := an.Result(call, 0); len(rs) > 0 {
					op.link = rs[0]
				}
			case op.name != nil && op.link != nil:
				op.kind = "add"
			case op.name != nil:
				op.kind = "remove"
			default:
				op.kind = "replace"
			}
			out = append(out, op)
		case g == e.upd && recv != nil:
			as := an.Args(call)
			if len(as) == 3 {
				out = append(out, c17Op{kind: "upd", at: call, call: call, direct: true, dir: recv, name: as[0], old: as[1], new: as[2]})
			}
		case g == e.comp && recv != nil:
			out = append(out, c17Op{kind: "recompute", at: call, call: call, direct: true, dir: recv})
		case recv != nil && depth > 0 && g.Signature.Recv() != nil && an.TypeIs(g.Signature.Recv().Type(), c16IO, "BasicDirectory") && g != f && g.Blocks != nil:
			// helper method: summarise
			tr := func(v ssa.Value) ssa.Value {
				if v == nil {
					return nil
				}
				if an.IsNilConst(v) {
					return v
				}
				if par, ok := v.(*ssa.Parameter); ok && par.Parent() == g {
					return an.ArgAt(call, an.ParamIndex(g, par))
				}
				return nil
			}
			rets := an.Returns(g)
			onAllPaths := func(in ssa.Instruction) bool {
				for _, r := range rets {
					if g.Recover != nil && r.Block() == g.Recover {
						continue
					}
					if !an.MustPrecede(g, r, []ssa.Instruction{in}) {
						return false
					}
				}
				return true
			}
			for _, o := range e.ops(g, depth-1) {
				if o.dir == nil || !an.SameObj(o.dir, g.Params[0]) {
					continue
				}
				switch o.kind {
				case "lookup":
					// forwarded: the helper returns the found link as its first result
					var outer ssa.Value
					for _, rs := range an.ResultSites(g, 0) {
						if an.SameObj(rs.Val, o.link) {
							if r0 := an.Result(call, 0); len(r0) > 0 {
								outer = r0[0]
							}
						}
					}
					if outer == nil || tr(o.name) == nil {
						continue
					}
					// can the raw not-found error of the lookup leave the helper?
					raw := false
					al := an.Aliases(an.ErrResult(o.call)...)
					n := g.Signature.Results().Len()
					nf := c17NotFoundEdges(g, al, false)
					for _, rs := range an.ResultSites(g, n-1) {
						isRaw := func(v ssa.Value) bool {
							for _, r := range an.Roots(v, &an.FlowOpts{NoCells: true}) {
								if al[r] {
									return true
								}
							}
							return al[v]
						}
						if fnd, grd := an.ValueGuardedBy(g, o.call, rs.At, rs.Val, isRaw, nf); fnd && !(grd && len(nf) > 0) {
							raw = true
						}
					}
					out = append(out, c17Op{kind: "lookup", at: call, call: call, dir: recv, name: tr(o.name), link: outer, rawErr: raw, via: g})
				case "upd":
					if onAllPaths(o.at) && tr(o.name) != nil && tr(o.old) != nil && tr(o.new) != nil {
						out = append(out, c17Op{kind: "upd", at: call, call: call, dir: recv, name: tr(o.name), old: tr(o.old), new: tr(o.new)})
					}
				case "tot+", "tot-", "recompute":
					if onAllPaths(o.at) {
						out = append(out, c17Op{kind: o.kind, at: call, call: call, dir: recv})
					}
				}
			}
		}
	}
	// direct totalLinks +/- 1
	for _, st := range an.FieldStores(f, e.fTot) {
		_, dir := an.FieldOf(st.Addr)
		if b, ok := st.Val.(*ssa.BinOp); ok && (b.Op == token.ADD || b.Op == token.SUB) {
			if k, ok := an.ConstOf(b.Y); ok && k.String() == "1" {
				if fl, _ := an.LoadedField(b.X); fl == e.fTot {
					kind := "tot+"
					if b.Op == token.SUB {
						kind = "tot-"
					}
					out = append(out, c17Op{kind: kind, at: st, direct: true, dir: dir})
				}
			}
		}
	}
	return out
}

// c17Accounting finds, by role, the incremental update (BasicDirectory method
// with two *Link parameters that stores estimatedSize) and the recomputation
// (parameterless BasicDirectory method that resets estimatedSize to 0).
func c17Accounting(p *an.Prog, fEst *types.Var) (upd, comp *ssa.Function) {
	upd, comp = p.Func(c16IO, "BasicDirectory", "updateEstimatedSize"), p.Func(c16IO, "BasicDirectory", "computeEstimatedSizeAndTotalLinks")
	if fEst == nil {
		return
	}
	for _, f := range p.Methods(c16IO, "BasicDirectory") {
		if len(an.FieldStores(f, fEst)) == 0 {
			continue
		}
		nLinks := 0
		for _, par := range f.Params[1:] {
			if an.TypeIs(par.Type(), "github.com/ipfs/go-ipld-format", "Link") {
				nLinks++
			}
		}
		if upd == nil && nLinks == 2 {
			upd = f
		}
		if comp == nil && len(f.Params) == 1 {
			for _, st := range an.FieldStores(f, fEst) {
				if k, ok := an.ConstOf(st.Val); ok && k.String() == "0" {
					comp = f
				}
			}
		}
	}
	return
}

func c17IsUint64(t types.Type) bool {
	b, ok := t.Underlying().(*types.Basic)
	return ok && b.Kind() == types.Uint64
}

func c17Upd(p *an.Prog) *ssa.Function {
	u, _ := c17Accounting(p, c16IOR.bEst)
	return u
}

func c17Comp(p *an.Prog) *ssa.Function {
	_, c := c17Accounting(p, c16IOR.bEst)
	return c
}
