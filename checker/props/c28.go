package props

import (
	"fmt"
	"go/constant"
	"go/token"
	"go/types"
	"sort"
	"strings"

	"golang.org/x/tools/go/ssa"

	"verif/checker/an"
)

func init() {
	register("C28", Prop{
		Pkgs: []string{"./path", "./ipns"},
		Explain: "Decided (structural necessary conditions of 'names and content paths parse and print canonically'): " +
			"O1 the namespace constants {IPFSNamespace,IPNSNamespace,IPLDNamespace} are exactly the values NewPath accepts (each success return lies on the equal edge of segments[0] with one of them, no other value is accepted), exactly the table normalizeURIScheme iterates over, the set for which NewPath builds an ImmutablePath is exactly the set for which path.Mutable() evaluates to false, ipns.NamespacePrefix == \"/\"+IPNSNamespace+\"/\", and the URI rewrite returns \"/\"+ns+\"/\"+rest for the very ns whose scheme matched, handing the result to NewPath; " +
			"O2 every string stored in path.str by a parser is SegmentsToString(StringToSegments(input)) or that plus \"/\" only on the HasSuffix(input,\"/\") edge, the stored namespace is segment 0 of the same segments, the stored root CID is cid.Decode(segment 1) of the same segments on its nil edge (FromCid: the printed CID is the stored CID, printed under the stored namespace), NewPath succeeds only where the input starts with \"/\", has >= 2 segments and a non-empty root; StringToSegments returns only strings.Split of gopath.Clean(input) trimmed of slashes; Segments() re-derives from the stored string; " +
			"O3 ipns.Name: RoutingKey writes NamespacePrefix then the multihash and NameFromRoutingKey requires and strips the same prefix; Name.Cid() uses the libp2p-key codec that NameFromCid requires; String() is the CID's string, JSON uses String()/NameFromString, AsPath uses IPNSNamespace; the multihash field is only ever set from a peer ID or from the hash of a codec-checked CID. " +
			"NOT decided: idempotence of gopath.Clean and CID string decoding on arbitrary strings, multibase/peer-ID decoding, unicode handling.",
		Assume:    []string{"path.Clean is idempotent and removes '.'/'..' from rooted paths", "cid.Decode(c.String()) == c", "peer.Decode accepts what Cid.StringOfBase prints"},
		Technique: "constant tables compared across switch/array/const declarations (R-EXH/R-TABLE/R-CONST), value provenance into struct fields (R-FLOW), edge dominance (R-DOM), finite evaluation of a pure boolean method over the namespace constants",
		Run:       runC28,
	})
}

func runC28(c *an.Ctx) {
	p := c.P
	const pp = "path"
	ns := map[string]string{}
	for _, n := range []string{"IPFSNamespace", "IPNSNamespace", "IPLDNamespace"} {
		v, ok := c25ConstString(p, pp, n)
		if !c.Need(ok, "path."+n) {
			return
		}
		ns[n] = v
	}
	var nsVals []string
	for _, v := range ns {
		nsVals = append(nsVals, v)
	}
	sort.Strings(nsVals)
	newPath := p.Func(pp, "", "NewPath")
	s2s, seg2s := p.Func(pp, "", "StringToSegments"), p.Func(pp, "", "SegmentsToString")
	plainName, fStr, fNS, fRoot := c28PathRoles(p)
	c28NSField = fNS
	if !c.Need(newPath != nil && len(newPath.Params) == 1 && s2s != nil && seg2s != nil, "path.NewPath/StringToSegments/SegmentsToString") || !c.Need(fStr != nil && fNS != nil && fRoot != nil, "the unexported Path implementation with its printed-string and namespace fields, and ImmutablePath's root CID field") {
		return
	}
	npName := an.FuncName(newPath)
	in := newPath.Params[0]

	fns := p.PkgFuncs(pp)
	// segments: any value that resolves (through package-local helpers and their callers) to StringToSegments(input)
	isSegs := func(fn *ssa.Function, v ssa.Value) bool {
		return c28DeepAll(fns, fn, v, func(l c28DV) bool { return c28IsSegments(fns, l) })
	}
	segAtIn := func(fn *ssa.Function, idx int64) func(ssa.Value) bool {
		return func(v ssa.Value) bool {
			r := c28Root(v)
			if rs := c29RootsF(v, 0); len(rs) == 1 {
				r = rs[0] // also through a field of a local struct the segment was parked in
			}
			s0, i, ok := c27Indexed(r)
			return ok && c25IsInt(idx)(i) && isSegs(fn, s0)
		}
	}
	isStrConst := func(want string) func(ssa.Value) bool {
		return func(v ssa.Value) bool {
			k, ok := an.ConstOf(v)
			return ok && k.Kind() == constant.String && constant.StringVal(k) == want
		}
	}
	// the family of NewPath: itself and the unexported helpers that receive the input (depth 2)
	rootEnv := c25Env{fn: newPath, vals: map[string][]ssa.Value{"in": {in}}}
	family := c25EnvFamily(rootEnv)
	// the dispatch function: the member that compares segments[0] with string constants
	var disp *ssa.Function
	cmpConsts := map[string]bool{}
	for _, e := range family {
		found := map[string]bool{}
		fnE := e.fn
		an.Instrs(fnE, func(i ssa.Instruction) {
			if bo, ok := i.(*ssa.BinOp); ok && (bo.Op == token.EQL || bo.Op == token.NEQ) {
				for _, sd := range [][2]ssa.Value{{bo.X, bo.Y}, {bo.Y, bo.X}} {
					if k, ok := an.ConstOf(sd[1]); ok && k.Kind() == constant.String && segAtIn(fnE, 0)(sd[0]) {
						found[constant.StringVal(k)] = true
					}
				}
			}
		})
		if len(found) > len(cmpConsts) {
			disp, cmpConsts = fnE, found
		}
	}
	if disp == nil {
		// a dispatch on namespace constants exists, but not on segments[0] of the parsed input
		var other ssa.Instruction
		for _, e := range family {
			an.Instrs(e.fn, func(i ssa.Instruction) {
				if bo, ok := i.(*ssa.BinOp); ok && (bo.Op == token.EQL || bo.Op == token.NEQ) {
					for _, sd := range []ssa.Value{bo.X, bo.Y} {
						if k, ok := an.ConstOf(sd); ok && k.Kind() == constant.String {
							if _, isNs := c26Index(nsVals, constant.StringVal(k)); isNs {
								other = i
							}
						}
					}
				}
			})
		}
		if other != nil {
			c.Bad("O1", "R-EXH", npName, "success only for a listed namespace", other.Pos(), "NewPath compares something other than segments[0] of StringToSegments(input) with the namespace constants: the namespace that selects the path flavour is not the one printed first, unknown namespaces can parse and Namespace() disagrees with String()")
			return
		}
	}
	if !c.Need(disp != nil, "the namespace dispatch of NewPath (comparison of segments[0] of StringToSegments(input) with constants)") {
		return
	}
	dname := an.FuncName(disp)
	eqEdges := func(v string) an.EdgeSet { return c25RelEdges(disp, segAtIn(disp, 0), isStrConst(v), c25EQ, 0) }
	possible := func(fn *ssa.Function) []*ssa.Return {
		idx := fn.Signature.Results().Len() - 1
		s0, und := c25SuccessReturns(fn, idx)
		out := append([]*ssa.Return{}, s0...)
		for _, r := range und {
			// `return helper(...)`: succeeds when the package-local helper does
			if hc, ok := c25RootCall(r.Results[idx], an.M(pp, "", "")); ok && c25InPkgHelper(fn, hc.Call.StaticCallee()) {
				out = append(out, r)
			} else {
				c.Problem("undecided: %s has a return whose error is neither nil, nor a known error, nor the result of a package-local helper (%s)", an.FuncName(fn), p.Pos(r.Pos()))
			}
		}
		return out
	}
	succ := possible(newPath)
	dsucc := succ
	if disp != newPath {
		dsucc = possible(disp)
	}
	c.Min("O1 possibly successful returns of NewPath", len(succ), 1)
	allEq := an.EdgeSet{}
	for k := range cmpConsts {
		allEq = allEq.Union(eqEdges(k))
	}
	// ---- O1 accepted set
	okAll := len(allEq) > 0 && len(dsucc) > 0
	for _, r := range dsucc {
		if !an.GuardedBy(disp, nil, r, allEq) {
			okAll = false
		}
	}
	c.Check(okAll, "O1", "R-EXH", dname, "success only for a listed namespace", disp.Pos(), "every success return lies on an equal edge of segments[0] with a namespace constant", "NewPath can succeed without segments[0] being known equal to a namespace constant (default case accepts): unknown namespaces parse as valid paths")
	isImm := func(r *ssa.Return) bool {
		for _, lf := range c28Deep(fns, disp, r.Results[0], 0) {
			if an.TypeIs(lf.v.Type(), pp, "ImmutablePath") {
				return true
			}
		}
		return false
	}
	accepted, immutable := map[string]bool{}, map[string]bool{}
	for k := range cmpConsts {
		others := an.EdgeSet{}
		for k2 := range cmpConsts {
			if k2 != k {
				others = others.Union(eqEdges(k2))
			}
		}
		for _, r := range dsucc {
			// r reachable although all other namespaces' equal edges are cut => reachable through k's
			if an.Reaches(disp, nil, r, others, nil) {
				accepted[k] = true
				if isImm(r) {
					immutable[k] = true
				}
			}
		}
	}
	acc := c28Keys(accepted)
	c.Check(strings.Join(acc, ",") == strings.Join(nsVals, ","), "O1", "R-TABLE", dname, "accepted namespaces = namespace constants", disp.Pos(), "NewPath accepts exactly {"+strings.Join(acc, ",")+"}",
		"NewPath accepts {"+strings.Join(acc, ",")+"} but the namespace constants are {"+strings.Join(nsVals, ",")+"}: a declared namespace does not parse or an undeclared one does")

	// ---- O1 Mutable() agrees with the immutable set
	if mut := p.Func(pp, plainName, "Mutable"); c.Need(mut != nil, "Mutable() of the unexported Path implementation") {
		for _, v := range nsVals {
			got, ok := c28EvalBool(mut, v)
			if !ok {
				c.Problem("undecided: path.Mutable is not a pure boolean function of the namespace")
				break
			}
			want := !immutable[v]
			c.Check(got == want, "O1", "R-TABLE", an.FuncName(mut), "Mutable("+v+")", mut.Pos(), fmt.Sprintf("Mutable()==%v for %q, NewPath immutable=%v", got, v, immutable[v]),
				fmt.Sprintf("path.Mutable() is %v for namespace %q but NewPath %s an ImmutablePath with root CID for it: NewImmutablePath / resolvers treat re-parsed paths of this namespace differently from freshly parsed ones", got, v, map[bool]string{true: "builds", false: "does not build"}[immutable[v]]))
		}
	}

	// ---- O1 URI table
	if uri := p.Func(pp, "", "NewPathFromURI"); c.Need(uri != nil, "path.NewPathFromURI") {
		c28URI(c, uri, newPath, nsVals)
	}
	// ---- O1 ipns.NamespacePrefix
	if pre, ok := c25ConstString(p, "ipns", "NamespacePrefix"); c.Need(ok, "ipns.NamespacePrefix") {
		c.Check(pre == "/"+ns["IPNSNamespace"]+"/", "O1", "R-CONST", "ipns.NamespacePrefix", "= /IPNSNamespace/", token.NoPos, "ipns.NamespacePrefix == \"/\"+path.IPNSNamespace+\"/\"", fmt.Sprintf("ipns.NamespacePrefix is %q but path.IPNSNamespace is %q: name strings and IPNS paths use different prefixes", pre, ns["IPNSNamespace"]))
	}

	// ---- O2 guards of NewPath (established in NewPath or in package-local helpers it calls)
	req := func(construct string, mk c25Req, okD, badD string) {
		good := true
		for _, r := range succ {
			if !c25Holds(rootEnv, r, 1, mk, 0) {
				good = false
			}
		}
		c.Check(good, "O2", "R-DOM", npName, construct, newPath.Pos(), okD, badD)
	}
	isInputIn := func(fn *ssa.Function) func(ssa.Value) bool {
		return func(v ssa.Value) bool { return c28DeepAll(fns, fn, v, c28IsInput) }
	}
	req("HasPrefix(str,\"/\")", func(e c25Env) (an.EdgeSet, []ssa.CallInstruction) {
		return an.CondEdges(e.fn, func(atom ssa.Value) (bool, bool) {
			call, ok := atom.(*ssa.Call)
			if !ok {
				return false, false
			}
			ci := an.Callee(call)
			if ci.Pkg == "strings" && ci.Name == "HasPrefix" && isInputIn(e.fn)(call.Call.Args[0]) && c28IsStr(call.Call.Args[1], "/") {
				return true, false
			}
			return false, false
		}), nil
	}, "success only for rooted input", "NewPath can succeed for an input that does not start with \"/\": gopath.Clean keeps leading \"..\" segments of relative paths, so the printed form may contain dot segments")
	req("len(segments)>=2", func(e c25Env) (an.EdgeSet, []ssa.CallInstruction) {
		isLenSeg := func(v ssa.Value) bool {
			b, ok := c25RootBuiltin(v, "len")
			return ok && isSegs(e.fn, b.Call.Args[0])
		}
		return c25RelEdges(e.fn, isLenSeg, c25IsInt(2), c25GE, 0).Union(c25RelEdges(e.fn, isLenSeg, c25IsInt(1), c25GT, 0)), nil
	}, "success only with namespace and root segments", "NewPath can succeed with fewer than two segments")
	req("segments[1]!=\"\"", func(e c25Env) (an.EdgeSet, []ssa.CallInstruction) {
		return c25RelEdges(e.fn, segAtIn(e.fn, 1), isStrConst(""), c25NE, 0), nil
	}, "success only with a non-empty root", "NewPath can succeed with an empty root segment")

	// ---- O2 stores into path.str / namespace / rootCid anywhere in the package
	c28Stores(c, fStr, fNS, fRoot, nsVals, immutable, newPath)

	// ---- O2 wrapping an existing Path as immutable requires !Mutable() of that very path
	for _, fn := range p.PkgFuncs(pp) {
		for _, rs := range an.FieldStores(fn, fRoot) {
			dc, ok := c25RootCall(rs.Val, an.M("github.com/ipfs/go-cid", "", "Decode"))
			if !ok {
				continue
			}
			s0, _, okI := c27Indexed(c28Root(dc.Call.Args[0]))
			if !okI {
				continue
			}
			sc, ok := c25RootCall(s0, an.M("", "", "Segments"))
			if !ok || !sc.Call.IsInvoke() {
				continue
			}
			src := sc.Call.Value
			if _, isParam := c28Root(src).(*ssa.Parameter); !isParam {
				continue
			}
			imm := an.CondEdges(fn, func(atom ssa.Value) (bool, bool) {
				call, ok := atom.(*ssa.Call)
				if !ok || !call.Call.IsInvoke() || call.Call.Method.Name() != "Mutable" || c28Root(call.Call.Value) != c28Root(src) {
					return false, false
				}
				return false, true
			})
			c.Check(len(imm) > 0 && an.GuardedBy(fn, nil, rs, imm), "O2", "R-DOM", an.FuncName(fn), "ImmutablePath only for !Mutable() paths", rs.Pos(), "an existing path is wrapped as immutable only on the false edge of its Mutable()",
				"a Path is wrapped into an ImmutablePath (root CID decoded from its second segment) without its Mutable() being known false: an /ipns/<libp2p-key CID> path becomes an 'immutable' path whose Mutable() and namespace disagree")
		}
	}

	// ---- O2 StringToSegments = Split(trim(Clean(str)))
	{
		good, n := true, 0
		why := ""
		for _, r := range an.Returns(s2s) {
			for _, root := range an.Roots(r.Results[0], nil) {
				if an.IsNilConst(root) {
					continue
				}
				n++
				sp, ok := an.IsCallTo(root, an.M("strings", "", "Split"))
				if !ok || !isStrConst("/")(sp.Call.Args[1]) {
					good, why = false, "returns something other than strings.Split(..., \"/\")"
					continue
				}
				rs := c28TrimRoots(sp.Call.Args[0], 0)
				for _, x := range rs {
					cl, ok := an.IsCallTo(x, an.M("path", "", "Clean"))
					if !ok || !c25RootsIn(cl.Call.Args[0], []ssa.Value{s2s.Params[0]}) {
						good, why = false, "the split string does not derive from gopath.Clean(input) through slash trimming only"
					}
				}
			}
		}
		c.Check(good && n > 0, "O2", "R-FLOW", an.FuncName(s2s), "segments = Split(trim(Clean(str)))", s2s.Pos(), "segments are the cleaned path split on '/'", "StringToSegments "+why+": printed paths may keep '.', '..' or empty segments and re-parsing is not idempotent")
	}
	// ---- O2 Segments() re-derives from the stored string
	if sm := p.Func(pp, plainName, "Segments"); c.Need(sm != nil, "Segments() of the unexported Path implementation") {
		good := false
		for _, r := range an.Returns(sm) {
			if call, ok := c25RootCall(r.Results[0], an.M(pp, "-", "StringToSegments")); ok {
				if f, _ := c28FieldRead(call.Call.Args[0]); f == fStr {
					good = true
				}
			}
		}
		c.Check(good, "O2", "R-FLOW", an.FuncName(sm), "Segments()=StringToSegments(String())", sm.Pos(), "segments derive from the printed string", "path.Segments() no longer derives from the stored string: String() and Segments() can disagree")
	}

	// ---- O2 SegmentsToString prints "/" + Join(segments, "/") (the bare join only where it is empty): NewPath stores its
	// result as the printed form, which must start with "/" to be accepted again
	{
		isJoin := func(v ssa.Value) (*ssa.Call, bool) {
			call, ok := v.(*ssa.Call)
			if !ok || len(call.Call.Args) != 2 {
				return nil, false
			}
			ci := an.Callee(call)
			return call, ci.Pkg == "strings" && ci.Name == "Join" && c28IsStr(call.Call.Args[1], "/") && len(seg2s.Params) == 1 && c25RootsIn(call.Call.Args[0], []ssa.Value{seg2s.Params[0]})
		}
		good, nSlash := true, 0
		why := ""
		var visit func(v ssa.Value, pred, blk *ssa.BasicBlock, depth int)
		visit = func(v ssa.Value, pred, blk *ssa.BasicBlock, depth int) {
			if ph, ok := v.(*ssa.Phi); ok && depth < 4 {
				for i, e := range ph.Edges {
					visit(e, ph.Block().Preds[i], ph.Block(), depth+1)
				}
				return
			}
			if jc, ok := isJoin(v); ok {
				// the bare join: only where it is known empty
				empty := c25RelEdges(seg2s, func(x ssa.Value) bool { return x == ssa.Value(jc) }, func(x ssa.Value) bool { return c28IsStr(x, "") }, c25EQ, 0)
				if pred == nil || !c27EdgeKnown(seg2s, pred, blk, empty) {
					good, why = false, "the joined segments are returned without the leading \"/\" although they may be non-empty"
				}
				return
			}
			if parts := c28Concat(v); len(parts) == 2 && c28IsStr(parts[0], "/") {
				if _, ok := isJoin(parts[1]); ok {
					nSlash++
					return
				}
			}
			if k, ok := an.ConstOf(v); ok && k.Kind() == constant.String && constant.StringVal(k) == "" {
				return
			}
			good, why = false, "a return value is neither \"/\"+strings.Join(segments, \"/\") nor the empty join"
		}
		for _, r := range an.Returns(seg2s) {
			visit(r.Results[0], nil, nil, 0)
		}
		c.Check(good && nSlash > 0, "O2", "R-FLOW", an.FuncName(seg2s), "SegmentsToString = \"/\" + Join(segments, \"/\")", seg2s.Pos(), "printed segments start with \"/\"", "SegmentsToString: "+why+": the printed form NewPath stores does not start with \"/\" and is rejected (or parsed differently) when parsed again")
	}
	// ---- O2 the immutable wrapper prints, names and splits exactly like the path it wraps: String/Namespace/Segments
	// return the wrapped Path's method of the same name (the root CID is extra information, never the source of the text)
	if ipT := p.Named(pp, "ImmutablePath"); ipT != nil {
		if st, ok := ipT.Underlying().(*types.Struct); ok {
			var inner *types.Var
			for i := 0; i < st.NumFields(); i++ {
				if an.TypeIs(st.Field(i).Type(), pp, "Path") {
					inner = st.Field(i)
				}
			}
			for _, mn := range []string{"String", "Namespace", "Segments"} {
				m := p.Func(pp, "ImmutablePath", mn)
				if m == nil || inner == nil {
					continue
				}
				good, n := true, 0
				for _, r := range an.Returns(m) {
					n++
					call, ok := c25RootCall(r.Results[0], an.M("", "", mn))
					if !ok || !call.Call.IsInvoke() {
						good = false
						continue
					}
					if f, _ := c28FieldRead(call.Call.Value); f != inner {
						good = false
					}
				}
				c.Check(good && n > 0, "O2", "R-FLOW", an.FuncName(m), mn+"() of the immutable wrapper = "+mn+"() of the wrapped path", m.Pos(), "delegates to the wrapped path", "ImmutablePath."+mn+"() does not return the wrapped path's "+mn+"(): the immutable flavour of a parsed path prints, names or splits differently from what was parsed (e.g. the remainder after the root is lost)")
			}
		}
	}

	// ---- O3 names
	c28Names(c, ns["IPNSNamespace"])
}

// c28TrimRoots: provenance of a string through slash trimming only (strings.Trim*/"/" and package-local helpers
// that do nothing but that to their single string parameter).
func c28TrimRoots(v ssa.Value, depth int) []ssa.Value {
	isSlash := func(x ssa.Value) bool { return c28IsStr(x, "/") }
	return an.Roots(v, &an.FlowOpts{Through: func(call *ssa.Call) ([]ssa.Value, bool) {
		ci := an.Callee(call)
		if ci.Pkg == "strings" && (ci.Name == "TrimSuffix" || ci.Name == "TrimPrefix" || ci.Name == "Trim" || ci.Name == "TrimLeft" || ci.Name == "TrimRight") && isSlash(call.Call.Args[1]) {
			return call.Call.Args[:1], true
		}
		h := call.Call.StaticCallee()
		if depth < 2 && h != nil && h.Blocks != nil && h.Pkg != nil && call.Parent() != nil && call.Parent().Pkg == h.Pkg && len(h.Params) == 1 && len(call.Call.Args) == 1 {
			pure := true
			n := 0
			for _, r := range an.Returns(h) {
				if len(r.Results) != 1 {
					pure = false
					continue
				}
				for _, root := range c28TrimRoots(r.Results[0], depth+1) {
					n++
					if root != ssa.Value(h.Params[0]) {
						pure = false
					}
				}
			}
			if pure && n > 0 {
				return call.Call.Args[:1], true
			}
		}
		return nil, false
	}})
}

// c28NSField: the namespace field of the unexported Path implementation (set by runC28).
var c28NSField *types.Var

// c28PathRoles finds by role: the unexported struct type of package path implementing the exported interface Path
// (name returned), its field returned by String() and its field returned by Namespace(), and the field of
// ImmutablePath holding the root CID (type cid.Cid).
func c28PathRoles(p *an.Prog) (plain string, fStr, fNS, fRoot *types.Var) {
	pk := p.Pkg("path")
	if pk == nil {
		return
	}
	ifaceObj, _ := pk.Types.Scope().Lookup("Path").(*types.TypeName)
	if ifaceObj == nil {
		return
	}
	iface, _ := ifaceObj.Type().Underlying().(*types.Interface)
	if iface == nil {
		return
	}
	retField := func(typ, method string) *types.Var {
		m := p.Func("path", typ, method)
		if m == nil {
			return nil
		}
		var out *types.Var
		for _, r := range an.Returns(m) {
			if len(r.Results) != 1 {
				continue
			}
			if f, _ := c28FieldRead(r.Results[0]); f != nil {
				out = f
			}
		}
		return out
	}
	for _, name := range pk.Types.Scope().Names() {
		tn, ok := pk.Types.Scope().Lookup(name).(*types.TypeName)
		if !ok || tn.Exported() {
			continue
		}
		nt, ok := tn.Type().(*types.Named)
		if !ok {
			continue
		}
		if _, isStruct := nt.Underlying().(*types.Struct); !isStruct {
			continue
		}
		if types.Implements(nt, iface) || types.Implements(types.NewPointer(nt), iface) {
			if s, n := retField(name, "String"), retField(name, "Namespace"); s != nil && n != nil {
				plain, fStr, fNS = name, s, n
			}
		}
	}
	if in := p.Named("path", "ImmutablePath"); in != nil {
		if st, ok := in.Underlying().(*types.Struct); ok {
			for i := 0; i < st.NumFields(); i++ {
				if an.TypeIs(st.Field(i).Type(), "github.com/ipfs/go-cid", "Cid") {
					fRoot = st.Field(i)
				}
			}
		}
	}
	return
}

func c28Keys(m map[string]bool) []string {
	var out []string
	for k, v := range m {
		if v {
			out = append(out, k)
		}
	}
	sort.Strings(out)
	return out
}

// c28Root: single provenance root or v itself.
func c28Root(v ssa.Value) ssa.Value {
	// plain provenance (not through fields of local structs: callers identify field reads themselves)
	if rs := an.Roots(v, nil); len(rs) == 1 {
		return rs[0]
	}
	return v
}

// c28FieldRead: v is a load of a struct field (through FieldAddr or Field).
func c28FieldRead(v ssa.Value) (*types.Var, ssa.Value) {
	v = c28Root(v)
	if u, ok := v.(*ssa.UnOp); ok && u.Op == token.MUL {
		return an.FieldOf(u.X)
	}
	return an.FieldOf(v)
}

// c28Varargs: the values stored into the backing array of a variadic slice.
func c28Varargs(v ssa.Value) []ssa.Value {
	sl, ok := v.(*ssa.Slice)
	if !ok {
		return nil
	}
	arr, ok := sl.X.(*ssa.Alloc)
	if !ok || arr.Referrers() == nil {
		return nil
	}
	type ent struct {
		i int64
		v ssa.Value
	}
	var es []ent
	for _, r := range *arr.Referrers() {
		ia, ok := r.(*ssa.IndexAddr)
		if !ok || ia.Referrers() == nil {
			continue
		}
		k, ok := an.ConstOf(ia.Index)
		if !ok {
			continue
		}
		idx, _ := constant.Int64Val(k)
		for _, rr := range *ia.Referrers() {
			if st, ok := rr.(*ssa.Store); ok && st.Addr == ia {
				es = append(es, ent{idx, st.Val})
			}
		}
	}
	sort.Slice(es, func(i, j int) bool { return es[i].i < es[j].i })
	var out []ssa.Value
	for _, e := range es {
		out = append(out, e.v)
	}
	return out
}

// c28Concat flattens a string concatenation tree.
func c28Concat(v ssa.Value) []ssa.Value {
	if bo, ok := v.(*ssa.BinOp); ok && bo.Op == token.ADD {
		return append(c28Concat(bo.X), c28Concat(bo.Y)...)
	}
	return []ssa.Value{v}
}

// c28EvalBool evaluates a pure boolean method of a path whose only input is
// the namespace string, for one concrete namespace value. Only comparisons of
// the namespace with constants, negation, branching and merging are
// understood; anything else makes the result undecided.
func c28EvalBool(fn *ssa.Function, nsVal string) (bool, bool) {
	env := map[ssa.Value]constant.Value{}
	var eval func(v ssa.Value) (constant.Value, bool)
	eval = func(v ssa.Value) (constant.Value, bool) {
		if k, ok := env[v]; ok {
			return k, true
		}
		switch x := v.(type) {
		case *ssa.Const:
			return x.Value, x.Value != nil
		case *ssa.Call:
			if x.Call.IsInvoke() && x.Call.Method.Name() == "Namespace" || !x.Call.IsInvoke() && an.Callee(x).Name == "Namespace" {
				return constant.MakeString(nsVal), true
			}
		case *ssa.UnOp:
			if x.Op == token.NOT {
				if k, ok := eval(x.X); ok && k.Kind() == constant.Bool {
					return constant.MakeBool(!constant.BoolVal(k)), true
				}
			}
			if x.Op == token.MUL {
				if f, _ := an.FieldOf(x.X); f != nil && f == c28NSField {
					return constant.MakeString(nsVal), true
				}
			}
		case *ssa.Field:
			if f, _ := an.FieldOf(x); f != nil && f == c28NSField {
				return constant.MakeString(nsVal), true
			}
		case *ssa.BinOp:
			a, ok1 := eval(x.X)
			b, ok2 := eval(x.Y)
			if ok1 && ok2 && a.Kind() == b.Kind() && (x.Op == token.EQL || x.Op == token.NEQ) {
				return constant.MakeBool(constant.Compare(a, x.Op, b)), true
			}
		}
		return nil, false
	}
	if len(fn.Blocks) == 0 {
		return false, false
	}
	blk := fn.Blocks[0]
	var prev *ssa.BasicBlock
	for steps := 0; steps < 64; steps++ {
		for _, in := range blk.Instrs {
			if ph, ok := in.(*ssa.Phi); ok {
				for i, pb := range blk.Preds {
					if pb == prev {
						k, ok := eval(ph.Edges[i])
						if !ok {
							return false, false
						}
						env[ph] = k
					}
				}
			}
		}
		switch t := blk.Instrs[len(blk.Instrs)-1].(type) {
		case *ssa.Return:
			if len(t.Results) != 1 {
				return false, false
			}
			k, ok := eval(t.Results[0])
			if !ok || k.Kind() != constant.Bool {
				return false, false
			}
			return constant.BoolVal(k), true
		case *ssa.If:
			k, ok := eval(t.Cond)
			if !ok || k.Kind() != constant.Bool {
				return false, false
			}
			prev = blk
			if constant.BoolVal(k) {
				blk = blk.Succs[0]
			} else {
				blk = blk.Succs[1]
			}
		case *ssa.Jump:
			prev = blk
			blk = blk.Succs[0]
		default:
			return false, false
		}
	}
	return false, false
}

// c28URI: NewPathFromURI = NewPath(normalize(str)); normalize iterates over the
// namespace table and returns "/"+ns+"/"+rest for the matching ns.
func c28URI(c *an.Ctx, uri, newPath *ssa.Function, nsVals []string) {
	name := an.FuncName(uri)
	var norm *ssa.Function
	good := false
	for _, r := range an.Returns(uri) {
		for _, res := range r.Results {
			if np, ok := c25RootCall(res, an.M("path", "-", newPath.Name())); ok {
				if nc, ok := c25RootCall(np.Call.Args[0], an.M("path", "-", "")); ok && nc.Call.StaticCallee() != nil && len(nc.Call.Args) == 1 && c25RootsIn(nc.Call.Args[0], []ssa.Value{uri.Params[0]}) {
					norm, good = nc.Call.StaticCallee(), true
				}
			}
		}
	}
	c.Check(good, "O1", "R-FLOW", name, "NewPathFromURI=NewPath(normalize(str))", uri.Pos(), "URI form is rewritten and handed to NewPath", "NewPathFromURI does not return NewPath(normalize(str)): URI forms do not map to the canonical parser")
	if norm == nil {
		return
	}
	nname := an.FuncName(norm)
	// table
	table := map[string]bool{}
	var tableAlloc *ssa.Alloc
	an.Instrs(norm, func(in ssa.Instruction) {
		st, ok := in.(*ssa.Store)
		if !ok {
			return
		}
		ia, ok := st.Addr.(*ssa.IndexAddr)
		if !ok {
			return
		}
		al, ok := ia.X.(*ssa.Alloc)
		if !ok {
			return
		}
		if _, isArr := al.Type().(*types.Pointer).Elem().Underlying().(*types.Array); !isArr {
			return
		}
		if k, ok := an.ConstOf(st.Val); ok && k.Kind() == constant.String {
			table[constant.StringVal(k)] = true
			tableAlloc = al
		}
	})
	tk := c28Keys(table)
	c.Check(strings.Join(tk, ",") == strings.Join(nsVals, ","), "O1", "R-TABLE", nname, "URI scheme table = namespace constants", norm.Pos(), "schemes {"+strings.Join(tk, ",")+"}", "the URI scheme table {"+strings.Join(tk, ",")+"} differs from the namespace constants {"+strings.Join(nsVals, ",")+"}: some scheme://... form does not map to its /namespace/... path")
	if tableAlloc == nil {
		return
	}
	isElem := func(v ssa.Value) bool {
		switch x := c28Root(v).(type) {
		case *ssa.Index:
			if u, ok := x.X.(*ssa.UnOp); ok && u.Op == token.MUL && u.X == tableAlloc {
				return true
			}
		case *ssa.UnOp:
			if ia, ok := x.X.(*ssa.IndexAddr); ok && x.Op == token.MUL {
				if ia.X == tableAlloc {
					return true
				}
				// the table as a slice literal: tbl[:] of the same backing array
				if sl, isSl := ia.X.(*ssa.Slice); isSl && sl.X == tableAlloc && sl.Low == nil && sl.High == nil {
					return true
				}
			}
		}
		return false
	}
	// refinedNs(v, r): v is a variable (phi) whose alternatives consistent with a bool flag tested on the way to r are all
	// table elements on whose incoming edge the scheme test of that very element is known true
	refinedNs := func(v ssa.Value, r *ssa.Return) bool {
		P, ok := v.(*ssa.Phi)
		if !ok {
			return false
		}
		B := P.Block()
		for _, in := range B.Instrs {
			F, isPhi := in.(*ssa.Phi)
			if !isPhi || F == P || len(F.Edges) != len(P.Edges) {
				continue
			}
			if bt, isB := F.Type().Underlying().(*types.Basic); !isB || bt.Kind() != types.Bool {
				continue
			}
			var want bool
			switch {
			case an.GuardedBy(norm, nil, r, an.BoolEdges(norm, []ssa.Value{F}, true)):
				want = true
			case an.GuardedBy(norm, nil, r, an.BoolEdges(norm, []ssa.Value{F}, false)):
				want = false
			default:
				continue
			}
			feasible, good := 0, true
			for i, e := range F.Edges {
				k, isK := an.ConstOf(e)
				if !isK || k.Kind() != constant.Bool {
					good = false
					break
				}
				if constant.BoolVal(k) != want {
					continue
				}
				feasible++
				val := P.Edges[i]
				if !isElem(val) {
					good = false
					break
				}
				matched := an.CondEdges(norm, func(atom ssa.Value) (bool, bool) {
					call, ok := atom.(*ssa.Call)
					if !ok || call.Call.StaticCallee() == nil || len(call.Call.Args) != 2 {
						return false, false
					}
					if c25RootsIn(call.Call.Args[0], []ssa.Value{norm.Params[0]}) && (call.Call.Args[1] == val || c28Root(call.Call.Args[1]) == c28Root(val)) {
						return true, false
					}
					return false, false
				})
				if !c27EdgeKnown(norm, B.Preds[i], B, matched) {
					good = false
					break
				}
			}
			if good && feasible > 0 {
				return true
			}
		}
		return false
	}
	// rewritten returns
	n := 0
	for _, r := range an.Returns(norm) {
		if c25RootsIn(r.Results[0], []ssa.Value{norm.Params[0]}) {
			continue // unchanged
		}
		n++
		// the rewritten string is built here, or by an unexported helper given (input, matched ns)
		okShape, okRest := false, false
		viaFlag := false
		var nsVal ssa.Value
		if hc, ok := c25RootCall(r.Results[0], an.M("path", "", "")); ok && c25InPkgHelper(norm, hc.Call.StaticCallee()) {
			h := hc.Call.StaticCallee()
			si, ni := -1, -1
			for i, a := range hc.Call.Args {
				if i >= len(h.Params) {
					break
				}
				if c25RootsIn(a, []ssa.Value{norm.Params[0]}) {
					si = i
				} else if isElem(a) {
					ni = i
					nsVal = a
				}
			}
			if si >= 0 && ni >= 0 {
				okShape, okRest = true, true
				nRet := 0
				for _, hr := range an.Returns(h) {
					nRet++
					nsP := h.Params[ni]
					sOK, rOK, _ := c28RewriteShape(hr.Results[0], h.Params[si], func(v ssa.Value) bool { return c28Root(v) == ssa.Value(nsP) })
					okShape, okRest = okShape && sOK, okRest && rOK
				}
				if nRet == 0 {
					okShape = false
				}
			}
		} else {
			okShape, okRest, nsVal = c28RewriteShape(r.Results[0], norm.Params[0], isElem)
			if !okShape {
				// the matched namespace carried out of the loop in a variable together with a found flag:
				// `scheme, found = ns, true; break` ... `if !found { return str }` ... "/"+scheme+"/"+rest
				rr := r
				okShape, okRest, nsVal = c28RewriteShape(r.Results[0], norm.Params[0], func(v ssa.Value) bool { return refinedNs(v, rr) })
				if okShape {
					viaFlag = true
				}
			}
		}
		// the ns must be the one whose scheme test is true on the way
		okGuard := viaFlag
		if okShape && nsVal != nil && !viaFlag {
			e := an.CondEdges(norm, func(atom ssa.Value) (bool, bool) {
				call, ok := atom.(*ssa.Call)
				if !ok || call.Call.StaticCallee() == nil || len(call.Call.Args) != 2 {
					return false, false
				}
				if c25RootsIn(call.Call.Args[0], []ssa.Value{norm.Params[0]}) && (call.Call.Args[1] == nsVal || c28Root(call.Call.Args[1]) == c28Root(nsVal)) {
					return true, false
				}
				return false, false
			})
			okGuard = len(e) > 0 && an.GuardedBy(norm, nil, r, e)
		}
		c.Check(okShape && okGuard && okRest, "O1", "R-FLOW", nname, "rewrite = \"/\"+ns+\"/\"+rest", r.Pos(), "rewritten URI is \"/\"+matched ns+\"/\"+rest of the input", "the URI rewrite does not return \"/\"+ns+\"/\"+rest(input) for the namespace whose scheme matched: ns://x maps to another path than /ns/x")
	}
	c.Min("O1 rewriting returns of the URI normaliser", n, 1)
	// the scheme test: true only where len(str) > len(ns) and str[len(ns)] == ':' and every str[i] (ASCII-lowered)
	// was compared with ns[i] for i < len(ns)
	var test *ssa.Function
	for _, call := range an.AllCalls(norm) {
		if f := call.Common().StaticCallee(); f != nil && len(call.Common().Args) == 2 && f.Signature.Results().Len() == 1 && c25RootsIn(call.Common().Args[0], []ssa.Value{norm.Params[0]}) {
			if b, ok := f.Signature.Results().At(0).Type().Underlying().(*types.Basic); ok && b.Kind() == types.Bool {
				test = f
			}
		}
	}
	if test == nil || len(test.Params) != 2 {
		c.Problem("undecided: the URI normaliser does not use a (str, ns) bool scheme test")
		return
	}
	tname := an.FuncName(test)
	str, nsP := test.Params[0], test.Params[1]
	lenOf := func(prm *ssa.Parameter) func(ssa.Value) bool {
		return func(v ssa.Value) bool {
			b, ok := c25RootBuiltin(v, "len")
			return ok && b.Call.Args[0] == ssa.Value(prm)
		}
	}
	longer := c25RelEdges(test, lenOf(str), lenOf(nsP), c25GT, 0)
	// string indexing is ssa.Index (or ssa.Lookup in older x/tools)
	strIdx := func(v ssa.Value) (x, idx ssa.Value, ok bool) {
		switch t := v.(type) {
		case *ssa.Index:
			return t.X, t.Index, true
		case *ssa.Lookup:
			return t.X, t.Index, true
		}
		return nil, nil, false
	}
	isColonPos := func(v ssa.Value) bool {
		x, idx, ok := strIdx(c28Root(v))
		return ok && x == ssa.Value(str) && lenOf(nsP)(idx)
	}
	colon := c25RelEdges(test, isColonPos, func(v ssa.Value) bool {
		k, ok := an.ConstOf(v)
		if !ok || k.Kind() != constant.Int {
			return false
		}
		x, _ := constant.Int64Val(k)
		return x == ':'
	}, c25EQ, 0)
	// every indexing of str is guarded by a sufficient length test
	idxOK, nIdx := true, 0
	an.Instrs(test, func(in ssa.Instruction) {
		v, isV := in.(ssa.Value)
		if !isV {
			return
		}
		x, _, ok := strIdx(v)
		if !ok || x != ssa.Value(str) {
			return
		}
		nIdx++
		if !an.GuardedBy(test, nil, in, longer) {
			idxOK = false
		}
	})
	// per-character comparison str[i] ~ ns[i] with i bounded by len(ns)
	var neChars an.EdgeSet = an.EdgeSet{}
	var loopIdx ssa.Value
	neChars = an.CondEdges(test, func(atom ssa.Value) (bool, bool) {
		bo, ok := atom.(*ssa.BinOp)
		if !ok || (bo.Op != token.NEQ && bo.Op != token.EQL) {
			return false, false
		}
		charOf := func(v ssa.Value, prm *ssa.Parameter) (ssa.Value, bool) {
			for _, r := range an.Roots(v, &an.FlowOpts{Through: func(call *ssa.Call) ([]ssa.Value, bool) {
				if f := call.Call.StaticCallee(); f != nil && f.Pkg == test.Pkg && len(call.Call.Args) == 1 {
					return call.Call.Args[:1], true // ASCII lowering helper
				}
				return nil, false
			}}) {
				if x, idx, ok := strIdx(r); ok && x == ssa.Value(prm) {
					return idx, true
				}
			}
			return nil, false
		}
		for _, sd := range [][2]ssa.Value{{bo.X, bo.Y}, {bo.Y, bo.X}} {
			i1, ok1 := charOf(sd[0], str)
			i2, ok2 := charOf(sd[1], nsP)
			if ok1 && ok2 && i1 == i2 {
				loopIdx = i1
				return bo.Op == token.NEQ, bo.Op == token.EQL
			}
		}
		return false, false
	})
	// the index runs below len(ns) (rotated range loops test the incremented value)
	isIdx := func(v ssa.Value) bool {
		if v == loopIdx {
			return true
		}
		if ph, ok := loopIdx.(*ssa.Phi); ok {
			for _, e := range ph.Edges {
				if _, isK := an.ConstOf(e); !isK && e == v {
					return true
				}
			}
		}
		return false
	}
	bounded := loopIdx != nil && len(c25RelEdges(test, isIdx, lenOf(nsP), c25LT, 0)) > 0
	good = len(longer) > 0 && len(colon) > 0 && idxOK && nIdx >= 2 && len(neChars) > 0 && bounded
	for _, r := range an.Returns(test) {
		k, ok := an.ConstOf(r.Results[0])
		if !ok {
			// computed result: undecided shape
			good = false
			continue
		}
		if constant.BoolVal(k) {
			if !an.GuardedBy(test, nil, r, longer) || !an.GuardedBy(test, nil, r, colon) {
				good = false
			}
		}
	}
	// a character mismatch leads to false: no true return reachable after crossing a mismatch edge
	for e := range neChars {
		for _, r := range an.Returns(test) {
			if k, ok := an.ConstOf(r.Results[0]); ok && constant.BoolVal(k) {
				tgt := e.From.Succs[e.Succ]
				if len(tgt.Instrs) > 0 && (tgt.Instrs[0] == ssa.Instruction(r) || an.Reaches(test, tgt.Instrs[0], r, nil, nil)) {
					good = false
				}
			}
		}
	}
	c.Check(good, "O1", "R-CMP", tname, "scheme test = ns ':' prefix", test.Pos(), "true only where len(str) > len(ns), str[len(ns)] == ':' and no str[i] differs from ns[i] for i < len(ns); every index is length-guarded",
		"the URI scheme test is not 'str starts with ns followed by ':' (ASCII case-insensitively)' with every index guarded by len(str) > len(ns): some ns:... URI is not recognised, a non-URI is rewritten, or indexing panics on short input")
}

// c28RewriteShape: val = "/" + ns + "/" + rest with isNs(ns) and rest = TrimPrefix*(str[len(ns)+1:]).
func c28RewriteShape(val ssa.Value, str *ssa.Parameter, isNs func(ssa.Value) bool) (okShape, okRest bool, nsVal ssa.Value) {
	parts := c28Concat(val)
	okShape = len(parts) == 4 && c28IsStr(parts[0], "/") && isNs(parts[1]) && c28IsStr(parts[2], "/")
	if !okShape {
		return false, false, nil
	}
	nsVal = parts[1]
	through := func(call *ssa.Call) ([]ssa.Value, bool) {
		ci := an.Callee(call)
		if ci.Pkg == "strings" && ci.Name == "TrimPrefix" {
			return call.Call.Args[:1], true
		}
		return nil, false
	}
	rs := an.Roots(parts[3], &an.FlowOpts{Through: through})
	okRest = len(rs) == 1 && rs[0] == ssa.Value(str)
	// rest = input[len(ns)+1:] : exactly the scheme and its ':' are dropped
	cuts := an.Roots(parts[3], &an.FlowOpts{Through: through, StopAt: func(v ssa.Value) bool { _, ok := v.(*ssa.Slice); return ok }})
	for _, cv := range cuts {
		sl, ok := cv.(*ssa.Slice)
		if !ok || sl.High != nil || sl.Low == nil {
			okRest = false
			continue
		}
		bo, ok := sl.Low.(*ssa.BinOp)
		if !ok || bo.Op != token.ADD || !c25IsInt(1)(bo.Y) {
			okRest = false
			continue
		}
		lc, ok := c25RootBuiltin(bo.X, "len")
		if !ok || !(lc.Call.Args[0] == nsVal || c28Root(lc.Call.Args[0]) == c28Root(nsVal)) {
			okRest = false
		}
	}
	if len(cuts) == 0 {
		okRest = false
	}
	return
}

func c28IsStr(v ssa.Value, want string) bool {
	k, ok := an.ConstOf(v)
	return ok && k.Kind() == constant.String && constant.StringVal(k) == want
}

// c28IsInput: the parsed input — a string parameter of an exported parser.
func c28IsInput(l c28DV) bool {
	prm, ok := l.v.(*ssa.Parameter)
	if !ok {
		return false
	}
	o := prm.Parent().Object()
	return o != nil && o.Exported() && types.Identical(prm.Type().Underlying(), types.Typ[types.String])
}

// c28IsSegments: StringToSegments(input), or Path.Segments() of a parameter.
func c28IsSegments(fns []*ssa.Function, l c28DV) bool {
	call, ok := l.v.(*ssa.Call)
	if !ok {
		return false
	}
	ci := an.Callee(call)
	if ci.Name == "StringToSegments" && ci.Pkg == an.Mod+"/path" && len(call.Call.Args) == 1 {
		return c28DeepAll(fns, l.fn, call.Call.Args[0], c28IsInput)
	}
	if ci.Name == "Segments" && call.Call.IsInvoke() {
		_, isP := c28Root(call.Call.Value).(*ssa.Parameter)
		return isP
	}
	return false
}

// c28Stores: provenance of every store to path.str / path.namespace / ImmutablePath.rootCid.
// c28DV is a value in the context of the function it lives in.
type c28DV struct {
	fn *ssa.Function
	v  ssa.Value
}

// c28Deep resolves the provenance of v interprocedurally inside the package: a parameter of an unexported function
// stands for the arguments of all its static in-package call sites; the result of an unexported package-local helper
// stands for the values it returns. Leaves are returned with the function they belong to.
func c28Deep(fns []*ssa.Function, fn *ssa.Function, v ssa.Value, depth int) []c28DV {
	var out []c28DV
	// (values are followed through the fields of local struct variables: `parts := pathParts{ns: segments[0]}` ... parts.ns)
	for _, r := range c29RootsF(v, 0) {
		if depth < 3 {
			if prm, ok := r.(*ssa.Parameter); ok && prm.Parent() == fn && fn.Parent() == nil {
				if o := fn.Object(); o != nil && !o.Exported() {
					idx := -1
					for i, q := range fn.Params {
						if q == prm {
							idx = i
						}
					}
					n := 0
					var sub []c28DV
					for _, g := range fns {
						for _, call := range an.AllCalls(g) {
							if call.Common().StaticCallee() == fn && idx >= 0 && idx < len(call.Common().Args) {
								n++
								sub = append(sub, c28Deep(fns, g, call.Common().Args[idx], depth+1)...)
							}
						}
					}
					if n > 0 {
						out = append(out, sub...)
						continue
					}
				}
			}
			call, isCall := r.(*ssa.Call)
			ridx := 0
			if ex, isEx := r.(*ssa.Extract); isEx {
				if cc, ok := ex.Tuple.(*ssa.Call); ok {
					call, isCall, ridx = cc, true, ex.Index
				}
			}
			if isCall {
				if h := call.Call.StaticCallee(); c25InPkgHelper(c25Outer(fn), h) {
					if o := h.Object(); o != nil && !o.Exported() {
						n := 0
						var sub []c28DV
						// values on failure returns (last result a known non-nil error) are never used by a caller
						// that checked the error
						rets := an.Returns(h)
						if nres := h.Signature.Results().Len(); nres > 1 && an.IsErrorType(h.Signature.Results().At(nres-1).Type()) && ridx != nres-1 {
							s1, u1 := c25SuccessReturns(h, nres-1)
							rets = append(append([]*ssa.Return{}, s1...), u1...)
						}
						for _, hr := range rets {
							if ridx < len(hr.Results) && !an.IsNilConst(hr.Results[ridx]) {
								n++
								sub = append(sub, c28Deep(fns, h, hr.Results[ridx], depth+1)...)
							}
						}
						if n > 0 {
							out = append(out, sub...)
							continue
						}
					}
				}
			}
		}
		out = append(out, c28DV{fn, r})
	}
	return out
}

// c28DeepAll: every leaf of v satisfies pred (and there is at least one).
func c28DeepAll(fns []*ssa.Function, fn *ssa.Function, v ssa.Value, pred func(c28DV) bool) bool {
	ls := c28Deep(fns, fn, v, 0)
	if len(ls) == 0 {
		return false
	}
	for _, l := range ls {
		if !pred(l) {
			return false
		}
	}
	return true
}

// c28Stores: provenance of every store to path.str / path.namespace / ImmutablePath.rootCid, wherever in the
// package it is made (values are resolved through package-local helpers and their callers).
func c28Stores(c *an.Ctx, fStr, fNS, fRoot *types.Var, nsVals []string, immutable map[string]bool, newPath *ssa.Function) {
	p := c.P
	const pp = "path"
	fns := p.PkgFuncs(pp)
	isInput := c28IsInput
	isSegments := func(l c28DV) bool { return c28IsSegments(fns, l) }
	segElem := func(l c28DV, idx int64) bool {
		s0, i, ok := c27Indexed(l.v)
		return ok && c25IsInt(idx)(i) && c28DeepAll(fns, l.fn, s0, isSegments)
	}
	isClean := func(l c28DV) bool {
		call, ok := l.v.(*ssa.Call)
		if !ok {
			return false
		}
		ci := an.Callee(call)
		return ci.Name == "SegmentsToString" && ci.Pkg == an.Mod+"/"+pp && len(call.Call.Args) == 1 && c28DeepAll(fns, l.fn, call.Call.Args[0], isSegments)
	}
	nStr := 0
	for _, fn := range fns {
		name := an.FuncName(fn)
		for _, st := range an.FieldStores(fn, fStr) {
			nStr++
			_, base := an.FieldOf(st.Addr)
			leaves := c28Deep(fns, fn, st.Val, 0)
			printer := false
			for _, l := range leaves {
				if call, ok := l.v.(*ssa.Call); ok && an.Callee(call).Pkg == "fmt" && an.Callee(call).Name == "Sprintf" {
					printer = true
				}
			}
			if !printer {
				good, why := len(leaves) > 0, ""
				for _, l := range leaves {
					switch x := l.v.(type) {
					case *ssa.Call:
						if !isClean(l) {
							good, why = false, "stored string is not SegmentsToString(StringToSegments(input))"
						}
					case *ssa.BinOp:
						okShape := x.Op == token.ADD && c28IsStr(x.Y, "/") && c28DeepAll(fns, l.fn, x.X, isClean)
						if !okShape {
							good, why = false, "stored string is not the cleaned string plus \"/\""
							break
						}
						lf := l
						e := an.CondEdges(l.fn, func(atom ssa.Value) (bool, bool) {
							call, ok := atom.(*ssa.Call)
							if !ok {
								// the test result parked in a field of a local struct
								if rs := c29RootsF(atom, 0); len(rs) == 1 {
									call, ok = rs[0].(*ssa.Call)
								}
							}
							if !ok {
								return false, false
							}
							ci := an.Callee(call)
							if ci.Pkg == "strings" && ci.Name == "HasSuffix" && c28IsStr(call.Call.Args[1], "/") && c28DeepAll(fns, lf.fn, call.Call.Args[0], isInput) {
								return true, false
							}
							return false, false
						})
						if len(e) == 0 || !an.GuardedBy(l.fn, nil, x, e) {
							good, why = false, "a trailing slash is appended without the input being known to end in \"/\""
						}
					default:
						good, why = false, "stored string derives from "+c25Desc(l.v)
					}
				}
				c.Check(good, "O2", "R-FLOW", name, "String()=clean(input)[+/]", st.Pos(), "printed form is the cleaned input (trailing slash preserved)", "path.str: "+why+": String() is not the canonical form and re-parsing it gives a different path")
				for _, ns := range an.StoresToField(fn, fNS, base) {
					okNS := c28DeepAll(fns, fn, ns.Val, func(l c28DV) bool { return segElem(l, 0) })
					c.Check(okNS, "O2", "R-FLOW", name, "Namespace()=segments[0]", ns.Pos(), "namespace is the first segment of the same segments", "path.namespace is stored from "+c25Desc(ns.Val)+", not from segments[0] of the parsed input: Namespace() disagrees with String()")
				}
				continue
			}
			// printer: Sprintf("/%s/%s", nsConst, x.String())
			good, why := false, "stored string is neither the cleaned input nor fmt.Sprintf(\"/%s/%s\", namespace, cid.String())"
			var nsConst string
			var printed ssa.Value
			if sp, ok := c25RootCall(st.Val, an.M("fmt", "", "Sprintf")); ok && c28IsStr(sp.Call.Args[0], "/%s/%s") {
				if va := c28Varargs(sp.Call.Args[1]); len(va) == 2 {
					if k, ok := an.ConstOf(c28Root(va[0])); ok && k.Kind() == constant.String {
						nsConst = constant.StringVal(k)
						if sc, ok := c25RootCall(va[1], an.M("github.com/ipfs/go-cid", "Cid", "String")); ok {
							printed = c28Root(an.Recv(sc))
							good = true
						}
					}
				}
			}
			if good {
				if !immutable[nsConst] {
					good, why = false, fmt.Sprintf("prints under namespace %q which NewPath does not parse as immutable", nsConst)
				}
				for _, ns := range an.StoresToField(fn, fNS, base) {
					if !c28IsStr(ns.Val, nsConst) {
						good, why = false, "printed namespace "+nsConst+" differs from the stored namespace "+c25Desc(ns.Val)
					}
				}
				for _, rs := range an.FieldStores(fn, fRoot) {
					if c28Root(rs.Val) != printed {
						good, why = false, "the printed CID is not the CID stored as root"
					}
				}
			}
			c.Check(good, "O2", "R-FLOW", name, "String()=/ns/cid", st.Pos(), "printed form is /"+nsConst+"/<stored root CID>", "path.str: "+why)
		}
		// rootCid stores decoded from a string: Decode(segments[1]) on the nil edge
		for _, rs := range an.FieldStores(fn, fRoot) {
			dc, ok := c25RootCall(rs.Val, an.M("github.com/ipfs/go-cid", "", "Decode"), an.M("github.com/ipfs/go-cid", "", "Parse"))
			if !ok {
				continue // a CID handed in (FromCid), checked with the printer
			}
			good := c28DeepAll(fns, fn, dc.Call.Args[0], func(l c28DV) bool { return segElem(l, 1) }) && an.OnNilEdgeOf(fn, dc, rs)
			c.Check(good, "O2", "R-FLOW", name, "root CID=Decode(segments[1])", rs.Pos(), "root CID decoded from the root segment on the nil edge", "ImmutablePath.rootCid is not cid.Decode(segments[1]) of the parsed path on its nil edge: RootCid() disagrees with the printed root")
		}
	}
	c.Min("O2 stores to path.str", nStr, 1)
	_ = newPath
}

// ---------------------------------------------------------------- O3 names

func c28Names(c *an.Ctx, ipnsNS string) {
	p := c.P
	const ip = "ipns"
	// the (single, unexported) string field of ipns.Name holding the raw multihash
	var fMH *types.Var
	if nn := p.Named(ip, "Name"); nn != nil {
		if st, ok := nn.Underlying().(*types.Struct); ok {
			for i := 0; i < st.NumFields(); i++ {
				if b, ok := st.Field(i).Type().Underlying().(*types.Basic); ok && b.Kind() == types.String {
					fMH = st.Field(i)
				}
			}
		}
	}
	prefix, _ := c25ConstString(p, ip, "NamespacePrefix")
	if !c.Need(fMH != nil && prefix != "", "ipns.Name.multihash / NamespacePrefix") {
		return
	}
	isPrefix := func(v ssa.Value) bool {
		r := c28Root(v)
		return c28IsStr(r, prefix)
	}
	// RoutingKey: WriteString(prefix) before WriteString(n.multihash), result = buffer bytes
	if rk := p.Func(ip, "Name", "RoutingKey"); c.Need(rk != nil, "ipns.Name.RoutingKey") {
		var wPre, wMH ssa.Instruction
		for _, call := range an.Calls(rk, an.M("bytes", "Buffer", "WriteString"), an.M("bytes", "Buffer", "Write")) {
			a := an.Args(call)[0]
			if isPrefix(a) {
				wPre = call
			} else if f, _ := c28FieldRead(a); f == fMH {
				wMH = call
			}
		}
		good := wPre != nil && wMH != nil && an.Dominates(wPre, wMH)
		if !good {
			// concatenation form
			for _, r := range an.Returns(rk) {
				parts := c28Concat(c28Root(r.Results[0]))
				if len(parts) == 2 && isPrefix(parts[0]) {
					if f, _ := c28FieldRead(parts[1]); f == fMH {
						good = true
					}
				}
			}
		}
		c.Check(good, "O3", "R-TABLE", an.FuncName(rk), "routing key = NamespacePrefix ++ name bytes", rk.Pos(), "prefix written first, then the raw multihash", "Name.RoutingKey does not produce NamespacePrefix followed by the multihash: NameFromRoutingKey(RoutingKey()) fails or yields another name")
	}
	// NameFromRoutingKey: HasPrefix(data, prefix) true edge; ID from TrimPrefix(data, prefix)
	if nf := p.Func(ip, "", "NameFromRoutingKey"); c.Need(nf != nil && len(nf.Params) == 1, "ipns.NameFromRoutingKey") {
		data := nf.Params[0]
		succ, _ := c25SuccessReturns(nf, 1)
		hp := an.CondEdges(nf, func(atom ssa.Value) (bool, bool) {
			call, ok := atom.(*ssa.Call)
			if !ok {
				return false, false
			}
			ci := an.Callee(call)
			if (ci.Pkg == "bytes" || ci.Pkg == "strings") && ci.Name == "HasPrefix" && c25RootsIn(call.Call.Args[0], []ssa.Value{data}) && isPrefix(call.Call.Args[1]) {
				return true, false
			}
			return false, false
		})
		// bytes.CutPrefix(data, prefix): its ok result is the prefix test
		for _, call := range an.Calls(nf, an.M("bytes", "", "CutPrefix"), an.M("strings", "", "CutPrefix")) {
			if cv := an.CallValue(call); cv != nil && c25RootsIn(cv.Call.Args[0], []ssa.Value{data}) && isPrefix(cv.Call.Args[1]) {
				hp = hp.Union(an.BoolEdges(nf, an.Result(cv, 1), true))
			}
		}
		good := len(hp) > 0 && len(succ) > 0
		for _, r := range succ {
			if !an.GuardedBy(nf, nil, r, hp) {
				good = false
			}
		}
		c.Check(good, "O3", "R-DOM", an.FuncName(nf), "requires NamespacePrefix", nf.Pos(), "success only where the key has the namespace prefix", "NameFromRoutingKey can succeed without the key being known to start with NamespacePrefix")
		stripped := false
		for _, call := range an.Calls(nf, an.M(c25Peer, "", "IDFromBytes")) {
			if tp, ok := c25RootCall(call.Common().Args[0], an.M("bytes", "", "TrimPrefix"), an.M("bytes", "", "CutPrefix")); ok && c25RootsIn(tp.Call.Args[0], []ssa.Value{data}) && isPrefix(tp.Call.Args[1]) {
				stripped = true
			} else if sl, ok := c28Root(call.Common().Args[0]).(*ssa.Slice); ok && c25RootsIn(sl.X, []ssa.Value{data}) && sl.Low != nil && c25IsInt(int64(len(prefix)))(sl.Low) {
				stripped = true
			}
		}
		c.Check(stripped, "O3", "R-TABLE", an.FuncName(nf), "strips NamespacePrefix", nf.Pos(), "peer ID parsed from the key minus the same prefix", "NameFromRoutingKey does not parse the peer ID from the key with exactly NamespacePrefix removed")
	}
	// codec agreement
	cidPkg := "github.com/ipfs/go-cid"
	var libp2p int64 = -1
	for _, imp := range p.Pkg(ip).Types.Imports() {
		if imp.Path() == cidPkg {
			if k, ok := imp.Scope().Lookup("Libp2pKey").(*types.Const); ok {
				libp2p, _ = constant.Int64Val(k.Val())
			}
		}
	}
	if c.Need(libp2p >= 0, "cid.Libp2pKey") {
		if cm := p.Func(ip, "Name", "Cid"); c.Need(cm != nil, "ipns.Name.Cid") {
			n, good := 0, true
			for _, call := range an.Calls(cm, an.M(cidPkg, "", "NewCidV1")) {
				n++
				a := call.Common().Args
				if !c25IsInt(libp2p)(a[0]) {
					good = false
				}
				mhc, ok := c25RootCall(a[1], an.M("github.com/multiformats/go-multihash", "", "Cast"))
				if !ok {
					good = false
				} else if f, _ := c28FieldRead(mhc.Call.Args[0]); f != fMH {
					good = false
				}
			}
			c.Check(n > 0 && good, "O3", "R-CONST", an.FuncName(cm), "Cid()=CIDv1(libp2p-key, name bytes)", cm.Pos(), "CID built with the libp2p-key codec over the name's multihash", "Name.Cid() does not build NewCidV1(cid.Libp2pKey, Cast(n.multihash)): NameFromCid(n.Cid()) is rejected or yields another name")
		}
		if nc := p.Func(ip, "", "NameFromCid"); c.Need(nc != nil && len(nc.Params) == 1, "ipns.NameFromCid") {
			cp := nc.Params[0]
			succ, _ := c25SuccessReturns(nc, 1)
			isCode := func(v ssa.Value) bool {
				tc, ok := c25RootCall(v, an.M(cidPkg, "Cid", "Type"), an.M(cidPkg, "Cid", "Prefix"))
				return ok && c25RootsIn(an.Recv(tc), []ssa.Value{cp})
			}
			e := c25RelEdges(nc, isCode, c25IsInt(libp2p), c25EQ, 0)
			good := len(e) > 0 && len(succ) > 0
			for _, r := range succ {
				if !an.GuardedBy(nc, nil, r, e) {
					good = false
				}
			}
			c.Check(good, "O3", "R-CONST", an.FuncName(nc), "requires libp2p-key codec", nc.Pos(), "success only where the CID codec equals cid.Libp2pKey", "NameFromCid can succeed without the codec being known equal to the libp2p-key codec used by Name.Cid()")
		}
	}
	// stores to Name.multihash: string(peer.ID) or string(c.Hash()) (NameFromCid)
	nSt := 0
	for _, fn := range p.PkgFuncs(ip) {
		for _, st := range an.FieldStores(fn, fMH) {
			nSt++
			root := c28Root(st.Val)
			good := false
			switch {
			case an.TypeIs(root.Type(), c25Peer, "ID"):
				good = true
			default:
				if hc, ok := an.IsCallTo(root, an.M(cidPkg, "Cid", "Hash")); ok {
					nc := p.Func(ip, "", "NameFromCid")
					good = fn == nc && len(fn.Params) == 1 && c25RootsIn(an.Recv(hc), []ssa.Value{fn.Params[0]})
				}
			}
			c.Check(good, "O3", "R-FLOW", an.FuncName(fn), "name bytes from peer ID / checked CID hash", st.Pos(), "multihash set from a peer ID or the hash of the codec-checked CID", "Name.multihash is stored from "+c25Desc(st.Val)+": the name no longer round-trips through its peer-ID / CID forms")
		}
	}
	c.Min("O3 stores to Name.multihash", nSt, 1)
	// Peer() is the inverse conversion
	if pm := p.Func(ip, "Name", "Peer"); c.Need(pm != nil, "ipns.Name.Peer") {
		good := false
		for _, r := range an.Returns(pm) {
			if f, _ := c28FieldRead(r.Results[0]); f == fMH {
				good = true
			}
		}
		c.Check(good, "O3", "R-FLOW", an.FuncName(pm), "Peer()=peer.ID(name bytes)", pm.Pos(), "peer ID is the stored multihash", "Name.Peer() does not return the stored multihash converted to peer.ID")
	}
	// String / JSON / AsPath
	if sm := p.Func(ip, "Name", "String"); c.Need(sm != nil, "ipns.Name.String") {
		good := false
		for _, call := range an.Calls(sm, an.M(cidPkg, "Cid", "StringOfBase"), an.M(cidPkg, "Cid", "String")) {
			if cc, ok := c25RootCall(an.Recv(call), an.M(ip, "Name", "Cid")); ok && c25RootsIn(an.Recv(cc), []ssa.Value{sm.Params[0]}) {
				for _, r := range an.Returns(sm) {
					if c25RootsIn(r.Results[0], an.Result(call, 0)) {
						good = true
					}
				}
			}
		}
		c.Check(good, "O3", "R-FLOW", an.FuncName(sm), "String()=Cid().StringOfBase", sm.Pos(), "string form is the string of the name's CID", "Name.String() does not return the string form of n.Cid()")
	}
	if mj, uj := p.Func(ip, "Name", "MarshalJSON"), p.Func(ip, "Name", "UnmarshalJSON"); c.Need(mj != nil && uj != nil, "ipns.Name.MarshalJSON/UnmarshalJSON") {
		okM := false
		for _, call := range an.Calls(mj, an.M("encoding/json", "", "Marshal")) {
			if sc, ok := c25RootCall(call.Common().Args[0], an.M(ip, "Name", "String")); ok && c25RootsIn(an.Recv(sc), []ssa.Value{mj.Params[0]}) {
				okM = true
			}
		}
		okU := len(an.Calls(uj, an.M(ip, "", "NameFromString"))) > 0
		c.Check(okM && okU, "O3", "R-TABLE", an.FuncName(mj), "JSON = String()/NameFromString", mj.Pos(), "JSON form written with String() and read with NameFromString", "Name JSON marshalling no longer pairs String() with NameFromString")
	}
	if ap := p.Func(ip, "Name", "AsPath"); c.Need(ap != nil, "ipns.Name.AsPath") {
		good := false
		for _, call := range an.Calls(ap, an.M("path", "", "NewPathFromSegments")) {
			va := c28Varargs(call.Common().Args[0])
			if len(va) == 2 && c28IsStr(va[0], ipnsNS) {
				if sc, ok := c25RootCall(va[1], an.M(ip, "Name", "String")); ok && c25RootsIn(an.Recv(sc), []ssa.Value{ap.Params[0]}) {
					good = true
				}
			}
		}
		c.Check(good, "O3", "R-TABLE", an.FuncName(ap), "AsPath=/IPNSNamespace/String()", ap.Pos(), "path form is /ipns/<String()>", "Name.AsPath() is not NewPathFromSegments(path.IPNSNamespace, n.String())")
	}
	if nfs := p.Func(ip, "", "NameFromString"); c.Need(nfs != nil && len(nfs.Params) == 1, "ipns.NameFromString") {
		good := false
		for _, call := range an.Calls(nfs, an.M(c25Peer, "", "Decode")) {
			rs := an.Roots(call.Common().Args[0], &an.FlowOpts{Through: func(cc *ssa.Call) ([]ssa.Value, bool) {
				ci := an.Callee(cc)
				if ci.Pkg == "strings" && ci.Name == "TrimPrefix" && isPrefix(cc.Call.Args[1]) {
					return cc.Call.Args[:1], true
				}
				return nil, false
			}})
			if len(rs) == 1 && rs[0] == ssa.Value(nfs.Params[0]) {
				good = true
			}
		}
		c.Check(good, "O3", "R-FLOW", an.FuncName(nfs), "NameFromString=Decode(trim NamespacePrefix)", nfs.Pos(), "parses the input with at most NamespacePrefix removed", "NameFromString no longer decodes its input with only NamespacePrefix trimmed")
	}
}
