package props

import (
	"fmt"
	"go/constant"
	"go/token"
	"go/types"

	"golang.org/x/tools/go/ssa"

	"verif/checker/an"
)

func init() {
	register("C04", Prop{
		Pkgs: []string{"./verifcid", "./blockservice"},
		Explain: "Decided (structural necessary conditions of 'only allowlisted hashes enter or leave the block service'): " +
			"O1 in package blockservice every call that stores, looks up or fetches blocks (Blockstore.Get/GetSize/Has/View/Put/PutMany, Fetcher.GetBlock/GetBlocks, NotifyNewBlocks) receives only CIDs / blocks / slices that are validated at that point: verifcid.ValidateCid(<allowlist>, <that CID or block.Cid()>) returned nil on every path, or the value is an element of a slice all of whose elements were validated (validating range loop that leaves the function on the first error), or a block obtained from the exchange for validated CIDs; the allowlist passed is the service's own (s.allowlist / grabAllowlistFromBlockservice) and grabAllowlistFromBlockservice returns the bounded service's Allowlist() or the default; " +
			"O2 getBlocks' filter: the key slice consumed after the filter is, on every path, either the filtered copy (prefix copied up to the index reached by a validating scan that only advances past valid CIDs, plus elements appended on ValidateCid's nil edge) or the original slice on the edge where that scan index equals its length (nothing unvalidated left); " +
			"O3 ValidateCid returns nil only where allowlist.IsAllowed(prefix.MhType) was true and MhLength >= MinDigestSize(MhType) and MhLength <= MaxDigestSize(MhType) (exact inclusive bounds, same allowlist, same prefix of the CID parameter), and non-nil on the complementary edges; the custom allowlist answers only from its map, its override or false, asks the override only where the two-result table lookup of that code reported no entry, and its exported constructors store each configuration parameter in the field of that type (a table parameter may instead be copied: any read of it counts); default bounds: DefaultMinDigestSize <= DefaultMaxDigestSize, identity minimum 0, identity maximum DefaultMaxIdentityDigestSize > 0. " +
			"O1 also: the service's Allowlist accessor (parameterless method with a verifcid.Allowlist result, through which sessions and the package-level readers obtain the allowlist) returns the service's allowlist field, anything else only where that field was tested nil; the allowlist field is written with a value that does not come from the caller (a default) only before the options run (no call of a function value receiving the service precedes the write) or where the field was tested nil. " +
			"NOT decided: the content of the default allowlist table (data), callers that bypass the block service through Blockstore()/Exchange(), DeleteBlock (does not store, fetch or return a block).",
		Assume:    []string{"blocks returned by the exchange carry the requested CIDs (the unchecked flows are reported by C05 O3)", "cid.Cid.Prefix() reports the multihash code and digest length of the CID"},
		Technique: "condition-edge dominance (R-DOM), loop-all / prefix-scan idioms over go/ssa range loops, value provenance through append chains and captured cells (R-FLOW), exact relational edges (R-CMP), constant facts (R-CONST)",
		Run:       runC04,
	})
}

const (
	c04Verifcid = "verifcid"
	c04BS       = "blockstore"
	c04Ex       = "exchange"
)

// c04v is the validation oracle for one function.
type c04v struct {
	c   *an.Ctx
	fn  *ssa.Function
	inf an.EdgeSet
	// why collects the reason of the last failure
	why string
}

// c04g: package-level summaries (memoised; 1 = holds, 2 = does not, 3 = in progress).
type c04g struct {
	fns      []*ssa.Function
	wrapper  map[*ssa.Function]int // error-returning func that validates its Cid/Block parameter
	wrapIdx  map[*ssa.Function]int
	allSlice map[*ssa.Function]int // error-returning func that validates every element of its slice parameter
	allIdx   map[*ssa.Function]int
	produces map[*ssa.Function]int // func whose slice result is validated on every return
}

var c04G *c04g

func c04NewG(fns []*ssa.Function) *c04g {
	return &c04g{fns: fns, wrapper: map[*ssa.Function]int{}, wrapIdx: map[*ssa.Function]int{}, allSlice: map[*ssa.Function]int{},
		allIdx: map[*ssa.Function]int{}, produces: map[*ssa.Function]int{}}
}

func c04New(c *an.Ctx, fn *ssa.Function) *c04v {
	return &c04v{c: c, fn: fn, inf: an.InfeasibleEdges(fn)}
}

func c04InPkg(f *ssa.Function) bool {
	if f == nil || c04G == nil {
		return false
	}
	for _, g := range c04G.fns {
		if g == f {
			return true
		}
	}
	return false
}

func c04HasErrResult(f *ssa.Function) bool {
	rs := f.Signature.Results()
	return rs.Len() > 0 && an.IsErrorType(rs.At(rs.Len()-1).Type())
}

// c04ev is a validation event: a call whose nil error establishes that the
// CID `arg` (or the CID of block `arg` when isBlock) passed ValidateCid.
type c04ev struct {
	call    *ssa.Call
	arg     ssa.Value
	isBlock bool
}

// isWrapper: f(…, x cid.Cid|blocks.Block, …) error reports success only where a
// validation event for its parameter x returned nil (or returns that event's
// error as it is): a call to f is itself a validation event for its argument.
func (g *c04g) isWrapper(c *an.Ctx, f *ssa.Function) (int, bool) {
	switch g.wrapper[f] {
	case 1:
		return g.wrapIdx[f], true
	case 2, 3:
		return 0, false
	}
	g.wrapper[f] = 3
	res := 2
	defer func() { g.wrapper[f] = res }()
	if !c04InPkg(f) || f.Parent() != nil || !c04HasErrResult(f) {
		return 0, false
	}
	idx := -1
	for i, prm := range f.Params {
		if an.TypeIs(prm.Type(), c01Cid, "Cid") || an.TypeIs(prm.Type(), c01Blocks, "Block") {
			if idx >= 0 {
				return 0, false
			}
			idx = i
		}
	}
	if idx < 0 {
		return 0, false
	}
	prm := f.Params[idx]
	v := c04New(c, f)
	var evs []c04ev
	for _, e := range v.events() {
		if an.TypeIs(prm.Type(), c01Cid, "Cid") && !e.isBlock && e.arg == ssa.Value(prm) {
			evs = append(evs, e)
		}
		if an.TypeIs(prm.Type(), c01Blocks, "Block") && ((e.isBlock && e.arg == ssa.Value(prm)) || (!e.isBlock && c02IsCidOf(e.arg, prm))) {
			evs = append(evs, e)
		}
	}
	if len(evs) == 0 {
		return 0, false
	}
	n := 0
	for _, r := range an.Returns(f) {
		if !an.Reaches(f, nil, r, nil, nil) || !c01PossiblySuccess(f, r) {
			continue
		}
		n++
		ok := false
		for _, e := range evs {
			if an.OnNilEdgeOf(f, e.call, r) {
				ok = true
			}
			for _, root := range an.Roots(an.RetVal(r, -1), nil) {
				if root == ssa.Value(e.call) {
					ok = true
				}
			}
		}
		if !ok {
			return 0, false
		}
	}
	if n == 0 {
		return 0, false
	}
	res = 1
	g.wrapIdx[f] = idx
	return idx, true
}

// isAllValidator: f(…, xs []cid.Cid|[]blocks.Block, …) error reports success only
// after a validating scan ran over the whole parameter.
func (g *c04g) isAllValidator(c *an.Ctx, f *ssa.Function) (int, bool) {
	switch g.allSlice[f] {
	case 1:
		return g.allIdx[f], true
	case 2, 3:
		return 0, false
	}
	g.allSlice[f] = 3
	res := 2
	defer func() { g.allSlice[f] = res }()
	if !c04InPkg(f) || f.Parent() != nil || !c04HasErrResult(f) {
		return 0, false
	}
	idx := -1
	for i, prm := range f.Params {
		if c04IsCidSlice(prm.Type()) || c04IsBlockSlice(prm.Type()) {
			idx = i
		}
	}
	if idx < 0 {
		return 0, false
	}
	v := c04New(c, f)
	n := 0
	for _, r := range an.Returns(f) {
		if !an.Reaches(f, nil, r, nil, nil) || !c01PossiblySuccess(f, r) {
			continue
		}
		n++
		if !v.fullyValidatedLocal(f.Params[idx], r, nil) {
			return 0, false
		}
	}
	if n == 0 {
		return 0, false
	}
	res = 1
	g.allIdx[f] = idx
	return idx, true
}

// producesValid: every slice f returns is validated at its return.
func (g *c04g) producesValid(c *an.Ctx, f *ssa.Function) bool {
	switch g.produces[f] {
	case 1:
		return true
	case 2, 3:
		return false
	}
	g.produces[f] = 3
	res := 2
	defer func() { g.produces[f] = res }()
	if !c04InPkg(f) || f.Signature.Results().Len() == 0 {
		return false
	}
	t := f.Signature.Results().At(0).Type()
	if !c04IsCidSlice(t) && !c04IsBlockSlice(t) {
		return false
	}
	v := c04New(c, f)
	n := 0
	for _, r := range an.Returns(f) {
		if !an.Reaches(f, nil, r, nil, nil) {
			continue
		}
		rv := an.RetVal(r, 0)
		if an.IsNilConst(rv) {
			continue
		}
		n++
		if !v.validSlice(rv, r, 1) {
			return false
		}
	}
	if n == 0 {
		return false
	}
	res = 1
	return true
}

// events lists the validation events of v.fn: direct ValidateCid calls and
// calls to package wrappers.
func (v *c04v) events() []c04ev {
	var out []c04ev
	for _, V := range v.validateCalls() {
		out = append(out, c04ev{V, V.Call.Args[1], false})
	}
	if c04G != nil {
		for _, call := range an.AllCalls(v.fn) {
			cv := an.CallValue(call)
			f := call.Common().StaticCallee()
			if cv == nil || f == nil || f == v.fn {
				continue
			}
			if idx, ok := c04G.isWrapper(v.c, f); ok {
				out = append(out, c04ev{cv, cv.Call.Args[idx], an.TypeIs(f.Params[idx].Type(), c01Blocks, "Block")})
			}
		}
	}
	return out
}

// callersValid: x is a parameter of an unexported package function; it is
// validated inside if the corresponding argument is validated at every call
// site of the function in the package (the caller holds the obligation).
func (v *c04v) callersValid(x ssa.Value, depth int, kind string) bool {
	prm, ok := x.(*ssa.Parameter)
	if !ok || c04G == nil || depth > 4 {
		return false
	}
	f := prm.Parent()
	if f != v.fn || f.Parent() != nil || f.Object() == nil || f.Object().Exported() {
		return false
	}
	idx := -1
	for i, q := range f.Params {
		if q == prm {
			idx = i
		}
	}
	n := 0
	for _, g := range c04G.fns {
		for _, call := range an.AllCalls(g) {
			if call.Common().StaticCallee() != f {
				continue
			}
			if _, isCall := call.(*ssa.Call); !isCall {
				return false // go/defer of the helper: the argument is evaluated elsewhere
			}
			n++
			w := c04New(v.c, g)
			a := call.Common().Args[idx]
			var good bool
			switch kind {
			case "cid":
				good = w.validCID(a, call, depth+1)
			case "block":
				good = w.validBlock(a, call, depth+1)
			default:
				good = w.validSlice(a, call, depth+1)
			}
			if !good {
				v.why = "caller " + an.FuncName(g) + ": " + w.why
				return false
			}
		}
	}
	return n > 0
}

func (v *c04v) fail(format string, a ...any) bool {
	v.why = fmt.Sprintf(format, a...)
	return false
}

func c04IsCidSlice(t types.Type) bool {
	s, ok := t.Underlying().(*types.Slice)
	return ok && an.TypeIs(s.Elem(), c01Cid, "Cid")
}

func c04IsBlockSlice(t types.Type) bool {
	s, ok := t.Underlying().(*types.Slice)
	return ok && an.TypeIs(s.Elem(), c01Blocks, "Block")
}

func (v *c04v) validateCalls() []*ssa.Call {
	var out []*ssa.Call
	for _, call := range an.Calls(v.fn, an.M(c04Verifcid, "", "ValidateCid")) {
		if cv := an.CallValue(call); cv != nil {
			out = append(out, cv)
		}
	}
	return out
}

// validatesCid: V validates the CID value x (same value) or, for a block b,
// b.Cid().
func c04Validates(e c04ev, cidv, blk ssa.Value) bool {
	a := e.arg
	if e.isBlock {
		// the event validated a block: covers that block and its Cid()
		if blk != nil && (a == blk || an.SameObj(a, blk)) {
			return true
		}
		return cidv != nil && c02IsCidOf(cidv, a)
	}
	if cidv != nil && (a == cidv || an.SameObj(a, cidv)) {
		return true
	}
	if blk != nil && c02IsCidOf(a, blk) {
		return true
	}
	return false
}

// guarded: site is reached, after V, only on V's nil edge.
func (v *c04v) onNil(V *ssa.Call, site ssa.Instruction) bool {
	return an.OnNilEdgeOf(v.fn, V, site)
}

// validCID: the CID value x is validated at site.
func (v *c04v) validCID(x ssa.Value, site ssa.Instruction, depth int) bool {
	if depth > 6 {
		return v.fail("validation chain too deep")
	}
	for _, e := range v.events() {
		if c04Validates(e, x, nil) && v.onNil(e.call, site) {
			return true
		}
	}
	// element of a validated CID slice
	for _, l := range an.SliceLoops(v.fn) {
		if l.IsElem(x) {
			if v.validSlice(l.Slice, site, depth+1) {
				return true
			}
			return false
		}
	}
	// Cid() of a validated block
	rs := an.Roots(x, nil)
	if len(rs) == 1 {
		if rc, ok := rs[0].(*ssa.Call); ok && an.Callee(rc).Name == "Cid" && len(an.Args(rc)) == 0 && an.Recv(rc) != nil {
			if v.validBlock(an.Recv(rc), site, depth+1) {
				return true
			}
			return false
		}
	}
	if v.callersValid(x, depth, "cid") {
		return true
	}
	return v.fail("CID %s reaches the call without a successful ValidateCid on every path", an.PathOf(x))
}

// exchangeOrigin: b was produced by the exchange: result of Fetcher.GetBlock
// or received from the channel returned by Fetcher.GetBlocks. It returns the
// originating call.
func c04ExchangeOrigin(b ssa.Value) *ssa.Call { return c04ExchangeOriginD(b, 0) }

func c04ExchangeOriginD(b ssa.Value, depth int) *ssa.Call {
	// viaCallers: v is a parameter of an unexported helper; the origin of the
	// corresponding argument at every call site (all must have one)
	viaCallers := func(v ssa.Value, chanArg bool) *ssa.Call {
		prm, ok := v.(*ssa.Parameter)
		if !ok || c04G == nil || depth > 3 || !an.IsLocalHelper(prm.Parent()) {
			return nil
		}
		var first *ssa.Call
		sites := an.CallSitesOf(c04G.fns, prm.Parent())
		for _, cs := range sites {
			a := cs.Call.Common().Args[an.RawParamIndex(prm)]
			var org *ssa.Call
			if chanArg {
				for _, cr := range an.Roots(a, nil) {
					if gc, ok := an.IsCallTo(cr, an.M(c04Ex, "", "GetBlocks")); ok && gc.Call.IsInvoke() {
						org = gc
					}
				}
			} else {
				org = c04ExchangeOriginD(a, depth+1)
			}
			if org == nil {
				return nil
			}
			if first == nil {
				first = org
			}
		}
		return first
	}
	for _, r := range an.Roots(b, nil) {
		if gc, ok := an.IsCallTo(r, an.M(c04Ex, "", "GetBlock")); ok && gc.Call.IsInvoke() {
			return gc
		}
		if ch := an.RecvChan(r); ch != nil {
			for _, cr := range an.Roots(ch, nil) {
				if gc, ok := an.IsCallTo(cr, an.M(c04Ex, "", "GetBlocks")); ok && gc.Call.IsInvoke() {
					return gc
				}
				if org := viaCallers(cr, true); org != nil {
					return org
				}
			}
		}
		if an.TypeIs(r.Type(), c01Blocks, "Block") {
			if org := viaCallers(r, false); org != nil {
				return org
			}
		}
	}
	return nil
}

// validBlock: block b carries a validated CID at site.
func (v *c04v) validBlock(b ssa.Value, site ssa.Instruction, depth int) bool {
	if depth > 6 {
		return v.fail("validation chain too deep")
	}
	for _, e := range v.events() {
		if c04Validates(e, nil, b) && v.onNil(e.call, site) {
			return true
		}
	}
	for _, l := range an.SliceLoops(v.fn) {
		if l.IsElem(b) {
			return v.validSlice(l.Slice, site, depth+1)
		}
	}
	if gc := c04ExchangeOrigin(b); gc != nil {
		// every root must be that exchange result
		for _, r := range an.Roots(b, nil) {
			if c04ExchangeOrigin(r) != gc {
				return v.fail("block %s has several producers", an.PathOf(b))
			}
		}
		arg := an.Args(gc)[1]
		w := v
		if gc.Parent() != v.fn {
			w = c04New(v.c, gc.Parent()) // the fetch happened in a caller
		}
		var good bool
		if c04IsCidSlice(arg.Type()) {
			good = w.validSlice(arg, gc, depth+1)
		} else {
			good = w.validCID(arg, gc, depth+1)
		}
		if !good && w != v {
			v.why = w.why
		}
		return good
	}
	if v.callersValid(b, depth, "block") {
		return true
	}
	return v.fail("block %s reaches the call without a successful ValidateCid of its CID on every path", an.PathOf(b))
}

// scanLoop describes a range loop that validates its elements and only
// advances past valid ones.
func (v *c04v) isScan(l *an.RangeLoop) bool {
	var V *ssa.Call
	for _, ev := range v.events() {
		cand := ev.call
		if !l.Contains(cand) {
			continue
		}
		a := ev.arg
		if l.IsElem(a) {
			V = cand
		} else if rs := an.Roots(a, nil); len(rs) == 1 {
			if rc, ok := rs[0].(*ssa.Call); ok && an.Callee(rc).Name == "Cid" && an.Recv(rc) != nil && l.IsElem(an.Recv(rc)) {
				V = cand
			}
		}
	}
	if V == nil {
		return false
	}
	// next iteration only via V's nil edge
	nilE := an.NilEdges(v.fn, an.ErrResult(V), true)
	if an.Reaches(v.fn, l.If, l.Header.Instrs[0], nilE.Union(an.EdgeSet{an.Edge{From: l.Header, Succ: 1}: true}), nil) {
		return false
	}
	return true
}

// fullyValidated: slice value s (a parameter or another immutable value) has
// been scanned to exhaustion by a validating loop before site.
func (v *c04v) fullyValidated(s ssa.Value, site ssa.Instruction) bool {
	return v.fullyValidatedVia(s, site, nil)
}

// fullyValidatedVia: as fullyValidated, for a value that reaches its use
// through the CFG edge via (nil: at site itself).
func (v *c04v) fullyValidatedVia(s ssa.Value, site ssa.Instruction, via *an.Edge) bool {
	if v.fullyValidatedLocal(s, site, via) {
		return true
	}
	// a package helper that validates every element, on its nil edge
	if c04G != nil {
		for _, call := range an.AllCalls(v.fn) {
			cv := an.CallValue(call)
			f := call.Common().StaticCallee()
			if cv == nil || f == nil || f == v.fn {
				continue
			}
			if idx, ok := c04G.isAllValidator(v.c, f); ok {
				a := cv.Call.Args[idx]
				if (a == s || an.SameObj(a, s)) && an.OnNilEdgeOf(v.fn, cv, site) {
					return true
				}
			}
		}
	}
	return false
}

// fullyValidatedLocal: inside v.fn, s was scanned to exhaustion by a
// validating loop before site, or site is reachable only across an edge on
// which a validated-prefix length of such a scan equals len(s).
func (v *c04v) fullyValidatedLocal(s ssa.Value, site ssa.Instruction, via *an.Edge) bool {
	for _, l := range an.SliceLoops(v.fn) {
		if !(l.Slice == s || an.SameObj(l.Slice, s)) || !v.isScan(l) {
			continue
		}
		if l.After(site) {
			return true
		}
		isL := func(x ssa.Value) bool { return c04PrefixLen(l, x, map[ssa.Value]bool{}) && x != l.Idx }
		isLen := func(x ssa.Value) bool {
			lc, ok := an.IsBuiltinCall(x, "len")
			return ok && (lc.Call.Args[0] == s || an.SameObj(lc.Call.Args[0], s))
		}
		edges := an.EdgeSet{}
		for e := range an.RelEdges(v.fn, isL, isLen, an.RelEQ) {
			if in := e.From.Instrs[len(e.From.Instrs)-1]; l.After(in) || c04AfterAnyExit(l, in) {
				edges[e] = true
			}
		}
		if len(edges) > 0 && ((via != nil && edges[*via]) || an.GuardedBy(v.fn, nil, site, edges.Union(v.inf))) {
			return true
		}
	}
	return false
}

// prefixLen: x is an index value that never exceeds the number of elements of
// l's slice validated so far: 0, the loop index, or phis of those.
func c04PrefixLen(l *an.RangeLoop, x ssa.Value, seen map[ssa.Value]bool) bool {
	if seen[x] {
		return true
	}
	seen[x] = true
	if x == l.Idx {
		return true
	}
	if k, ok := an.ConstOf(x); ok && k.String() == "0" {
		return true
	}
	if phi, ok := x.(*ssa.Phi); ok {
		if inc, isInc := l.Idx.(*ssa.BinOp); isInc && phi == inc.X {
			return false // the pre-increment index of a range loop (-1 initially)
		}
		for _, e := range phi.Edges {
			if !c04PrefixLen(l, e, seen) {
				return false
			}
		}
		return true
	}
	return false
}

// validSlice: every element of slice value s is validated at site.
func (v *c04v) validSlice(s ssa.Value, site ssa.Instruction, depth int) bool {
	if depth > 6 {
		return v.fail("validation chain too deep")
	}
	// variadic pack / fixed array: slice of a local array
	if sl, ok := s.(*ssa.Slice); ok {
		if arr, ok := sl.X.(*ssa.Alloc); ok {
			if _, isArr := arr.Type().Underlying().(*types.Pointer).Elem().Underlying().(*types.Array); isArr {
				n := 0
				for _, ref := range *arr.Referrers() {
					ia, ok := ref.(*ssa.IndexAddr)
					if !ok {
						continue
					}
					for _, rr := range *ia.Referrers() {
						st, ok := rr.(*ssa.Store)
						if !ok || st.Addr != ia || an.IsNilConst(st.Val) {
							continue
						}
						n++
						okE := false
						if an.TypeIs(st.Val.Type(), c01Cid, "Cid") {
							okE = v.validCID(st.Val, site, depth+1)
						} else {
							okE = v.validBlock(st.Val, site, depth+1)
						}
						if !okE {
							return false
						}
					}
				}
				return n > 0 || v.fail("empty variadic pack")
			}
		}
	}
	// a load of a (captured) cell: path-sensitive treatment
	if u, ok := s.(*ssa.UnOp); ok && u.Op == token.MUL {
		if cell := an.CellOf(u.X); cell != nil {
			if _, isSlice := cell.Type().Underlying().(*types.Pointer).Elem().Underlying().(*types.Slice); isSlice {
				return v.validCell(cell, u, site, depth)
			}
		}
	}
	// backward walk through phis, re-slicing and append chains; a value that
	// flows in through a phi edge only has to be valid on that CFG edge
	type rootAt struct {
		v   ssa.Value
		at  ssa.Instruction
		via *an.Edge
	}
	var rootsAt []rootAt
	var apps []*ssa.Call
	type wkey struct {
		v  ssa.Value
		at ssa.Instruction
	}
	seenW := map[wkey]bool{}
	seenApp := map[*ssa.Call]bool{}
	var walk func(x ssa.Value, at ssa.Instruction, via *an.Edge)
	walk = func(x ssa.Value, at ssa.Instruction, via *an.Edge) {
		if x == nil || seenW[wkey{x, at}] {
			return
		}
		seenW[wkey{x, at}] = true
		switch y := x.(type) {
		case *ssa.Phi:
			for k, e := range y.Edges {
				pred := y.Block().Preds[k]
				if len(pred.Instrs) == 0 {
					rootsAt = append(rootsAt, rootAt{e, at, via})
					continue
				}
				succ := 0
				for i, sb := range pred.Succs {
					if sb == y.Block() {
						succ = i
					}
				}
				walk(e, pred.Instrs[len(pred.Instrs)-1], &an.Edge{From: pred, Succ: succ})
			}
		case *ssa.Slice:
			walk(y.X, at, via)
		case *ssa.ChangeType:
			walk(y.X, at, via)
		case *ssa.Call:
			if _, isApp := an.IsBuiltinCall(y, "append"); isApp {
				if !seenApp[y] {
					seenApp[y] = true
					apps = append(apps, y)
				}
				walk(y.Call.Args[0], at, via)
				return
			}
			rootsAt = append(rootsAt, rootAt{x, at, via})
		case *ssa.UnOp:
			// local cells: all stored values (path-insensitive)
			if _, isAlloc := y.X.(*ssa.Alloc); isAlloc && y.Op == token.MUL {
				for _, r := range an.Roots(y, nil) {
					if r == x {
						rootsAt = append(rootsAt, rootAt{x, at, via})
					} else {
						walk(r, at, via)
					}
				}
				return
			}
			rootsAt = append(rootsAt, rootAt{x, at, via})
		default:
			rootsAt = append(rootsAt, rootAt{x, at, via})
		}
	}
	walk(s, site, nil)
	for _, ra := range rootsAt {
		r, site := ra.v, ra.at
		switch x := r.(type) {
		case *ssa.Const:
			if !x.IsNil() {
				return v.fail("slice constant")
			}
		case *ssa.MakeSlice:
			if k, ok := an.ConstOf(x.Len); ok && k.String() == "0" {
				continue
			}
			if !v.prefixCopy(x, site) {
				return false
			}
		default:
			if v.fullyValidatedVia(r, site, ra.via) {
				continue
			}
			// result of a package function that only returns validated slices
			var pc *ssa.Call
			switch x := r.(type) {
			case *ssa.Call:
				pc = x
			case *ssa.Extract:
				if x.Index == 0 {
					pc, _ = x.Tuple.(*ssa.Call)
				}
			}
			if pc != nil && c04G != nil && pc.Call.StaticCallee() != nil && pc.Call.StaticCallee() != v.fn && c04G.producesValid(v.c, pc.Call.StaticCallee()) {
				continue
			}
			if v.callersValid(r, depth, "slice") {
				continue
			}
			return v.fail("slice %s is used without every element having passed ValidateCid (no validating loop that runs to completion before the call)", an.PathOf(r))
		}
	}
	for _, ap := range apps {
		elems, ok := an.AppendElems(ap)
		if !ok {
			// append(a, b...): b must be validated as a whole
			if !v.validSlice(ap.Call.Args[1], ap, depth+1) {
				return false
			}
			continue
		}
		for _, e := range elems {
			okE := false
			if an.TypeIs(e.Type(), c01Cid, "Cid") {
				okE = v.validCID(e, ap, depth+1)
			} else {
				okE = v.validBlock(e, ap, depth+1)
			}
			if !okE {
				return v.fail("an element is appended to the slice without a successful ValidateCid (%s)", v.why)
			}
		}
	}
	return true
}

// prefixCopy: make([]T, L, ..) followed by copy(dst, S[:L]) where L is a
// validated-prefix length of a scan loop over S.
func (v *c04v) prefixCopy(mk *ssa.MakeSlice, site ssa.Instruction) bool {
	for _, l := range an.SliceLoops(v.fn) {
		if !v.isScan(l) || !c04PrefixLen(l, mk.Len, map[ssa.Value]bool{}) {
			continue
		}
		// copy(mk, S'[:L]) dominating site, S' the same slice as the scanned one
		for _, ref := range *mk.Referrers() {
			cp, ok := ref.(*ssa.Call)
			if !ok {
				continue
			}
			if _, isCopy := an.IsBuiltinCall(cp, "copy"); !isCopy || cp.Call.Args[0] != ssa.Value(mk) {
				continue
			}
			src, ok := cp.Call.Args[1].(*ssa.Slice)
			if !ok || src.Low != nil || src.High != mk.Len {
				continue
			}
			if !c04SameSlice(v.fn, src.X, l.Slice) {
				continue
			}
			if an.Dominates(cp, site) || cp.Block().Dominates(site.Block()) {
				return true
			}
		}
	}
	return v.fail("a slice is created with a non-zero length that is not the validated prefix of a scanned slice (or the prefix is never copied)")
}

// c04SameSlice: a and b denote the same slice value: identical SSA value, or
// two loads of the same cell with no store to the cell in between.
func c04SameSlice(fn *ssa.Function, a, b ssa.Value) bool {
	if a == b {
		return true
	}
	ua, ok1 := a.(*ssa.UnOp)
	ub, ok2 := b.(*ssa.UnOp)
	if !ok1 || !ok2 || ua.Op != token.MUL || ub.Op != token.MUL {
		return an.SameObj(a, b)
	}
	ca, cb := an.CellOf(ua.X), an.CellOf(ub.X)
	if ca == nil || ca != cb {
		return false
	}
	for _, st := range c04CellStores(fn, ca) {
		for _, pair := range [][2]ssa.Instruction{{ua, ub}, {ub, ua}} {
			if an.Reaches(fn, pair[0], st, nil, nil) && an.Reaches(fn, st, pair[1], nil, nil) {
				return false
			}
		}
	}
	return true
}

// c04CellStores: stores to the cell made inside fn.
func c04CellStores(fn *ssa.Function, cell *ssa.Alloc) []*ssa.Store {
	var out []*ssa.Store
	an.Instrs(fn, func(in ssa.Instruction) {
		if st, ok := in.(*ssa.Store); ok && an.CellOf(st.Addr) == cell {
			out = append(out, st)
		}
	})
	return out
}

// validCell: the slice loaded from a captured cell at `load` is validated at
// site: every store to the cell inside this function stores a validated
// chain, and the initial (outer) value reaches the load only across an edge
// where a validated-prefix length of a scan over that value equals its len.
func (v *c04v) validCell(cell *ssa.Alloc, load *ssa.UnOp, site ssa.Instruction, depth int) bool {
	fn := v.fn
	if load.Parent() != fn {
		return v.fail("slice cell loaded in another function")
	}
	stores := c04CellStores(fn, cell)
	blocked := map[ssa.Instruction]bool{}
	for _, st := range stores {
		if an.Reaches(fn, st, load, nil, nil) {
			if !v.validSlice(st.Val, st, depth+1) {
				return false
			}
		}
		blocked[st] = true
	}
	// loads of the cell that still see the initial value
	initial := func(x ssa.Value) bool {
		u, ok := x.(*ssa.UnOp)
		if !ok || u.Op != token.MUL || an.CellOf(u.X) != cell || u.Parent() != fn {
			return false
		}
		for _, st := range stores {
			if an.Reaches(fn, st, u, nil, nil) {
				return false
			}
		}
		return true
	}
	// is the initial value stored by an enclosing function a plain parameter, and does this function run it only once? (closure)
	edges := an.EdgeSet{}
	for _, l := range an.SliceLoops(fn) {
		if !initial(l.Slice) || !v.isScan(l) {
			continue
		}
		isL := func(x ssa.Value) bool { return c04PrefixLen(l, x, map[ssa.Value]bool{}) && x != l.Idx }
		isLen := func(x ssa.Value) bool {
			lc, ok := an.IsBuiltinCall(x, "len")
			return ok && initial(lc.Call.Args[0])
		}
		for e := range an.RelEdges(fn, isL, isLen, an.RelEQ) {
			// the comparison must happen after the scan loop is left
			if in := e.From.Instrs[len(e.From.Instrs)-1]; l.After(in) || c04AfterAnyExit(l, in) {
				edges[e] = true
			}
		}
		// the loop run to exhaustion also validates everything
		if l.After(load) {
			return true
		}
	}
	if an.Reaches(fn, nil, load, edges.Union(v.inf), blocked) {
		return v.fail("the unfiltered key slice can reach the lookup/fetch loop on a path where neither the filtered copy was installed nor the validating scan covered the whole slice")
	}
	return true
}

// c04AfterAnyExit: instruction in is outside the loop and dominated by the
// loop header (reached only after the loop was entered and left).
func c04AfterAnyExit(l *an.RangeLoop, in ssa.Instruction) bool {
	return !l.Contains(in) && (l.Header.Dominates(in.Block()))
}

func runC04(c *an.Ctx) {
	c04Service(c)
	c04Validate(c)
}

// c04Sensitive: the call stores, looks up or fetches blocks.
func c04Sensitive(call ssa.CallInstruction) (string, bool) {
	if !call.Common().IsInvoke() {
		return "", false
	}
	ci := an.Callee(call)
	recvT := call.Common().Value.Type()
	isBS := an.TypeIs(recvT, c04BS, "Blockstore") || an.TypeIs(recvT, c04BS, "Viewer") || an.TypeIs(recvT, c04BS, "GCBlockstore")
	isEx := an.TypeIs(recvT, c04Ex, "Fetcher") || an.TypeIs(recvT, c04Ex, "Interface") || an.TypeIs(recvT, c04Ex, "SessionExchange")
	switch {
	case isBS && (ci.Name == "Get" || ci.Name == "GetSize" || ci.Name == "Has" || ci.Name == "View" || ci.Name == "Put" || ci.Name == "PutMany"):
		return "Blockstore." + ci.Name, true
	case isEx && (ci.Name == "GetBlock" || ci.Name == "GetBlocks" || ci.Name == "NotifyNewBlocks"):
		return "exchange." + ci.Name, true
	}
	return "", false
}

// c04SessionOwnership: a session embedded in a context is only ever used by
// the block service it belongs to. Either sessions are stored under their own
// service (`WithValue(ctx, ses.bs, ses)`) and looked up under the asking
// service (`ctx.Value(bs)`), or the lookup function hands a session out only
// on the edge where `<session>.bs == <asking service>`; and every caller of
// the lookup asks for its own service (receiver / BlockService parameter).
func c04SessionOwnership(c *an.Ctx, fns []*ssa.Function, ob string) {
	const pkg = "blockservice"
	type embed struct {
		fn   *ssa.Function
		call ssa.CallInstruction
		ok   bool
	}
	type lookup struct {
		fn     *ssa.Function
		call   ssa.CallInstruction
		keyOK  bool
		eqOK   bool
		keyPrm *ssa.Parameter // the BlockService parameter of the lookup function
	}
	var embeds []embed
	var lookups []lookup
	for _, fn := range fns {
		for _, call := range an.Calls(fn, an.M("context", "", "WithValue")) {
			args := call.Common().Args
			if len(args) != 3 {
				continue
			}
			var ses ssa.Value
			for _, r := range an.Roots(args[2], nil) {
				if an.TypeIs(r.Type(), pkg, "Session") {
					ses = r
				}
			}
			if ses == nil {
				continue
			}
			ok := false
			for _, r := range an.Roots(args[1], nil) {
				if u, isU := r.(*ssa.UnOp); isU && u.Op == token.MUL {
					if f, base := an.FieldOf(u.X); f != nil && an.TypeIs(f.Type(), pkg, "BlockService") && base == ses {
						ok = true
					}
				}
			}
			embeds = append(embeds, embed{fn, call, ok})
		}
		for _, call := range an.AllCalls(fn) {
			cs := call.Common()
			if !cs.IsInvoke() || cs.Method.Name() != "Value" || !an.TypeIs(cs.Value.Type(), "context", "Context") {
				continue
			}
			// only lookups whose result becomes a *Session
			var asserted []ssa.Value
			for _, u := range an.Uses(call.(ssa.Value)) {
				if ta, isTA := u.(*ssa.TypeAssert); isTA && an.TypeIs(ta.AssertedType, pkg, "Session") {
					if ta.CommaOk {
						for _, ref := range *ta.Referrers() {
							if e, isE := ref.(*ssa.Extract); isE && e.Index == 0 {
								asserted = append(asserted, e)
							}
						}
					} else {
						asserted = append(asserted, ta)
					}
				}
			}
			if len(asserted) == 0 {
				continue
			}
			lk := lookup{fn: fn, call: call}
			for _, q := range fn.Params {
				if an.TypeIs(q.Type(), pkg, "BlockService") {
					lk.keyPrm = q
				}
			}
			for _, r := range an.Roots(cs.Args[0], nil) {
				if prm, isP := r.(*ssa.Parameter); isP && prm == lk.keyPrm {
					lk.keyOK = true
				}
			}
			// equality test: every return of the session found is on an edge where
			// <session>.bs == <asking service>
			if lk.keyPrm != nil {
				al := an.Aliases(asserted...)
				isOwner := func(v ssa.Value) bool {
					for _, r := range an.Roots(v, nil) {
						u, isU := r.(*ssa.UnOp)
						if !isU || u.Op != token.MUL {
							return false
						}
						f, base := an.FieldOf(u.X)
						if f == nil || !an.TypeIs(f.Type(), pkg, "BlockService") || !al[base] {
							return false
						}
					}
					return true
				}
				isAsker := func(v ssa.Value) bool {
					rs := an.Roots(v, nil)
					return len(rs) == 1 && rs[0] == ssa.Value(lk.keyPrm)
				}
				same := an.RelEdges(fn, isOwner, isAsker, an.RelEQ)
				n, all := 0, true
				for _, r := range an.Returns(fn) {
					if len(r.Results) == 0 || !an.Reaches(fn, nil, r, nil, nil) {
						continue
					}
					rv := an.RetVal(r, 0)
					if an.IsNilConst(rv) || !an.TypeIs(rv.Type(), pkg, "Session") {
						continue
					}
					n++
					if len(same) == 0 || !an.GuardedBy(fn, nil, r, same) {
						all = false
					}
				}
				lk.eqOK = n > 0 && all
			}
			lookups = append(lookups, lk)
		}
	}
	allEmbedOK, allEq := true, len(lookups) > 0
	for _, e := range embeds {
		if !e.ok {
			allEmbedOK = false
		}
	}
	for _, l := range lookups {
		if !l.eqOK {
			allEq = false
		}
	}
	nKey := 0
	for _, e := range embeds {
		nKey++
		c.Check(e.ok || allEq, ob, "R-FLOW", an.FuncName(e.fn), "WithValue(key=<session>.bs)", e.call.Pos(), "a session is embedded under its own block service (or every lookup checks the owner)",
			"a session is stored in the context under a key that is not its own block service, and the lookup does not check `<session>.bs == <asking service>`: another block service sharing the context finds it and fetches through / caches into the wrong service (and validates with the wrong allowlist)")
	}
	for _, l := range lookups {
		nKey++
		name := an.FuncName(l.fn)
		if !c.Check(l.keyPrm != nil && (l.eqOK || (l.keyOK && allEmbedOK)), ob, "R-FLOW", name, "ctx.Value(<block service parameter>)", l.call.Pos(), "an embedded session is handed out only to the block service it belongs to",
			"a session found in the context is handed out without being known to belong to the asking block service (not looked up under the service, no `<session>.bs == <service>` test on the use edge): GetBlock/GetBlocks/NewSession of one service are routed to another service's session") {
			continue
		}
		idx := an.RawParamIndex(l.keyPrm)
		for _, g := range fns {
			for _, gc := range an.AllCalls(g) {
				if gc.Common().StaticCallee() != l.fn {
					continue
				}
				nKey++
				okA := false
				for _, r := range an.Roots(gc.Common().Args[idx], nil) {
					if prm, isP := r.(*ssa.Parameter); isP && (prm == g.Params[0] || an.TypeIs(prm.Type(), pkg, "BlockService")) {
						okA = true
					}
				}
				c.Check(okA, ob, "R-FLOW", an.FuncName(g), "session-lookup(<own service>)", gc.Pos(), "the caller looks up sessions of its own service",
					an.FuncName(g)+" looks up an embedded session for something else than its own block service (receiver / BlockService parameter)")
			}
		}
	}
	c.Min(ob+" session embedding/lookup sites", nKey, 1)
}

func c04Service(c *an.Ctx) {
	p := c.P
	const pkg = "blockservice"
	fns := p.PkgFuncs(pkg)
	if !c.Need(len(fns) > 0, "package blockservice") {
		return
	}
	// role: the package function func(BlockService) verifcid.Allowlist, and the
	// Allowlist-typed field of the service
	var grab *ssa.Function
	for _, fn := range fns {
		sg := fn.Signature
		if fn.Parent() == nil && sg.Recv() == nil && sg.Params().Len() == 1 && sg.Results().Len() == 1 &&
			an.TypeIs(sg.Params().At(0).Type(), pkg, "BlockService") && an.TypeIs(sg.Results().At(0).Type(), c04Verifcid, "Allowlist") {
			grab = fn
		}
	}
	var fAllow *types.Var
	// the struct type of the package implementing BlockService with an Allowlist field
	var svc *types.Named
	for _, cand := range c01StructTypes(p, pkg) {
		if c01Implements(p, cand, pkg, "BlockService") && len(c01FieldBy(cand, func(x types.Type) bool { return an.TypeIs(x, c04Verifcid, "Allowlist") })) == 1 {
			svc = cand
		}
	}
	if n := svc; n != nil {
		if st, ok := n.Underlying().(*types.Struct); ok {
			for i := 0; i < st.NumFields(); i++ {
				if an.TypeIs(st.Field(i).Type(), c04Verifcid, "Allowlist") {
					fAllow = st.Field(i)
				}
			}
		}
	}
	c.Need(grab != nil && fAllow != nil, "blockservice: func(BlockService) verifcid.Allowlist and the Allowlist field of blockService")

	c04G = c04NewG(fns)
	// ownAllow: the allowlist value is the service's own; allowlist parameters of
	// unexported helpers are traced to every call site
	var ownAllow func(a ssa.Value, depth int) bool
	ownAllow = func(a ssa.Value, depth int) bool {
		rs := an.Roots(a, nil)
		if len(rs) == 0 {
			return false
		}
		for _, r := range rs {
			if gc, isG := r.(*ssa.Call); isG && grab != nil && gc.Call.StaticCallee() == grab {
				continue
			}
			if c02LoadOfField(r, fAllow) != nil {
				continue
			}
			prm, isP := r.(*ssa.Parameter)
			if !isP || depth > 3 {
				return false
			}
			f := prm.Parent()
			if f.Parent() != nil || f.Object() == nil || f.Object().Exported() {
				return false
			}
			idx := -1
			for i, q := range f.Params {
				if q == prm {
					idx = i
				}
			}
			n := 0
			for _, g := range fns {
				for _, call := range an.AllCalls(g) {
					if call.Common().StaticCallee() == f {
						n++
						if !ownAllow(call.Common().Args[idx], depth+1) {
							return false
						}
					}
				}
			}
			if n == 0 {
				return false
			}
		}
		return true
	}
	nSites, nV := 0, 0
	for _, fn := range fns {
		name := an.FuncName(fn)
		v := c04New(c, fn)
		// allowlist argument of every ValidateCid
		for _, V := range v.validateCalls() {
			nV++
			ok := ownAllow(V.Call.Args[0], 0)
			c.Check(ok, "O1", "R-FLOW", name, "ValidateCid(<service allowlist>, _)", V.Pos(), "validation uses the service's own allowlist",
				"ValidateCid is called with an allowlist that is not the block service's configured one: CIDs the service is configured to refuse are accepted")
		}
		for _, call := range an.AllCalls(fn) {
			what, ok := c04Sensitive(call)
			if !ok {
				continue
			}
			for _, a := range an.Args(call) {
				var good bool
				kind := ""
				switch {
				case an.TypeIs(a.Type(), c01Cid, "Cid"):
					kind, good = "cid", v.validCID(a, call, 0)
				case an.TypeIs(a.Type(), c01Blocks, "Block"):
					kind, good = "block", v.validBlock(a, call, 0)
				case c04IsCidSlice(a.Type()), c04IsBlockSlice(a.Type()):
					kind, good = "slice", v.validSlice(a, call, 0)
				default:
					continue
				}
				nSites++
				c.Check(good, "O1", "R-DOM", name, what+"("+kind+")<=ValidateCid-ok", call.Pos(),
					"argument validated against the allowlist on every path",
					what+" is reached with a "+kind+" that did not pass verifcid.ValidateCid on every path ("+v.why+"): a block with a disallowed hash function or digest size is stored, fetched or returned")
			}
		}
	}
	c.Min("O1 ValidateCid calls in blockservice", nV, 1)
	c.Min("O1 store/fetch call arguments in blockservice", nSites, 1)

	c04SessionOwnership(c, fns, "O1")

	// grabAllowlistFromBlockservice
	if grab != nil {
		ok := true
		n := 0
		for _, r := range an.Returns(grab) {
			n++
			for _, root := range an.Roots(r.Results[0], nil) {
				switch x := root.(type) {
				case *ssa.Call:
					if an.Callee(x).Name != "Allowlist" || !x.Call.IsInvoke() {
						ok = false
					}
				case *ssa.UnOp:
					g, isG := x.X.(*ssa.Global)
					if !isG || g.Name() != "DefaultAllowlist" {
						ok = false
					}
				default:
					ok = false
				}
			}
		}
		c.Check(ok && n > 0, "O1", "R-FLOW", an.FuncName(grab), "returns bs.Allowlist() | DefaultAllowlist", grab.Pos(), "allowlist source is the bounded service or the default",
			"grabAllowlistFromBlockservice returns something else than the bounded service's Allowlist() or verifcid.DefaultAllowlist")
	}
	c04ConfiguredAllowlist(c, fns, svc, fAllow)
}

// c04ConfiguredAllowlist: the allowlist the service validates with is the one
// it was configured with, everywhere:
//   - the accessor of the service type (the method without parameters whose
//     result is a verifcid.Allowlist; sessions and the package-level readers
//     obtain the allowlist through it) returns the service's allowlist field
//     (something else only where that field was tested nil);
//   - the allowlist field is written with a value that does not come from the
//     caller (a default) only before the options are applied (no call of a
//     function value that receives the service can precede the write), or
//     where the field was tested nil.
func c04ConfiguredAllowlist(c *an.Ctx, fns []*ssa.Function, svc *types.Named, fAllow *types.Var) {
	if svc == nil || fAllow == nil {
		return
	}
	isSvcPtr := func(t types.Type) bool {
		pt, ok := t.(*types.Pointer)
		if !ok {
			return false
		}
		n, ok := pt.Elem().(*types.Named)
		return ok && n.Obj() == svc.Obj()
	}
	fieldNil := func(fn *ssa.Function) an.EdgeSet {
		var loads []ssa.Value
		an.Instrs(fn, func(in ssa.Instruction) {
			if v, ok := in.(ssa.Value); ok && c02LoadOfField(v, fAllow) != nil {
				loads = append(loads, v)
			}
		})
		return an.NilEdges(fn, loads, true)
	}
	nAcc, nW := 0, 0
	for _, fn := range fns {
		name := an.FuncName(fn)
		sg := fn.Signature
		// accessor
		if sg.Recv() != nil && fn.Parent() == nil && sg.Params().Len() == 0 && sg.Results().Len() == 1 && an.TypeIs(sg.Results().At(0).Type(), c04Verifcid, "Allowlist") {
			rt := sg.Recv().Type()
			if pt, ok := rt.(*types.Pointer); ok {
				rt = pt.Elem()
			}
			if n, ok := rt.(*types.Named); ok && n.Obj() == svc.Obj() && fn.Blocks != nil {
				nAcc++
				ok := true
				nilE := fieldNil(fn)
				for _, r := range an.Returns(fn) {
					if !an.Reaches(fn, nil, r, nil, nil) {
						continue
					}
					for _, root := range an.Roots(an.RetVal(r, 0), nil) {
						if c02LoadOfField(root, fAllow) != nil {
							continue
						}
						if len(nilE) > 0 && an.GuardedBy(fn, nil, r, nilE) {
							continue
						}
						ok = false
					}
				}
				c.Check(ok, "O1", "R-FLOW", name, "accessor returns <service allowlist>", fn.Pos(), "the accessor hands out the configured allowlist",
					"the service's Allowlist accessor returns something else than its configured allowlist: reads (GetBlock, GetBlocks, sessions) validate with a different allowlist than writes, so CIDs the service is configured to refuse are fetched and returned")
			}
		}
		// writes of the field
		if fn.Blocks == nil {
			continue
		}
		stores := an.FieldStores(fn, fAllow)
		if len(stores) == 0 {
			continue
		}
		var optCalls []ssa.Instruction
		for _, call := range an.AllCalls(fn) {
			cc := call.Common()
			if cc.IsInvoke() || cc.StaticCallee() != nil {
				continue
			}
			for _, a := range cc.Args {
				if isSvcPtr(a.Type()) {
					optCalls = append(optCalls, call)
				}
			}
		}
		nilE := fieldNil(fn)
		for _, st := range stores {
			nW++
			fromCaller := true
			for _, root := range an.Roots(st.Val, nil) {
				switch root.(type) {
				case *ssa.Parameter, *ssa.FreeVar:
				default:
					if c02LoadOfField(root, fAllow) == nil {
						fromCaller = false
					}
				}
			}
			ok := true
			if !fromCaller && !(len(nilE) > 0 && an.GuardedBy(fn, nil, st, nilE)) {
				for _, oc := range optCalls {
					if an.Reaches(fn, oc, st, nil, nil) {
						ok = false
					}
				}
			}
			c.Check(ok, "O1", "R-ORDER", name, "default allowlist set before options", st.Pos(), "a default allowlist is installed only before the caller's options run",
				"the service's allowlist is overwritten with a value that does not come from the caller after the options were applied: the configured allowlist is lost and CIDs it refuses are accepted")
		}
	}
	c.Min("O1 allowlist accessor of the service", nAcc, 1)
	c.Min("O1 writes of the service's allowlist field", nW, 1)
}

// ---------------------------------------------------------------------------
// O3 verifcid

// c04CanReturnNil: H has a `return nil` (or returns the result of a package
// function that has one): it decides acceptance, unlike an error constructor.
func c04CanReturnNil(H *ssa.Function, depth int) bool {
	for _, r := range an.Returns(H) {
		if !an.Reaches(H, nil, r, nil, nil) {
			continue
		}
		if an.IsNilErrReturn(r) {
			return true
		}
		if hc, ok := c01First(an.Roots(an.RetVal(r, -1), nil)).(*ssa.Call); ok && depth < 3 {
			if G := hc.Call.StaticCallee(); G != nil && G.Blocks != nil && G.Pkg == H.Pkg && G != H && c04CanReturnNil(G, depth+1) {
				return true
			}
		}
	}
	return false
}

func c04Validate(c *an.Ctx) {
	p := c.P
	fn := p.Func(c04Verifcid, "", "ValidateCid")
	if !c.Need(fn != nil, "verifcid.ValidateCid") {
		return
	}
	alw, cidPrm := fn.Params[0], fn.Params[1]
	// frames: ValidateCid itself and the package helpers whose result it returns
	// directly (`return checkSize(allowlist, pref.MhType, pref.MhLength)`):
	// values in a helper are related to ValidateCid's through its parameters
	type frame struct {
		fn     *ssa.Function
		parent *frame
		call   *ssa.Call
	}
	// lift: v (in frame x) is a parameter of the helper; returns the argument in the parent frame
	lift := func(x *frame, v ssa.Value) (ssa.Value, bool) {
		if x.parent == nil {
			return nil, false
		}
		rs := an.Roots(v, nil)
		if len(rs) != 1 {
			return nil, false
		}
		prm, ok := rs[0].(*ssa.Parameter)
		if !ok || prm.Parent() != x.fn {
			return nil, false
		}
		return x.call.Call.Args[an.RawParamIndex(prm)], true
	}
	var isAlw func(x *frame, v ssa.Value) bool
	isAlw = func(x *frame, v ssa.Value) bool {
		if x.parent == nil {
			return v == ssa.Value(alw)
		}
		a, ok := lift(x, v)
		return ok && isAlw(x.parent, a)
	}
	var isCidPrm func(x *frame, v ssa.Value) bool
	isCidPrm = func(x *frame, v ssa.Value) bool {
		if x.parent == nil {
			return v == ssa.Value(cidPrm)
		}
		a, ok := lift(x, v)
		return ok && isCidPrm(x.parent, a)
	}
	var isPrefixField func(x *frame, v ssa.Value, field string) bool
	isPrefixField = func(x *frame, v ssa.Value, field string) bool {
		if a, ok := lift(x, v); ok {
			return isPrefixField(x.parent, a, field)
		}
		rs := an.Roots(v, nil)
		if len(rs) == 0 {
			return false
		}
		for _, r := range rs {
			f, base := an.FieldOf(r)
			if u, ok := r.(*ssa.UnOp); ok && u.Op == token.MUL {
				f, base = an.FieldOf(u.X)
			}
			if f == nil || f.Name() != field {
				return false
			}
			okBase := false
			isPrefixOfCid := func(pv ssa.Value) bool {
				pc, ok := an.IsCallTo(pv, an.M(c01Cid, "Cid", "Prefix"))
				return ok && isCidPrm(x, pc.Call.Args[0])
			}
			for _, br := range an.Roots(base, nil) {
				if isPrefixOfCid(br) {
					okBase = true
				} else if al, ok := br.(*ssa.Alloc); ok {
					// local copy of the prefix: `pref := c.Prefix()` spilled
					for _, ref := range *al.Referrers() {
						if st, ok := ref.(*ssa.Store); ok && st.Addr == ssa.Value(al) && isPrefixOfCid(st.Val) {
							okBase = true
						}
					}
				}
			}
			if !okBase {
				return false
			}
		}
		return true
	}
	allowCall := func(x *frame, v ssa.Value, meth string) bool {
		cl, ok := v.(*ssa.Call)
		if !ok || !cl.Call.IsInvoke() || cl.Call.Method.Name() != meth || !isAlw(x, cl.Call.Value) {
			return false
		}
		return len(cl.Call.Args) == 1 && isPrefixField(x, cl.Call.Args[0], "MhType")
	}
	// fieldSources: v reads field #i of a struct value built in this frame or
	// returned by a package helper (`bounds := digestBoundsFor(al, code)`;
	// `bounds.min`): the values stored into that field, with their frames
	type fv struct {
		x *frame
		v ssa.Value
	}
	var fieldSources func(x *frame, v ssa.Value, depth int) ([]fv, bool)
	fieldSources = func(x *frame, v ssa.Value, depth int) ([]fv, bool) {
		if depth > 3 {
			return nil, false
		}
		var base ssa.Value
		idx := -1
		switch y := v.(type) {
		case *ssa.Field:
			base, idx = y.X, y.Field
		case *ssa.UnOp:
			if fa, ok := y.X.(*ssa.FieldAddr); ok && y.Op == token.MUL {
				base, idx = fa.X, fa.Field
			}
		}
		if idx < 0 {
			return nil, false
		}
		var out []fv
		var fromStruct func(fr *frame, sv ssa.Value, d int) bool
		fromStruct = func(fr *frame, sv ssa.Value, d int) bool {
			if d > 4 {
				return false
			}
			switch z := sv.(type) {
			case *ssa.Alloc:
				n := 0
				for _, ref := range *z.Referrers() {
					switch r := ref.(type) {
					case *ssa.FieldAddr:
						if r.Field != idx {
							continue
						}
						for _, rr := range *r.Referrers() {
							if st, ok := rr.(*ssa.Store); ok && st.Addr == ssa.Value(r) {
								out = append(out, fv{fr, st.Val})
								n++
							}
						}
					case *ssa.Store:
						if r.Addr == ssa.Value(z) {
							if !fromStruct(fr, r.Val, d+1) {
								return false
							}
							n++
						}
					}
				}
				return n > 0
			case *ssa.UnOp:
				if z.Op == token.MUL {
					return fromStruct(fr, z.X, d+1)
				}
			case *ssa.Call:
				H := z.Call.StaticCallee()
				if H == nil || H.Blocks == nil || H.Pkg != fn.Pkg || H == fr.fn {
					return false
				}
				hf := &frame{H, fr, z}
				n := 0
				for _, r := range an.Returns(H) {
					if !an.Reaches(H, nil, r, nil, nil) || len(r.Results) == 0 {
						continue
					}
					n++
					if !fromStruct(hf, an.RetVal(r, 0), d+1) {
						return false
					}
				}
				return n > 0
			}
			return false
		}
		if !fromStruct(x, base, 0) {
			return nil, false
		}
		return out, len(out) > 0
	}
	var allRoots func(x *frame, v ssa.Value, meth string) bool
	allRoots = func(x *frame, v ssa.Value, meth string) bool {
		if srcs, ok := fieldSources(x, c01First(an.Roots(v, nil)), 0); ok {
			for _, sv := range srcs {
				if !allRoots(sv.x, sv.v, meth) {
					return false
				}
			}
			return true
		}
		if a, ok := lift(x, v); ok {
			// e.g. the minimum computed by the caller and passed in
			rs := an.Roots(a, nil)
			if len(rs) == 0 {
				return false
			}
			for _, r := range rs {
				if !allowCall(x.parent, r, meth) {
					return false
				}
			}
			return true
		}
		rs := an.Roots(v, nil)
		if len(rs) == 0 {
			return false
		}
		for _, r := range rs {
			if !allowCall(x, r, meth) {
				return false
			}
		}
		return true
	}
	type guards struct{ okAllowed, geMin, leMax, notAllowed, ltMin, gtMax an.EdgeSet }
	edgesOf := func(x *frame) guards {
		var allowed []ssa.Value
		for _, call := range an.AllCalls(x.fn) {
			if cv := an.CallValue(call); cv != nil && allowCall(x, cv, "IsAllowed") {
				allowed = append(allowed, cv)
			}
		}
		isLen := func(v ssa.Value) bool { return isPrefixField(x, v, "MhLength") }
		isMin := func(v ssa.Value) bool { return allRoots(x, v, "MinDigestSize") }
		isMax := func(v ssa.Value) bool { return allRoots(x, v, "MaxDigestSize") }
		return guards{
			an.BoolEdges(x.fn, allowed, true), an.RelEdges(x.fn, isLen, isMin, an.RelGE), an.RelEdges(x.fn, isLen, isMax, an.RelLE),
			an.BoolEdges(x.fn, allowed, false), an.RelEdges(x.fn, isLen, isMin, an.RelLT), an.RelEdges(x.fn, isLen, isMax, an.RelGT),
		}
	}
	gcache := map[*frame]guards{}
	gOf := func(x *frame) guards {
		if g, ok := gcache[x]; ok {
			return g
		}
		g := edgesOf(x)
		gcache[x] = g
		return g
	}
	// established: every path reaching `site` in frame x (including the path that
	// led to the call of the helper) crossed an edge selected by pick
	var established func(x *frame, site ssa.Instruction, pick func(guards) an.EdgeSet) bool
	established = func(x *frame, site ssa.Instruction, pick func(guards) an.EdgeSet) bool {
		if es := pick(gOf(x)); len(es) > 0 && an.GuardedBy(x.fn, nil, site, es) {
			return true
		}
		return x.parent != nil && established(x.parent, x.call, pick)
	}
	nOK, nErr := 0, 0
	var visit func(x *frame, depth int)
	visit = func(x *frame, depth int) {
		name := an.FuncName(x.fn)
		for _, r := range an.Returns(x.fn) {
			if !an.Reaches(x.fn, nil, r, nil, nil) {
				continue
			}
			if an.IsNilErrReturn(r) {
				nOK++
				c.Check(established(x, r, func(g guards) an.EdgeSet { return g.okAllowed }), "O3", "R-DOM", name, "accept<=IsAllowed(MhType)", r.Pos(),
					"accepts only allowlisted hash functions", "ValidateCid can accept a CID without allowlist.IsAllowed(prefix.MhType) having answered true")
				c.Check(established(x, r, func(g guards) an.EdgeSet { return g.geMin }), "O3", "R-CMP", name, "accept<=MhLength>=MinDigestSize(MhType)", r.Pos(),
					"accepts only digests of at least the minimum size (inclusive)", "ValidateCid can accept a CID whose digest length was not established to be >= allowlist.MinDigestSize(MhType) (exact inclusive bound expected)")
				c.Check(established(x, r, func(g guards) an.EdgeSet { return g.leMax }), "O3", "R-CMP", name, "accept<=MhLength<=MaxDigestSize(MhType)", r.Pos(),
					"accepts only digests of at most the maximum size (inclusive)", "ValidateCid can accept a CID whose digest length was not established to be <= allowlist.MaxDigestSize(MhType) (exact inclusive bound expected)")
				continue
			}
			// delegation: the result of a package helper is returned as it is
			if hc, isCall := c01First(an.Roots(an.RetVal(r, -1), nil)).(*ssa.Call); isCall && depth < 3 {
				if H := hc.Call.StaticCallee(); H != nil && H.Blocks != nil && H.Pkg == fn.Pkg && H != x.fn && c04HasErrResult(H) && H.Signature.Results().Len() == 1 && c04CanReturnNil(H, 0) {
					visit(&frame{H, x, hc}, depth+1)
					continue
				}
			}
			nErr++
			g := gOf(x)
			c.Check(an.GuardedBy(x.fn, nil, r, g.notAllowed.Union(g.ltMin).Union(g.gtMax)), "O3", "R-CMP", name, "reject<=!IsAllowed|len<min|len>max", r.Pos(),
				"rejects only disallowed functions or out-of-range digests", "ValidateCid rejects a CID on a path where the hash is allowed and the digest length is within [min,max]: allowed CIDs are refused")
		}
	}
	visit(&frame{fn, nil, nil}, 0)
	c.Min("O3 accepting returns of ValidateCid", nOK, 1)
	c.Min("O3 rejecting returns of ValidateCid", nErr, 1)

	// custom allowlist: answers from the map, the override, or false
	// the map-backed allowlist: struct type implementing Allowlist with a map[uint64]bool field
	var isA *ssa.Function
	var alT *types.Named
	for _, cand := range c01StructTypes(p, c04Verifcid) {
		if !c01Implements(p, cand, c04Verifcid, "Allowlist") {
			continue
		}
		if len(c01FieldBy(cand, func(x types.Type) bool { _, isMap := x.Underlying().(*types.Map); return isMap })) > 0 {
			isA = p.Func(c04Verifcid, cand.Obj().Name(), "IsAllowed")
			alT = cand
		}
	}
	if c.Need(isA != nil, "IsAllowed of the map-backed Allowlist implementation of verifcid") {
		code := isA.Params[1]
		ok := true
		for _, r := range an.Returns(isA) {
			for _, root := range an.Roots(r.Results[0], nil) {
				switch x := root.(type) {
				case *ssa.Const:
					if x.Value == nil || x.Value.String() != "false" {
						ok = false
					}
				case *ssa.Extract:
					lk, isLk := x.Tuple.(*ssa.Lookup)
					if !isLk || x.Index != 0 || lk.Index != ssa.Value(code) {
						ok = false
					}
				case *ssa.Lookup:
					if x.Index != ssa.Value(code) {
						ok = false
					}
				case *ssa.Call:
					if !x.Call.IsInvoke() || x.Call.Method.Name() != "IsAllowed" || x.Call.Args[0] != ssa.Value(code) {
						ok = false
					}
				default:
					ok = false
				}
			}
		}
		c.Check(ok, "O3", "R-FLOW", an.FuncName(isA), "answer=map[code]|override.IsAllowed(code)|false", isA.Pos(), "custom allowlist answers from its table, its override, or false",
			"the custom allowlist can answer 'allowed' from something else than its map entry for that code or its override (e.g. a constant true default)")
		// an entry of the table (also an explicit false) wins: the override is asked
		// only where the table lookup of that code reported "no entry"
		var notFound []ssa.Value
		an.Instrs(isA, func(in ssa.Instruction) {
			if e, isE := in.(*ssa.Extract); isE && e.Index == 1 {
				if lk, isLk := e.Tuple.(*ssa.Lookup); isLk && lk.CommaOk && lk.Index == ssa.Value(code) {
					notFound = append(notFound, e)
				}
			}
		})
		nfEdges := an.BoolEdges(isA, notFound, false)
		for _, call := range an.AllCalls(isA) {
			cc := call.Common()
			if !cc.IsInvoke() || cc.Method.Name() != "IsAllowed" {
				continue
			}
			c.Check(len(nfEdges) > 0 && an.GuardedBy(isA, nil, call, nfEdges), "O3", "R-DOM", an.FuncName(isA), "override asked<=no table entry for code", call.Pos(),
				"the override is consulted only for codes the table has no entry for",
				"the custom allowlist asks its override although the table has an entry for the code (or without looking the code up with the two-result form): an explicit 'false' entry no longer disallows a hash function the override allows")
		}
		// constructors hand their configuration to the object: every parameter of
		// an exported constructor whose type is the type of a field reaches that field
		if st, isSt := alT.Underlying().(*types.Struct); isSt {
			for _, ctor := range p.PkgFuncs(c04Verifcid) {
				sg := ctor.Signature
				if ctor.Blocks == nil || ctor.Parent() != nil || sg.Recv() != nil || ctor.Object() == nil || !ctor.Object().Exported() ||
					sg.Results().Len() != 1 || !an.TypeIs(sg.Results().At(0).Type(), c04Verifcid, "Allowlist") {
					continue
				}
				builds := false
				for i := 0; i < st.NumFields(); i++ {
					if len(an.FieldStores(ctor, st.Field(i))) > 0 {
						builds = true
					}
				}
				if !builds {
					continue
				}
				through := &an.FlowOpts{Through: func(cl *ssa.Call) ([]ssa.Value, bool) { return cl.Call.Args, len(cl.Call.Args) > 0 }}
				for _, prm := range ctor.Params {
					for i := 0; i < st.NumFields(); i++ {
						fld := st.Field(i)
						if !types.Identical(fld.Type(), prm.Type()) {
							continue
						}
						reaches := false
						for _, fs := range an.FieldStores(ctor, fld) {
							for _, root := range an.Roots(fs.Val, through) {
								if root == ssa.Value(prm) {
									reaches = true
								}
							}
						}
						if !reaches {
							// a table may be copied entry by entry: any read of it counts
							switch prm.Type().Underlying().(type) {
							case *types.Map, *types.Slice:
								for _, ref := range *prm.Referrers() {
									if _, dbg := ref.(*ssa.DebugRef); !dbg {
										reaches = true
									}
								}
							}
						}
						c.Check(reaches, "O3", "R-FLOW", an.FuncName(ctor), "constructor parameter "+types.TypeString(prm.Type(), func(pk *types.Package) string { return pk.Name() })+" reaches the allowlist", ctor.Pos(),
							"the constructor stores its configuration in the allowlist it returns",
							"an exported allowlist constructor does not store one of its configuration parameters in the allowlist it builds: the configured table / override is silently dropped")
					}
				}
			}
		}
	}

	// default bounds (constants)
	pk := p.Pkg(c04Verifcid)
	getC := func(n string) constant.Value {
		k, _ := pk.Types.Scope().Lookup(n).(*types.Const)
		if k == nil {
			return nil
		}
		return k.Val()
	}
	dmin, dmax, dimax := getC("DefaultMinDigestSize"), getC("DefaultMaxDigestSize"), getC("DefaultMaxIdentityDigestSize")
	if c.Need(dmin != nil && dmax != nil && dimax != nil, "verifcid default size constants") {
		c.Check(constant.Compare(dmin, token.LEQ, dmax) && constant.Sign(dmin) > 0, "O3", "R-CONST", c04Verifcid, "0<DefaultMinDigestSize<=DefaultMaxDigestSize", token.NoPos,
			fmt.Sprintf("min %v <= max %v", dmin, dmax), fmt.Sprintf("DefaultMinDigestSize=%v, DefaultMaxDigestSize=%v: the default accepted range is empty or has no lower bound", dmin, dmax))
		c.Check(constant.Sign(dimax) > 0, "O3", "R-CONST", c04Verifcid, "DefaultMaxIdentityDigestSize>0", token.NoPos, "identity digests are capped at a positive size",
			"DefaultMaxIdentityDigestSize is not positive")
	}
	// defaultAllowlist.Min/MaxDigestSize: identity case
	for _, spec := range []struct {
		meth        string
		idWant      string // constant name expected on the identity edge ("" = literal 0)
		otherWant   string
		description string
	}{{"MinDigestSize", "", "DefaultMinDigestSize", "identity exempt from the minimum"}, {"MaxDigestSize", "DefaultMaxIdentityDigestSize", "DefaultMaxDigestSize", "identity capped"}} {
		var m *ssa.Function
		if dv, ok := p.Pkg(c04Verifcid).Types.Scope().Lookup("DefaultAllowlist").(*types.Var); ok {
			if dn, ok := types.Unalias(dv.Type()).(*types.Named); ok {
				m = p.Func(c04Verifcid, dn.Obj().Name(), spec.meth)
			}
		}
		if !c.Need(m != nil, "verifcid.defaultAllowlist."+spec.meth) {
			continue
		}
		code := m.Params[1]
		isCode := func(v ssa.Value) bool { return v == ssa.Value(code) }
		isID := func(v ssa.Value) bool { k, ok := an.ConstOf(v); return ok && k.String() == "0" }
		idEdges := an.RelEdges(m, isCode, isID, an.RelEQ)
		notID := an.RelEdges(m, isCode, isID, an.RelNE)
		okID, okOther := false, false
		var idVal, otherVal constant.Value
		for _, r := range an.Returns(m) {
			k, isK := an.ConstOf(r.Results[0])
			if !isK {
				continue
			}
			if len(idEdges) > 0 && an.GuardedBy(m, nil, r, idEdges) {
				idVal = k
			} else if an.GuardedBy(m, nil, r, notID) {
				otherVal = k
			}
		}
		if spec.idWant == "" {
			okID = idVal != nil && constant.Sign(idVal) == 0
		} else {
			okID = idVal != nil && constant.Sign(idVal) > 0 // capped by some positive constant
		}
		okOther = otherVal != nil && constant.Compare(otherVal, token.EQL, getC(spec.otherWant))
		c.Check(okID, "O3", "R-CONST", an.FuncName(m), "identity=>"+spec.description, m.Pos(), spec.description,
			fmt.Sprintf("default allowlist %s: on the IDENTITY edge it returns %v — expected %s", spec.meth, idVal, map[bool]string{true: "0", false: "a positive cap"}[spec.idWant == ""]))
		c.Check(okOther, "O3", "R-CONST", an.FuncName(m), "non-identity=>"+spec.otherWant, m.Pos(), "cryptographic hashes use "+spec.otherWant,
			fmt.Sprintf("default allowlist %s: for non-identity codes it returns %v — expected %s", spec.meth, otherVal, spec.otherWant))
	}
}
