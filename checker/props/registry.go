// Package props holds the per-property obligation tables.
package props

import "verif/checker/an"

type Prop struct {
	Pkgs      []string // package patterns (relative to the module root) loaded in the quick tier
	Explain   string   // what is decided and what is not
	Assume    []string
	Technique string // rule primitives that decide it
	Run       func(c *an.Ctx)
}

var Registry = map[string]Prop{}

func register(id string, p Prop) { Registry[id] = p }
