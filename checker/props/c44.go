package props

import (
	"fmt"
	"go/constant"
	"go/token"
	"go/types"
	"sort"
	"strings"

	"golang.org/x/tools/go/ssa"

	"verif/checker/an"
)

func init() {
	register("C44", Prop{
		Pkgs: []string{"./provider"},
		Explain: "Decided (structural necessary conditions of 'announces every allowed key, never a rejected one, bounded batches, terminates; prioritized provider emits everything once'): " +
			"O1 termination (R-PROG): every CFG cycle of reprovider.Reprovide consumes from the key channel (or is a counted/range iteration) on every path that is not provably infeasible - the zero-trip exit of the counted drain loop is only pruned when its bound is proven >= 1 (max(x,1), constant, or a dominating zero test) -, and after the key channel reported closed no path attempts another receive (flag constants are propagated along the path); " +
			"O2 allowlist (R-DOM/R-FLOW): every use of a CID after verifcid.ValidateCid(s.allowlist, c) in package provider lies on that call's nil edge, the allowlist operand is the configured one, and the key slice handed to doProvideMany is a fresh slice per batch whose elements are c.Hash() of validated CIDs; every appended CID is deleted from the pending map before the next map step; " +
			"O3 batch bound (R-CMP/R-PROG): inserts into the pending map happen only in a cycle bounded by the batch-size value, and that value is proven <= maxReprovideBatchSize (min(..), or chosen on a '<' edge; the progress constant 1 is tolerated); " +
			"O5 batch announcer (R-FLOW/R-POST): ProvideMany receives the batch slice itself; the single-provide fallback calls Provide(keys[i]) in a loop over all of keys that is left early only on error; " +
			"O6 (R-POST): the goroutine feeding the prioritized output channel closes it before every return; " +
			"O4 prioritized provider (R-DOM/R-POST/R-CMP): every send on the output channel is guarded by visited.Has(c)==false for the same c; every received key is either skipped on the Has edge or reaches the send; when markVisited holds every successful send is coupled with visited.Visit/Add(c); the markVisited argument is true for every non-last stream index; a stream error does not leave the loop over streams. " +
			"O2 also (R-POST): once the key slice is built, the next channel read or a return is reached without the announcer only where len(keys)==0; O4 also (R-POST): on visited.Has==true the handler does not return before the next receive. " +
			"NOT decided: 'at least once' when ProvideMany/Provide fails (the failed batch is dropped by design of the loop), liveness of the key provider itself (the channel is assumed to be closed eventually), the provide queue path (provideWorker hands CIDs to workers through function values), contents of the channel.",
		Assume: []string{"the key provider eventually closes its channel and every called routine returns",
			"verifcid.ValidateCid implements the allowlist", "doProvideMany is only called from package provider (unexported)"},
		Technique: "SSA cycle/progress analysis with infeasible-edge pruning and path-sensitive flag propagation (R-PROG), edge dominance (R-DOM), value provenance (R-FLOW), normalised comparisons (R-CMP)",
		Run:       runC44,
	})
}

const c44Cid = "github.com/ipfs/go-cid"

func runC44(c *an.Ctx) {
	p := c.P
	const pv = "provider"
	pkgFns := p.PkgFuncs(pv)
	// anchors by role: Reprovide = the method named after the Reprovider
	// interface whose call tree receives from a CID channel; the maximum batch
	// size field = the field written by the MaxBatchSize option.
	var rep *ssa.Function
	for _, f := range pkgFns {
		if f.Name() == "Reprovide" && f.Signature.Recv() != nil && f.Parent() == nil {
			for _, g := range c44Tree(f) {
				if len(c44CidRecvs(g)) > 0 {
					rep = f
				}
			}
		}
	}
	fAllow := c44OptionField(p.Func(pv, "", "Allowlist"))
	var fMax *types.Var
	if opt := p.Func(pv, "", "MaxBatchSize"); opt != nil {
		for _, g := range an.WithClosures(opt) {
			an.Instrs(g, func(in ssa.Instruction) {
				if st, ok := in.(*ssa.Store); ok {
					if f, _ := an.FieldOf(st.Addr); f != nil {
						for _, r := range an.Roots(st.Val, nil) {
							if prm, ok := r.(*ssa.Parameter); ok && prm.Parent() == opt {
								fMax = f
							}
						}
					}
				}
			})
		}
	}
	if !c.Need(rep != nil && fMax != nil && fAllow != nil, "provider: a Reprovide method consuming a CID channel / the fields set by the MaxBatchSize and Allowlist options") {
		return
	}
	tree := c44Tree(rep)
	cx := &c44Ctx{tree: tree, pkg: pkgFns, recvAll: map[*ssa.Function]bool{}, closedAs: map[*ssa.Function]*c44Closed{}}
	cx.solve()

	// ------------------------------------------------------------------ O1
	nRecv, nHdr, nClosed, nRet := 0, 0, 0, 0
	for _, fn := range tree {
		evs := cx.recvEventsMay(fn)
		if len(evs) == 0 {
			continue
		}
		name := an.FuncName(fn)
		nRecv += len(evs)
		blocked := map[ssa.Instruction]bool{}
		for _, r := range cx.recvEvents(fn) {
			blocked[r] = true
		}
		infeasible, proofs := cx.zeroTripInfeasible(fn)
		first := c44FirstTrip(fn)
		if len(first) > 0 {
			proofs += "; a counted loop starting at 0 below a proven positive bound runs its body at least once"
		}
		for _, b := range fn.Blocks {
			if !c44IsLoopHeader(b) || len(b.Instrs) == 0 || c44BoundedLoop(b) {
				continue // range over a finite collection / counted loop: bounded by construction
			}
			nHdr++
			spin := c44CycleThrough(fn, b, infeasible, blocked, first)
			c.Check(!spin, "O1", "R-PROG", name, "loop:"+c44LoopName(b)+"=>consumes-key-channel", c44BlockPos(b),
				"every iteration of this loop receives from the key channel (directly or through a helper that always does) or returns ("+proofs+")",
				"a cycle through this loop header neither receives from the key channel nor returns: whenever the drain loop is not entered (trip count 0 because the batch size is 0, or its entry condition is already false, e.g. because entries parked in the pending map count against the limit) the channel is never read, 'all processed' is never set and Reprovide spins forever; entering the drain loop is not proven")
		}
		// scenarios in which the key channel has been seen closed
		type scen struct {
			from, to *ssa.BasicBlock
			start    ssa.Instruction
			env      map[ssa.Value]bool
			pos      token.Pos
		}
		var scens []scen
		for _, r := range evs {
			if call, isCall := r.(*ssa.Call); isCall {
				if !an.Reaches(fn, call, call, nil, nil) {
					continue // called once: the helper terminates by itself, nothing to report back
				}
				cl := cx.closedAs[an.Callee(call).Static]
				if cl == nil {
					c.Bad("O1", "R-PROG", name, "helper-reports-closed", r.Pos(), "the helper that reads the key channel does not report 'channel closed' to its caller as a boolean constant: the caller cannot stop reading")
					continue
				}
				res := an.Result(call, cl.idx)
				if len(res) == 0 {
					c.Bad("O1", "R-PROG", name, "helper-closed-result-used", r.Pos(), "the 'channel closed' result of the key-reading helper is ignored: the loop cannot terminate on close")
					continue
				}
				scens = append(scens, scen{start: call, env: map[ssa.Value]bool{res[0]: cl.val}, pos: r.Pos()})
				continue
			}
			okv := c44RecvOK(r)
			if okv == nil {
				c.Bad("O1", "R-PROG", name, "recv-without-ok", r.Pos(), "receive from the key channel without the comma-ok form: a closed channel cannot be told from a zero CID and the loop cannot terminate on close")
				continue
			}
			for e := range an.BoolEdges(fn, []ssa.Value{okv}, false) {
				scens = append(scens, scen{from: e.From, to: e.From.Succs[e.Succ], pos: r.Pos()})
			}
		}
		tgt := map[ssa.Instruction]bool{}
		for _, r := range evs {
			tgt[r] = true
		}
		for _, sc := range scens {
			nClosed++
			again := c44Walk(c44WalkOpts{from: sc.from, to: sc.to, start: sc.start, env: sc.env, targets: tgt})
			c.Check(!again, "O1", "R-PROG", name, "key-channel-closed=>no-more-receive", sc.pos,
				"after the channel was seen closed every path returns without receiving again (flag constants propagated)",
				"after the key channel is closed a path leads back to a receive: the 'all processed' flag is not set to true on the closed edge (or not tested by the loop), so Reprovide never terminates")
		}
		// success is reported only after the key channel was seen closed
		if fn == rep || cx.errorReturning(fn) {
			cut := an.EdgeSet{}
			assume := map[ssa.Instruction]c44Assume{}
			for _, r := range evs {
				if call, isCall := r.(*ssa.Call); isCall {
					if cl := cx.closedAs[an.Callee(call).Static]; cl != nil {
						if res := an.Result(call, cl.idx); len(res) > 0 {
							assume[call] = c44Assume{res[0], !cl.val}
						}
					}
					continue
				}
				if okv := c44RecvOK(r); okv != nil {
					cut = cut.Union(an.BoolEdges(fn, []ssa.Value{okv}, false))
				}
			}
			for _, r := range an.Returns(fn) {
				n := len(r.Results)
				if n == 0 || !an.IsErrorType(r.Results[n-1].Type()) || !an.IsNilConst(c22RetVal(r, n-1)) {
					continue
				}
				nRet++
				early := c44Walk(c44WalkOpts{to: fn.Blocks[0], cut: cut, assume: assume, targets: map[ssa.Instruction]bool{r: true}})
				c.Check(!early, "O1", "R-DOM", name, "return-nil<=key-channel-closed", r.Pos(),
					"nil is returned only after the key channel reported closed (flag constants propagated)",
					"Reprovide can return nil (or leave its loop) without having seen the key channel closed, e.g. on an empty or failed batch: the keys still in the channel are never announced although the pass reports success")
			}
		}
	}
	c.Min("O1 receives from the key channel in the Reprovide call tree", nRecv, 1)
	c.Min("O1 uncounted loops in the Reprovide call tree", nHdr, 1)
	c.Min("O1 closed-channel scenarios", nClosed, 1)
	c.Min("O1 success returns", nRet, 1)

	// ------------------------------------------------------------------ O2
	nVal := 0
	for _, fn := range pkgFns {
		for _, v := range an.Calls(fn, an.M("verifcid", "", "ValidateCid")) {
			args := an.Args(v)
			if len(args) != 2 {
				continue
			}
			nVal++
			fname := an.FuncName(fn)
			okAllow := false
			if u, ok := args[0].(*ssa.UnOp); ok && u.Op == token.MUL {
				if f, _ := an.FieldOf(u.X); f != nil && f == fAllow {
					okAllow = true
				}
			}
			c.Check(okAllow, "O2", "R-FLOW", fname, "ValidateCid-allowlist-operand", v.Pos(),
				"validated against the configured allowlist field", "ValidateCid is not given the reprovider's configured allowlist ("+an.PathOf(args[0])+"): a custom Allowlist option is ignored and rejected hashes are announced")
			cv := args[1]
			nUse := 0
			if refs := cv.Referrers(); refs != nil {
				for _, r := range *refs {
					ci, ok := r.(ssa.CallInstruction)
					if !ok || ci == v {
						continue
					}
					if !an.Reaches(fn, v, r, nil, nil) {
						continue
					}
					nUse++
					c.Check(an.OnNilEdgeOf(fn, v, r), "O2", "R-DOM", fname, "use-after-ValidateCid:"+c44CallName(ci), r.Pos(),
						"CID used only where ValidateCid returned nil", "the CID is passed to "+c44CallName(ci)+" on a path where ValidateCid did not succeed: a rejected key is announced")
				}
			}
			c.Check(nUse > 0, "O2", "R-DOM", fname, "validated-cid-is-used", v.Pos(), "validated CID flows on", "the CID checked by ValidateCid is not the value used afterwards")
		}
	}
	c.Min("O2 ValidateCid calls in package provider", nVal, 2)

	nProv := 0
	for _, fn := range tree {
		name := an.FuncName(fn)
		for _, pc := range an.AllCalls(fn) {
			g := an.Callee(pc).Static
			if g == nil || !c44IsAnnouncer(g) {
				continue
			}
			nProv++
			var keys ssa.Value
			for _, a := range pc.Common().Args {
				if c44IsMhSlice(a.Type()) {
					keys = a
				}
			}
			kb := c44KeysBuild(fn, keys, 0)
			if kb.why != "" {
				c.Bad("O2", "R-FLOW", name, "keys-provenance", pc.Pos(), "the key slice given to "+g.Name()+" is not built by make+append of validated hashes here or in a local helper ("+kb.why+"): unvalidated keys may be announced")
				continue
			}
			c.Check(kb.badElem == "", "O2", "R-FLOW", name, "keys=Hash(validated)", pc.Pos(), "every announced key is c.Hash() of a CID validated on the nil edge",
				"an element of the announced key slice is "+kb.badElem+": not the multihash of a validated CID")
			// a non-empty batch is announced: from the point where the key slice
			// is final, the next read of the key channel or a return is reached
			// without the announcement only where len(keys) == 0
			if def, ok := keys.(ssa.Instruction); ok && def.Parent() == fn {
				skip := c22LenEdges(fn, []ssa.Value{keys}, false)
				blockedA := map[ssa.Instruction]bool{pc: true}
				dropped := ""
				for _, ev := range cx.recvEventsMay(fn) {
					if an.Reaches(fn, def, ev, skip, blockedA) {
						dropped = "the next read of the key channel"
					}
				}
				for _, r := range an.Returns(fn) {
					if an.Reaches(fn, def, r, skip, blockedA) {
						dropped = "a return"
					}
				}
				c.Check(dropped == "", "O2", "R-POST", name, "non-empty-batch=>announced", pc.Pos(),
					"once built, a batch is skipped only when it is empty", "after the key slice is built "+dropped+" can be reached without "+g.Name()+" although the slice may be non-empty (only len(keys)==0 may skip the announcement): validated keys are dropped without being announced")
			}
			mk := map[ssa.Instruction]bool{}
			for _, f := range kb.fresh {
				mk[f] = true
			}
			c.Check(len(kb.fresh) > 0 && !an.Reaches(fn, pc, pc, nil, mk), "O2", "R-POST", name, "keys-fresh-per-batch", pc.Pos(),
				"a new key slice is made between two announcements", "the key slice is not re-made between two announcements: keys are announced again and batches grow beyond the limit")
			for _, hs := range kb.hashes {
				hfn := hs.Parent()
				cv := an.Recv(hs)
				dels := map[ssa.Instruction]bool{}
				for _, d := range an.Calls(hfn, an.M("builtin", "", "delete")) {
					if a := d.Common().Args; len(a) == 2 && a[1] == cv {
						dels[d] = true
					}
				}
				okDel := len(dels) > 0
				an.Instrs(hfn, func(in ssa.Instruction) {
					if _, isNext := in.(*ssa.Next); isNext && an.Reaches(hfn, hs, in, nil, dels) {
						okDel = false
					}
				})
				for _, r := range an.Returns(hfn) {
					if okDel && an.Reaches(hfn, hs, r, nil, dels) {
						okDel = false
					}
				}
				if okDel && hfn == fn && an.Reaches(fn, hs, pc, nil, dels) {
					okDel = false
				}
				c.Check(okDel, "O2", "R-PAIR", an.FuncName(hfn), "append-key=>delete-pending", hs.Pos(), "the announced CID leaves the pending map in the same step",
					"a CID appended to the batch is not deleted from the pending map on every path: it is announced again with every later batch and the batch exceeds the configured maximum")
			}
		}
	}
	c.Min("O2 announcer calls in the Reprovide call tree", nProv, 1)

	// ------------------------------------------------------------------ O3
	nIns := 0
	for _, fn := range tree {
		name := an.FuncName(fn)
		an.Instrs(fn, func(in ssa.Instruction) {
			mu, ok := in.(*ssa.MapUpdate)
			if !ok || !c44IsCidKeyedMap(mu.Map.Type()) {
				return
			}
			nIns++
			// every cycle through the insert passes a counted compare
			cmp := map[ssa.Instruction]bool{}
			an.Instrs(fn, func(x ssa.Instruction) {
				if ifi, ok := x.(*ssa.If); ok && (c44CountedCompare(ifi.Cond) || c44LenCompare(ifi.Cond, mu.Map)) {
					cmp[x] = true
				}
			})
			bounded := len(cmp) > 0 && !an.Reaches(fn, in, in, nil, cmp)
			c.Check(bounded, "O3", "R-PROG", name, "pending-insert-in-counted-loop", in.Pos(),
				"inserts into the pending map repeat only under a counted loop (or a len(map) < bound guard)", "the pending map is filled in a cycle that is bounded neither by a counter nor by a len(map) < bound test: batches are unbounded")
			if !bounded {
				return
			}
			for x := range cmp {
				// compares lying on a cycle through the insert
				if !(an.Reaches(fn, in, x, nil, nil) && an.Reaches(fn, x, in, nil, nil)) {
					continue
				}
				b := c44Atom(x.(*ssa.If).Cond).(*ssa.BinOp).Y
				ok, why := cx.upperBounded(fn, b, fMax, 0)
				c.Check(ok, "O3", "R-CMP", name, "batch-bound<=maxReprovideBatchSize", in.Pos(),
					"the counter bound is provably <= the configured maximum batch size", "the bound of the drain loop is not provably <= the configured maximum batch size ("+why+"): batches larger than the configured maximum are announced")
			}
		})
	}
	c.Min("O3 inserts into the pending CID map", nIns, 1)

	// ------------------------------------------------------------------ O4
	npp := p.Func(pv, "", "NewPrioritizedProvider")
	if !c.Need(npp != nil, "provider.NewPrioritizedProvider") {
		return
	}
	nSend, nCall := 0, 0
	nppTree := c44Tree(npp)
	for _, fn := range nppTree {
		fname := an.FuncName(fn)
		var sends, recvSel []*ssa.Select
		an.Instrs(fn, func(in ssa.Instruction) {
			if s, ok := in.(*ssa.Select); ok {
				for _, st := range s.States {
					if !c44IsCidChan(st.Chan.Type()) {
						continue
					}
					if st.Dir == types.SendOnly {
						sends = append(sends, s)
					} else {
						recvSel = append(recvSel, s)
					}
				}
			}
		})
		hasM := an.M(c44Cid, "Set", "Has")
		for _, s := range sends {
			nSend++
			idx, sent := c44SendState(s)
			// guarded by Has(sent)==false
			hasFalse := an.CallEdges(fn, hasM, 0, func(v ssa.Value) bool { return v == sent }, false)
			hasTrue := an.CallEdges(fn, hasM, 0, func(v ssa.Value) bool { return v == sent }, true)
			c.Check(len(hasFalse) > 0 && an.GuardedBy(fn, nil, s, hasFalse), "O4", "R-DOM", fname, "emit<=visited.Has==false", s.Pos(),
				"a key is emitted only where visited.Has(key) was false", "a key can be sent on the output channel without visited.Has(key) having been false: keys already emitted by an earlier stream are emitted again")
			// every received key is skipped on Has==true or reaches the send
			for _, r := range recvSel {
				esc := an.Reaches(fn, r, r, hasTrue, map[ssa.Instruction]bool{s: true})
				c.Check(!esc, "O4", "R-POST", fname, "received-key=>skipped-or-emitted", r.Pos(),
					"between two receives the key is either a visited duplicate or is offered to the output", "a received key can be dropped (next receive reached without the send and without visited.Has being true): not every key of every stream is emitted")
			}
			// a visited duplicate is skipped, it does not end the stream
			if len(hasTrue) > 0 {
				blockedR := map[ssa.Instruction]bool{}
				for _, r := range recvSel {
					blockedR[r] = true
				}
				ends := false
				for e := range hasTrue {
					for _, r := range an.Returns(fn) {
						if c22ReachFromBlock(e.From.Succs[e.Succ], r, blockedR) {
							ends = true
						}
					}
				}
				c.Check(!ends, "O4", "R-POST", fname, "visited-duplicate=>next-key", s.Pos(),
					"after a visited duplicate the next key of the stream is read", "when visited.Has(key) is true the handler can return without reading the stream any further: the remaining keys of the stream are never emitted")
			}
			// marking coupled with the send when markVisited
			var mark []ssa.Value
			for _, prm := range fn.Params {
				if b, ok := prm.Type().Underlying().(*types.Basic); ok && b.Kind() == types.Bool {
					mark = []ssa.Value{prm}
				}
			}
			if mark == nil {
				// the flag travels in a boolean field of a struct parameter
				mark = c44BoolFieldReads(fn)
			}
			marks := map[ssa.Instruction]bool{}
			for _, m := range an.Calls(fn, an.M(c44Cid, "Set", "Visit"), an.M(c44Cid, "Set", "Add")) {
				if a := an.Args(m); len(a) == 1 && a[0] == sent {
					marks[m] = true
				}
			}
			cut := c44SelectOtherCase(fn, s, idx)
			if mark != nil {
				cut = cut.Union(an.BoolEdges(fn, mark, false))
			}
			okMark := len(marks) > 0
			if okMark {
				pre := true // marked before the send on every path (mark-then-send idiom)
				if an.Reaches(fn, nil, s, cut, marks) {
					pre = false
				}
				post := true
				for _, r := range an.Returns(fn) {
					if an.Reaches(fn, s, r, cut, marks) {
						post = false
					}
				}
				for _, r := range recvSel {
					if an.Reaches(fn, s, r, cut, marks) {
						post = false
					}
				}
				okMark = pre || post
			}
			c.Check(okMark, "O4", "R-PAIR", fname, "emit=>visited.Visit", s.Pos(),
				"when markVisited holds every emitted key is recorded in the visited set", "with markVisited set a key can be emitted without being recorded in the visited set: later streams emit it again")
		}
		// calls of the stream handler: markVisited argument and error path
		for _, call := range an.AllCalls(fn) {
			// the stream handler: a closure or local function whose call tree
			// sends on a CID channel
			var g *ssa.Function
			if mc, ok := call.Common().Value.(*ssa.MakeClosure); ok {
				g = mc.Fn.(*ssa.Function)
			} else if h := an.Callee(call).Static; h != nil && h.Pkg == npp.Pkg {
				g = h
			}
			if g == nil || g == fn || !c44SendsDeep(g) {
				continue
			}
			if _, isGo := call.(*ssa.Go); isGo {
				continue
			}
			forwarded := false
			top := false
			for i, prm := range g.Params {
				if i >= len(call.Common().Args) {
					continue
				}
				flag := call.Common().Args[i]
				isFlag := false
				if b, ok := prm.Type().Underlying().(*types.Basic); ok && b.Kind() == types.Bool {
					isFlag = true
				} else if k := c44BoolField(prm.Type()); k >= 0 {
					// the flag travels in the boolean field of a struct argument
					isFlag = true
					if fs, ok := c24LitFields(flag); ok && fs[k] != nil {
						flag = fs[k]
					}
				}
				if isFlag {
					if _, isPrm := flag.(*ssa.Parameter); isPrm {
						forwarded = true // a wrapper passing its own flag on: judged at the outer call
						continue
					}
					top = true
					st, why := c44NonLastArg(flag)
					switch st {
					case 1:
						c.OK("O4", "R-CMP", fname, "markVisited=index<last", call.Pos(), "markVisited is true for every stream but the last ("+why+")")
					case 0:
						c.Bad("O4", "R-CMP", fname, "markVisited=index<last", call.Pos(), "markVisited argument is "+why+": keys of some non-last stream are not recorded, later streams repeat them")
					default:
						c.Problem("O4 markVisited argument has an unrecognised shape (%s) at %s", why, p.Pos(call.Pos()))
					}
				}
			}
			if forwarded && !top {
				continue
			}
			nCall++
			// error of one stream must not leave the loop over streams
			if errs := an.ErrResult(call); len(errs) > 0 {
				hdr := c44EnclosingLoop(call.Block())
				if hdr == nil {
					c.Bad("O4", "R-POST", fname, "stream-handler-in-loop", call.Pos(), "the stream handler is not called in a loop over the streams")
				} else {
					loop := c44NaturalLoop(hdr)
					leaves := false
					for e := range an.NilEdges(fn, errs, false) {
						if c44LeavesLoop(e.From.Succs[e.Succ], hdr, loop) {
							leaves = true
						}
					}
					c.Check(!leaves, "O4", "R-POST", fname, "stream-error=>next-stream", call.Pos(),
						"a failing stream is skipped, the remaining streams still run", "an error of one stream leaves the loop over streams: keys of the remaining streams are never emitted")
				}
			}
		}
	}
	if c.Tier == "thorough" {
		// every other Reprovide implementation of the module must be loop-free
		// (the progress rule above only covers reprovider.Reprovide)
		for _, fn := range p.Funcs {
			if fn.Name() != "Reprovide" || fn == rep || fn.Signature.Recv() == nil || fn.Parent() != nil {
				continue
			}
			loops := 0
			for _, b := range fn.Blocks {
				if c44IsLoopHeader(b) {
					loops++
				}
			}
			c.Check(loops == 0, "O1", "R-PROG", an.FuncName(fn), "other-Reprovide-is-loop-free", fn.Pos(),
				"this Reprovide implementation has no loop", "another Reprovide implementation contains a loop that the termination rule does not analyse")
		}
	}
	c44ProvideAll(c)
	c44CloseOutput(c, npp)
	c.Min("O4 sends on the prioritized output channel", nSend, 1)
	c.Min("O4 calls of the stream handler", nCall, 1)
}

// O5: the function that hands a batch to the router announces every key of it:
// ProvideMany receives the key slice itself; the single-provide fallback calls
// Provide for the element of a full range over that slice and leaves the loop
// early only by returning the error.
func c44ProvideAll(c *an.Ctx) {
	p := c.P
	n := 0
	for _, fn := range p.PkgFuncs("provider") {
		var keys *ssa.Parameter
		for _, prm := range fn.Params {
			if sl, ok := prm.Type().Underlying().(*types.Slice); ok && an.TypeIs(sl.Elem(), "github.com/multiformats/go-multihash", "Multihash") {
				keys = prm
			}
		}
		if keys == nil || fn.Parent() != nil {
			continue
		}
		name := an.FuncName(fn)
		for _, call := range an.AllCalls(fn) {
			ci := an.Callee(call)
			if !ci.Invoke {
				continue
			}
			switch ci.Name {
			case "ProvideMany":
				n++
				a := an.Args(call)
				c.Check(len(a) == 2 && a[1] == ssa.Value(keys), "O5", "R-FLOW", name, "ProvideMany(keys)", call.Pos(),
					"the whole batch is handed to ProvideMany", "ProvideMany does not receive the batch slice itself ("+an.PathOf(a[len(a)-1])+"): part of the batch is never announced")
			case "Provide":
				n++
				a := an.Args(call)
				// the CID is built from keys[i] with i the induction variable of a loop bounded by len(keys)
				okElem := false
				for _, r := range an.Roots(a[1], &an.FlowOpts{Through: func(cl *ssa.Call) ([]ssa.Value, bool) {
					if ci := an.Callee(cl); ci.Pkg == c44Cid && strings.HasPrefix(ci.Name, "NewCid") {
						return cl.Call.Args[len(cl.Call.Args)-1:], true
					}
					return nil, false
				}}) {
					if u, ok := r.(*ssa.UnOp); ok && u.Op == token.MUL {
						if ia, ok := u.X.(*ssa.IndexAddr); ok && ia.X == ssa.Value(keys) && c44Induction(ia.Index) && c44FirstIndexZero(ia.Index) {
							okElem = true
						}
					}
				}
				hdr := c44EnclosingLoop(call.Block())
				okLoop := false
				if hdr != nil && len(hdr.Instrs) > 0 {
					if ifi, ok := hdr.Instrs[len(hdr.Instrs)-1].(*ssa.If); ok && c44CountedCompare(ifi.Cond) {
						if ln, ok := c44Atom(ifi.Cond).(*ssa.BinOp).Y.(*ssa.Call); ok && an.Callee(ln).Builtin == "len" && ln.Call.Args[0] == ssa.Value(keys) {
							okLoop = true
						}
					}
				}
				c.Check(okElem && okLoop, "O5", "R-FLOW", name, "Provide(keys[i])-for-all-i", call.Pos(),
					"Provide is called for keys[i] inside a loop over all of keys", "the single-provide fallback does not call Provide for every element of the batch (element or loop bound is not keys[i] / len(keys)): keys of the batch are never announced")
				if okLoop {
					loop := c44NaturalLoop(hdr)
					leaves := false
					for e := range an.NilEdges(fn, an.ErrResult(call), true) {
						if c44LeavesLoop(e.From.Succs[e.Succ], hdr, loop) {
							leaves = true
						}
					}
					c.Check(!leaves, "O5", "R-POST", name, "Provide-ok=>next-key", call.Pos(),
						"after a successful Provide the loop goes on to the next key", "after a successful Provide the loop over the batch can be left: the remaining keys of the batch are never announced")
				}
			}
		}
	}
	c.Min("O5 router calls in the batch announcer", n, 2)
}

// O6: the goroutine that feeds the prioritized output channel closes it on
// every exit; otherwise Reprovide waits on the channel forever.
func c44CloseOutput(c *an.Ctx, npp *ssa.Function) {
	n := 0
	for _, par := range c44Tree(npp) {
		for _, in := range an.AllCalls(par) {
			g, ok := in.(*ssa.Go)
			if !ok {
				continue
			}
			var fn *ssa.Function
			if mc, ok := g.Call.Value.(*ssa.MakeClosure); ok {
				fn = mc.Fn.(*ssa.Function)
			} else if h := an.Callee(g).Static; h != nil {
				fn = h
			}
			if fn == nil || fn.Blocks == nil || !c44SendsDeep(fn) {
				continue
			}
			n++
			var closes []ssa.Instruction
			for _, call := range an.AllCalls(fn) {
				if an.Callee(call).Builtin == "close" && c44IsCidChan(call.Common().Args[0].Type()) {
					closes = append(closes, call)
				}
			}
			ok2 := len(closes) > 0
			for _, r := range an.Returns(fn) {
				if !an.MustPrecede(fn, r, closes) {
					ok2 = false
				}
			}
			c.Check(ok2, "O6", "R-POST", an.FuncName(fn), "feeder-goroutine=>close(out)", fn.Pos(),
				"the output channel is closed (deferred or explicit) before every return of the feeding goroutine",
				"the goroutine feeding the prioritized output channel can end without closing it: the consumer (Reprovide) blocks on the receive forever and never terminates")
		}
	}
	c.Min("O6 feeder goroutines of the prioritized provider", n, 1)
}

// ---------------------------------------------------------------- call tree of Reprovide

// package functions of the analysed tree (set by runC44; used to follow
// parameters of local helpers to their call sites)
var c44PkgFns []*ssa.Function

func c44ParamIndex(p *ssa.Parameter) int {
	for i, q := range p.Parent().Params {
		if q == p {
			return i
		}
	}
	return -1
}

// c44LocalResults: the Return instructions of the package-local function
// called by call that carry result idx (nil for builtins, dynamic and foreign
// callees).
func c44LocalResults(call *ssa.Call, idx int) []*ssa.Return {
	ci := an.Callee(call)
	h := ci.Static
	if ci.Builtin != "" || h == nil || h.Blocks == nil {
		return nil
	}
	local := false
	for _, f := range c44PkgFns {
		if f == h {
			local = true
		}
	}
	if !local {
		return nil
	}
	var out []*ssa.Return
	for _, r := range an.Returns(h) {
		if idx < len(r.Results) {
			out = append(out, r)
		}
	}
	return out
}

// c44CallSites: static plain calls of fn in the package.
func c44CallSites(fn *ssa.Function) []ssa.CallInstruction {
	var out []ssa.CallInstruction
	for _, g := range c44PkgFns {
		for _, call := range an.AllCalls(g) {
			if an.Callee(call).Static == fn {
				out = append(out, call)
			}
		}
	}
	return out
}

// c44OptionField: the struct field that the option constructor opt stores its
// parameter into (in the closure it returns).
func c44OptionField(opt *ssa.Function) *types.Var {
	if opt == nil {
		return nil
	}
	var out *types.Var
	for _, g := range an.WithClosures(opt) {
		an.Instrs(g, func(in ssa.Instruction) {
			if st, ok := in.(*ssa.Store); ok {
				if f, _ := an.FieldOf(st.Addr); f != nil {
					for _, r := range an.Roots(st.Val, nil) {
						if prm, ok := r.(*ssa.Parameter); ok && prm.Parent() == opt {
							out = f
						}
					}
				}
			}
		})
	}
	return out
}

// c44Tree: f, the closures nested in it and the package-local functions it
// calls statically (transitively).
func c44Tree(f *ssa.Function) []*ssa.Function {
	seen := map[*ssa.Function]bool{}
	var out []*ssa.Function
	var add func(g *ssa.Function)
	add = func(g *ssa.Function) {
		if g == nil || seen[g] || g.Blocks == nil {
			return
		}
		seen[g] = true
		out = append(out, g)
		for _, a := range g.AnonFuncs {
			add(a)
		}
		for _, call := range an.AllCalls(g) {
			if h := an.Callee(call).Static; h != nil && h.Pkg != nil && f.Pkg != nil && h.Pkg == f.Pkg {
				add(h)
			}
		}
	}
	add(f)
	return out
}

// c44Closed: a helper reports "key channel closed" as boolean constant val in result idx.
type c44Closed struct {
	idx int
	val bool
}

type c44Ctx struct {
	tree, pkg []*ssa.Function
	recvAll   map[*ssa.Function]bool // every path through the function receives from the key channel
	closedAs  map[*ssa.Function]*c44Closed
}

func (cx *c44Ctx) inTree(g *ssa.Function) bool {
	for _, f := range cx.tree {
		if f == g {
			return true
		}
	}
	return false
}

func (cx *c44Ctx) errorReturning(fn *ssa.Function) bool {
	rs := fn.Signature.Results()
	return rs.Len() > 0 && an.IsErrorType(rs.At(rs.Len()-1).Type())
}

// recvEvents: receives on a CID channel in fn, plus calls of tree functions
// that receive on every path.
func (cx *c44Ctx) recvEvents(fn *ssa.Function) []ssa.Instruction {
	out := c44CidRecvs(fn)
	for _, call := range an.AllCalls(fn) {
		if cv, ok := call.(*ssa.Call); ok {
			if h := an.Callee(call).Static; h != nil && h != fn && cx.recvAll[h] {
				out = append(out, cv)
			}
		}
	}
	return out
}

// recvEventsMay: receives in fn plus calls of tree functions that may receive.
func (cx *c44Ctx) recvEventsMay(fn *ssa.Function) []ssa.Instruction {
	out := c44CidRecvs(fn)
	for _, call := range an.AllCalls(fn) {
		if cv, ok := call.(*ssa.Call); ok {
			if h := an.Callee(call).Static; h != nil && h != fn && h.Parent() == nil && cx.inTree(h) && cx.mayRecv(h, 0) {
				out = append(out, cv)
			}
		}
	}
	return out
}

func (cx *c44Ctx) mayRecv(h *ssa.Function, depth int) bool {
	if depth > 4 {
		return false
	}
	if len(c44CidRecvs(h)) > 0 {
		return true
	}
	for _, call := range an.AllCalls(h) {
		if _, ok := call.(*ssa.Call); ok {
			if g := an.Callee(call).Static; g != nil && g != h && g.Parent() == nil && cx.inTree(g) && cx.mayRecv(g, depth+1) {
				return true
			}
		}
	}
	return false
}

func (cx *c44Ctx) zeroTripInfeasible(fn *ssa.Function) (an.EdgeSet, string) {
	return c44ZeroTripInfeasible(fn)
}

func (cx *c44Ctx) upperBounded(fn *ssa.Function, v ssa.Value, fMax *types.Var, depth int) (bool, string) {
	return c44UpperBounded(fn, v, fMax, depth)
}

func (cx *c44Ctx) solve() {
	c44PkgFns = cx.pkg
	for changed := true; changed; {
		changed = false
		for _, h := range cx.tree {
			if h.Parent() != nil {
				continue
			}
			evs := cx.recvEvents(h)
			if len(evs) == 0 {
				continue
			}
			blocked := map[ssa.Instruction]bool{}
			for _, e := range evs {
				blocked[e] = true
			}
			cut, _ := c44ZeroTripInfeasible(h)
			first := c44FirstTrip(h)
			all := true
			for _, r := range an.Returns(h) {
				if c44ReachesF(h, r, cut, blocked, first) {
					all = false
				}
			}
			if all != cx.recvAll[h] {
				cx.recvAll[h] = all
				changed = true
			}
			// does h report "closed" as a boolean constant?
			if cx.closedAs[h] == nil {
				if cl := cx.closedResult(h, cx.recvEventsMay(h)); cl != nil {
					cx.closedAs[h] = cl
					changed = true
				}
			}
		}
	}
}

// closedResult: a boolean result of h that is the constant k on every return
// reachable after the key channel was seen closed, and !k on every return
// reachable without that.
func (cx *c44Ctx) closedResult(h *ssa.Function, evs []ssa.Instruction) *c44Closed {
	rs := h.Signature.Results()
	for i := 0; i < rs.Len(); i++ {
		if b, ok := rs.At(i).Type().Underlying().(*types.Basic); !ok || b.Kind() != types.Bool {
			continue
		}
		cut := an.EdgeSet{}
		assume := map[ssa.Instruction]c44Assume{}
		type start struct {
			from, to *ssa.BasicBlock
			at       ssa.Instruction
			env      map[ssa.Value]bool
		}
		var starts []start
		for _, r := range evs {
			if call, isCall := r.(*ssa.Call); isCall {
				cl := cx.closedAs[an.Callee(call).Static]
				if cl == nil {
					return nil
				}
				res := an.Result(call, cl.idx)
				if len(res) == 0 {
					return nil
				}
				assume[call] = c44Assume{res[0], !cl.val}
				starts = append(starts, start{at: call, env: map[ssa.Value]bool{res[0]: cl.val}})
				continue
			}
			okv := c44RecvOK(r)
			if okv == nil {
				return nil
			}
			for e := range an.BoolEdges(h, []ssa.Value{okv}, false) {
				cut[e] = true
				starts = append(starts, start{from: e.From, to: e.From.Succs[e.Succ]})
			}
		}
		if len(starts) == 0 {
			continue
		}
		var k *bool
		ok := true
		for _, r := range an.Returns(h) {
			kc, isK := r.Results[i].(*ssa.Const)
			closedReach := false
			for _, st := range starts {
				if c44Walk(c44WalkOpts{from: st.from, to: st.to, start: st.at, env: st.env, targets: map[ssa.Instruction]bool{r: true}}) {
					closedReach = true
				}
			}
			openReach := c44Walk(c44WalkOpts{to: h.Blocks[0], cut: cut, assume: assume, targets: map[ssa.Instruction]bool{r: true}})
			if !closedReach && !openReach {
				continue
			}
			if !isK || kc.Value == nil || kc.Value.Kind() != constant.Bool || (closedReach && openReach) {
				ok = false
				break
			}
			v := constant.BoolVal(kc.Value)
			want := v
			if openReach {
				want = !v
			}
			if k == nil {
				k = &want
			} else if *k != want {
				ok = false
				break
			}
		}
		if ok && k != nil {
			return &c44Closed{idx: i, val: *k}
		}
	}
	return nil
}

func c44IsMhSlice(t types.Type) bool {
	sl, ok := t.Underlying().(*types.Slice)
	return ok && an.TypeIs(sl.Elem(), "github.com/multiformats/go-multihash", "Multihash")
}

// c44IsAnnouncer: a package function with a []Multihash parameter that hands
// keys to the router (ProvideMany / Provide).
func c44IsAnnouncer(g *ssa.Function) bool {
	has := false
	for _, prm := range g.Params {
		if c44IsMhSlice(prm.Type()) {
			has = true
		}
	}
	if !has || g.Blocks == nil {
		return false
	}
	for _, call := range an.AllCalls(g) {
		if ci := an.Callee(call); ci.Invoke && (ci.Name == "ProvideMany" || ci.Name == "Provide") {
			return true
		}
	}
	return false
}

type c44Keys struct {
	fresh   []ssa.Instruction // instructions of the analysed function that produce a fresh slice
	hashes  []*ssa.Call       // the c.Hash() calls whose results are appended
	badElem string
	why     string
}

// c44KeysBuild analyses how a key slice is built: make + append of c.Hash() of
// validated CIDs in fn, or the result of a local helper that builds it so.
func c44KeysBuild(fn *ssa.Function, v ssa.Value, depth int) c44Keys {
	var out c44Keys
	if depth > 3 || v == nil {
		out.why = "key slice not found"
		return out
	}
	idx := 0
	call, _ := v.(*ssa.Call)
	if e, ok := v.(*ssa.Extract); ok {
		idx = e.Index
		call, _ = e.Tuple.(*ssa.Call)
	}
	if call != nil {
		if h := an.Callee(call).Static; h != nil && h.Pkg == fn.Pkg && h.Blocks != nil && an.Callee(call).Builtin == "" {
			n := 0
			for _, r := range an.Returns(h) {
				if idx >= len(r.Results) {
					continue
				}
				n++
				sub := c44KeysBuild(h, r.Results[idx], depth+1)
				if sub.why != "" {
					out.why = "via " + h.Name() + ": " + sub.why
					return out
				}
				mk := map[ssa.Instruction]bool{}
				for _, f := range sub.fresh {
					mk[f] = true
				}
				if len(sub.fresh) == 0 || an.Reaches(h, nil, r, nil, mk) {
					out.why = "helper " + h.Name() + " can return a slice it did not make"
					return out
				}
				out.hashes = append(out.hashes, sub.hashes...)
				if sub.badElem != "" {
					out.badElem = sub.badElem
				}
			}
			if n == 0 {
				out.why = "helper " + h.Name() + " returns nothing"
				return out
			}
			out.fresh = []ssa.Instruction{call}
			return out
		}
	}
	fresh, elems, why := c44SliceBuild(v)
	if why != "" {
		out.why = why
		return out
	}
	out.fresh = fresh
	if len(elems) == 0 {
		out.badElem = "never filled"
	}
	for _, e := range elems {
		hc, ok := an.IsCallTo(e, an.M(c44Cid, "Cid", "Hash"))
		if !ok {
			out.badElem = an.PathOf(e)
			continue
		}
		val := false
		for _, vc := range an.Calls(fn, an.M("verifcid", "", "ValidateCid")) {
			if an.Args(vc)[1] == an.Recv(hc) && an.OnNilEdgeOf(fn, vc, hc) {
				val = true
			}
		}
		if !val {
			out.badElem = "Hash of an unvalidated CID"
			continue
		}
		out.hashes = append(out.hashes, hc)
	}
	return out
}

// ---------------------------------------------------------------- helpers

func c44CallName(ci ssa.CallInstruction) string {
	info := an.Callee(ci)
	if info.Fn == nil && info.Builtin == "" && info.Static == nil {
		return "func-value:" + c44Short(an.PathOf(ci.Common().Value))
	}
	return info.String()
}

func c44Short(s string) string {
	if i := strings.LastIndex(s, "."); i >= 0 && i+1 < len(s) {
		return s[i+1:]
	}
	if i := strings.Index(s, "@"); i >= 0 {
		return s[:i]
	}
	return s
}

func c44IsCidChan(t types.Type) bool {
	ch, ok := t.Underlying().(*types.Chan)
	return ok && an.TypeIs(ch.Elem(), c44Cid, "Cid")
}

func c44IsCidKeyedMap(t types.Type) bool {
	m, ok := t.Underlying().(*types.Map)
	return ok && an.TypeIs(m.Key(), c44Cid, "Cid")
}

// c44CidRecvs: receive instructions (unary <- or select) on channels of cid.Cid.
func c44CidRecvs(fn *ssa.Function) []ssa.Instruction {
	var out []ssa.Instruction
	an.Instrs(fn, func(in ssa.Instruction) {
		switch x := in.(type) {
		case *ssa.UnOp:
			if x.Op == token.ARROW && c44IsCidChan(x.X.Type()) {
				out = append(out, in)
			}
		case *ssa.Select:
			for _, st := range x.States {
				if st.Dir == types.RecvOnly && c44IsCidChan(st.Chan.Type()) {
					out = append(out, in)
					break
				}
			}
		}
	})
	return out
}

// c44RecvOK returns the comma-ok value of a unary receive (nil if absent).
func c44RecvOK(in ssa.Instruction) ssa.Value {
	switch x := in.(type) {
	case *ssa.UnOp:
		if !x.CommaOk {
			return nil
		}
		for _, r := range *x.Referrers() {
			if e, ok := r.(*ssa.Extract); ok && e.Index == 1 {
				return e
			}
		}
	case *ssa.Select:
		for _, r := range *x.Referrers() {
			if e, ok := r.(*ssa.Extract); ok && e.Index == 1 {
				return e
			}
		}
	}
	return nil
}

func c44Atom(v ssa.Value) ssa.Value {
	for {
		u, ok := v.(*ssa.UnOp)
		if !ok || u.Op != token.NOT {
			return v
		}
		v = u.X
	}
}

// c44CountedCompare: cond is `i' < bound` where i' is an induction value
// (phi, or phi+1 feeding that phi).
func c44CountedCompare(cond ssa.Value) bool {
	b, ok := c44Atom(cond).(*ssa.BinOp)
	if !ok || b.Op != token.LSS {
		return false
	}
	return c44Induction(b.X)
}

// c44LenCompare: cond is `len(m) < bound` (possibly through an integer
// conversion) for the given map value.
func c44LenCompare(cond, m ssa.Value) bool {
	b, ok := c44Atom(cond).(*ssa.BinOp)
	if !ok || b.Op != token.LSS {
		return false
	}
	x := b.X
	if cv, ok := x.(*ssa.Convert); ok {
		x = cv.X
	}
	call, ok := x.(*ssa.Call)
	return ok && an.Callee(call).Builtin == "len" && call.Call.Args[0] == m
}

// c44FirstIndexZero: the induction value v takes 0 on the first iteration
// (phi starting at 0, or phi+1 with the phi starting at -1).
func c44FirstIndexZero(v ssa.Value) bool {
	start := func(phi *ssa.Phi, self ssa.Value) (int64, bool) {
		var init int64
		n := 0
		for _, e := range phi.Edges {
			if e == self {
				continue
			}
			if b, ok := e.(*ssa.BinOp); ok && b.Op == token.ADD && b.X == ssa.Value(phi) {
				continue
			}
			k, ok := an.ConstOf(e)
			if !ok || k.Kind() != constant.Int {
				return 0, false
			}
			init, _ = constant.Int64Val(k)
			n++
		}
		return init, n == 1
	}
	if phi, ok := v.(*ssa.Phi); ok {
		k, ok := start(phi, nil)
		return ok && k == 0
	}
	if b, ok := v.(*ssa.BinOp); ok && b.Op == token.ADD {
		if phi, ok := b.X.(*ssa.Phi); ok {
			k, ok := start(phi, v)
			inc, ok2 := an.ConstOf(b.Y)
			if ok && ok2 {
				i, _ := constant.Int64Val(inc)
				return k+i == 0
			}
		}
	}
	return false
}

func c44Induction(v ssa.Value) bool {
	isInc := func(x ssa.Value, phi *ssa.Phi) bool {
		b, ok := x.(*ssa.BinOp)
		if !ok || b.Op != token.ADD || b.X != phi {
			return false
		}
		k, ok := an.ConstOf(b.Y)
		return ok && k.Kind() == constant.Int && constant.Sign(k) > 0
	}
	if phi, ok := v.(*ssa.Phi); ok {
		for _, e := range phi.Edges {
			if isInc(e, phi) {
				return true
			}
		}
		return false
	}
	if b, ok := v.(*ssa.BinOp); ok && b.Op == token.ADD {
		if phi, ok := b.X.(*ssa.Phi); ok && isInc(v, phi) {
			for _, e := range phi.Edges {
				if e == v {
					return true
				}
			}
		}
	}
	return false
}

func c44IsLoopHeader(b *ssa.BasicBlock) bool {
	for _, p := range b.Preds {
		if b.Dominates(p) {
			return true
		}
	}
	return false
}

// c44BoundedLoop: the loop headed by b is a range over a map/string (its
// header steps a range iterator) or a counted loop (the header, or the latch
// jumping back to it, ends in an induction compare).
func c44BoundedLoop(b *ssa.BasicBlock) bool {
	for _, in := range b.Instrs {
		if _, ok := in.(*ssa.Next); ok {
			return true
		}
	}
	ends := func(x *ssa.BasicBlock) bool {
		if len(x.Instrs) == 0 {
			return false
		}
		ifi, ok := x.Instrs[len(x.Instrs)-1].(*ssa.If)
		return ok && c44CountedCompare(ifi.Cond)
	}
	if ends(b) {
		return true
	}
	// rotated loops (for range n): every back edge comes from a counted compare
	n := 0
	for _, p := range b.Preds {
		if b.Dominates(p) {
			if !ends(p) {
				return false
			}
			n++
		}
	}
	return n > 0
}

func c44BlockPos(b *ssa.BasicBlock) token.Pos {
	for _, in := range b.Instrs {
		if in.Pos().IsValid() {
			return in.Pos()
		}
	}
	for _, s := range b.Succs {
		for _, in := range s.Instrs {
			if in.Pos().IsValid() {
				return in.Pos()
			}
		}
	}
	return b.Parent().Pos()
}

func c44LoopName(b *ssa.BasicBlock) string {
	// position-free: the comment go/ssa gives the block plus its ordinal among
	// equally named headers
	n := 0
	for _, x := range b.Parent().Blocks {
		if x == b {
			break
		}
		if x.Comment == b.Comment && c44IsLoopHeader(x) {
			n++
		}
	}
	return fmt.Sprintf("%s#%d", b.Comment, n)
}

// c44FirstTrip: counted loops `for i := 0; i < B; ..` with B proven >= 1: maps
// the loop header to the successor index (the exit) that cannot be taken when
// the header is entered from outside the loop, i.e. with i == 0.
func c44FirstTrip(fn *ssa.Function) map[*ssa.BasicBlock]int {
	out := map[*ssa.BasicBlock]int{}
	for _, h := range fn.Blocks {
		if !c44IsLoopHeader(h) || len(h.Instrs) == 0 {
			continue
		}
		ifi, ok := h.Instrs[len(h.Instrs)-1].(*ssa.If)
		if !ok {
			continue
		}
		cmp, ok := ifi.Cond.(*ssa.BinOp)
		if !ok {
			continue
		}
		idx, bound := cmp.X, cmp.Y
		switch cmp.Op {
		case token.LSS:
		case token.GTR:
			idx, bound = bound, idx
		default:
			continue
		}
		phi, ok := idx.(*ssa.Phi)
		if !ok || phi.Block() != h || !c44Induction(phi) {
			continue
		}
		// 0 on every edge entering the loop, anything on the back edges
		zero := true
		for i, p := range h.Preds {
			if h.Dominates(p) {
				continue
			}
			k, isK := an.ConstOf(phi.Edges[i])
			if !isK || k.Kind() != constant.Int || constant.Sign(k) != 0 {
				zero = false
			}
		}
		if !zero {
			continue
		}
		if ok, _ := c44Positive(fn, bound, 0); ok {
			out[h] = 1 // the false edge of `0 < B`
		}
	}
	return out
}

// c44ReachesF: an.Reaches from the function entry, with first-trip exits of
// counted loops (c44FirstTrip) not taken when the loop is entered from outside.
func c44ReachesF(fn *ssa.Function, to ssa.Instruction, cut an.EdgeSet, blocked map[ssa.Instruction]bool, first map[*ssa.BasicBlock]int) bool {
	if len(fn.Blocks) == 0 || to.Parent() != fn {
		return false
	}
	type state struct {
		b       *ssa.BasicBlock
		outside bool
	}
	seen := map[state]bool{}
	var walk func(from, x *ssa.BasicBlock) bool
	walk = func(from, x *ssa.BasicBlock) bool {
		outside := from == nil || !x.Dominates(from)
		if seen[state{x, outside}] {
			return false
		}
		seen[state{x, outside}] = true
		for _, in := range x.Instrs {
			if in == to {
				return true
			}
			if blocked[in] {
				return false
			}
		}
		skip, has := first[x]
		for i, s := range x.Succs {
			if cut[an.Edge{From: x, Succ: i}] || (has && outside && i == skip) {
				continue
			}
			if walk(x, s) {
				return true
			}
		}
		return false
	}
	return walk(nil, fn.Blocks[0])
}

// c44CycleThrough: can control return to block b from b's terminator without
// crossing cut edges / executing blocked instructions? first-trip exits of
// counted loops (c44FirstTrip) are not taken when such a loop is entered from
// outside.
func c44CycleThrough(fn *ssa.Function, b *ssa.BasicBlock, cut an.EdgeSet, blocked map[ssa.Instruction]bool, first map[*ssa.BasicBlock]int) bool {
	type state struct {
		b       *ssa.BasicBlock
		outside bool
	}
	seen := map[state]bool{}
	var walk func(from, x *ssa.BasicBlock) bool
	walk = func(from, x *ssa.BasicBlock) bool {
		// entering x
		if x == b {
			return true
		}
		outside := !x.Dominates(from)
		if seen[state{x, outside}] {
			return false
		}
		seen[state{x, outside}] = true
		for _, in := range x.Instrs {
			if blocked[in] {
				return false
			}
		}
		skip, has := first[x]
		for i, s := range x.Succs {
			if cut[an.Edge{From: x, Succ: i}] || (has && outside && i == skip) {
				continue
			}
			if walk(x, s) {
				return true
			}
		}
		return false
	}
	// instructions of b itself after entry count too
	for _, in := range b.Instrs {
		if blocked[in] {
			return false
		}
	}
	for i, s := range b.Succs {
		if cut[an.Edge{From: b, Succ: i}] {
			continue
		}
		if walk(b, s) {
			return true
		}
	}
	return false
}

// c44ZeroTripInfeasible returns the edges `0 < B` false (and equivalent forms)
// for values B proven >= 1, plus a description of the proofs found.
func c44ZeroTripInfeasible(fn *ssa.Function) (an.EdgeSet, string) {
	var proofs []string
	es := an.CondEdges(fn, func(atom ssa.Value) (bool, bool) {
		b, ok := atom.(*ssa.BinOp)
		if !ok {
			return false, false
		}
		isZero := func(v ssa.Value) bool {
			k, ok := an.ConstOf(v)
			return ok && k.Kind() == constant.Int && constant.Sign(k) == 0
		}
		var subj ssa.Value
		posOnTrue := false
		switch {
		case b.Op == token.LSS && isZero(b.X): // 0 < B
			subj, posOnTrue = b.Y, true
		case b.Op == token.GTR && isZero(b.Y): // B > 0
			subj, posOnTrue = b.X, true
		case b.Op == token.NEQ && isZero(b.Y): // B != 0
			subj, posOnTrue = b.X, true
		case b.Op == token.EQL && isZero(b.Y): // B == 0
			subj, posOnTrue = b.X, false
		default:
			return false, false
		}
		ok2, why := c44Positive(fn, subj, 0)
		if !ok2 {
			return false, false
		}
		proofs = append(proofs, why)
		// the edge on which subj is NOT positive is infeasible
		return !posOnTrue, posOnTrue
	})
	sort.Strings(proofs)
	if len(proofs) == 0 {
		return es, "no trip-count proof needed"
	}
	return es, "trip count >= 1 by " + strings.Join(proofs, ", ")
}

// c44Positive: v >= 1 on every path (accepted proofs only).
func c44Positive(fn *ssa.Function, v ssa.Value, depth int) (bool, string) {
	if depth > 6 {
		return false, ""
	}
	switch x := v.(type) {
	case *ssa.Parameter:
		// a parameter of a local function: positive at every static call site
		n := 0
		for _, site := range c44CallSites(x.Parent()) {
			n++
			if ok, _ := c44Positive(site.Parent(), site.Common().Args[c44ParamIndex(x)], depth+1); !ok {
				return false, ""
			}
		}
		if n > 0 {
			return true, "every caller passes a proven positive bound"
		}
	case *ssa.Const:
		if x.Value != nil && x.Value.Kind() == constant.Int && constant.Sign(x.Value) > 0 {
			return true, "constant " + x.Value.String()
		}
	case *ssa.Extract:
		if call, ok := x.Tuple.(*ssa.Call); ok {
			if rs := c44LocalResults(call, x.Index); len(rs) > 0 {
				for _, r := range rs {
					if ok, _ := c44Positive(r.Parent(), r.Results[x.Index], depth+1); !ok {
						return false, ""
					}
				}
				return true, "every return of " + an.Callee(call).Name + " is proven positive"
			}
		}
	case *ssa.Call:
		if rs := c44LocalResults(x, 0); len(rs) > 0 {
			// the result of a local helper: positive at every return of the helper
			for _, r := range rs {
				if ok, _ := c44Positive(r.Parent(), r.Results[0], depth+1); !ok {
					return false, ""
				}
			}
			return true, "every return of " + an.Callee(x).Name + " is proven positive"
		}
		ci := an.Callee(x)
		switch ci.Builtin {
		case "max":
			for _, a := range x.Call.Args {
				if ok, why := c44Positive(fn, a, depth+1); ok {
					return true, "max(.., " + why + ")"
				}
			}
		case "min":
			all := len(x.Call.Args) > 0
			for _, a := range x.Call.Args {
				if ok, _ := c44Positive(fn, a, depth+1); !ok {
					all = false
				}
			}
			if all {
				return true, "min of positives"
			}
		}
	case *ssa.Phi:
		for i, e := range x.Edges {
			if ok, _ := c44Positive(fn, e, depth+1); ok {
				continue
			}
			if !c44PhiEdgeGuarded(x, i, c44NonZeroEdges(fn, e)) {
				return false, ""
			}
		}
		return true, "zero test"
	}
	return false, ""
}

// c44NonZeroEdges: edges on which integer v is known to be != 0 / >= 1.
func c44NonZeroEdges(fn *ssa.Function, v ssa.Value) an.EdgeSet {
	return an.CondEdges(fn, func(atom ssa.Value) (bool, bool) {
		b, ok := atom.(*ssa.BinOp)
		if !ok {
			return false, false
		}
		kOf := func(x ssa.Value) (int64, bool) {
			k, ok := an.ConstOf(x)
			if !ok || k.Kind() != constant.Int {
				return 0, false
			}
			n, ok := constant.Int64Val(k)
			return n, ok
		}
		if b.X == v {
			if k, ok := kOf(b.Y); ok {
				switch {
				case b.Op == token.NEQ && k == 0, b.Op == token.GTR && k == 0, b.Op == token.GEQ && k == 1:
					return true, false
				case b.Op == token.EQL && k == 0, b.Op == token.LSS && k == 1, b.Op == token.LEQ && k == 0:
					return false, true
				}
			}
		}
		if b.Y == v {
			if k, ok := kOf(b.X); ok {
				switch {
				case b.Op == token.LSS && k == 0, b.Op == token.LEQ && k == 1, b.Op == token.NEQ && k == 0:
					return true, false
				case b.Op == token.EQL && k == 0, b.Op == token.GEQ && k == 0, b.Op == token.GTR && k == 1:
					return false, true
				}
			}
		}
		return false, false
	})
}

// c44PhiEdgeGuarded: the i-th incoming edge of phi can only be taken after
// crossing one of edges.
func c44PhiEdgeGuarded(phi *ssa.Phi, i int, edges an.EdgeSet) bool {
	if len(edges) == 0 {
		return false
	}
	blk := phi.Block()
	pred := blk.Preds[i]
	for si, s := range pred.Succs {
		if s == blk && edges[an.Edge{From: pred, Succ: si}] {
			// all edges pred->blk must be in the set
			all := true
			for sj, s2 := range pred.Succs {
				if s2 == blk && !edges[an.Edge{From: pred, Succ: sj}] {
					all = false
				}
			}
			if all {
				return true
			}
		}
	}
	if len(pred.Instrs) == 0 {
		return false
	}
	return an.GuardedBy(phi.Parent(), nil, pred.Instrs[len(pred.Instrs)-1], edges)
}

// c44ReachConst: starting on CFG edge e, can one of targets be executed?
// Branches on boolean phis whose value is a known constant along the walked
// path are followed on the feasible side only.
func c44ReachConst(e an.Edge, targets map[ssa.Instruction]bool) bool {
	return c44ReachConstCut(e.From, e.From.Succs[e.Succ], nil, targets)
}

// c44ReachConstCut: start on the edge from -> b (from may be nil for the
// function entry), never cross an edge in cut.
func c44ReachConstCut(from0, b0 *ssa.BasicBlock, cut an.EdgeSet, targets map[ssa.Instruction]bool) bool {
	return c44Walk(c44WalkOpts{from: from0, to: b0, cut: cut, targets: targets})
}

// c44Assume: when the walk executes the keyed instruction, value v is taken to be b.
type c44Assume struct {
	v ssa.Value
	b bool
}

type c44WalkOpts struct {
	from, to *ssa.BasicBlock    // start on the edge from -> to (from nil = function entry), or
	start    ssa.Instruction    // start right after this instruction
	env      map[ssa.Value]bool // boolean values known at the start
	cut      an.EdgeSet         // edges never crossed
	assume   map[ssa.Instruction]c44Assume
	targets  map[ssa.Instruction]bool
}

// c44Walk: can a target instruction be executed? Branches on boolean values
// whose constant is known along the walked path (constant phi inputs, assumed
// call results) are followed on the feasible side only.
func c44Walk(o c44WalkOpts) bool {
	type state struct {
		b   *ssa.BasicBlock
		env string
	}
	seen := map[state]bool{}
	envKey := func(env map[ssa.Value]bool) string {
		var ks []string
		for k, v := range env {
			ks = append(ks, fmt.Sprintf("%s=%v", k.Name(), v))
		}
		sort.Strings(ks)
		return strings.Join(ks, ",")
	}
	var walk func(from, b *ssa.BasicBlock, env map[ssa.Value]bool, startIdx int) bool
	walk = func(from, b *ssa.BasicBlock, env map[ssa.Value]bool, startIdx int) bool {
		ne := map[ssa.Value]bool{}
		for k, v := range env {
			ne[k] = v
		}
		if startIdx == 0 {
			// evaluate phis of b for the edge from -> b (parallel assignment)
			pi := -1
			for i, p := range b.Preds {
				if p == from {
					pi = i
				}
			}
			for _, in := range b.Instrs {
				phi, ok := in.(*ssa.Phi)
				if !ok {
					break
				}
				delete(ne, phi)
				if pi < 0 {
					continue
				}
				inc := phi.Edges[pi]
				if k, ok := inc.(*ssa.Const); ok && k.Value != nil && k.Value.Kind() == constant.Bool {
					ne[phi] = constant.BoolVal(k.Value)
				} else if kv, ok := env[inc]; ok {
					ne[phi] = kv
				}
			}
			st := state{b, envKey(ne)}
			if seen[st] {
				return false
			}
			seen[st] = true
		}
		for _, in := range b.Instrs[startIdx:] {
			if o.targets[in] {
				return true
			}
			if a, ok := o.assume[in]; ok {
				ne[a.v] = a.b
			}
		}
		if len(b.Instrs) > 0 {
			if ifi, ok := b.Instrs[len(b.Instrs)-1].(*ssa.If); ok {
				atom := c44Atom(ifi.Cond)
				neg := false
				for v := ifi.Cond; v != atom; {
					neg = !neg
					v = v.(*ssa.UnOp).X
				}
				if kv, ok := ne[atom]; ok {
					if neg {
						kv = !kv
					}
					si := 1
					if kv {
						si = 0
					}
					if o.cut[an.Edge{From: b, Succ: si}] {
						return false
					}
					return walk(b, b.Succs[si], ne, 0)
				}
			}
		}
		for si, s := range b.Succs {
			if o.cut[an.Edge{From: b, Succ: si}] {
				continue
			}
			if walk(b, s, ne, 0) {
				return true
			}
		}
		return false
	}
	env := o.env
	if env == nil {
		env = map[ssa.Value]bool{}
	}
	if o.start != nil {
		blk := o.start.Block()
		idx := 0
		for i, in := range blk.Instrs {
			if in == o.start {
				idx = i + 1
			}
		}
		return walk(nil, blk, env, idx)
	}
	return walk(o.from, o.to, env, 0)
}

// c44SliceBuild walks a slice value back through append/phi to its make
// sites and returns the appended element values.
func c44SliceBuild(v ssa.Value) (makes []ssa.Instruction, elems []ssa.Value, why string) {
	seen := map[ssa.Value]bool{}
	var walk func(v ssa.Value)
	walk = func(v ssa.Value) {
		if why != "" || seen[v] {
			return
		}
		seen[v] = true
		switch x := v.(type) {
		case *ssa.Phi:
			for _, e := range x.Edges {
				walk(e)
			}
		case *ssa.MakeSlice:
			makes = append(makes, x)
		case *ssa.Const:
			if !x.IsNil() {
				why = "constant"
			}
		case *ssa.Call:
			if an.Callee(x).Builtin != "append" {
				why = "result of " + an.Callee(x).String()
				return
			}
			walk(x.Call.Args[0])
			// variadic part: slice of a fresh array whose cells are stored once
			sl, ok := x.Call.Args[1].(*ssa.Slice)
			if !ok {
				why = "append of a non-literal slice " + an.PathOf(x.Call.Args[1])
				return
			}
			arr, ok := sl.X.(*ssa.Alloc)
			if !ok {
				why = "append of a non-literal slice"
				return
			}
			for _, r := range *arr.Referrers() {
				if ia, ok := r.(*ssa.IndexAddr); ok {
					for _, r2 := range *ia.Referrers() {
						if st, ok := r2.(*ssa.Store); ok && st.Addr == ia {
							elems = append(elems, st.Val)
						}
					}
				}
			}
		default:
			why = "value " + an.PathOf(v)
		}
	}
	walk(v)
	return
}

// c44UpperBounded: v <= s.maxReprovideBatchSize on every path (accepted
// proofs); the progress constant 1 is tolerated.
func c44UpperBounded(fn *ssa.Function, v ssa.Value, fMax *types.Var, depth int) (bool, string) {
	if depth > 6 {
		return false, "too deep"
	}
	isMax := func(x ssa.Value) bool {
		u, ok := x.(*ssa.UnOp)
		if !ok || u.Op != token.MUL {
			return false
		}
		f, _ := an.FieldOf(u.X)
		return f == fMax
	}
	switch x := v.(type) {
	case *ssa.Parameter:
		n := 0
		for _, site := range c44CallSites(x.Parent()) {
			n++
			if ok, why := c44UpperBounded(site.Parent(), site.Common().Args[c44ParamIndex(x)], fMax, depth+1); !ok {
				return false, "caller " + site.Parent().Name() + ": " + why
			}
		}
		if n > 0 {
			return true, ""
		}
		return false, "parameter " + x.Name() + " without a static caller"
	case *ssa.Const:
		if x.Value != nil && x.Value.Kind() == constant.Int {
			if n, ok := constant.Int64Val(x.Value); ok && n == 1 {
				return true, ""
			}
		}
		return false, "constant " + x.String()
	case *ssa.UnOp:
		if isMax(x) {
			return true, ""
		}
	case *ssa.Extract:
		if call, ok := x.Tuple.(*ssa.Call); ok {
			if rs := c44LocalResults(call, x.Index); len(rs) > 0 {
				for _, r := range rs {
					if ok, why := c44UpperBounded(r.Parent(), r.Results[x.Index], fMax, depth+1); !ok {
						return false, "via " + an.Callee(call).Name + ": " + why
					}
				}
				return true, ""
			}
		}
	case *ssa.Call:
		if rs := c44LocalResults(x, 0); len(rs) > 0 {
			// the result of a local helper: bounded at every return of the helper
			for _, r := range rs {
				if ok, why := c44UpperBounded(r.Parent(), r.Results[0], fMax, depth+1); !ok {
					return false, "via " + an.Callee(x).Name + ": " + why
				}
			}
			return true, ""
		}
		switch an.Callee(x).Builtin {
		case "min":
			for _, a := range x.Call.Args {
				if ok, _ := c44UpperBounded(fn, a, fMax, depth+1); ok {
					return true, ""
				}
			}
			return false, "min() without the configured maximum"
		case "max":
			for _, a := range x.Call.Args {
				if ok, why := c44UpperBounded(fn, a, fMax, depth+1); !ok {
					return false, why
				}
			}
			return true, ""
		}
	case *ssa.Phi:
		for i, e := range x.Edges {
			if ok, _ := c44UpperBounded(fn, e, fMax, depth+1); ok {
				continue
			}
			// chosen on an edge where e < max / e <= max
			edges := an.CondEdges(fn, func(atom ssa.Value) (bool, bool) {
				b, ok := atom.(*ssa.BinOp)
				if !ok {
					return false, false
				}
				same := func(a, b ssa.Value) bool { return a == b || an.PathOf(a) == an.PathOf(b) }
				bx, _ := c44UpperBounded(fn, b.X, fMax, depth+1)
				by, _ := c44UpperBounded(fn, b.Y, fMax, depth+1)
				switch {
				case same(b.X, e) && by && (b.Op == token.LSS || b.Op == token.LEQ):
					return true, false
				case same(b.X, e) && by && (b.Op == token.GTR || b.Op == token.GEQ):
					return false, b.Op == token.GTR || b.Op == token.GEQ
				case same(b.Y, e) && bx && (b.Op == token.GTR || b.Op == token.GEQ):
					return true, false
				case same(b.Y, e) && bx && (b.Op == token.LSS || b.Op == token.LEQ):
					return false, true
				}
				return false, false
			})
			if !c44PhiEdgeGuarded(x, i, edges) {
				return false, "the value " + c44Short(an.PathOf(e)) + " is selected without a '<' test against the configured maximum"
			}
		}
		return true, ""
	}
	return false, "value " + c44Short(an.PathOf(v))
}

// c44HasCidSend: g (or a closure nested in it) sends on a CID channel in a select.
func c44HasCidSend(g *ssa.Function) bool {
	found := false
	for _, f := range an.WithClosures(g) {
		an.Instrs(f, func(in ssa.Instruction) {
			if s, ok := in.(*ssa.Select); ok {
				if i, _ := c44SendState(s); i >= 0 {
					found = true
				}
			}
		})
	}
	return found
}

// c44SendsDeep: the call tree of g sends on a CID channel.
func c44SendsDeep(g *ssa.Function) bool {
	for _, f := range c44Tree(g) {
		found := false
		an.Instrs(f, func(in ssa.Instruction) {
			switch x := in.(type) {
			case *ssa.Select:
				if i, _ := c44SendState(x); i >= 0 {
					found = true
				}
			case *ssa.Send:
				if c44IsCidChan(x.Chan.Type()) {
					found = true
				}
			}
		})
		if found {
			return true
		}
	}
	return false
}

// c44SendState returns the case index and the sent value of the (first) send
// state on a CID channel.
func c44SendState(s *ssa.Select) (int, ssa.Value) {
	for i, st := range s.States {
		if st.Dir == types.SendOnly && c44IsCidChan(st.Chan.Type()) {
			return i, st.Send
		}
	}
	return -1, nil
}

// c44SelectOtherCase: edges taken when select s did NOT choose case idx.
func c44SelectOtherCase(fn *ssa.Function, s *ssa.Select, idx int) an.EdgeSet {
	var iv ssa.Value
	for _, r := range *s.Referrers() {
		if e, ok := r.(*ssa.Extract); ok && e.Index == 0 {
			iv = e
		}
	}
	if iv == nil {
		return an.EdgeSet{}
	}
	return an.CondEdges(fn, func(atom ssa.Value) (bool, bool) {
		b, ok := atom.(*ssa.BinOp)
		if !ok || b.Op != token.EQL || b.X != iv {
			return false, false
		}
		k, ok := an.ConstOf(b.Y)
		if !ok {
			return false, false
		}
		n, _ := constant.Int64Val(k)
		if int(n) == idx {
			return false, true // "not this case" edge
		}
		return true, false // another case was chosen
	})
}

// c44NonLastArg classifies the markVisited argument: 1 = true for every index
// but (at most) the last, 0 = a comparison that is not, -1 = unknown shape.
func c44NonLastArg(v ssa.Value) (int, string) {
	if k, ok := an.ConstOf(v); ok && k.Kind() == constant.Bool {
		if constant.BoolVal(k) {
			return 1, "constant true"
		}
		return 0, "constant false"
	}
	b, ok := v.(*ssa.BinOp)
	if !ok {
		return -1, an.PathOf(v)
	}
	isLen := func(x ssa.Value) bool {
		c, ok := x.(*ssa.Call)
		return ok && an.Callee(c).Builtin == "len"
	}
	isLast := func(x ssa.Value) bool { // len(s) - 1
		s, ok := x.(*ssa.BinOp)
		if !ok || s.Op != token.SUB || !isLen(s.X) {
			return false
		}
		k, ok := an.ConstOf(s.Y)
		return ok && k.String() == "1"
	}
	isIdx := func(x ssa.Value) bool { return c44Induction(x) }
	isIdxPlus1 := func(x ssa.Value) bool {
		s, ok := x.(*ssa.BinOp)
		if !ok || s.Op != token.ADD || !isIdx(s.X) || c44Induction(x) {
			return false
		}
		k, ok := an.ConstOf(s.Y)
		return ok && k.String() == "1"
	}
	op := b.Op
	x, y := b.X, b.Y
	if isLast(x) || isLen(x) { // normalise index on the left
		x, y = y, x
		switch op {
		case token.LSS:
			op = token.GTR
		case token.GTR:
			op = token.LSS
		case token.LEQ:
			op = token.GEQ
		case token.GEQ:
			op = token.LEQ
		}
	}
	desc := fmt.Sprintf("index %s bound", op)
	switch {
	case isIdx(x) && isLast(y):
		if op == token.LSS || op == token.LEQ || op == token.NEQ {
			return 1, "index " + op.String() + " len-1"
		}
		return 0, "index " + op.String() + " len-1"
	case isIdxPlus1(x) && isLen(y):
		if op == token.LSS || op == token.LEQ || op == token.NEQ {
			return 1, "index+1 " + op.String() + " len"
		}
		return 0, "index+1 " + op.String() + " len"
	case isIdx(x) && isLen(y):
		if op == token.LSS || op == token.LEQ || op == token.NEQ {
			return 1, "index " + op.String() + " len"
		}
		return 0, "index " + op.String() + " len"
	}
	return -1, desc
}

// c44EnclosingLoop: innermost natural-loop header whose loop contains b.
func c44EnclosingLoop(b *ssa.BasicBlock) *ssa.BasicBlock {
	var best *ssa.BasicBlock
	for _, h := range b.Parent().Blocks {
		if !c44IsLoopHeader(h) || !(h == b || h.Dominates(b)) {
			continue
		}
		if !c44NaturalLoop(h)[b] {
			continue
		}
		if best == nil || best.Dominates(h) {
			best = h
		}
	}
	return best
}

// c44NaturalLoop: union of the natural loops of all back edges into h.
func c44NaturalLoop(h *ssa.BasicBlock) map[*ssa.BasicBlock]bool {
	loop := map[*ssa.BasicBlock]bool{h: true}
	var work []*ssa.BasicBlock
	for _, p := range h.Preds {
		if h.Dominates(p) && !loop[p] {
			loop[p] = true
			work = append(work, p)
		}
	}
	for len(work) > 0 {
		x := work[len(work)-1]
		work = work[:len(work)-1]
		for _, p := range x.Preds {
			if !loop[p] {
				loop[p] = true
				work = append(work, p)
			}
		}
	}
	return loop
}

// c44LeavesLoop: from block start, can control leave the loop without first
// returning to its header?
func c44LeavesLoop(start, hdr *ssa.BasicBlock, loop map[*ssa.BasicBlock]bool) bool {
	seen := map[*ssa.BasicBlock]bool{}
	var walk func(b *ssa.BasicBlock) bool
	walk = func(b *ssa.BasicBlock) bool {
		if b == hdr {
			return false
		}
		if !loop[b] {
			return true
		}
		if seen[b] {
			return false
		}
		seen[b] = true
		for _, s := range b.Succs {
			if walk(s) {
				return true
			}
		}
		return false
	}
	return walk(start)
}

// c44BoolField: t is a struct with exactly one boolean field: its index (else -1).
func c44BoolField(t types.Type) int {
	st, ok := t.Underlying().(*types.Struct)
	if !ok {
		return -1
	}
	k := -1
	for i := 0; i < st.NumFields(); i++ {
		if b, ok := st.Field(i).Type().Underlying().(*types.Basic); ok && b.Kind() == types.Bool {
			if k >= 0 {
				return -1
			}
			k = i
		}
	}
	return k
}

// c44BoolFieldReads: the reads, in fn, of the single boolean field of a struct
// parameter of fn (nil when there is no such parameter or more than one).
func c44BoolFieldReads(fn *ssa.Function) []ssa.Value {
	var prm *ssa.Parameter
	for _, p := range fn.Params {
		if c44BoolField(p.Type()) >= 0 {
			if prm != nil {
				return nil
			}
			prm = p
		}
	}
	if prm == nil {
		return nil
	}
	k := c44BoolField(prm.Type())
	var out []ssa.Value
	an.Instrs(fn, func(in ssa.Instruction) {
		if v, ok := in.(ssa.Value); ok {
			if p, kk, ok := c24ParamField(v); ok && p == prm && kk == k {
				out = append(out, v)
			}
		}
	})
	return out
}
