package props

import (
	"fmt"
	"go/constant"
	"go/token"
	"go/types"
	"math"
	"sort"
	"strings"

	"golang.org/x/tools/go/ssa"

	"verif/checker/an"
)

func init() {
	register("C29", Prop{
		Pkgs: []string{"./namesys"},
		Explain: "Decided (structural necessary conditions of 'name publishing is monotone and resolution is consistent'): " +
			"O1 every key that reaches the resolver cache (LRU Get/Add/Remove) or the static map of a namesys — followed back through the cache wrapper functions to the site that builds it — is built in ONE key domain (a single key-constructor function, or Path.String(), or Name.String()), so that the entry Publish writes/invalidates is the entry Resolve reads, and that domain maps every textual encoding of an IPNS name to one key (it goes through ipns.Name on the success edge of NameFromString); " +
			"O2 in every IPNSPublisher method that writes the datastore, the publisher mutex is held (write mode, on all paths) from the read of the previous record (GetPublished / ds.Get) through ds.Put and ds.Sync; " +
			"O3 the sequence number given to ipns.NewRecord is, per incoming path: 0 only where there is no previous record and no explicit sequence; the explicit sequence only where it is known > the current record's Sequence() (or, without a record, known != 0); the current sequence unchanged only where the new value's string is known equal to the current record's value; current+1 only where they are known different and the current sequence is known < MaxUint64 (no wrap-around); the record is created for the caller's key and value, marshalled, Put under IpnsDsKey(name) — the key GetPublished reads with the same name — then Sync'ed, each on the nil edge of the previous step, and returned; " +
			"O5 a cache write wrapper, once the cache is enabled, never returns without Add or Remove of its key, and namesys.Publish writes or invalidates the cache entry on every path after handing the record to the publisher; " +
			"O4 recursive resolution: the recursive resolveAsync call is reached only where the result has no error, its path is Mutable() and depth != 1; on depth == 1 ErrResolveRecursion is stored in the emitted result; the options handed down carry Depth-1 whenever Depth > 1; every result received from the sub-resolution is emitted only after its TTL was replaced by minNonZeroTTL(parentTTL, its TTL) with parentTTL taken from the parent result; minNonZeroTTL returns min(a,b) unless that is <= 0, then max(0,a,b); joinPaths appends Segments()[2:] of the unresolved path to the resolved base; namesys.resolveOnceAsync resolves /ns/root built from the first two segments of the input and joins every resolver/cache result with the original path. " +
			"NOT decided: routing-store behaviour, TTL arithmetic against wall-clock time, channel scheduling (which of several results arrives last), cycles longer than the depth limit.",
		Assume:    []string{"hashicorp LRU Get/Add/Remove address entries by exact key string", "go-datastore Put/Get/Sync address records by exact key", "sync.Mutex provides mutual exclusion"},
		Technique: "interprocedural key provenance to cache sinks and sibling agreement (R-FLOW/R-SIB), must-hold lock dataflow (R-GUARD), phi-edge guards with normalised relations (R-CMP/R-DOM), must-precede/must-follow (R-POST)",
		Run:       runC29,
	})
}

func runC29(c *an.Ctx) {
	c29R = c29FindRoles(c.P)
	c29CacheKeys(c)
	c29Publisher(c)
	c29Resolve(c)
	c29Routing(c)
}

// ---------------------------------------------------------------- roles (unexported identifiers are found by role)

// c29Roles: the unexported pieces of package namesys, resolved by what they are and do.
type c29RolesT struct {
	nsType     *types.Named // concrete type returned by the exported NewNameSystem
	nsName     string
	fCache     *types.Var             // its field of type *lru.Cache
	fStatic    *types.Var             // its map field with string keys (static entries)
	fPublisher *types.Var             // its field of the exported interface type Publisher
	fMu, fDS   *types.Var             // IPNSPublisher: its sync.Mutex field and its datastore field
	chain      *ssa.Function          // the recursive chain resolver (calls itself from a closure, invokes the once-method on its resolver parameter)
	onceName   string                 // name of that once-method
	join       *ssa.Function          // (base, unresolved path.Path) (path.Path, error) calling path.Join
	emitters   map[*ssa.Function]bool // functions sending their AsyncResult parameter on their channel parameter
}

var c29R *c29RolesT

func c29FindRoles(p *an.Prog) *c29RolesT {
	const ns = "namesys"
	r := &c29RolesT{emitters: map[*ssa.Function]bool{}}
	fns := p.PkgFuncs(ns)
	// name system type
	if ctor := p.Func(ns, "", "NewNameSystem"); ctor != nil {
		for _, ret := range an.Returns(ctor) {
			if len(ret.Results) == 0 || an.IsNilConst(ret.Results[0]) {
				continue
			}
			for _, root := range an.Roots(ret.Results[0], nil) {
				t := root.Type()
				if pt, ok := t.Underlying().(*types.Pointer); ok {
					t = pt.Elem()
				}
				if nt, ok := types.Unalias(t).(*types.Named); ok {
					if _, isStruct := nt.Underlying().(*types.Struct); isStruct {
						r.nsType, r.nsName = nt, nt.Obj().Name()
					}
				}
			}
		}
	}
	if r.nsType != nil {
		st := r.nsType.Underlying().(*types.Struct)
		for i := 0; i < st.NumFields(); i++ {
			f := st.Field(i)
			switch {
			case an.TypeIs(f.Type(), "github.com/hashicorp/golang-lru/v2", "Cache"):
				r.fCache = f
			case an.TypeIs(f.Type(), ns, "Publisher"):
				r.fPublisher = f
			default:
				if mt, ok := f.Type().Underlying().(*types.Map); ok {
					if b, ok := mt.Key().Underlying().(*types.Basic); ok && b.Kind() == types.String {
						r.fStatic = f
					}
				}
			}
		}
	}
	if pt := p.Named(ns, "IPNSPublisher"); pt != nil {
		if st, ok := pt.Underlying().(*types.Struct); ok {
			for i := 0; i < st.NumFields(); i++ {
				f := st.Field(i)
				switch {
				case an.TypeIs(f.Type(), "sync", "Mutex"):
					r.fMu = f
				case an.TypeIs(f.Type(), "github.com/ipfs/go-datastore", "Datastore"):
					r.fDS = f
				}
			}
		}
	}
	isPath := func(t types.Type) bool { return an.TypeIs(t, "path", "Path") }
	for _, fn := range fns {
		if fn.Parent() != nil {
			continue
		}
		// chain resolver: a closure of fn calls fn again
		for _, g := range an.WithClosures(fn) {
			if g == fn {
				continue
			}
			for _, call := range an.AllCalls(g) {
				if call.Common().StaticCallee() == fn {
					// the once-method: interface method invoked on one of fn's parameters
					for _, ic := range an.AllCalls(fn) {
						if ic.Common().IsInvoke() {
							if _, isP := c28Root(ic.Common().Value).(*ssa.Parameter); isP {
								r.chain, r.onceName = fn, ic.Common().Method.Name()
							}
						}
					}
				}
			}
		}
		// join: (path.Path, path.Path) (path.Path, error) calling path.Join
		if len(fn.Params) == 2 && isPath(fn.Params[0].Type()) && isPath(fn.Params[1].Type()) && fn.Signature.Results().Len() == 2 && isPath(fn.Signature.Results().At(0).Type()) {
			if len(an.Calls(fn, an.M("path", "", "Join"))) > 0 {
				r.join = fn
			}
		}
		// emitters: send an AsyncResult parameter on a channel parameter
		var resP, chP *ssa.Parameter
		for _, q := range fn.Params {
			if an.TypeIs(q.Type(), ns, "AsyncResult") {
				resP = q
			}
			if _, ok := q.Type().Underlying().(*types.Chan); ok {
				chP = q
			}
		}
		if resP != nil && chP != nil {
			an.Instrs(fn, func(in ssa.Instruction) {
				switch x := in.(type) {
				case *ssa.Send:
					if c25RootsIn(x.Chan, []ssa.Value{chP}) && c25RootsIn(x.X, []ssa.Value{resP}) {
						r.emitters[fn] = true
					}
				case *ssa.Select:
					for _, st := range x.States {
						if st.Dir == types.SendOnly && c25RootsIn(st.Chan, []ssa.Value{chP}) && st.Send != nil && c25RootsIn(st.Send, []ssa.Value{resP}) {
							r.emitters[fn] = true
						}
					}
				}
			})
		}
	}
	return r
}

// c29Routing (O6): the record reaches the routing system under the key the resolver searches: every
// ValueStore.PutValue of a marshalled IPNS record and every SearchValue/GetValue that feeds ipns.UnmarshalRecord
// use string(<ipns.Name>.RoutingKey()); the name of the write is the name of the signing key; the publisher hands
// the routing system the record it has just stored.
func c29Routing(c *an.Ctx) {
	p := c.P
	const ns = "namesys"
	isRoutingKey := func(v ssa.Value) (*ssa.Call, bool) {
		rk, ok := c25RootCall(v, an.M("ipns", "Name", "RoutingKey"))
		return rk, ok
	}
	// the Name whose routing key is used is the one handed in (or parsed), not one rebuilt from a peer ID that was
	// converted locally from a string / bytes (e.g. from another textual form of the name): that is a different key
	nameOK := func(rk *ssa.Call) bool {
		if rk == nil {
			return true
		}
		isID := func(t types.Type) bool { return an.TypeIs(t, c25Peer, "ID") }
		for _, r := range an.Roots(an.Recv(rk), nil) {
			nf, ok := an.IsCallTo(r, an.M("ipns", "", "NameFromPeer"))
			if !ok || len(nf.Call.Args) != 1 {
				continue
			}
			local := func(v ssa.Value) bool {
				switch cv := v.(type) {
				case *ssa.Convert:
					return !isID(cv.X.Type())
				case *ssa.ChangeType:
					return !isID(cv.X.Type())
				}
				return false
			}
			for _, ir := range an.Roots(nf.Call.Args[0], &an.FlowOpts{StopAt: local}) {
				if local(ir) {
					return false
				}
			}
		}
		return true
	}
	nPut, nGet := 0, 0
	for _, fn := range p.PkgFuncs(ns) {
		for _, call := range an.AllCalls(fn) {
			cc := call.Common()
			if !cc.IsInvoke() || an.Callee(call).Recv != "ValueStore" {
				continue
			}
			name := an.FuncName(fn)
			switch cc.Method.Name() {
			case "PutValue":
				if len(cc.Args) < 3 {
					continue
				}
				mc, isRec := c25RootCall(cc.Args[2], an.M("ipns", "", "MarshalRecord"))
				if !isRec {
					continue // public keys etc.
				}
				nPut++
				rk, ok := isRoutingKey(cc.Args[1])
				good := ok && an.OnNilEdgeOf(fn, mc, call) && nameOK(rk)
				c.Check(good, "O6", "R-SIB", name, "PutValue(string(name.RoutingKey()), Marshal(rec))", call.Pos(), "record put under the name's routing key on the nil edge of MarshalRecord",
					"an IPNS record is put into the routing system under a key that is not string(name.RoutingKey()) ("+c25Desc(cc.Args[1])+"): the resolver, which searches name.RoutingKey(), never finds what was published")
				_ = rk
			case "SearchValue", "GetValue":
				if len(cc.Args) < 2 {
					continue
				}
				// only reads whose result is decoded as an IPNS record
				feeds := false
				for _, g := range an.WithClosures(c25Outer(fn)) {
					if len(an.Calls(g, an.M("ipns", "", "UnmarshalRecord"))) > 0 {
						feeds = true
					}
				}
				if !feeds {
					continue
				}
				nGet++
				grk, ok := isRoutingKey(cc.Args[1])
				ok = ok && nameOK(grk)
				c.Check(ok, "O6", "R-SIB", name, cc.Method.Name()+"(string(name.RoutingKey()))", call.Pos(), "record searched under the name's routing key",
					"IPNS records are searched in the routing system under "+c25Desc(cc.Args[1])+", not under string(name.RoutingKey()), the key they are published under")
			}
		}
	}
	c.Min("O6 routing writes of IPNS records", nPut, 1)
	c.Min("O6 routing reads of IPNS records", nGet, 1)

	// PublishIPNSRecord: the name is the name of the public key it is given
	for _, fn := range p.PkgFuncs(ns) {
		for _, call := range an.Calls(fn, an.M(ns, "-", "PutIPNSRecord")) {
			a := call.Common().Args
			top := c25Outer(fn)
			okName := false
			if nf, ok := c25RootCall(a[2], an.M("ipns", "", "NameFromPeer")); ok {
				for _, r := range c29Vals(nf.Call.Args[0]) {
					if idc, ok := an.IsCallTo(r, an.M(c25Peer, "", "IDFromPublicKey")); ok {
						if prm, isP := c28Root(idc.Call.Args[0]).(*ssa.Parameter); isP && prm.Parent() == top {
							okName = true
						}
					}
				}
			}
			okRec := false
			for _, r := range c29Vals(a[3]) {
				if prm, isP := r.(*ssa.Parameter); isP && prm.Parent() == top {
					okRec = true
				}
			}
			c.Check(okName && okRec, "O6", "R-FLOW", an.FuncName(top), "PutIPNSRecord(NameFromPeer(IDFromPublicKey(pubKey)), rec)", call.Pos(), "record put under the name of the given public key",
				"the record is put under a name that is not derived from the public key handed in (or another record is put)")
		}
	}
	// IPNSPublisher.Publish publishes the record updateRecord returned, for the signer's public key
	if pub := p.Func(ns, "IPNSPublisher", "Publish"); c.Need(pub != nil && len(pub.Params) >= 3, "namesys.IPNSPublisher.Publish") {
		good, n := true, 0
		for _, call := range an.Calls(pub, an.M(ns, "-", "PublishIPNSRecord")) {
			n++
			a := call.Common().Args
			uc, ok := c25RootCall(a[3], an.M(ns, "IPNSPublisher", ""))
			if !ok || !an.OnNilEdgeOf(pub, uc, call) {
				good = false
				continue
			}
			ua := an.Args(uc)
			// same key and value as the caller's
			if len(ua) < 3 || !c25RootsIn(ua[1], []ssa.Value{pub.Params[2]}) || !c25RootsIn(ua[2], []ssa.Value{pub.Params[3]}) {
				good = false
			}
			gp, ok := c25RootCall(a[2], an.M("", "", "GetPublic"))
			if !ok || !c25RootsIn(gp.Call.Value, []ssa.Value{pub.Params[2]}) {
				good = false
			}
		}
		c.Check(good && n > 0, "O6", "R-FLOW", an.FuncName(pub), "publish the record just stored", pub.Pos(), "PublishIPNSRecord(routing, priv.GetPublic(), updateRecord(priv, value)) on the nil edge",
			"IPNSPublisher.Publish does not hand the routing system the record returned (nil edge) by the record update for the caller's key and value")
	}
	// namesys.Publish caches the value it was asked to publish
	if np := p.Func(ns, c29R.nsName, "Publish"); c.Need(np != nil && len(np.Params) >= 4, "Publish of the type NewNameSystem returns") {
		var valueP *ssa.Parameter
		for _, q := range np.Params {
			if an.TypeIs(q.Type(), "path", "Path") {
				valueP = q
			}
		}
		good, n := valueP != nil, 0
		if valueP != nil {
			for _, m := range c29Family(np, map[string][]ssa.Value{"value": {valueP}}, nil) {
				for _, call := range an.AllCalls(m.fn) {
					w := call.Common().StaticCallee()
					if w == nil || w.Pkg == nil || w.Pkg.Pkg.Path() != an.Mod+"/"+ns {
						continue
					}
					adds := false
					for _, ic := range an.AllCalls(w) {
						if ci := an.Callee(ic); ci.Pkg == "github.com/hashicorp/golang-lru/v2" && ci.Recv == "Cache" && ci.Name == "Add" {
							adds = true
						}
					}
					if !adds {
						continue
					}
					for i, q := range w.Params {
						if an.TypeIs(q.Type(), "path", "Path") && i < len(call.Common().Args) {
							n++
							if len(m.roles["value"]) == 0 || !c29ValsIn(call.Common().Args[i], m.roles["value"]) {
								good = false
							}
						}
					}
				}
			}
		}
		// the same key and value go to the inner publisher
		for _, call := range an.AllCalls(np) {
			if call.Common().IsInvoke() && call.Common().Method.Name() == "Publish" {
				a := call.Common().Args
				if len(a) < 3 || !c25RootsIn(a[1], []ssa.Value{np.Params[2]}) || valueP == nil || !c25RootsIn(a[2], []ssa.Value{valueP}) {
					good = false
				}
			}
		}
		c.Check(good && n > 0, "O6", "R-FLOW", an.FuncName(np), "cache and publisher get the published value", np.Pos(), "the value cached is the value parameter that is published",
			"namesys.Publish caches or publishes something other than its own key/value parameters: a resolve right after publishing returns another value than the published one")
	}
}

// ---------------------------------------------------------------- O1 cache keys

type c29Site struct {
	fn   *ssa.Function   // function containing the origin expression
	at   ssa.Instruction // the sink call / map op, lifted to the origin function
	op   string          // lookup | write | invalidate
	sink string          // cache | staticMap
	key  ssa.Value       // key expression at the origin
	via  string          // wrapper chain
}

func c29CacheKeys(c *an.Ctx) {
	p := c.P
	const ns = "namesys"
	fCache, fStatic := c29R.fCache, c29R.fStatic
	if !c.Need(fCache != nil && fStatic != nil, "the LRU cache field and the static string-keyed map field of the type NewNameSystem returns") {
		return
	}
	fns := p.PkgFuncs(ns)
	isFieldLoad := func(v ssa.Value, fld *types.Var) bool {
		for _, r := range an.Roots(v, nil) {
			u, ok := r.(*ssa.UnOp)
			if !ok || u.Op != token.MUL {
				return false
			}
			if f, _ := an.FieldOf(u.X); f != fld {
				return false
			}
		}
		return true
	}
	// direct sinks
	var direct []c29Site
	for _, fn := range fns {
		an.Instrs(fn, func(in ssa.Instruction) {
			switch x := in.(type) {
			case ssa.CallInstruction:
				ci := an.Callee(x)
				if ci.Pkg != "github.com/hashicorp/golang-lru/v2" || ci.Recv != "Cache" {
					return
				}
				rv := an.Recv(x)
				if rv == nil || !isFieldLoad(rv, fCache) {
					return
				}
				op := ""
				switch ci.Name {
				case "Get", "Peek", "Contains":
					op = "lookup"
				case "Add", "ContainsOrAdd", "PeekOrAdd":
					op = "write"
				case "Remove":
					op = "invalidate"
				default:
					return
				}
				direct = append(direct, c29Site{fn, in, op, "cache", an.Args(x)[0], ""})
			case *ssa.Lookup:
				if isFieldLoad(x.X, fStatic) {
					direct = append(direct, c29Site{fn, in, "lookup", "static-map", x.Index, ""})
				}
			case *ssa.MapUpdate:
				// the static map is filled through a local before being stored in the field
				if isFieldLoad(x.Map, fStatic) || c29FlowsToField(fn, x.Map, fStatic) {
					direct = append(direct, c29Site{fn, in, "write", "static-map", x.Key, ""})
				}
			}
		})
	}
	c.Min("O1 direct cache/static-map key sinks", len(direct), 1)
	// a wrapper that looks a key up and then writes the same key (read-modify-write of an entry) is a writer
	{
		writes := map[string]bool{}
		keyID := func(s c29Site) string { return fmt.Sprintf("%p/%p/%s", s.fn, c25Root1(s.key), s.sink) }
		for _, s := range direct {
			if s.op != "lookup" {
				writes[keyID(s)] = true
			}
		}
		var kept []c29Site
		for _, s := range direct {
			if _, isParam := c25Root1(s.key).(*ssa.Parameter); s.op == "lookup" && isParam && writes[keyID(s)] {
				continue
			}
			kept = append(kept, s)
		}
		direct = kept
	}
	// ---- O5 a cache write wrapper never returns (cache enabled) leaving a previous entry of its key in place
	for _, s := range direct {
		prm, isParam := c25Root1(s.key).(*ssa.Parameter)
		if s.op != "write" || s.sink != "cache" || !isParam {
			continue
		}
		w := s.fn
		var cacheLoads []ssa.Value
		for _, v := range an.FieldReads(w, fCache) {
			cacheLoads = append(cacheLoads, v)
		}
		off := an.NilEdges(w, cacheLoads, true)
		blocked := map[ssa.Instruction]bool{}
		for _, d := range direct {
			if d.fn == w && d.sink == "cache" && d.op != "lookup" && c25Root1(d.key) == ssa.Value(prm) {
				blocked[d.at] = true
			}
		}
		good := true
		for _, r := range an.Returns(w) {
			if an.Reaches(w, nil, r, off, blocked) {
				good = false
			}
		}
		c.Check(good, "O5", "R-POST", an.FuncName(w), "cache write replaces or removes the entry", w.Pos(),
			"with the cache enabled every return is preceded by Add or Remove of the key",
			"the cache write wrapper can return with the cache enabled without having replaced or removed the entry of its key (e.g. when the TTL is not positive): a value that must not be cached leaves the previous value cached, so a resolve right after such a publish returns the old value")
	}
	// ---- O5' the entry such a wrapper writes carries the wrapper's own value parameter: every path.Path-typed field of
	// the stored entry roots in a path.Path parameter of the wrapper (not in the entry looked up before, a field, ...)
	nEntry := 0
	for _, s := range direct {
		_, isParam := c25Root1(s.key).(*ssa.Parameter)
		call, isCall := s.at.(ssa.CallInstruction)
		if s.op != "write" || s.sink != "cache" || !isParam || !isCall || len(an.Args(call)) < 2 {
			continue
		}
		w := s.fn
		ld, ok := an.Args(call)[1].(*ssa.UnOp)
		if !ok || ld.Op != token.MUL {
			continue
		}
		tmp, ok := ld.X.(*ssa.Alloc)
		if !ok {
			continue
		}
		for _, r := range *tmp.Referrers() {
			fa, isFA := r.(*ssa.FieldAddr)
			if !isFA {
				continue
			}
			fld, _ := an.FieldOf(fa)
			if fld == nil || !an.TypeIs(fld.Type(), an.Mod+"/path", "Path") {
				continue
			}
			for _, rr := range *fa.Referrers() {
				st, isSt := rr.(*ssa.Store)
				if !isSt || st.Addr != ssa.Value(fa) {
					continue
				}
				nEntry++
				good := true
				var from []string
				for _, root := range c29RootsF(st.Val, 0) {
					prm, isP := root.(*ssa.Parameter)
					if !isP || prm.Parent() != w || !an.TypeIs(prm.Type(), an.Mod+"/path", "Path") {
						good = false
					}
					from = append(from, c25Desc(root))
				}
				c.Check(good && len(from) > 0, "O5", "R-FLOW", an.FuncName(w), "cache entry carries the value parameter", st.Pos(), "the entry written holds the wrapper's value parameter",
					"the cache write wrapper stores an entry whose path is "+strings.Join(from, ", ")+" instead of its own value parameter: after a publish (or a fresh resolution) the cache keeps answering with a previous or unrelated value")
			}
		}
	}
	c.Min("O5 path fields of written cache entries", nEntry, 1)
	// lift through wrappers: a key that is a parameter of its function is traced to the call sites
	var origins []c29Site
	var lift func(s c29Site, depth int)
	lift = func(s c29Site, depth int) {
		root := c25Root1(s.key)
		prm, isParam := root.(*ssa.Parameter)
		if !isParam || depth > 3 {
			origins = append(origins, s)
			return
		}
		idx := -1
		for i, q := range s.fn.Params {
			if q == prm {
				idx = i
			}
		}
		n := 0
		for _, g := range fns {
			for _, call := range an.AllCalls(g) {
				if call.Common().StaticCallee() != s.fn || idx >= len(call.Common().Args) {
					continue
				}
				n++
				lift(c29Site{g, call, s.op, s.sink, call.Common().Args[idx], s.fn.Name() + ">" + s.via}, depth+1)
			}
		}
		if n == 0 {
			// a wrapper nobody calls: nothing to agree with
			return
		}
	}
	for _, s := range direct {
		lift(s, 0)
	}
	c.Min("O1 key origin sites", len(origins), 1)

	// ---- O5 the publishing entry point touches the cache on every path after the inner publish
	{
		n := 0
		for _, fn := range fns {
			var inner []ssa.CallInstruction
			for _, call := range an.AllCalls(fn) {
				if call.Common().IsInvoke() && call.Common().Method.Name() == "Publish" {
					if f, _ := c28FieldRead(call.Common().Value); f != nil && f == c29R.fPublisher {
						inner = append(inner, call)
					}
				}
			}
			if len(inner) == 0 {
				continue
			}
			blocked := map[ssa.Instruction]bool{}
			for _, o := range origins {
				if o.fn == fn && o.sink == "cache" && o.op != "lookup" {
					blocked[o.at] = true
				}
			}
			for _, call := range inner {
				n++
				r := an.ReachesAnyReturn(fn, call, nil, blocked)
				c.Check(r == nil && len(blocked) > 0, "O5", "R-POST", an.FuncName(fn), "cache refreshed or invalidated after publish", call.Pos(),
					"every path after the inner publish writes or invalidates the cache entry of the name",
					"after the record has been handed to the publisher some path returns without writing or invalidating the cache entry of the name: a later resolve through the cache returns the previous value")
			}
		}
		c.Min("O5 publish entry points of the name system", n, 1)
	}

	// classify domains
	type classified struct {
		c29Site
		dom   string
		canon bool
		why   string
	}
	var cs []classified
	for _, s := range origins {
		dom, canon, why := c29KeyDomain(p, s.key)
		cs = append(cs, classified{s, dom, canon, why})
	}
	// reference domain: the lookups on the cache
	ref := map[string]int{}
	for _, x := range cs {
		if x.op == "lookup" {
			ref[x.dom]++
		}
	}
	var refDoms []string
	for d := range ref {
		refDoms = append(refDoms, d)
	}
	sort.Strings(refDoms)
	seen := map[string]bool{}
	for _, x := range cs {
		// role names only (wrapper functions are unexported and may be renamed)
		construct := x.op + " key on " + x.sink
		if x.via != "" {
			construct = x.op + " key via " + x.sink + " wrapper"
		}
		name := an.FuncName(x.fn)
		if seen[name+construct+x.dom] {
			continue
		}
		seen[name+construct+x.dom] = true
		if strings.HasPrefix(x.dom, "unknown:") {
			c.Problem("undecided: cache key at %s (%s) is built in an unrecognised way: %s", name, p.Pos(x.at.Pos()), x.dom)
			continue
		}
		agree := len(refDoms) == 1 && refDoms[0] == x.dom
		c.Check(agree, "O1", "R-SIB", name, construct+" domain", x.at.Pos(),
			"key built by "+x.dom+", the domain of every cache lookup",
			fmt.Sprintf("this %s uses a key built by %s but cache lookups use keys built by {%s}: the entry written/invalidated here is never the entry a lookup reads (publish does not refresh what resolve serves, or resolve results are cached where nothing finds them)", x.op, x.dom, strings.Join(refDoms, ", ")))
		c.Check(x.canon, "O1", "R-FLOW", name, construct+" canonical for IPNS names", x.at.Pos(),
			"key maps all encodings of one IPNS name to one entry ("+x.why+")",
			"the key is "+x.why+": the same IPNS name written as base58 peer ID, base36 or base32 CID uses different cache entries, so a publish refreshes one of them and resolving another form keeps returning the old value")
	}
}

// c29FlowsToField: the map value m is (also) stored into field fld of some struct in fn or an enclosing/closure function.
func c29FlowsToField(fn *ssa.Function, m ssa.Value, fld *types.Var) bool {
	root := c25Root1(m)
	if root == nil {
		return false
	}
	for _, g := range an.WithClosures(c25Outer(fn)) {
		for _, st := range an.FieldStores(g, fld) {
			for _, r := range an.Roots(st.Val, nil) {
				if r == root {
					return true
				}
			}
		}
	}
	return false
}

// c29KeyDomain names the constructor domain of a key expression and says
// whether that domain is canonical for IPNS names.
func c29KeyDomain(p *an.Prog, key ssa.Value) (dom string, canonical bool, why string) {
	root := c25Root1(key)
	if root == nil {
		// several alternatives (a key chosen by an if): they must all lie in one domain
		rs := an.Roots(key, nil)
		if len(rs) < 2 {
			return "unknown:" + an.PathOf(key), false, ""
		}
		for i, r := range rs {
			d, cn, w := c29KeyDomain(p, r)
			if i == 0 {
				dom, canonical, why = d, cn, w
				continue
			}
			if d != dom {
				return "unknown:alternatives in different domains (" + dom + ", " + d + ")", false, ""
			}
			canonical = canonical && cn
		}
		return dom, canonical, why
	}
	switch x := root.(type) {
	case *ssa.Call:
		ci := an.Callee(x)
		switch {
		case ci.Name == "String" && ci.Pkg == an.Mod+"/ipns" && ci.Recv == "Name":
			return "ipns.Name.String()", true, "the canonical string of an ipns.Name"
		case ci.Name == "String" && (ci.Pkg == an.Mod+"/path" || c29IsPath(an.Recv(x))):
			// Path.String(): canonical only if the path was built from a Name
			if rv := an.Recv(x); rv != nil {
				if ap, ok := c25RootCall(rv, an.M("ipns", "Name", "AsPath")); ok && ap != nil {
					return "path.Path.String()", true, "the path form of an ipns.Name"
				}
			}
			return "path.Path.String()", false, "the textual path as given by the caller"
		case x.Call.StaticCallee() != nil && x.Call.StaticCallee().Pkg != nil && x.Call.StaticCallee().Pkg.Pkg.Path() == an.Mod+"/namesys":
			f := x.Call.StaticCallee()
			ok, w := c29Canonicalises(f)
			return "namesys." + f.Name() + "()", ok, w
		}
	case *ssa.BinOp:
		if x.Op == token.ADD {
			parts := c28Concat(x)
			if k, ok := an.ConstOf(parts[0]); ok && k.Kind() == constant.String {
				pre, _ := c25ConstString(p, "ipns", "NamespacePrefix")
				if pre == "" {
					pre = "/ipns/"
				}
				if constant.StringVal(k) == pre {
					return "path.Path.String()", false, "the namespace prefix followed by the name as typed"
				}
				return "prefix:" + constant.StringVal(k), false, "a constant prefix followed by the name as typed"
			}
		}
	}
	return "unknown:" + c25Desc(key), false, ""
}

func c29IsPath(v ssa.Value) bool {
	if v == nil {
		return false
	}
	return an.TypeIs(v.Type(), "path", "Path") || an.TypeIs(v.Type(), "path", "ImmutablePath")
}

// c29Canonicalises: key constructor f(root string) string: calls
// ipns.NameFromString on its parameter and every return is either derived from
// that Name on the nil edge, or lies on the error edge (not an IPNS name).
func c29Canonicalises(f *ssa.Function) (bool, string) {
	if len(f.Params) == 0 {
		return false, "built by " + f.Name() + " from nothing"
	}
	var parse *ssa.Call
	for _, call := range an.Calls(f, an.M("ipns", "", "NameFromString")) {
		if cv := an.CallValue(call); cv != nil {
			rs := an.Roots(cv.Call.Args[0], nil)
			okp := len(rs) > 0
			for _, r := range rs {
				if _, isP := r.(*ssa.Parameter); !isP {
					okp = false
				}
			}
			if okp {
				parse = cv
			}
		}
	}
	if parse == nil {
		return false, "built by " + f.Name() + " without parsing the root as an ipns.Name"
	}
	names := an.Result(parse, 0)
	errEdges := an.NilEdges(f, an.ErrResult(parse), false)
	for _, r := range an.Returns(f) {
		fromName := false
		if sc, ok := c25RootCall(r.Results[0], an.M("ipns", "Name", "String")); ok && c25RootsIn(an.Recv(sc), names) {
			fromName = true
		}
		if sc, ok := c25RootCall(r.Results[0], an.M("path", "", "String"), an.M("", "Path", "String")); ok {
			if ap, ok := c25RootCall(an.Recv(sc), an.M("ipns", "Name", "AsPath")); ok && c25RootsIn(an.Recv(ap), names) {
				fromName = true
			}
		}
		if fromName {
			if !an.OnNilEdgeOf(f, parse, r) {
				return false, "built by " + f.Name() + " from a Name whose parse error is not checked"
			}
			continue
		}
		if !an.GuardedBy(f, nil, r, errEdges) {
			return false, "built by " + f.Name() + ", which can return the text as typed although it parses as an ipns.Name"
		}
	}
	return true, "built by " + f.Name() + ", which keys IPNS names by their ipns.Name"
}

// ---------------------------------------------------------------- O2/O3 publisher

// c29RetVal: value returned at index idx, looking through named-result cells
// (functions with defer return through cells stored just before the return).
func c29RetVal(r *ssa.Return, idx int) ssa.Value {
	v := r.Results[idx]
	u, ok := v.(*ssa.UnOp)
	if !ok || u.Op != token.MUL {
		return v
	}
	cell, ok := u.X.(*ssa.Alloc)
	if !ok {
		return v
	}
	blk := r.Block()
	for i := len(blk.Instrs) - 1; i >= 0; i-- {
		if st, ok := blk.Instrs[i].(*ssa.Store); ok && st.Addr == cell {
			return st.Val
		}
	}
	return v
}

// c29EdgeGuarded: the CFG edge pred->blk is crossed only where one of edges was crossed.
func c29EdgeGuarded(fn *ssa.Function, pred, blk *ssa.BasicBlock, edges an.EdgeSet) bool {
	if len(edges) == 0 {
		return false
	}
	for i, s := range pred.Succs {
		if s == blk && edges[an.Edge{From: pred, Succ: i}] {
			return true
		}
	}
	return an.GuardedBy(fn, nil, pred.Instrs[0], edges)
}

func c29Publisher(c *an.Ctx) {
	p := c.P
	const ns = "namesys"
	fMu, fDS := c29R.fMu, c29R.fDS
	if !c.Need(fMu != nil && fDS != nil, "the sync.Mutex and the Datastore fields of namesys.IPNSPublisher") {
		return
	}
	dsPkg := "github.com/ipfs/go-datastore"
	fns := p.PkgFuncs(ns)
	// the publisher object of a function: receiver or parameter of type *IPNSPublisher
	pubOf := func(fn *ssa.Function) *ssa.Parameter {
		top := c25Outer(fn)
		for _, q := range top.Params {
			if an.TypeIs(q.Type(), ns, "IPNSPublisher") {
				return q
			}
		}
		return nil
	}
	type site struct {
		fn   *ssa.Function
		call ssa.CallInstruction
		kind string // put | sync | read
	}
	var sites []site
	for _, fn := range fns {
		pub := pubOf(fn)
		if pub == nil {
			continue
		}
		for _, call := range an.AllCalls(fn) {
			ci := an.Callee(call)
			onDS := false
			if rv := an.Recv(call); rv != nil {
				if f, b := c28FieldRead(rv); f == fDS && c25RootsIn(b, []ssa.Value{pub}) {
					onDS = true
				}
			}
			switch {
			case ci.Pkg == dsPkg && ci.Name == "Put" && onDS:
				sites = append(sites, site{fn, call, "put"})
			case ci.Pkg == dsPkg && ci.Name == "Sync" && onDS:
				sites = append(sites, site{fn, call, "sync"})
			case ci.Pkg == dsPkg && (ci.Name == "Get" || ci.Name == "Has") && onDS:
				sites = append(sites, site{fn, call, "read"})
			}
		}
	}
	// in-package static call sites of a function
	callersOf := func(f *ssa.Function) []site {
		var out []site
		for _, g := range fns {
			for _, call := range an.AllCalls(g) {
				if call.Common().StaticCallee() == f {
					out = append(out, site{g, call, ""})
				}
			}
		}
		return out
	}
	lockFacts := map[*ssa.Function]*an.LockFacts{}
	var heldDeep func(fn *ssa.Function, at ssa.Instruction, depth int) bool
	heldDeep = func(fn *ssa.Function, at ssa.Instruction, depth int) bool {
		pub := pubOf(fn)
		if pub != nil && fn.Parent() == nil {
			lf := lockFacts[fn]
			if lf == nil {
				lf = an.Locks(fn, an.SyncModel, nil, true)
				lockFacts[fn] = lf
			}
			if lf.Held(at, "p:"+pub.Name()+"."+fMu.Name()) == an.LWrite {
				return true
			}
		}
		// caller-holds: an unexported helper is summarised at all its call sites
		if depth > 3 || fn.Parent() != nil {
			return false
		}
		if o := fn.Object(); o == nil || o.Exported() {
			return false
		}
		cs := callersOf(fn)
		if len(cs) == 0 {
			return false
		}
		for _, cl := range cs {
			if !heldDeep(cl.fn, cl.call, depth+1) {
				return false
			}
		}
		return true
	}
	// reaches(f, kind): a direct op of that kind is in f or in its in-package static callees
	var reaches func(f *ssa.Function, kind string, seen map[*ssa.Function]bool) bool
	reaches = func(f *ssa.Function, kind string, seen map[*ssa.Function]bool) bool {
		if f == nil || seen[f] {
			return false
		}
		seen[f] = true
		for _, st := range sites {
			if st.fn == f && st.kind == kind {
				return true
			}
		}
		for _, call := range an.AllCalls(f) {
			if sc := call.Common().StaticCallee(); sc != nil && sc.Pkg != nil && sc.Pkg.Pkg.Path() == an.Mod+"/"+ns {
				if reaches(sc, kind, seen) {
					return true
				}
			}
		}
		return false
	}
	nPut := 0
	for _, st := range sites {
		if st.kind == "read" {
			continue
		}
		if st.kind == "put" {
			nPut++
		}
		c.Check(heldDeep(st.fn, st.call, 0), "O2", "R-GUARD", an.FuncName(st.fn), "publisher lock held at datastore "+map[string]string{"put": "Put", "sync": "Sync"}[st.kind], st.call.Pos(), "publisher mutex held on every path (in this function or at every call site of this unexported helper)",
			"the publisher mutex is not held on every path at the ds."+map[string]string{"put": "Put", "sync": "Sync"}[st.kind]+": two concurrent publishes can read the same previous sequence and store records out of order (sequence not monotone)")
	}
	c.Min("O2 datastore writes of the IPNS publisher", nPut, 1)
	// transactions: functions that take the mutex and from which a Put is reachable must read the previous record under it
	nTx := 0
	for _, fn := range fns {
		if fn.Parent() != nil || pubOf(fn) == nil || !reaches(fn, "put", map[*ssa.Function]bool{}) {
			continue
		}
		takes := false
		for _, call := range an.Calls(fn, an.M("sync", "Mutex", "Lock")) {
			if f, _ := an.FieldOf(an.Recv(call)); f == fMu {
				takes = true
			}
		}
		if !takes {
			continue
		}
		nTx++
		name := an.FuncName(fn)
		nRead := 0
		for _, call := range an.AllCalls(fn) {
			sc := call.Common().StaticCallee()
			isRead := false
			for _, st := range sites {
				if st.fn == fn && st.call == call && st.kind == "read" {
					isRead = true
				}
			}
			if sc != nil && sc.Pkg != nil && sc.Pkg.Pkg.Path() == an.Mod+"/"+ns && reaches(sc, "read", map[*ssa.Function]bool{}) {
				isRead = true
			}
			if !isRead {
				continue
			}
			nRead++
			c.Check(heldDeep(fn, call, 0), "O2", "R-GUARD", name, "publisher lock held at read of previous record", call.Pos(), "publisher mutex held on every path",
				"the publisher mutex is not held on every path at the read of the previous record: two concurrent publishes can read the same previous sequence and store records out of order (sequence not monotone)")
		}
		c.Check(nRead > 0, "O2", "R-GUARD", name, "reads previous record", fn.Pos(), "previous record read in the same critical section", "the datastore is written without reading the previous record in the same critical section: the sequence cannot be derived from the stored record")
	}
	_ = nTx

	// record updaters: functions creating the record
	nUpd := 0
	for _, fn := range fns {
		if fn.Parent() != nil || pubOf(fn) == nil {
			continue
		}
		for _, call := range an.Calls(fn, an.M("ipns", "", "NewRecord")) {
			if nr := an.CallValue(call); nr != nil && reaches(fn, "put", map[*ssa.Function]bool{}) {
				nUpd++
				c29Updater(c, fn, nr, func(f *ssa.Function) (puts, syncs []ssa.CallInstruction) {
					for _, st := range sites {
						if st.fn == f && st.kind == "put" {
							puts = append(puts, st.call)
						}
						if st.fn == f && st.kind == "sync" {
							syncs = append(syncs, st.call)
						}
					}
					return
				})
			}
		}
	}
	c.Min("O3 record updaters (NewRecord + datastore write)", nUpd, 1)

	// GetPublished reads with IpnsDsKey(name)
	if gp := p.Func(ns, "IPNSPublisher", "GetPublished"); c.Need(gp != nil && len(gp.Params) >= 3, "IPNSPublisher.GetPublished") {
		nameP := gp.Params[2]
		good, n := true, 0
		for _, call := range an.AllCalls(gp) {
			ci := an.Callee(call)
			if ci.Pkg == dsPkg && ci.Name == "Get" {
				n++
				kc, ok := c25RootCall(an.Args(call)[1], an.M(ns, "", "IpnsDsKey"))
				if !ok || !c25RootsIn(kc.Call.Args[0], []ssa.Value{nameP}) {
					good = false
				}
			}
		}
		// "no previous record" (nil, nil) is answered only where the datastore read reported not-found: any other read
		// error must surface, otherwise the updater restarts the sequence at 0 over an existing record
		{
			var dsErrs []ssa.Value
			for _, call := range an.AllCalls(gp) {
				if ci := an.Callee(call); ci.Pkg == dsPkg && ci.Name == "Get" {
					dsErrs = append(dsErrs, an.ErrResult(call)...)
				}
			}
			isNotFound := func(v ssa.Value) bool {
				u, ok := c25Root1(v).(*ssa.UnOp)
				if !ok || u.Op != token.MUL {
					return false
				}
				g, ok := u.X.(*ssa.Global)
				return ok && g.Name() == "ErrNotFound" && g.Pkg != nil && g.Pkg.Pkg.Path() == dsPkg
			}
			nf := an.CondEdges(gp, func(atom ssa.Value) (bool, bool) {
				switch x := atom.(type) {
				case *ssa.BinOp:
					if x.Op != token.EQL && x.Op != token.NEQ {
						return false, false
					}
					if c25RootsIn(x.X, dsErrs) && isNotFound(x.Y) || c25RootsIn(x.Y, dsErrs) && isNotFound(x.X) {
						return x.Op == token.EQL, x.Op == token.NEQ
					}
				case *ssa.Call:
					if ci := an.Callee(x); ci.Pkg == "errors" && ci.Name == "Is" && len(x.Call.Args) == 2 && c25RootsIn(x.Call.Args[0], dsErrs) && isNotFound(x.Call.Args[1]) {
						return true, false
					}
				}
				return false, false
			})
			okNone, nNone := true, 0
			at := gp.Pos()
			for _, r := range an.Returns(gp) {
				if len(r.Results) == 2 && an.IsNilConst(an.RetVal(r, 0)) && an.IsNilConst(an.RetVal(r, 1)) {
					nNone++
					if len(nf) == 0 || !an.GuardedBy(gp, nil, r, nf) {
						okNone = false
						at = r.Pos()
					}
				}
			}
			if len(dsErrs) > 0 && nNone > 0 {
				c.Check(okNone, "O3", "R-DOM", an.FuncName(gp), "no previous record only on datastore not-found", at, "(nil, nil) is returned only on the ErrNotFound edge of the datastore read",
					"GetPublished can answer 'no previous record' although the datastore read failed for another reason than not-found: the updater then treats an existing record as absent and publishes sequence 0 (or the explicit one unchecked), so the sequence number decreases")
			}
		}
		c.Check(good && n > 0, "O3", "R-FLOW", an.FuncName(gp), "reads IpnsDsKey(name)", gp.Pos(), "previous record read under IpnsDsKey(name)", "GetPublished does not read the datastore under IpnsDsKey(name), the key updateRecord writes: the previous sequence is never found")
	}
}

// c29Updater: obligations O3 of one record updater T (the function calling ipns.NewRecord). The sequence
// computation and the store (Put/Sync) may live in T or in unexported package-local helpers called from T; values
// are translated across the call (helper parameter <-> argument at the call site).
func c29Updater(c *an.Ctx, fn *ssa.Function, nr *ssa.Call, opsOf func(*ssa.Function) (puts, syncs []ssa.CallInstruction)) {
	p := c.P
	const ns = "namesys"
	name := an.FuncName(fn)
	var recVals []ssa.Value
	var nameVal ssa.Value
	for _, rd := range an.Calls(fn, an.M(ns, "IPNSPublisher", "GetPublished")) {
		if cv := an.CallValue(rd); cv != nil {
			recVals = append(recVals, an.Result(cv, 0)...)
			nameVal = an.Args(rd)[1]
		}
	}
	if len(recVals) == 0 {
		c.Problem("undecided: %s does not obtain the previous record through GetPublished", name)
		return
	}
	var valueP, keyP *ssa.Parameter
	for _, q := range fn.Params {
		if an.TypeIs(q.Type(), "path", "Path") {
			valueP = q
		}
	}
	if r, ok := c25Root1(nr.Call.Args[0]).(*ssa.Parameter); ok {
		keyP = r
	}
	inPkg := func(f *ssa.Function) bool {
		return f != nil && f.Pkg != nil && f.Pkg.Pkg.Path() == an.Mod+"/"+ns && f.Blocks != nil
	}
	// ---- sequence: computed in T, or returned (nil-error edge) by a helper
	seqArg := nr.Call.Args[2]
	if hc, ok := c25RootCall(seqArg, an.M(ns, "", "")); ok && inPkg(hc.Call.StaticCallee()) && len(an.ErrResult(hc)) > 0 {
		h := hc.Call.StaticCallee()
		c.Check(an.OnNilEdgeOf(fn, hc, nr), "O3", "R-DOM", name, "sequence helper error checked", hc.Pos(), "NewRecord reached only on the nil edge of the sequence helper", "the sequence returned by "+h.Name()+" is used although it reported an error (e.g. ErrInvalidSequence): the rejected sequence is published")
		var hRec []ssa.Value
		var hVal *ssa.Parameter
		for i, a := range hc.Call.Args {
			if i >= len(h.Params) {
				break
			}
			if c25RootsIn(a, recVals) {
				hRec = append(hRec, h.Params[i])
			}
			if valueP != nil && c25RootsIn(a, []ssa.Value{valueP}) {
				hVal = h.Params[i]
			}
		}
		if len(hRec) == 0 {
			c.Bad("O3", "R-FLOW", name, "sequence derives from the previous record", hc.Pos(), "the sequence helper "+h.Name()+" is not given the record read by GetPublished: the new sequence does not continue the stored one")
		} else {
			succ, _ := c25SuccessReturns(h, h.Signature.Results().Len()-1)
			var src []c29SeqSrc
			for _, r := range succ {
				src = append(src, c29SeqSrc{r.Results[0], r})
			}
			c29SeqLeaves(c, h, hRec, hVal, src)
		}
	} else {
		c29SeqLeaves(c, fn, recVals, valueP, []c29SeqSrc{{seqArg, nr}})
	}

	okKV := keyP != nil && valueP != nil && c25RootsIn(nr.Call.Args[1], []ssa.Value{valueP})
	c.Check(okKV, "O3", "R-FLOW", name, "NewRecord(k, value, seq)", nr.Pos(), "record created for the caller's key and value", "the record is not created from the caller's key and value parameters")
	okName := false
	if nameVal != nil && keyP != nil {
		if nf, ok := c25RootCall(nameVal, an.M("ipns", "", "NameFromPeer")); ok {
			if idc, ok := c25RootCall(nf.Call.Args[0], an.M(c25Peer, "", "IDFromPrivateKey")); ok && c25RootsIn(idc.Call.Args[0], []ssa.Value{keyP}) && an.OnNilEdgeOf(fn, idc, nf) {
				okName = true
			}
		}
	}
	c.Check(okName, "O3", "R-FLOW", name, "name=NameFromPeer(IDFromPrivateKey(k))", nr.Pos(), "previous record looked up under the name of the signing key", "the previous record is looked up under a name that is not derived from the signing key: the sequence of another name is continued")

	// ---- store: Put/Sync in T or in a helper S called from T
	S := fn
	var sCall *ssa.Call
	puts, syncs := opsOf(fn)
	if len(puts) == 0 {
		for _, call := range an.AllCalls(fn) {
			sc := call.Common().StaticCallee()
			if !inPkg(sc) {
				continue
			}
			if ps, sy := opsOf(sc); len(ps) > 0 {
				if cv := an.CallValue(call); cv != nil {
					S, sCall, puts, syncs = sc, cv, ps, sy
				}
			}
		}
	}
	if len(puts) == 0 {
		c.Problem("undecided: %s: the datastore Put is more than one helper away from the record creation", name)
		return
	}
	// lift a value of S to T through the call
	lift := func(v ssa.Value) ssa.Value {
		if S == fn || sCall == nil {
			return v
		}
		if prm, ok := c28Root(v).(*ssa.Parameter); ok && prm.Parent() == S {
			for i, q := range S.Params {
				if q == prm && i < len(sCall.Call.Args) {
					return sCall.Call.Args[i]
				}
			}
		}
		return v
	}
	keyIsName := func(v ssa.Value) bool {
		v = lift(v)
		kc, ok := c25RootCall(v, an.M(ns, "", "IpnsDsKey"))
		if !ok {
			return false
		}
		return nameVal != nil && c25SameValue(lift(kc.Call.Args[0]), nameVal)
	}
	recNew := an.Result(nr, 0)
	sname := an.FuncName(S)
	for _, put := range puts {
		a := an.Args(put)
		c.Check(keyIsName(a[1]), "O3", "R-FLOW", sname, "Put key = IpnsDsKey(name)", put.Pos(), "record stored under the key GetPublished reads", "the record is stored under a key other than IpnsDsKey(name) of the name GetPublished was asked for: the next publish does not see this record and restarts the sequence")
		dv := lift(a[2])
		ctx := fn
		if c28Root(dv) == c28Root(a[2]) && S != fn {
			ctx = S // marshalled inside the helper
		}
		mc, okM := c25RootCall(dv, an.M("ipns", "", "MarshalRecord"))
		okData := false
		if okM {
			recArg := mc.Call.Args[0]
			if ctx == S && S != fn {
				recArg = lift(recArg)
				okData = c25RootsIn(recArg, recNew) && an.OnNilEdgeOf(S, mc, put)
			} else {
				okData = c25RootsIn(recArg, recNew) && an.OnNilEdgeOf(fn, nr, mc)
				if S == fn {
					okData = okData && an.OnNilEdgeOf(fn, mc, put)
				} else {
					okData = okData && an.OnNilEdgeOf(fn, mc, sCall)
				}
			}
		}
		c.Check(okData, "O3", "R-FLOW", sname, "Put data = Marshal(new record)", put.Pos(), "stored bytes are the marshalled new record (nil edges)", "the bytes stored are not MarshalRecord(new record) on the nil edges of NewRecord and MarshalRecord")
	}
	// inside S: success only after Put then Sync(same key) succeeded
	// tail: the error returned at r is directly the result of this call (`return p.ds.Sync(..)`): r succeeds
	// exactly when the call does, which is as good as its nil edge
	tail := func(r *ssa.Return, call ssa.CallInstruction) bool {
		if len(r.Results) == 0 {
			return false
		}
		cv := an.CallValue(call)
		return cv != nil && c25RootsIn(r.Results[len(r.Results)-1], an.ErrResult(cv))
	}
	storeOK := func(f *ssa.Function, r *ssa.Return) bool {
		good := len(syncs) > 0
		for _, put := range puts {
			if !an.OnNilEdgeOf(f, put, r) {
				good = false
			}
		}
		okSync := false
		for _, sy := range syncs {
			if an.OnNilEdgeOf(f, sy, r) || tail(r, sy) && an.Dominates(sy, r) {
				okSync = true
				for _, put := range puts {
					if !an.OnNilEdgeOf(f, put, sy) {
						good = false
					}
				}
				if !keyIsName(an.Args(sy)[1]) {
					good = false
				}
			}
		}
		return good && okSync
	}
	const badStore = "the new record is returned (and then published to routing) without ds.Put and ds.Sync of its key having succeeded in that order: after a restart the stored sequence is older than the published one and the next publish decreases it"
	if S != fn {
		succ, undec := c25SuccessReturns(S, S.Signature.Results().Len()-1)
		good := len(succ)+len(undec) > 0
		for _, r := range append(append([]*ssa.Return{}, succ...), undec...) {
			if !storeOK(S, r) {
				good = false
			}
		}
		c.Check(good, "O3", "R-DOM", sname, "store helper succeeds only after Put and Sync", S.Pos(), "helper returns nil only on the nil edges of ds.Put then ds.Sync(IpnsDsKey(name))", badStore)
	}
	nOK := 0
	for _, r := range an.Returns(fn) {
		if len(r.Results) != 2 {
			continue
		}
		if !an.IsNilConst(c29RetVal(r, 1)) {
			continue
		}
		rv := c29RetVal(r, 0)
		if an.IsNilConst(rv) {
			continue
		}
		nOK++
		good := c25RootsIn(rv, recNew)
		if S == fn {
			good = good && storeOK(fn, r)
		} else {
			good = good && an.OnNilEdgeOf(fn, sCall, r) && an.OnNilEdgeOf(fn, nr, sCall)
		}
		c.Check(good, "O3", "R-DOM", name, "return record only after Put and Sync succeeded", r.Pos(), "success return on the nil edges of ds.Put then ds.Sync(IpnsDsKey(name)), returning the new record", badStore)
	}
	c.Min("O3 success returns of the record updater", nOK, 1)
	_ = p
}

type c29SeqSrc struct {
	v  ssa.Value
	at ssa.Instruction // where the value is consumed (NewRecord call, or the helper's return)
}

// c29SeqLeaves checks, in function fn, every alternative value of the sequence number (phi leaves of the sources)
// against the guard it needs. recVals = the previous record in fn, valueP = the value being published.
func c29SeqLeaves(c *an.Ctx, fn *ssa.Function, recVals []ssa.Value, valueP *ssa.Parameter, srcs []c29SeqSrc) {
	p := c.P
	const ns = "namesys"
	name := an.FuncName(fn)
	isRec := func(v ssa.Value) bool { return c25RootsIn(v, recVals) }
	var curSeq, curVal []ssa.Value
	for _, call := range an.Calls(fn, an.M("ipns", "Record", "Sequence")) {
		if cv := an.CallValue(call); cv != nil && isRec(an.Recv(call)) {
			curSeq = append(curSeq, an.Result(cv, 0)...)
		}
	}
	for _, call := range an.Calls(fn, an.M("ipns", "Record", "Value")) {
		if cv := an.CallValue(call); cv != nil && isRec(an.Recv(call)) {
			curVal = append(curVal, an.Result(cv, 0)...)
		}
	}
	isCur := func(v ssa.Value) bool { return len(curSeq) > 0 && c25RootsIn(v, curSeq) }
	// explicit sequence: **(&opts.Sequence) or *(opts.Sequence) of a by-value options struct
	isOptPtr := func(v ssa.Value) bool {
		switch x := v.(type) {
		case *ssa.UnOp:
			if x.Op != token.MUL {
				return false
			}
			f, _ := an.FieldOf(x.X)
			return f != nil && f.Name() == "Sequence" && f.Pkg() != nil && f.Pkg().Path() == an.Mod+"/"+ns
		case *ssa.Field:
			f, _ := an.FieldOf(x)
			return f != nil && f.Name() == "Sequence" && f.Pkg() != nil && f.Pkg().Path() == an.Mod+"/"+ns
		}
		return false
	}
	isExplicit := func(v ssa.Value) bool {
		u, ok := v.(*ssa.UnOp)
		return ok && u.Op == token.MUL && isOptPtr(u.X)
	}
	var optPtrs []ssa.Value
	an.Instrs(fn, func(in ssa.Instruction) {
		if v, ok := in.(ssa.Value); ok && isOptPtr(v) {
			optPtrs = append(optPtrs, v)
		}
	})
	strOf := func(of func(ssa.Value) bool) func(ssa.Value) bool {
		return func(v ssa.Value) bool {
			call, ok := v.(*ssa.Call)
			if !ok {
				return false
			}
			ci := an.Callee(call)
			return ci.Name == "String" && an.Recv(call) != nil && of(an.Recv(call))
		}
	}
	isNewValStr := strOf(func(v ssa.Value) bool { return valueP != nil && c25RootsIn(v, []ssa.Value{valueP}) })
	isCurValStr := strOf(func(v ssa.Value) bool { return len(curVal) > 0 && c25RootsIn(v, curVal) })
	sameVal := c25RelEdges(fn, isNewValStr, isCurValStr, c25EQ, 0)
	diffVal := c25RelEdges(fn, isNewValStr, isCurValStr, c25NE, 0)
	recNil := an.NilEdges(fn, recVals, true)
	recNonNil := an.NilEdges(fn, recVals, false)
	optNil := an.NilEdges(fn, optPtrs, true)
	gtCur := c25RelEdges(fn, isExplicit, isCur, c25GT, 0)
	nonZero := c25RelEdges(fn, isExplicit, c25IsInt(0), c25NE, 0).Union(c25RelEdges(fn, isExplicit, c25IsInt(0), c25GT, c25LT))

	type leaf struct {
		v     ssa.Value
		edges [][2]*ssa.BasicBlock
		at    ssa.Instruction
	}
	var leaves []leaf
	var at0 ssa.Instruction
	var walk func(v ssa.Value, chain [][2]*ssa.BasicBlock, depth int, at ssa.Instruction)
	walk = func(v ssa.Value, chain [][2]*ssa.BasicBlock, depth int, at ssa.Instruction) {
		if ph, ok := v.(*ssa.Phi); ok && depth < 6 {
			for i, e := range ph.Edges {
				walk(e, append(append([][2]*ssa.BasicBlock{}, chain...), [2]*ssa.BasicBlock{ph.Block().Preds[i], ph.Block()}), depth+1, at)
			}
			return
		}
		leaves = append(leaves, leaf{v, chain, at})
	}
	for _, s := range srcs {
		if at0 == nil {
			at0 = s.at
		}
		walk(s.v, nil, 0, s.at)
	}
	if at0 == nil {
		c.Problem("undecided: %s yields no sequence value", name)
		return
	}
	guarded := func(l leaf, e an.EdgeSet) bool {
		if len(e) == 0 {
			return false
		}
		if in, ok := l.v.(ssa.Instruction); ok && in.Parent() == fn && an.GuardedBy(fn, nil, in, e) {
			return true
		}
		for _, pe := range l.edges {
			if c29EdgeGuarded(fn, pe[0], pe[1], e) {
				return true
			}
		}
		// the value is consumed where it is (no merge on the way) or the consumer itself is guarded
		return an.GuardedBy(fn, nil, l.at, e)
	}
	kinds := map[string]int{}
	for _, l := range leaves {
		switch {
		case c25IsInt(0)(l.v):
			kinds["first"]++
			c.Check(guarded(l, recNil) && guarded(l, optNil), "O3", "R-DOM", name, "seq=0 only without record and explicit sequence", l.at.Pos(),
				"sequence 0 only for a first publish without explicit sequence", "sequence 0 can be used although a previous record exists or an explicit sequence was given: the published sequence number decreases")
		case isExplicit(l.v):
			if guarded(l, recNonNil) {
				kinds["explicit"]++
				c.Check(guarded(l, gtCur), "O3", "R-CMP", name, "explicit sequence accepted only if > current", l.v.Pos(),
					"explicit sequence used only where it is known > current sequence", "an explicit sequence number is accepted on an edge where it is not known to be greater than the current record's sequence: publishing can keep or decrease the sequence")
			} else {
				kinds["explicit-first"]++
				c.Check(guarded(l, recNil) && guarded(l, nonZero), "O3", "R-CMP", name, "explicit sequence without record must be != 0", l.v.Pos(),
					"explicit first sequence used only where known non-zero", "an explicit sequence is used without a previous record on an edge where it is not known to be non-zero (or the absence of a record is not established)")
			}
		case isCur(l.v):
			kinds["keep"]++
			c.Check(guarded(l, sameVal), "O3", "R-CMP", name, "sequence kept only if value unchanged", l.at.Pos(),
				"current sequence reused only where the value string is known equal to the current record's", "the current sequence number is reused on an edge where the new value is not known equal to the current record's value: a changed value is published without increasing the sequence and resolvers keep the old record")
		default:
			if bo, ok := l.v.(*ssa.BinOp); ok && bo.Op == token.ADD && (isCur(bo.X) && c25IsInt(1)(bo.Y) || isCur(bo.Y) && c25IsInt(1)(bo.X)) {
				kinds["increment"]++
				c.Check(guarded(l, diffVal) || !guarded(l, sameVal), "O3", "R-CMP", name, "sequence+1 when value changed", bo.Pos(),
					"current+1 used where the value differs", "current+1 is used only where the value is unchanged")
				isMax := func(v ssa.Value) bool {
					k, ok := an.ConstOf(v)
					return ok && k.Kind() == constant.Int && constant.Compare(k, token.EQL, constant.MakeUint64(math.MaxUint64))
				}
				noWrap := c25RelEdges(fn, isCur, isMax, c25LT, c25GT)
				c.Check(guarded(l, noWrap), "O3", "R-CMP", name, "sequence+1 cannot wrap", bo.Pos(),
					"current+1 computed only where current < MaxUint64 is known", "current sequence + 1 is computed without the current sequence being known < MaxUint64: after a record with sequence MaxUint64 the next publish of a different value wraps to sequence 0 and the stored/published sequence number decreases")
				continue
			}
			c.Problem("undecided: %s uses a sequence number that derives from %s (%s)", name, c25Desc(l.v), p.Pos(l.at.Pos()))
		}
	}
	c.Check(kinds["increment"] > 0, "O3", "R-CMP", name, "sequence increases on value change", at0.Pos(), "a current+1 alternative exists", "no path yields the current sequence + 1: publishing a different value never increases the sequence number")
	c.Check(kinds["explicit"] > 0 || len(optPtrs) == 0, "O3", "R-CMP", name, "explicit sequence honoured", at0.Pos(), "explicit sequence alternative exists", "the explicit sequence option is read but never used when a record exists")
}

// ---------------------------------------------------------------- O4 resolution

func c29Resolve(c *an.Ctx) {
	p := c.P
	_ = p
	const ns = "namesys"
	c29TTLFn = nil
	outer := c29R.chain
	if !c.Need(outer != nil, "the recursive chain resolver of package namesys (a function whose closure calls it again)") {
		return
	}
	// the worker: closure containing the recursive call
	var worker *ssa.Function
	var rec *ssa.Call
	for _, g := range an.WithClosures(outer) {
		for _, call := range an.AllCalls(g) {
			if cv := an.CallValue(call); cv != nil && g != outer && cv.Call.StaticCallee() == outer {
				worker, rec = g, cv
			}
		}
	}
	if !c.Need(worker != nil, "recursive call of the chain resolver") {
		return
	}
	if len(rec.Call.Args) < 4 {
		c.Problem("undecided: resolveAsync no longer takes (ctx, resolver, path, options)")
		return
	}
	name := an.FuncName(worker)
	isDepthLoad := func(v ssa.Value) bool {
		rs := an.Roots(v, nil)
		if len(rs) == 0 {
			return false
		}
		for _, r := range rs {
			f, _ := c28FieldRead(r)
			if f == nil || f.Name() != "Depth" {
				return false
			}
		}
		return true
	}
	// parent result cell: the AsyncResult whose Path is handed to the recursive call
	pathArg := rec.Call.Args[2]
	fPath, parentCell := c28FieldRead(pathArg)
	if fPath == nil || fPath.Name() != "Path" {
		// the chain resolver's own input handed down again (a captured parameter): the next hop is never taken
		own := false
		for _, r := range c29RootsF(pathArg, 0) {
			switch x := r.(type) {
			case *ssa.Parameter:
				own = true
			case *ssa.FreeVar:
				own = true
			case *ssa.UnOp:
				if _, isFV := x.X.(*ssa.FreeVar); isFV {
					own = true
				}
			}
		}
		if own {
			c.Bad("O4", "R-FLOW", name, "recursion resolves the path of the received result", rec.Pos(), "the recursive resolution is started on the chain resolver's own input instead of the path of the result just received: a name chain is never followed to its next hop (the same name is resolved until the depth limit)")
			return
		}
		c.Problem("undecided: the recursive resolveAsync call does not resolve <result>.Path")
		return
	}
	fieldLoads := func(cell ssa.Value, field string) []ssa.Value {
		var out []ssa.Value
		an.Instrs(worker, func(in ssa.Instruction) {
			if u, ok := in.(*ssa.UnOp); ok && u.Op == token.MUL {
				if f, b := an.FieldOf(u.X); f != nil && f.Name() == field && b == cell {
					out = append(out, u)
				}
			}
		})
		return out
	}
	// (a) guards of the recursion
	neOne := c25RelEdges(worker, isDepthLoad, c25IsInt(1), c25NE, 0)
	eqOne := c25RelEdges(worker, isDepthLoad, c25IsInt(1), c25EQ, 0)
	c.Check(len(neOne) > 0 && an.GuardedBy(worker, nil, rec, neOne), "O4", "R-CMP", name, "recurse only if depth != 1", rec.Pos(), "recursion only where depth != 1", "the recursive resolution is reached without depth being known != 1: chains longer than the depth limit are followed (or the limit is off by one)")
	mutable := an.CondEdges(worker, func(atom ssa.Value) (bool, bool) {
		call, ok := atom.(*ssa.Call)
		if !ok || !call.Call.IsInvoke() || call.Call.Method.Name() != "Mutable" {
			return false, false
		}
		if f, b := c28FieldRead(call.Call.Value); f == fPath && b == parentCell {
			return true, false
		}
		return false, false
	})
	c.Check(len(mutable) > 0 && an.GuardedBy(worker, nil, rec, mutable), "O4", "R-DOM", name, "recurse only on mutable result", rec.Pos(), "recursion only for mutable intermediate paths", "the recursive resolution is reached for a result path not known to be Mutable(): immutable results are resolved again instead of being returned")
	errNil := an.NilEdges(worker, fieldLoads(parentCell, "Err"), true)
	c.Check(len(errNil) > 0 && an.GuardedBy(worker, nil, rec, errNil), "O4", "R-DOM", name, "recurse only on error-free result", rec.Pos(), "recursion only where the result carries no error", "the recursive resolution is reached although the intermediate result carries an error")
	// (c) recursion error on depth == 1
	nErr := 0
	an.Instrs(worker, func(in ssa.Instruction) {
		st, ok := in.(*ssa.Store)
		if !ok {
			return
		}
		f, b := an.FieldOf(st.Addr)
		if f == nil || f.Name() != "Err" || b != parentCell {
			return
		}
		if g, ok := c26GlobalOf(st.Val); ok && g.Name() == "ErrResolveRecursion" {
			nErr++
			emitted, _ := an.MustFollow(worker, st, c29Emits(worker, parentCell))
			c.Check(an.GuardedBy(worker, nil, st, eqOne) && an.GuardedBy(worker, nil, st, mutable) && emitted, "O4", "R-CMP", name, "ErrResolveRecursion exactly at depth == 1", st.Pos(), "recursion error stored on the depth==1 edge for a mutable result and emitted", "ErrResolveRecursion is not stored exactly on the depth == 1 edge of a still-mutable result and then emitted: the recursion error is reported for the wrong chain length or lost")
		}
	})
	if nErr == 0 {
		c.Bad("O4", "R-CMP", name, "ErrResolveRecursion exactly at depth == 1", worker.Pos(), "no path stores ErrResolveRecursion into the emitted result: exhausting the depth limit is not reported")
	}
	// (d) depth decrement in the options handed down (computed in the worker or by a package-local helper)
	optArg := rec.Call.Args[3]
	fromOuter := func(v ssa.Value) bool {
		for _, r := range an.Roots(v, nil) {
			if prm, ok := r.(*ssa.Parameter); ok && prm.Parent() == outer {
				return true
			}
		}
		return false
	}
	if hc, ok := c25RootCall(optArg, an.M(ns, "", "")); ok && hc.Call.StaticCallee() != nil && hc.Call.StaticCallee().Blocks != nil {
		h := hc.Call.StaticCallee()
		var hOpt *ssa.Parameter
		for i, a := range hc.Call.Args {
			if i < len(h.Params) && fromOuter(a) {
				hOpt = h.Params[i]
			}
		}
		if hOpt == nil {
			c.Bad("O4", "R-CMP", name, "Depth-1 handed down", rec.Pos(), "the options of the recursive resolution are computed by "+h.Name()+" from something other than the caller's options")
		} else {
			for _, r := range an.Returns(h) {
				c29DepthCopy(c, h, an.FuncName(h), r.Results[0], r, func(v ssa.Value) bool { return c25RootsIn(v, []ssa.Value{hOpt}) })
			}
		}
	} else {
		c29DepthCopy(c, worker, name, optArg, rec, fromOuter)
	}
	// (e) TTL of sub-results
	c29TTL(c, worker, rec, parentCell)

	// the TTL combinator (found by role in c29TTL: the function whose result replaces the sub-result's TTL)
	if mf := c29TTLFn; mf != nil && len(mf.Params) == 2 {
		c29MinTTL(c, mf) // when no combinator is applied at all, the R-POST obligation above already reports it
	}
	// joinPaths
	if jp := c29R.join; c.Need(jp != nil && len(jp.Params) == 2, "the remainder-joining helper (base, unresolved path.Path) (path.Path, error) of package namesys") {
		base, unres := jp.Params[0], jp.Params[1]
		n, good := 0, true
		for _, call := range an.Calls(jp, an.M("path", "", "Join")) {
			n++
			a := call.Common().Args
			if !c25RootsIn(a[0], []ssa.Value{base}) {
				good = false
			}
			// segments: Slice(unres.Segments(), low=2) possibly with "" appended
			rs := an.Roots(a[1], &an.FlowOpts{Through: func(cc *ssa.Call) ([]ssa.Value, bool) {
				if an.Callee(cc).Builtin == "append" {
					return cc.Call.Args[:1], true
				}
				return nil, false
			}, StopAt: func(v ssa.Value) bool { _, ok := v.(*ssa.Slice); return ok }})
			for _, r := range rs {
				sl, ok := r.(*ssa.Slice)
				if !ok || sl.Low == nil || !c25IsInt(2)(sl.Low) || sl.High != nil {
					good = false
					continue
				}
				sc, ok := c25RootCall(sl.X, an.M("", "", "Segments"))
				if !ok || !c25RootsIn(an.Recv(sc), []ssa.Value{unres}) {
					good = false
				}
			}
			if len(rs) == 0 {
				good = false
			}
		}
		c.Check(n > 0 && good, "O4", "R-FLOW", an.FuncName(jp), "join(base, unresolved.Segments()[2:])", jp.Pos(), "remainder = segments after namespace and root, appended to the resolved base", "joinPaths does not append exactly unresolved.Segments()[2:] to the resolved base: the unresolved remainder is lost, duplicated or shifted")
	}
	c29ResolveOnce(c)
}

// c29DepthCopy: the options value optVal, consumed at anchor in fn, is a local copy of the caller's options whose
// Depth is decremented by one exactly where it is > 1 (0 = unlimited and 1 are left alone).
func c29DepthCopy(c *an.Ctx, fn *ssa.Function, name string, optVal ssa.Value, anchor ssa.Instruction, fromCaller func(ssa.Value) bool) {
	var subCell *ssa.Alloc
	if u, ok := optVal.(*ssa.UnOp); ok && u.Op == token.MUL {
		subCell, _ = u.X.(*ssa.Alloc)
		if fv, isFV := u.X.(*ssa.FreeVar); isFV && subCell == nil {
			// the options copy is a variable of an enclosing function captured by the worker (computation hoisted
			// out of the worker): analyse it where it is built, relative to the creation of the closure
			if cell := an.CellOf(fv); cell != nil && cell.Parent() != nil {
				if site := an.EnclosingSite(cell.Parent(), anchor); site != nil {
					subCell, fn, anchor = cell, cell.Parent(), site
				}
			}
		}
	}
	if subCell == nil {
		if fromCaller(optVal) {
			c.Bad("O4", "R-CMP", name, "Depth-1 handed down", anchor.Pos(), "the recursive resolution receives the caller's options unchanged: Depth is never decremented, so the depth limit is not enforced along the chain (every hop gets the full budget)")
		} else {
			c.Problem("undecided: options of the recursive call are not a local copy")
		}
		return
	}
	isSubDepth := func(v ssa.Value) bool {
		u, ok := v.(*ssa.UnOp)
		if !ok || u.Op != token.MUL {
			return false
		}
		f, b := an.FieldOf(u.X)
		return f != nil && f.Name() == "Depth" && b == ssa.Value(subCell)
	}
	var decs []ssa.Instruction
	copied := false
	an.Instrs(fn, func(in ssa.Instruction) {
		st, ok := in.(*ssa.Store)
		if !ok {
			return
		}
		if st.Addr == ssa.Value(subCell) {
			if fromCaller(st.Val) {
				copied = true // subOpts := options
			}
			return
		}
		f, b := an.FieldOf(st.Addr)
		if f == nil || f.Name() != "Depth" || b != ssa.Value(subCell) {
			return
		}
		if bo, ok := st.Val.(*ssa.BinOp); ok && bo.Op == token.SUB && isSubDepth(bo.X) && c25IsInt(1)(bo.Y) {
			decs = append(decs, st)
		} else {
			c.Bad("O4", "R-CMP", name, "Depth-1 handed down", st.Pos(), "the depth handed to the recursive resolution is set to something other than Depth-1")
		}
	})
	le1 := c25RelEdges(fn, isSubDepth, c25IsInt(1), c25LE, 0).Union(c25RelEdges(fn, isSubDepth, c25IsInt(2), c25LT, 0)).Union(c25RelEdges(fn, isSubDepth, c25IsInt(0), c25EQ, 0))
	gt1 := c25RelEdges(fn, isSubDepth, c25IsInt(1), c25GT, 0).Union(c25RelEdges(fn, isSubDepth, c25IsInt(2), c25GE, 0))
	blocked := map[ssa.Instruction]bool{}
	good := copied && len(decs) > 0
	for _, d := range decs {
		blocked[d] = true
		if !an.GuardedBy(fn, nil, d, gt1) || !an.Dominates(d, anchor) && !an.Reaches(fn, d, anchor, nil, nil) {
			good = false
		}
	}
	// every path to the consumer either knows Depth <= 1 (0 = unlimited) or passes the decrement
	if an.Reaches(fn, nil, anchor, le1, blocked) {
		good = false
	}
	c.Check(good, "O4", "R-CMP", name, "Depth-1 handed down", anchor.Pos(), "sub-resolution gets Depth-1 whenever Depth > 1", "the recursive resolution can be started with an undecremented depth > 1 (or the decrement is applied where Depth <= 1): the depth limit is not enforced along the chain, or an unlimited depth (0) underflows")
}

// c29Emits: calls that send (a load of) the given result cell out.
func c29Emits(fn *ssa.Function, cell ssa.Value) []ssa.Instruction {
	var out []ssa.Instruction
	for _, call := range an.AllCalls(fn) {
		if call.Common().StaticCallee() == nil || !c29R.emitters[call.Common().StaticCallee()] {
			continue
		}
		for _, a := range call.Common().Args {
			if u, ok := a.(*ssa.UnOp); ok && u.Op == token.MUL && u.X == cell {
				out = append(out, call)
			}
		}
	}
	return out
}

// c29RootsF: provenance like an.Roots, additionally looking through fields of local struct variables (also captured
// ones): a load of <local>.f stands for the values stored to <local>.f anywhere in the function family.
func c29RootsF(v ssa.Value, depth int) []ssa.Value {
	var out []ssa.Value
	for _, r := range an.Roots(v, nil) {
		u, ok := r.(*ssa.UnOp)
		if ok && u.Op == token.MUL && depth < 3 {
			if fa, isFA := u.X.(*ssa.FieldAddr); isFA {
				if cell := an.CellOf(fa.X); cell != nil && cell.Parent() != nil {
					fld, _ := an.FieldOf(fa)
					n := 0
					for _, g := range an.WithClosures(c25Outer(cell.Parent())) {
						an.Instrs(g, func(in ssa.Instruction) {
							st, ok := in.(*ssa.Store)
							if !ok {
								return
							}
							f2, b2 := an.FieldOf(st.Addr)
							if f2 == nil || f2 != fld || an.CellOf(b2) != cell {
								return
							}
							n++
							out = append(out, c29RootsF(st.Val, depth+1)...)
						})
					}
					if n == 0 {
						// the variable is filled as a whole from a composite-literal temporary: its fields
						for _, ws := range c29CellStores(cell) {
							if l2, ok := ws.Val.(*ssa.UnOp); ok && l2.Op == token.MUL {
								if c2, ok := l2.X.(*ssa.Alloc); ok && c2 != cell {
									an.Instrs(c2.Parent(), func(in ssa.Instruction) {
										st, ok := in.(*ssa.Store)
										if !ok {
											return
										}
										f2, b2 := an.FieldOf(st.Addr)
										if f2 == nil || f2 != fld || b2 != ssa.Value(c2) {
											return
										}
										n++
										out = append(out, c29RootsF(st.Val, depth+1)...)
									})
								}
							}
						}
					}
					if n > 0 {
						continue
					}
				}
			}
		}
		out = append(out, r)
	}
	return out
}

// c29TTLFn: the TTL combinator found by c29TTL.
var c29TTLFn *ssa.Function

// c29CallsTo: call instructions of fn whose static callee is target.
func c29CallsTo(fn, target *ssa.Function) []ssa.CallInstruction {
	var out []ssa.CallInstruction
	if target == nil {
		return nil
	}
	for _, call := range an.AllCalls(fn) {
		if call.Common().StaticCallee() == target {
			out = append(out, call)
		}
	}
	return out
}

func c29TTL(c *an.Ctx, worker *ssa.Function, rec *ssa.Call, parentCell ssa.Value) {
	name := an.FuncName(worker)
	// the select receiving from the channel returned by the recursive call
	var sel *ssa.Select
	subIdx := -1
	an.Instrs(worker, func(in ssa.Instruction) {
		s, ok := in.(*ssa.Select)
		if !ok {
			return
		}
		k := 0
		for _, st := range s.States {
			if st.Dir != types.RecvOnly {
				continue
			}
			for _, r := range c29RootsF(st.Chan, 0) {
				if r == ssa.Value(rec) {
					sel, subIdx = s, k
				}
			}
			k++
		}
	})
	if sel == nil {
		c.Problem("undecided: results of the recursive resolution are not received in a select of the worker")
		return
	}
	// cell filled with the received sub-result
	var subCell ssa.Value
	for _, r := range *sel.Referrers() {
		if e, ok := r.(*ssa.Extract); ok && e.Index == 2+subIdx {
			for _, rr := range *e.Referrers() {
				if st, ok := rr.(*ssa.Store); ok && st.Val == ssa.Value(e) {
					subCell = st.Addr
				}
			}
		}
	}
	if subCell == nil {
		c.Problem("undecided: the sub-result is not stored in a local before being emitted")
		return
	}
	emits := c29Emits(worker, subCell)
	c.Min("O4 emits of sub-results", len(emits), 1)
	// stores to subCell.TTL
	var fixes []ssa.Instruction
	an.Instrs(worker, func(in ssa.Instruction) {
		st, ok := in.(*ssa.Store)
		if !ok {
			return
		}
		f, b := an.FieldOf(st.Addr)
		if f == nil || f.Name() != "TTL" || b != subCell {
			return
		}
		mc, ok := c25RootCall(st.Val, an.M("namesys", "", ""))
		if !ok || mc.Call.StaticCallee() == nil || len(mc.Call.Args) != 2 {
			return
		}
		var parent, own bool
		for _, a := range mc.Call.Args {
			if f2, b2 := c28FieldRead(a); f2 != nil && f2.Name() == "TTL" && b2 == subCell {
				own = true
				continue
			}
			// parentTTL: loop-carried, coming from the parent's TTL at the recursion site (or 0 initially)
			okp := true
			np := 0
			for _, r := range c29RootsF(a, 0) {
				if k, isK := r.(*ssa.Const); isK && k.Value != nil && constant.Sign(k.Value) == 0 {
					continue
				}
				if f2, b2 := c28FieldRead(r); f2 != nil && f2.Name() == "TTL" && b2 == parentCell {
					if in2, ok := r.(ssa.Instruction); ok && in2.Block() == rec.Block() {
						np++
						continue
					}
				}
				okp = false
			}
			if okp && np > 0 {
				parent = true
			}
		}
		if parent && own {
			fixes = append(fixes, st)
			c29TTLFn = mc.Call.StaticCallee()
		}
	})
	for _, e := range emits {
		c.Check(an.MustPrecede(worker, e, fixes), "O4", "R-POST", name, "sub-result TTL = min-non-zero(parentTTL, TTL) before emit", e.Pos(), "every emitted sub-result had its TTL combined with the parent's",
			"a result of the recursive resolution is emitted without its TTL having been replaced by minNonZeroTTL(parent TTL, own TTL): the reported TTL is not the smallest non-zero TTL along the chain")
	}
}

func c29MinTTL(c *an.Ctx, mf *ssa.Function) {
	name := an.FuncName(mf)
	a, b := mf.Params[0], mf.Params[1]
	isBoth := func(call *ssa.Call, extraZero bool) bool {
		var sa, sb, z bool
		for _, x := range call.Call.Args {
			switch {
			case x == ssa.Value(a):
				sa = true
			case x == ssa.Value(b):
				sb = true
			case c25IsInt(0)(x):
				z = true
			default:
				return false
			}
		}
		return sa && sb && (z || !extraZero)
	}
	var minCalls []ssa.Value
	for _, call := range an.Calls(mf, an.M("builtin", "", "min")) {
		if cv := an.CallValue(call); cv != nil && isBoth(cv, false) {
			minCalls = append(minCalls, cv)
		}
	}
	isMin := func(v ssa.Value) bool { return len(minCalls) > 0 && c25RootsIn(v, minCalls) }
	pos := c25RelEdges(mf, isMin, c25IsInt(0), c25GT, 0)
	nonpos := c25RelEdges(mf, isMin, c25IsInt(0), c25LE, 0)
	good, n := len(minCalls) > 0, 0
	for _, r := range an.Returns(mf) {
		var walk func(v ssa.Value, pred, blk *ssa.BasicBlock)
		walk = func(v ssa.Value, pred, blk *ssa.BasicBlock) {
			if ph, ok := v.(*ssa.Phi); ok {
				for i, e := range ph.Edges {
					walk(e, ph.Block().Preds[i], ph.Block())
				}
				return
			}
			n++
			call, ok := v.(*ssa.Call)
			switch {
			case ok && an.Callee(call).Builtin == "min" && isBoth(call, false):
				if pred != nil && !c29EdgeGuarded(mf, pred, blk, pos) || pred == nil && !an.GuardedBy(mf, nil, r, pos) {
					good = false
				}
			case ok && an.Callee(call).Builtin == "max" && isBoth(call, true):
				if !an.GuardedBy(mf, nil, call, nonpos) {
					good = false
				}
			default:
				good = false
			}
		}
		walk(r.Results[0], nil, nil)
	}
	c.Check(good && n >= 2, "O4", "R-CMP", name, "min(a,b) if > 0 else max(0,a,b)", mf.Pos(), "smallest non-zero TTL", "minNonZeroTTL is not 'min(a,b) where that is > 0, otherwise max(0,a,b)': an unknown (0) hop TTL hides a known one, or the larger TTL wins")
}

// c29Vals: provenance of v like an.Roots, but a load of a local cell only
// sees the stores that can reach it (and, for a variable captured by a
// closure, the stores of the enclosing function that can reach the closure's
// creation), so that a later re-assignment on a returning branch does not
// pollute earlier uses.
func c29Vals(v ssa.Value) []ssa.Value {
	seen := map[ssa.Value]bool{}
	var out []ssa.Value
	var walk func(v ssa.Value)
	cellStores := func(cell *ssa.Alloc, at ssa.Instruction) {
		fn := cell.Parent()
		n := 0
		for _, r := range *cell.Referrers() {
			st, ok := r.(*ssa.Store)
			if !ok || st.Addr != ssa.Value(cell) {
				continue
			}
			site := an.EnclosingSite(fn, at)
			if site == nil || st.Block() == site.Block() && an.Dominates(st, site) || an.Reaches(fn, st, site, nil, nil) {
				n++
				walk(st.Val)
			}
		}
		if n == 0 {
			out = append(out, cell)
		}
	}
	walk = func(v ssa.Value) {
		if v == nil || seen[v] {
			return
		}
		seen[v] = true
		switch x := v.(type) {
		case *ssa.ChangeType:
			walk(x.X)
		case *ssa.Convert:
			walk(x.X)
		case *ssa.MakeInterface:
			walk(x.X)
		case *ssa.ChangeInterface:
			walk(x.X)
		case *ssa.Phi:
			for _, e := range x.Edges {
				walk(e)
			}
		case *ssa.UnOp:
			if x.Op == token.MUL {
				if cell := an.CellOf(x.X); cell != nil {
					// stores made inside closures other than through the parent are kept conservatively
					cellStores(cell, x)
					if fv, ok := x.X.(*ssa.FreeVar); ok {
						for _, r := range *fv.Referrers() {
							if st, ok := r.(*ssa.Store); ok && st.Addr == ssa.Value(fv) {
								walk(st.Val)
							}
						}
					}
					return
				}
			}
			out = append(out, v)
		default:
			out = append(out, v)
		}
	}
	walk(v)
	return out
}

func c29ValsIn(v ssa.Value, set []ssa.Value) bool {
	rs := c29Vals(v)
	if len(rs) == 0 {
		return false
	}
	for _, r := range rs {
		ok := false
		for _, s := range set {
			if r == s {
				ok = true
			}
		}
		if !ok {
			return false
		}
	}
	return true
}

// c29ResolveOnce: namesys.resolveOnceAsync resolves /ns/root of the input and joins results with the input.
func c29ResolveOnce(c *an.Ctx) {
	p := c.P
	const ns = "namesys"
	ro := p.Func(ns, c29R.nsName, c29R.onceName)
	if !c.Need(ro != nil && len(ro.Params) >= 3, "the single-hop resolve method of the type NewNameSystem returns (the method the chain resolver invokes)") {
		return
	}
	name := an.FuncName(ro)
	in := ro.Params[2]
	// resolvable = NewPathFromSegments(seg[0], seg[1]) of in.Segments()
	var resolvable []ssa.Value
	for _, call := range an.Calls(ro, an.M("path", "", "NewPathFromSegments")) {
		cv := an.CallValue(call)
		va := c28Varargs(cv.Call.Args[0])
		good := len(va) == 2
		for i, v := range va {
			s, idx, ok := c27Indexed(c28Root(v))
			if !ok || !c25IsInt(int64(i))(idx) {
				good = false
				continue
			}
			sc, ok := c25RootCall(s, an.M("", "", "Segments"))
			if !ok || !c29ValsIn(an.Recv(sc), []ssa.Value{in}) {
				good = false
			}
		}
		if good {
			resolvable = append(resolvable, an.Result(cv, 0)...)
		}
	}
	// the cache key constructed here names what is resolved: the canonicaliser is applied to the root segment
	// (segments[1] of the input or of the resolvable path), the same component the resolvable path is built from
	for _, g := range an.WithClosures(ro) {
		for _, call := range an.AllCalls(g) {
			cv := an.CallValue(call)
			f := call.Common().StaticCallee()
			if cv == nil || f == nil || f.Pkg == nil || f.Pkg.Pkg.Path() != an.Mod+"/"+ns || len(f.Params) != 1 || len(cv.Call.Args) != 1 {
				continue
			}
			if bt, ok := f.Params[0].Type().Underlying().(*types.Basic); !ok || bt.Kind() != types.String {
				continue
			}
			if okc, _ := c29Canonicalises(f); !okc {
				continue
			}
			good := false
			if s0, idx, ok := c27Indexed(c28Root(cv.Call.Args[0])); ok && c25IsInt(1)(idx) {
				if sc, ok := c25RootCall(s0, an.M("", "", "Segments")); ok {
					rv := an.Recv(sc)
					good = c29ValsIn(rv, []ssa.Value{in}) || len(resolvable) > 0 && c29ValsIn(rv, resolvable)
				}
			}
			c.Check(good, "O1", "R-SIB", name, "cache key built from the root segment that is resolved", cv.Pos(), "key = canonical(segments[1]) of the path being resolved",
				"the cache key is built from "+c25Desc(cv.Call.Args[0])+", not from the root segment (segments[1]) of the path that is resolved: lookups and writes of different names share or miss entries, so a resolve can return another name's value or a stale one after publish")
		}
	}
	c.Check(len(resolvable) > 0, "O4", "R-FLOW", name, "resolvable=/segments[0]/segments[1]", ro.Pos(), "the name resolved is namespace+root of the input", "resolveOnceAsync does not build the resolvable path from the first two segments of its input")
	isJoin := func(f *ssa.Function) bool { return f == c29R.join }
	fam := c29Family(ro, map[string][]ssa.Value{"in": {in}, "resolvable": resolvable}, isJoin)
	// resolver is asked for the resolvable path
	n, good := 0, true
	for _, m := range fam {
		for _, call := range an.AllCalls(m.fn) {
			if call.Common().IsInvoke() && call.Common().Method.Name() == c29R.onceName {
				n++
				if len(m.roles["resolvable"]) == 0 || !c29ValsIn(call.Common().Args[1], m.roles["resolvable"]) {
					good = false
				}
			}
		}
	}
	c.Check(n > 0 && good, "O4", "R-FLOW", name, "resolver asked for the resolvable path", ro.Pos(), "protocol resolver receives /ns/root only", "the protocol resolver is not asked for the /namespace/root prefix: the remainder would be appended twice")
	// every emitted AsyncResult.Path is joinPaths(x, in)
	nj, okj := 0, true
	for _, m := range fam {
		for _, call := range c29CallsTo(m.fn, c29R.join) {
			nj++
			if len(m.roles["in"]) == 0 || !c29ValsIn(call.Common().Args[1], m.roles["in"]) {
				okj = false
			}
		}
	}
	c.Check(nj >= 2 && okj, "O4", "R-FLOW", name, "results joined with the input path", ro.Pos(), "cache hits and resolver results are joined with the original path's remainder", "a cache hit or resolver result is not joined with the original input path: the unresolved remainder is dropped")
	c29CachedValue(c, ro, fam)
}

// c29Member: a function taking part in one logical operation (the anchored function, its closures and the
// unexported package-local helpers it calls / starts with go), with the tracked values translated into it.
type c29Member struct {
	fn    *ssa.Function
	roles map[string][]ssa.Value
}

// c29Family follows static in-package calls (call, go, defer) that hand one of the tracked values on.
func c29Family(root *ssa.Function, roles map[string][]ssa.Value, skip func(*ssa.Function) bool) []c29Member {
	var out []c29Member
	seen := map[*ssa.Function]bool{}
	var add func(fn *ssa.Function, r map[string][]ssa.Value, depth int)
	add = func(fn *ssa.Function, r map[string][]ssa.Value, depth int) {
		if seen[fn] {
			return
		}
		for _, g := range an.WithClosures(fn) {
			seen[g] = true
			out = append(out, c29Member{g, r})
		}
		if depth >= 2 {
			return
		}
		for _, g := range an.WithClosures(fn) {
			for _, call := range an.AllCalls(g) {
				h := call.Common().StaticCallee()
				if h == nil || h.Blocks == nil || h.Pkg == nil || root.Pkg == nil || h.Pkg != root.Pkg || seen[h] || h.Parent() != nil || (skip != nil && skip(h)) {
					continue
				}
				if o := h.Object(); o == nil || o.Exported() {
					continue
				}
				nr := map[string][]ssa.Value{}
				for role, vals := range r {
					for i, a := range call.Common().Args {
						if i < len(h.Params) && len(vals) > 0 && c29ValsIn(a, vals) {
							nr[role] = append(nr[role], h.Params[i])
						}
					}
				}
				if len(nr) > 0 {
					add(h, nr, depth+1)
				}
			}
		}
	}
	add(root, roles, 0)
	return out
}

// c29CellStores: whole-value stores into a local variable cell, including stores made by closures capturing it.
func c29CellStores(a *ssa.Alloc) []*ssa.Store {
	var out []*ssa.Store
	seen := map[ssa.Value]bool{}
	var visit func(cell ssa.Value)
	visit = func(cell ssa.Value) {
		if seen[cell] || cell.Referrers() == nil {
			return
		}
		seen[cell] = true
		for _, r := range *cell.Referrers() {
			switch r := r.(type) {
			case *ssa.Store:
				if r.Addr == cell {
					out = append(out, r)
				}
			case *ssa.MakeClosure:
				fn := r.Fn.(*ssa.Function)
				for i, b := range r.Bindings {
					if b == cell && i < len(fn.FreeVars) {
						visit(fn.FreeVars[i])
					}
				}
			}
		}
	}
	visit(a)
	return out
}

// c29CachedValue: the cache stores the BARE result of resolving /ns/root (the cache-hit path appends the
// request's remainder itself). The value handed to the cache write wrapper is the Path of a result captured from
// the resolver channel while that result still carries the resolver's own Path (no store to its Path before the
// capture, not a joinPaths result), captured only where the result has no error; and a cache hit is joined with
// the request exactly like a fresh result.
func c29CachedValue(c *an.Ctx, ro *ssa.Function, fam []c29Member) {
	const ns = "namesys"
	name := an.FuncName(ro)
	isWriter := func(f *ssa.Function) bool {
		if f == nil || f.Pkg == nil || f.Pkg.Pkg.Path() != an.Mod+"/"+ns {
			return false
		}
		for _, call := range an.AllCalls(f) {
			if ci := an.Callee(call); ci.Pkg == "github.com/hashicorp/golang-lru/v2" && ci.Recv == "Cache" && ci.Name == "Add" {
				return true
			}
		}
		return false
	}
	isLookup := func(f *ssa.Function) bool {
		if f == nil || f.Pkg == nil || f.Pkg.Pkg.Path() != an.Mod+"/"+ns || isWriter(f) {
			return false
		}
		for _, call := range an.AllCalls(f) {
			if ci := an.Callee(call); ci.Pkg == "github.com/hashicorp/golang-lru/v2" && ci.Recv == "Cache" && ci.Name == "Get" {
				return true
			}
		}
		return false
	}
	nW := 0
	for _, m := range fam {
		g := m.fn
		for _, call := range an.AllCalls(g) {
			w := call.Common().StaticCallee()
			if !isWriter(w) {
				continue
			}
			var val ssa.Value
			for i, q := range w.Params {
				if an.TypeIs(q.Type(), "path", "Path") && i < len(call.Common().Args) {
					val = call.Common().Args[i]
				}
			}
			if val == nil {
				continue
			}
			nW++
			gname := an.FuncName(g)
			construct := "cached value is the bare resolver result"
			if jc, ok := c25RootCall(val, an.M(ns, "", "")); ok && jc != nil && jc.Call.StaticCallee() == c29R.join {
				c.Bad("O4", "R-FLOW", gname, construct, call.Pos(), "the value written to the cache is a joinPaths result (resolved base + this request's remainder): the next cache hit appends its own remainder to it and returns base/old-remainder/new-remainder")
				continue
			}
			f, cellAddr := c28FieldRead(val)
			cell := (*ssa.Alloc)(nil)
			if f != nil && f.Name() == "Path" {
				cell = an.CellOf(cellAddr)
			}
			if cell == nil {
				c.Problem("undecided: %s hands the cache a value that is not the Path field of a captured result (%s)", gname, c.P.Pos(call.Pos()))
				continue
			}
			good, why := true, ""
			nCap := 0
			for _, st := range c29CellStores(cell) {
				nCap++
				h := st.Parent()
				ld, ok := st.Val.(*ssa.UnOp)
				if !ok || ld.Op != token.MUL {
					if _, isEx := st.Val.(*ssa.Extract); isEx {
						continue // captured directly from the receive
					}
					good, why = false, "the captured result is built in place ("+c25Desc(st.Val)+") instead of being the result received from the resolver"
					continue
				}
				rcell, ok := ld.X.(*ssa.Alloc)
				if !ok {
					good, why = false, "the captured result is not a local holding the received resolver result"
					continue
				}
				// rcell is filled from a channel receive
				fromRecv := false
				for _, rs := range c29CellStores(rcell) {
					if ex, ok := rs.Val.(*ssa.Extract); ok {
						if _, isSel := ex.Tuple.(*ssa.Select); isSel {
							fromRecv = true
						}
					}
					if u, ok := rs.Val.(*ssa.UnOp); ok && u.Op == token.ARROW {
						fromRecv = true
					}
				}
				if !fromRecv {
					good, why = false, "the captured result does not come from the resolver channel"
				}
				// no store to rcell.Path can precede the capture
				an.Instrs(h, func(in2 ssa.Instruction) {
					fs, ok := in2.(*ssa.Store)
					if !ok {
						return
					}
					ff, b := an.FieldOf(fs.Addr)
					if ff == nil || ff.Name() != "Path" || b != ssa.Value(rcell) {
						return
					}
					if fs.Block() == ld.Block() && an.Dominates(fs, ld) || an.Reaches(h, fs, ld, nil, nil) {
						good, why = false, "the received result's Path is overwritten ("+c25Desc(fs.Val)+") before the result is captured for the cache"
					}
				})
				// captured only where the result carries no error
				var errLoads []ssa.Value
				an.Instrs(h, func(in2 ssa.Instruction) {
					if u, ok := in2.(*ssa.UnOp); ok && u.Op == token.MUL {
						if ff, b := an.FieldOf(u.X); ff != nil && ff.Name() == "Err" && b == ssa.Value(rcell) {
							errLoads = append(errLoads, u)
						}
					}
				})
				okErr := an.NilEdges(h, errLoads, true)
				c.Check(len(okErr) > 0 && an.GuardedBy(h, nil, st, okErr), "O4", "R-DOM", an.FuncName(h), "result captured for the cache only if error-free", st.Pos(), "capture on the Err == nil edge", "a resolver result is captured for the cache without its Err being known nil: failed resolutions (nil path) are cached and served to later resolves")
			}
			c.Check(good && nCap > 0, "O4", "R-FLOW", gname, construct, call.Pos(), "cache receives the Path of the result exactly as received from the resolver of /ns/root",
				"cache value: "+why+": the cache no longer holds the bare resolution of /ns/root, so a later cache hit (which appends the request's remainder) returns base/old-remainder/new-remainder")
		}
	}
	c.Min("O4 cache writes in resolveOnceAsync", nW, 1)
	// cache hit: joinPaths(lookup result, input)
	hit := false
	for _, m := range fam {
		for _, call := range c29CallsTo(m.fn, c29R.join) {
			a := call.Common().Args
			if lc, ok := c25RootCall(a[0], an.M(ns, "", "")); ok && isLookup(lc.Call.StaticCallee()) && len(m.roles["in"]) > 0 && c29ValsIn(a[1], m.roles["in"]) {
				n := lc.Call.Signature().Results().Len()
				oks := an.Result(lc, n-1)
				if len(oks) > 0 && an.GuardedBy(m.fn, nil, call, an.BoolEdges(m.fn, oks, true)) {
					hit = true
				}
			}
		}
	}
	c.Check(hit, "O4", "R-FLOW", name, "cache hit joined with the request", ro.Pos(), "a cache hit is joinPaths(cached base, request) on the ok edge", "a cache hit is not returned as joinPaths(cached base, request path) on the hit edge: cached resolutions lose or duplicate the remainder")
}
