package props

import (
	"go/constant"
	"go/token"
	"go/types"
	"strings"

	"golang.org/x/tools/go/ssa"

	"verif/checker/an"
)

// c36ElemOf: v reads (a field of) a slice element, possibly through the local
// copy a range statement makes; returns the IndexAddr of the element.
func c36ElemOf(v ssa.Value) *ssa.IndexAddr {
	cur := v
	for i := 0; i < 10; i++ {
		switch x := cur.(type) {
		case *ssa.UnOp:
			if x.Op != token.MUL {
				return nil
			}
			cur = x.X
		case *ssa.FieldAddr:
			cur = x.X
		case *ssa.Field:
			cur = x.X
		case *ssa.Alloc:
			var only ssa.Value
			n := 0
			for _, r := range *x.Referrers() {
				if st, ok := r.(*ssa.Store); ok && st.Addr == ssa.Value(x) {
					only = st.Val
					n++
				}
			}
			if n != 1 {
				return nil
			}
			cur = only
		case *ssa.IndexAddr:
			return x
		default:
			return nil
		}
	}
	return nil
}

// c36Cell: the local cell (or slice element) a whole-struct value or one of its
// fields is read from; used to say "the same entry".
func c36Cell(v ssa.Value) ssa.Value {
	cur := v
	for i := 0; i < 10; i++ {
		switch x := cur.(type) {
		case *ssa.UnOp:
			if x.Op != token.MUL {
				return nil
			}
			cur = x.X
		case *ssa.FieldAddr:
			cur = x.X
		case *ssa.Alloc, *ssa.IndexAddr:
			return cur
		default:
			return nil
		}
	}
	return nil
}

func c36AppendChain(v ssa.Value, out func(*ssa.Call)) {
	seen := map[ssa.Value]bool{}
	var walk func(v ssa.Value)
	walk = func(v ssa.Value) {
		if v == nil || seen[v] {
			return
		}
		seen[v] = true
		switch x := v.(type) {
		case *ssa.Phi:
			for _, e := range x.Edges {
				walk(e)
			}
		case *ssa.Slice:
			walk(x.X)
		case *ssa.Call:
			if bi, ok := x.Call.Value.(*ssa.Builtin); ok && bi.Name() == "append" {
				out(x)
				walk(x.Call.Args[0])
			}
		case *ssa.UnOp:
			if x.Op == token.MUL {
				if cell := an.CellOf(x.X); cell != nil {
					for _, r := range *cell.Referrers() {
						if st, ok := r.(*ssa.Store); ok && st.Addr == ssa.Value(cell) {
							walk(st.Val)
						}
					}
				}
			}
		}
	}
	walk(v)
}

// runC36Accept — O8: only wants the ledger accepted become tasks.
func runC36Accept(c *an.Ctx, fns []*ssa.Function, fLedger *types.Var) {
	mWants := c36R.L("Wants")

	// ---- (a) the overflow filter: closures handed to slices.DeleteFunc that ask the ledger
	nF := 0
	for _, fn := range fns {
		if fn.Parent() == nil || fn.Signature.Results().Len() != 1 {
			continue
		}
		if b, ok := fn.Signature.Results().At(0).Type().Underlying().(*types.Basic); !ok || b.Kind() != types.Bool {
			continue
		}
		var asks []ssa.Value
		for _, w := range an.Calls(fn, mWants) {
			if cv := an.CallValue(w); cv != nil {
				asks = append(asks, cv)
			}
		}
		if len(asks) == 0 {
			continue
		}
		// only predicates of slices.DeleteFunc: true = remove from the accepted list
		isDeletePred := false
		an.Instrs(fn.Parent(), func(in ssa.Instruction) {
			mc, ok := in.(*ssa.MakeClosure)
			if !ok || mc.Fn != ssa.Value(fn) {
				return
			}
			for _, r := range *mc.Referrers() {
				if call, ok := r.(*ssa.Call); ok {
					if ci := an.Callee(call); ci.Pkg == "slices" && ci.Name == "DeleteFunc" {
						isDeletePred = true
					}
				}
			}
		})
		if !isDeletePred {
			continue
		}
		nF++
		name := an.FuncName(fn)
		accepted, refused := an.BoolEdges(fn, asks, true), an.BoolEdges(fn, asks, false)
		for _, r := range an.Returns(fn) {
			v := r.Results[0]
			if k, ok := an.ConstOf(v); ok && k.Kind() == constant.Bool {
				if constant.BoolVal(k) { // deleted from the accepted wants
					c.Check(an.GuardedByVal(fn, r, refused, an.BoolIs(asks, false)), "O8", "R-DOM", name, "drop-from-wants<=ledger-refused", r.Pos(),
						"an entry leaves the accepted wants only where the ledger refused it",
						"the overflow filter removes an entry from the accepted wants on a path where peerLedger.Wants did not refuse it: the want is in the ledger but is never looked up or answered")
				} else {
					c.Check(an.GuardedByVal(fn, r, accepted, an.BoolIs(asks, true)), "O8", "R-DOM", name, "keep-in-wants<=ledger-accepted", r.Pos(),
						"an entry stays in the accepted wants only where the ledger accepted it",
						"the overflow filter keeps an entry in the accepted wants on a path where peerLedger.Wants did not return true: a want the ledger refused (peer over its limit) is turned into a task, a block is sent for a CID that is not on the peer's want-list and the limit is not enforced")
				}
				continue
			}
			neg := false
			for {
				u, ok := v.(*ssa.UnOp)
				if !ok || u.Op != token.NOT {
					break
				}
				neg = !neg
				v = u.X
			}
			isAsk := false
			for _, a := range asks {
				if a == v {
					isAsk = true
				}
			}
			if !isAsk {
				c.Problem("undecided: C36 O8 result of the overflow filter %s is neither a constant nor the (negated) answer of peerLedger.Wants", name)
				continue
			}
			c.Check(neg, "O8", "R-DOM", name, "delete-iff-refused", r.Pos(), "an entry is deleted from the accepted wants iff the ledger refused it",
				"the overflow filter deletes exactly the entries the ledger ACCEPTED: refused wants become tasks, accepted ones are never answered")
		}
		for _, ap := range an.Calls(fn, an.M("builtin", "", "append")) {
			c.Check(an.GuardedByVal(fn, ap.(ssa.Instruction), refused, an.BoolIs(asks, false)), "O8", "R-DOM", name, "overflow-append<=ledger-refused", ap.Pos(),
				"an entry is diverted to the overflow list only where the ledger refused it",
				"the overflow filter appends an entry to the overflow list on a path where the ledger accepted it: the want is handled twice (evicting other wants for an entry that is already recorded)")
		}
	}
	c.Min("O8 overflow filters (slices.DeleteFunc predicates asking peerLedger.Wants)", nF, 1)

}

// runC36Sent — O9: bookkeeping after a message was sent.
func runC36Sent(c *an.Ctx, fns []*ssa.Function, fLedger, fPeers *types.Var) {
	p := c.P
	pbPkg := p.SSA.ImportedPackage(an.Mod + "/bitswap/message/pb")
	konst := func(n string) constant.Value {
		if pbPkg == nil {
			return nil
		}
		if k, ok := pbPkg.Pkg.Scope().Lookup(n).(*types.Const); ok {
			return k.Val()
		}
		return nil
	}
	kBlock, kHave, kPresHave := konst("Message_Wantlist_Block"), konst("Message_Wantlist_Have"), konst("Message_Have")
	if !c.Need(kBlock != nil && kHave != nil && kPresHave != nil, "pb constants Message_Wantlist_Block/Have, Message_Have") {
		return
	}
	isK := func(v ssa.Value, k constant.Value) bool {
		cv, ok := an.ConstOf(v)
		return ok && cv.Kind() == constant.Int && constant.Compare(cv, token.EQL, k)
	}
	mCWT := c36R.L("CancelWantWithType")
	nB, nH := 0, 0
	for _, fn := range fns {
		name := an.FuncName(fn)
		for _, call := range an.Calls(fn, mCWT) {
			if _, ok := c35LoadOfField(an.Recv(call), fLedger); !ok {
				continue
			}
			args := an.Args(call)
			k, typ := args[1], args[2]
			// sent block: k = X.Cid(), X element of m.Blocks()
			if cc, ok := an.IsCallTo(k, an.M("github.com/ipfs/go-block-format", "", "Cid")); ok {
				ia := c36ElemOf(an.Recv(cc))
				fromBlocks := false
				if ia != nil {
					for _, r := range an.Roots(ia.X, nil) {
						if bc, ok := an.IsCallTo(r, an.M(c34Msg, "BitSwapMessage", "Blocks"), an.M(c34Msg, c34ImplName(c.P), "Blocks")); ok && bc != nil {
							fromBlocks = true
						}
					}
				}
				if !fromBlocks {
					continue
				}
				nB++
				c.Check(isK(typ, kBlock), "O9", "R-TABLE", name, "sent-block=>CancelWantWithType(Block)", call.Pos(),
					"a sent block cancels the want with type Block",
					"after a block was sent the want is cancelled with a type other than Block: a want-block survives in the ledger although it was served (CancelWantWithType(Have) never removes a want-block), the block is sent again on the next NotifyNewBlocks and the stale entry counts against the peer's limit")
				continue
			}
			// sent presence: k = bp.Cid, guarded by bp.Type == Have
			if ia := c36ElemOf(k); ia != nil {
				fromPres := false
				for _, r := range an.Roots(ia.X, nil) {
					if bc, ok := an.IsCallTo(r, an.M(c34Msg, "BitSwapMessage", "BlockPresences"), an.M(c34Msg, c34ImplName(c.P), "BlockPresences")); ok && bc != nil {
						fromPres = true
					}
				}
				if !fromPres {
					continue
				}
				nH++
				cell := c36Cell(k)
				haveEdges := an.CondEdges(fn, func(atom ssa.Value) (bool, bool) {
					b, ok := atom.(*ssa.BinOp)
					if !ok || (b.Op != token.EQL && b.Op != token.NEQ) {
						return false, false
					}
					var subj, kv ssa.Value
					if _, isC := b.Y.(*ssa.Const); isC {
						subj, kv = b.X, b.Y
					} else {
						subj, kv = b.Y, b.X
					}
					if !isK(kv, kPresHave) || c36Cell(subj) != cell {
						return false, false
					}
					if f, _ := an.LastComp(subj); f != "Type" {
						u, ok := subj.(*ssa.UnOp)
						if !ok {
							return false, false
						}
						if ff, _ := an.FieldOf(u.X); ff == nil || ff.Name() != "Type" {
							return false, false
						}
					}
					if b.Op == token.EQL {
						return true, false
					}
					return false, true
				})
				c.Check(isK(typ, kHave) && an.GuardedBy(fn, nil, call.(ssa.Instruction), haveEdges), "O9", "R-TABLE", name, "sent-HAVE=>CancelWantWithType(Have)", call.Pos(),
					"a sent HAVE (and only a HAVE) cancels the want with type Have",
					"a sent block presence cancels the peer's want with the wrong type or without testing that the presence is a HAVE: a DONT_HAVE (or a HAVE) removes a want-block the peer still expects to be served")
			}
		}
	}
	c.Min("O9 CancelWantWithType for sent blocks", nB, 1)
	c.Min("O9 CancelWantWithType for sent HAVEs", nH, 1)

	// CancelWantWithType never removes a want-block on behalf of a HAVE
	cw := p.Func(c36Dec, c36R.ledgerName, "CancelWantWithType")
	if !c.Need(cw != nil && len(cw.Params) == 4, "peerLedger.CancelWantWithType(p,k,typ)") {
		return
	}
	typPar := cw.Params[3]
	isExisting := func(v ssa.Value) bool { // WantType of the entry found in peers[p]
		var f *types.Var
		var base ssa.Value
		switch x := v.(type) {
		case *ssa.Field:
			f, base = an.FieldOf(x)
		case *ssa.UnOp:
			if x.Op == token.MUL {
				f, base = an.FieldOf(x.X)
			}
		}
		if f == nil || f.Name() != "WantType" {
			return false
		}
		var srcs []ssa.Value
		if a, ok := base.(*ssa.Alloc); ok {
			for _, r := range *a.Referrers() {
				if st, ok := r.(*ssa.Store); ok && st.Addr == ssa.Value(a) {
					srcs = append(srcs, an.Roots(st.Val, nil)...)
				}
			}
		} else {
			srcs = an.Roots(base, nil)
		}
		if len(srcs) == 0 {
			return false
		}
		for _, r := range srcs {
			var lk *ssa.Lookup
			switch y := r.(type) {
			case *ssa.Lookup:
				lk = y
			case *ssa.Extract:
				lk, _ = y.Tuple.(*ssa.Lookup)
			}
			if lk == nil {
				return false
			}
			if in, _ := c36Inner(lk.X, fPeers); in == nil {
				return false
			}
		}
		return true
	}
	neq := func(pred func(ssa.Value) bool, k, other constant.Value) an.EdgeSet {
		return an.CondEdges(cw, func(atom ssa.Value) (bool, bool) {
			b, ok := atom.(*ssa.BinOp)
			if !ok || (b.Op != token.EQL && b.Op != token.NEQ) {
				return false, false
			}
			var subj, kv ssa.Value
			if _, isC := b.Y.(*ssa.Const); isC {
				subj, kv = b.X, b.Y
			} else if _, isC := b.X.(*ssa.Const); isC {
				subj, kv = b.Y, b.X
			} else {
				return false, false
			}
			if !pred(subj) {
				return false, false
			}
			eq := b.Op == token.EQL
			switch {
			case isK(kv, k):
				return !eq, eq
			case isK(kv, other):
				return eq, !eq
			}
			return false, false
		})
	}
	q := neq(func(v ssa.Value) bool { return v == ssa.Value(typPar) }, kHave, kBlock).Union(neq(isExisting, kBlock, kHave))
	n := 0
	deletesInner := func(g *ssa.Function) bool {
		for _, d := range an.Calls(g, an.M("builtin", "", "delete")) {
			if in, _ := c36Inner(d.Common().Args[0], fPeers); in != nil {
				return true
			}
		}
		return false
	}
	for _, call := range an.AllCalls(cw) {
		if bi, ok := call.Common().Value.(*ssa.Builtin); ok {
			if bi.Name() != "delete" {
				continue
			}
			if in, _ := c36Inner(call.Common().Args[0], fPeers); in == nil {
				continue
			}
		} else if g := an.Callee(call).Static; g == nil || g.Blocks == nil || g.Pkg != cw.Pkg || !deletesInner(g) {
			continue // neither a delete nor a package-local helper performing it
		}
		n++
		c.Check(an.GuardedBy(cw, nil, call.(ssa.Instruction), q), "O9", "R-CMP", an.FuncName(cw), "delete<=!(typ==Have&&existing==Block)", call.Pos(),
			"a sent HAVE never removes a want-block",
			"peerLedger.CancelWantWithType deletes the entry where the cancel is for want-have and the recorded want is a want-block: after the server answered HAVE the peer's want-block disappears from the ledger and the block is never sent when it is requested/arrives")
	}
	c.Min("O9 deletes in CancelWantWithType", n, 1)
}

// runC36Full — O10: an authoritative (full) want-list replaces the recorded one.
func runC36Full(c *an.Ctx, fns []*ssa.Function, fLedger *types.Var) {
	p := c.P
	mClear := c36R.L("ClearPeerWantlist")
	mWants := c36R.L("Wants")
	isMsg := func(t types.Type) bool { return an.TypeIs(t, c34Msg, "BitSwapMessage") }
	fullsIn := func(g *ssa.Function) []ssa.Value {
		var out []ssa.Value
		for _, call := range an.AllCalls(g) {
			if ci := an.Callee(call); ci.Name == "Full" && ci.Invoke && isMsg(an.Recv(call).Type()) {
				if cv := an.CallValue(call); cv != nil {
					out = append(out, cv)
				}
			}
		}
		return out
	}
	clearsIn := func(g *ssa.Function) []ssa.Instruction {
		var out []ssa.Instruction
		for _, call := range an.Calls(g, mClear) {
			if _, ok := c35LoadOfField(an.Recv(call), fLedger); ok {
				out = append(out, call.(ssa.Instruction))
			}
		}
		return out
	}
	recordsIn := func(fn *ssa.Function) []ssa.Instruction {
		var records []ssa.Instruction
		for _, call := range an.AllCalls(fn) {
			if mWants.Match(an.Callee(call)) {
				records = append(records, call.(ssa.Instruction))
				continue
			}
			g := an.Callee(call).Static
			if g == nil || g.Blocks == nil || g.Pkg != fn.Pkg || g == fn {
				continue
			}
			for _, h := range c34Closure(g) {
				if len(an.Calls(h, mWants)) > 0 {
					records = append(records, call.(ssa.Instruction))
					break
				}
			}
		}
		return records
	}
	// ---- (a,b) every clear sits on the Full edge of its function (or of every caller) and precedes recording
	nClear := 0
	for _, fn := range fns {
		clears := clearsIn(fn)
		if len(clears) == 0 || (fn.Signature.Recv() != nil && an.TypeIs(fn.Signature.Recv().Type(), c36Dec, c36R.ledgerName)) {
			continue
		}
		nClear += len(clears)
		name := an.FuncName(fn)
		fulls := fullsIn(fn)
		okOnly := true
		if len(fulls) > 0 {
			for _, cl := range clears {
				if !an.GuardedByVal(fn, cl, an.BoolEdges(fn, fulls, true), an.BoolIs(fulls, true)) {
					okOnly = false
				}
			}
		} else {
			// an unexported helper doing the clear: every call site must be on a Full edge
			sites := 0
			for _, g := range fns {
				for _, cs := range an.AllCalls(g) {
					if an.Callee(cs).Static != fn {
						continue
					}
					sites++
					gf := fullsIn(g)
					if len(gf) == 0 || !an.GuardedByVal(g, cs.(ssa.Instruction), an.BoolEdges(g, gf, true), an.BoolIs(gf, true)) {
						okOnly = false
					}
				}
			}
			if o, isF := fn.Object().(*types.Func); sites == 0 || !isF || o.Exported() {
				okOnly = false
			}
		}
		c.Check(okOnly, "O10", "R-DOM", name, "ClearPeerWantlist<=m.Full()", fn.Pos(),
			"the recorded want-list is cleared only for an authoritative (full) want-list",
			"the peer's recorded want-list is cleared without (or regardless of) m.Full() being true: a patch message wipes wants the peer still has (they are never answered)")
		blocked := map[ssa.Instruction]bool{}
		for _, cl := range clears {
			blocked[cl] = true
		}
		w := &an.Walk{Fn: fn, Cut: an.BoolEdges(fn, fulls, false), Blocked: blocked, ValCut: an.BoolIs(fulls, false)}
		okBefore := true
		for _, r := range recordsIn(fn) {
			rr := r
			if len(fulls) > 0 && w.Reaches(nil, func(in ssa.Instruction) bool { return in == rr }) {
				okBefore = false
			}
			for _, cl := range clears {
				if an.Reaches(fn, rr, cl, nil, nil) {
					okBefore = false
				}
			}
		}
		c.Check(okBefore, "O10", "R-DOM", name, "Full=>Clear-before-recording", fn.Pos(),
			"for a full want-list the old list is cleared before the new wants are recorded",
			"for a full want-list the new wants can be recorded in the ledger before (or without) the old list being cleared: the clear then wipes the wants just received, or stale wants of the replaced list stay — the server answers CIDs the peer no longer wants and ignores ones it does")
	}
	c.Min("O10 clears of a peer's want-list in the engine", nClear, 1)

	// ---- (c) the exported intake: with a full message no normal return is reached before the clear ran
	entry := p.Func(c36Dec, "Engine", "MessageReceived")
	if !c.Need(entry != nil, "Engine.MessageReceived") {
		return
	}
	// settles(g): on every path of g from entry to a return on which the message may be full, the clear
	// has run (in g, or in a package-local callee that is handed the message and settles itself);
	// paths leaving on a failed call (error edge) or on m.Empty() are not counted
	memo := map[*ssa.Function]int{} // 1 yes, 2 no, 3 in progress
	var settles func(g *ssa.Function, depth int) bool
	settles = func(g *ssa.Function, depth int) bool {
		if v := memo[g]; v != 0 {
			return v == 1
		}
		memo[g] = 3
		fulls := fullsIn(g)
		cut := an.BoolEdges(g, fulls, false)
		var empties []ssa.Value
		for _, call := range an.AllCalls(g) {
			ci := an.Callee(call)
			if ci.Name == "Empty" && ci.Invoke && isMsg(an.Recv(call).Type()) {
				if cv := an.CallValue(call); cv != nil {
					empties = append(empties, cv)
				}
			}
			if errs := an.ErrResult(call); len(errs) > 0 {
				cut = cut.Union(an.NilEdges(g, errs, false))
			}
		}
		cut = cut.Union(an.BoolEdges(g, empties, true))
		// failure flags: a package-local helper whose last result is a bool that is false only where
		// one of its own fallible calls failed reports an error in disguise (`x, ok := e.lookup(..); if !ok {return}`)
		var okFlags []ssa.Value
		for _, call := range an.AllCalls(g) {
			h := an.Callee(call).Static
			if h == nil || h == g || h.Blocks == nil || h.Pkg != g.Pkg || an.CallValue(call) == nil {
				continue
			}
			res := h.Signature.Results()
			if res.Len() == 0 {
				continue
			}
			if b, ok := res.At(res.Len() - 1).Type().Underlying().(*types.Basic); !ok || b.Kind() != types.Bool {
				continue
			}
			herr := an.EdgeSet{}
			for _, hc := range an.AllCalls(h) {
				if errs := an.ErrResult(hc); len(errs) > 0 {
					herr = herr.Union(an.NilEdges(h, errs, false))
				}
			}
			if len(herr) == 0 {
				continue
			}
			isFlag, sawFalse := true, false
			for _, r := range an.Returns(h) {
				k, isK := an.ConstOf(r.Results[len(r.Results)-1])
				if !isK {
					isFlag = false
					continue
				}
				if k.String() == "false" {
					sawFalse = true
					if !an.GuardedBy(h, nil, r, herr) {
						isFlag = false
					}
				}
			}
			if isFlag && sawFalse {
				okFlags = append(okFlags, an.Result(call, res.Len()-1)...)
			}
		}
		cut = cut.Union(an.BoolEdges(g, okFlags, false))
		blocked := map[ssa.Instruction]bool{}
		for _, cl := range clearsIn(g) {
			blocked[cl] = true
		}
		if depth < 3 {
			for _, call := range an.AllCalls(g) {
				h := an.Callee(call).Static
				if h == nil || h == g || h.Blocks == nil || h.Pkg != g.Pkg {
					continue
				}
				if _, isCall := call.(*ssa.Call); !isCall {
					continue
				}
				passesMsg := false
				for _, a := range call.Common().Args {
					if isMsg(a.Type()) {
						passesMsg = true
					}
				}
				if passesMsg && settles(h, depth+1) {
					blocked[call.(ssa.Instruction)] = true
				}
			}
		}
		w := &an.Walk{Fn: g, Cut: cut, Blocked: blocked, ValCut: an.AnyCut(an.BoolIs(fulls, false), an.BoolIs(empties, true), an.BoolIs(okFlags, false))}
		ok := len(blocked) > 0 && !w.ReachesReturn(nil)
		if ok {
			memo[g] = 1
		} else {
			memo[g] = 2
		}
		return ok
	}
	c.Check(settles(entry, 0), "O10", "R-POST", an.FuncName(entry), "full-message=>clear-before-every-return", entry.Pos(),
		"with a full want-list, every normal return of the intake is reached only after the recorded list was cleared",
		"Engine.MessageReceived can return normally (not on a failed call, not for an empty message) on a path where m.Full() may be true and the peer's recorded want-list has not been cleared — e.g. an early \"nothing to do\" return placed before the Full test: a full want-list made only of ignored entries no longer replaces the previous one, the server keeps answering wants the peer withdrew")
}

// ---------------------------------------------------------------------------
// interprocedural provenance inside package decision

type c36Inter struct {
	fns []*ssa.Function
}

func (it *c36Inter) callSites(g *ssa.Function) []ssa.CallInstruction {
	var out []ssa.CallInstruction
	for _, f := range it.fns {
		for _, call := range an.AllCalls(f) {
			if an.Callee(call).Static == g {
				out = append(out, call)
			}
		}
	}
	return out
}

func (it *c36Inter) local(g *ssa.Function) bool {
	return g != nil && g.Blocks != nil && g.Pkg != nil && g.Pkg.Pkg.Path() == an.Mod+"/"+c36Dec
}

// all: every producer v can come from satisfies pred, looking through the
// parameters of unexported helpers (all call sites) and through the results of
// package-local callees (all returns).
func (it *c36Inter) all(v ssa.Value, pred func(ssa.Value) bool, depth int) bool {
	rs := an.Roots(v, nil)
	if len(rs) == 0 {
		return false
	}
	for _, r := range rs {
		if pred(r) {
			continue
		}
		if depth >= 4 {
			return false
		}
		switch x := r.(type) {
		case *ssa.Parameter:
			g := x.Parent()
			if g.Parent() != nil || !it.local(g) {
				return false
			}
			if o, ok := g.Object().(*types.Func); !ok || o.Exported() {
				return false
			}
			idx := -1
			for i, q := range g.Params {
				if q == x {
					idx = i
				}
			}
			sites := it.callSites(g)
			if idx < 0 || len(sites) == 0 {
				return false
			}
			for _, cs := range sites {
				if idx >= len(cs.Common().Args) || !it.all(cs.Common().Args[idx], pred, depth+1) {
					return false
				}
			}
		case *ssa.Extract, *ssa.Call:
			idx := 0
			var call *ssa.Call
			if e, ok := x.(*ssa.Extract); ok {
				call, _ = e.Tuple.(*ssa.Call)
				idx = e.Index
			} else {
				call = x.(*ssa.Call)
			}
			if call == nil {
				return false
			}
			g := an.Callee(call).Static
			if !it.local(g) {
				return false
			}
			for _, ret := range an.Returns(g) {
				if idx >= len(ret.Results) || !it.all(ret.Results[idx], pred, depth+1) {
					return false
				}
			}
		default:
			return false
		}
	}
	return true
}

// chain walks a slice value backwards through phis, re-slicing, append(arg0),
// local cells, helper parameters (call-site arguments) and helper results, and
// reports every append it meets.
func (it *c36Inter) chain(v ssa.Value, out func(*ssa.Call)) {
	seen := map[ssa.Value]bool{}
	var walk func(v ssa.Value, depth int)
	walk = func(v ssa.Value, depth int) {
		if v == nil || seen[v] || depth > 5 {
			return
		}
		seen[v] = true
		switch x := v.(type) {
		case *ssa.Phi:
			for _, e := range x.Edges {
				walk(e, depth)
			}
		case *ssa.Slice:
			walk(x.X, depth)
		case *ssa.Extract:
			if call, ok := x.Tuple.(*ssa.Call); ok {
				if g := an.Callee(call).Static; it.local(g) {
					for _, ret := range an.Returns(g) {
						if x.Index < len(ret.Results) {
							walk(ret.Results[x.Index], depth+1)
						}
					}
				}
			}
		case *ssa.Call:
			if bi, ok := x.Call.Value.(*ssa.Builtin); ok && bi.Name() == "append" {
				out(x)
				walk(x.Call.Args[0], depth)
				return
			}
			if g := an.Callee(x).Static; it.local(g) {
				for _, ret := range an.Returns(g) {
					if len(ret.Results) > 0 {
						walk(ret.Results[0], depth+1)
					}
				}
			}
		case *ssa.Parameter:
			g := x.Parent()
			if g.Parent() != nil || !it.local(g) {
				return
			}
			for i, q := range g.Params {
				if q != x {
					continue
				}
				for _, cs := range it.callSites(g) {
					if i < len(cs.Common().Args) {
						walk(cs.Common().Args[i], depth+1)
					}
				}
			}
		case *ssa.UnOp:
			if x.Op == token.MUL {
				if cell := an.CellOf(x.X); cell != nil {
					for _, r := range *cell.Referrers() {
						if st, ok := r.(*ssa.Store); ok && st.Addr == ssa.Value(cell) {
							walk(st.Val, depth)
						}
					}
				}
			}
		}
	}
	walk(v, 0)
}

// runC36Overflow — O1 (eviction order) and O8b/O8c, over the function that
// resolves a want-list overflow and the package-local helpers it is split into.
func runC36Overflow(c *an.Ctx, fns []*ssa.Function) {
	p := c.P
	it := &c36Inter{fns: fns}
	mCancelWant := c36R.L("CancelWant")
	mWants := c36R.L("Wants")
	mWantlistForPeer := c36R.L("WantlistForPeer")
	mGetBlockSizes := an.M(c36Dec, c36R.bsmName, c36R.nGetBlockSizes)
	res0 := func(v ssa.Value, m an.Matcher) bool {
		if _, ok := an.IsCallTo(v, m); !ok {
			return false
		}
		if e, ok := v.(*ssa.Extract); ok {
			return e.Index == 0
		}
		return true
	}
	isCand := func(v ssa.Value) bool {
		return it.all(v, func(r ssa.Value) bool { return res0(r, mWantlistForPeer) }, 0)
	}
	// the overflow function: sorts a slice of existing wants obtained from the ledger
	ho := p.Func(c36Dec, "Engine", "handleOverflow")
	if ho == nil {
		for _, fn := range fns {
			if len(an.Calls(fn, mWantlistForPeer)) > 0 && len(an.Calls(fn, an.M("slices", "", "SortFunc"), an.M("slices", "", "SortStableFunc"))) > 0 {
				ho = fn
			}
		}
	}
	if !c.Need(ho != nil, "the overflow handler (Engine.handleOverflow, or the function sorting peerLedger.WantlistForPeer)") {
		return
	}
	hs := c34Closure(ho)
	inHS := map[*ssa.Function]bool{}
	for _, f := range hs {
		inHS[f] = true
	}
	name := an.FuncName(ho)
	foundVals := func(lk *ssa.Lookup) []ssa.Value {
		var out []ssa.Value
		if lk.CommaOk {
			for _, r := range *lk.Referrers() {
				if e, ok := r.(*ssa.Extract); ok && e.Index == 1 {
					out = append(out, e)
				}
			}
		}
		return out
	}

	// ---- sorts
	var newRoot *ssa.Parameter
	nSort, candOrient, newOrient := 0, 0, 0
	for _, fn := range hs {
		for _, call := range an.Calls(fn, an.M("slices", "", "SortFunc"), an.M("slices", "", "SortStableFunc")) {
			args := call.Common().Args
			if len(args) != 2 {
				continue
			}
			var cmpFn *ssa.Function
			switch f := args[1].(type) {
			case *ssa.Function:
				cmpFn = f
			case *ssa.MakeClosure:
				cmpFn, _ = f.Fn.(*ssa.Function)
			}
			o := c36CmpOrientation(cmpFn)
			if isCand(args[0]) {
				nSort++
				if o == 0 {
					c.Problem("undecided: C36 O1 comparator of the eviction-candidate sort in %s is not cmp.Compare over the two Priority fields", an.FuncName(fn))
				}
				candOrient = o
				continue
			}
			if par, ok := args[0].(*ssa.Parameter); ok && strings.Contains(par.Type().String(), "bitswap/message.Entry") {
				nSort++
				if o == 0 {
					c.Problem("undecided: C36 O1 comparator of the overflow sort in %s is not cmp.Compare over the two Priority fields", an.FuncName(fn))
				}
				newOrient, newRoot = o, par
			}
		}
	}
	c.Min("O1 priority sorts in the overflow handler (candidates, newcomers)", nSort, 2)
	if newRoot == nil {
		return
	}
	isNew := func(v ssa.Value) bool {
		return it.all(v, func(r ssa.Value) bool { return r == ssa.Value(newRoot) }, 0)
	}
	// any other reordering of the two slices is not modelled
	for _, fn := range hs {
		for _, call := range an.AllCalls(fn) {
			ci := an.Callee(call)
			if ci.Builtin != "" || (ci.Pkg == "slices" && (ci.Name == "SortFunc" || ci.Name == "SortStableFunc")) {
				continue
			}
			if ci.Pkg != "slices" && ci.Pkg != "sort" {
				continue
			}
			for _, a := range call.Common().Args {
				if _, isSlice := a.Type().Underlying().(*types.Slice); isSlice && (isCand(a) || isNew(a)) {
					c.Problem("undecided: C36 O1 %s passes an eviction-order slice to %s, whose effect on the order is not modelled", an.FuncName(fn), ci.String())
				}
			}
		}
	}

	// ---- scan directions
	candDir, newDir, nIdx, dirOK := 0, 0, 0, true
	conflict := ""
	for _, fn := range hs {
		an.Instrs(fn, func(in ssa.Instruction) {
			ia, ok := in.(*ssa.IndexAddr)
			if !ok {
				return
			}
			if _, isSlice := ia.X.Type().Underlying().(*types.Slice); !isSlice {
				return
			}
			d := c36IndexDir(ia.Index)
			switch {
			case isCand(ia.X):
				nIdx++
				if d != 0 && candDir != 0 && candDir != d {
					conflict = "the peer's existing wants"
				}
				if d == 0 || (candDir != 0 && candDir != d) {
					dirOK = false
				}
				candDir = d
			case strings.Contains(ia.X.Type().String(), "bitswap/message.Entry") && isNew(ia.X):
				nIdx++
				if d != 0 && newDir != 0 && newDir != d {
					conflict = "the overflowing newcomers"
				}
				if d == 0 || (newDir != 0 && newDir != d) {
					dirOK = false
				}
				newDir = d
			}
		})
	}
	c.Min("O1 indexed accesses to candidates/newcomers in the overflow handler", nIdx, 4)
	if conflict != "" {
		c.Bad("O1", "R-SIB", name, "one-scan-direction-per-list", ho.Pos(),
			"the overflow handler takes "+conflict+" from the front at one site and from the back at another: with a single sort order one of the two sites picks the wrong end (least important newcomer admitted, or most important existing want evicted)")
	} else if !dirOK {
		c.Problem("undecided: C36 O1 cannot classify the scan direction of an index into the candidate/overflow slices in %s", name)
	} else if candOrient != 0 && newOrient != 0 {
		c.Check(candOrient*candDir > 0, "O1", "R-SIB", name, "candidates-least-important-first", ho.Pos(),
			"eviction candidates are visited in ascending priority",
			"eviction candidates are sorted "+c36Word(candOrient)+" by priority and scanned "+c36Dir(candDir)+", i.e. most important first: a newcomer is compared with (and may evict) the peer's most important want while low-priority wants stay; a mid-priority newcomer is dropped although a lower-priority want could make room")
		c.Check(newOrient*newDir < 0, "O1", "R-SIB", name, "newcomers-most-important-first", ho.Pos(),
			"overflow entries are served in descending priority",
			"overflow entries are sorted "+c36Word(newOrient)+" by priority and consumed "+c36Dir(newDir)+", i.e. least important first: the scarce room is given to the least important newcomers")
	}

	// ---- eviction guards
	nEv := 0
	for _, fn := range hs {
		fname := an.FuncName(fn)
		for _, cw := range an.Calls(fn, mCancelWant) {
			ia := c36ElemOf(an.Args(cw)[1])
			if ia == nil || !isCand(ia.X) {
				continue
			}
			nEv++
			var missVals []ssa.Value
			an.Instrs(fn, func(in ssa.Instruction) {
				lk, ok := in.(*ssa.Lookup)
				if !ok || !lk.CommaOk {
					return
				}
				if !it.all(lk.X, func(r ssa.Value) bool { return res0(r, mGetBlockSizes) }, 0) {
					return
				}
				if e2 := c36ElemOf(lk.Index); e2 != nil && e2.X == ia.X && c36SameExpr(e2.Index, ia.Index) {
					missVals = append(missVals, foundVals(lk)...)
				}
			})
			edges := an.BoolEdges(fn, missVals, false)
			prio := an.CondEdges(fn, func(atom ssa.Value) (bool, bool) {
				b, ok := atom.(*ssa.BinOp)
				if !ok {
					return false, false
				}
				side := func(v ssa.Value) int { // 1 newcomer, 2 this candidate
					u, ok := v.(*ssa.UnOp)
					if !ok || u.Op != token.MUL {
						return 0
					}
					fa, ok := u.X.(*ssa.FieldAddr)
					if !ok {
						return 0
					}
					if f, _ := an.FieldOf(fa); f == nil || f.Name() != "Priority" {
						return 0
					}
					e2 := c36ElemOf(v)
					if e2 == nil {
						return 0
					}
					if e2.X == ia.X && c36SameExpr(e2.Index, ia.Index) {
						return 2
					}
					if isNew(e2.X) {
						return 1
					}
					return 0
				}
				sx, sy := side(b.X), side(b.Y)
				op := b.Op
				if sx == 2 && sy == 1 {
					sx, sy = 1, 2
					switch op {
					case token.LSS:
						op = token.GTR
					case token.GTR:
						op = token.LSS
					case token.LEQ:
						op = token.GEQ
					case token.GEQ:
						op = token.LEQ
					}
				}
				if sx != 1 || sy != 2 {
					return false, false
				}
				switch op {
				case token.LSS, token.LEQ:
					return false, true
				case token.GEQ, token.GTR:
					return true, false
				}
				return false, false
			})
			ok := an.GuardedByVal(fn, cw.(ssa.Instruction), edges.Union(prio), an.BoolIs(missVals, false))
			c.Check(ok, "O1", "R-CMP", fname, "CancelWant(candidate)<=absent|new>=cand", cw.Pos(),
				"an existing want is evicted only where its block is absent or the newcomer's priority is not lower",
				"an existing want can be cancelled in favour of an overflow entry on a path where neither its block is absent nor the newcomer's priority is known to be >= the candidate's: lower-priority newcomers evict more important wants (or the comparison is inverted)")
		}
	}
	c.Min("O1 evictions (CancelWant of a candidate) in the overflow handler", nEv, 2)

	// ---- O8b newcomers appended to the accepted wants
	var appends []*ssa.Call
	seenAp := map[*ssa.Call]bool{}
	for _, r := range an.Returns(ho) {
		it.chain(r.Results[0], func(a *ssa.Call) {
			if !seenAp[a] && inHS[a.Parent()] {
				seenAp[a] = true
				appends = append(appends, a)
			}
		})
	}
	nAp := 0
	for _, ap := range appends {
		fn := ap.Parent()
		fname := an.FuncName(fn)
		elems := c37Varargs(ap.Call.Args[1])
		if len(elems) != 1 {
			c.Note("C36 O8: %s appends a whole slice to the accepted wants (not decided)", fname)
			continue
		}
		cell := c36Cell(elems[0])
		nAp++
		var asked []ssa.Instruction
		for _, w := range an.Calls(fn, mWants) {
			if c2 := c36Cell(an.Args(w)[1]); cell != nil && c2 == cell && an.Dominates(w.(ssa.Instruction), ap) {
				asked = append(asked, w.(ssa.Instruction))
			}
		}
		ia := c36ElemOf(elems[0])
		okNew := ia != nil && strings.Contains(ia.X.Type().String(), "bitswap/message.Entry") && isNew(ia.X)
		c.Check(okNew && len(asked) > 0, "O8", "R-PAIR", fname, "append(wants,newcomer)<=peerLedger.Wants(newcomer)", ap.Pos(),
			"a newcomer is queued only after it was recorded in the ledger",
			"the overflow handler appends an entry to the accepted wants that was not handed to peerLedger.Wants before (not the same entry, or no ledger call at all): a task is queued for a CID that is not on the peer's want-list (no cancel/MessageSent bookkeeping, limit bypassed)")
		okRoom := false
		for _, w := range asked {
			for _, cw := range an.Calls(fn, mCancelWant) {
				if ia2 := c36ElemOf(an.Args(cw)[1]); ia2 != nil && isCand(ia2.X) && an.Dominates(cw.(ssa.Instruction), w) {
					okRoom = true
				}
			}
		}
		c.Check(okRoom, "O8", "R-PAIR", fname, "peerLedger.Wants(newcomer)<=CancelWant(candidate)", ap.Pos(),
			"each admitted newcomer is preceded by the eviction of an existing want",
			"the overflow handler records/queues a newcomer without evicting an existing want first: the ledger is full, so Wants refuses the newcomer and it is queued although it is not on the want-list")
	}
	c.Min("O8 newcomers appended to the accepted wants in the overflow handler", nAp, 2)

	// ---- O8c cursor over candidates vs. list of evicted indices
	var recApp []*ssa.Call
	evIdx := map[ssa.Value]bool{}
	for _, fn := range hs {
		for _, ap := range an.Calls(fn, an.M("builtin", "", "append")) {
			call := ap.(*ssa.Call)
			for _, e := range c37Varargs(call.Call.Args[1]) {
				isIdx := false
				an.Instrs(fn, func(in ssa.Instruction) {
					if ia, ok := in.(*ssa.IndexAddr); ok && ia.Index == e && isCand(ia.X) {
						isIdx = true
					}
				})
				if isIdx {
					evIdx[e] = true
					recApp = append(recApp, call)
				}
			}
		}
	}
	if len(recApp) == 0 {
		c.Note("C36 O8: the overflow handler does not record evicted candidate indices in a list; the cursor/evicted-list rule does not apply")
		return
	}
	inRemovedWeb := func(v ssa.Value) bool {
		found := false
		it.chain(v, func(a *ssa.Call) {
			for _, r := range recApp {
				if r == a {
					found = true
				}
			}
		})
		return found
	}
	nCur := 0
	for _, fn := range hs {
		fname := an.FuncName(fn)
		headOf := func(v ssa.Value) ssa.Value {
			u, ok := v.(*ssa.UnOp)
			if !ok || u.Op != token.MUL {
				return nil
			}
			ia, ok := u.X.(*ssa.IndexAddr)
			if !ok {
				return nil
			}
			if k, ok := an.ConstOf(ia.Index); !ok || k.Kind() != constant.Int || constant.Sign(k) != 0 {
				return nil
			}
			if !inRemovedWeb(ia.X) {
				return nil
			}
			return ia.X
		}
		an.Instrs(fn, func(in ssa.Instruction) {
			use, ok := in.(*ssa.IndexAddr)
			if !ok || evIdx[use.Index] {
				return
			}
			if _, isSlice := use.X.Type().Underlying().(*types.Slice); !isSlice || !isCand(use.X) {
				return
			}
			selects := false
			for _, cw := range an.Calls(fn, mCancelWant) {
				if ia := c36ElemOf(an.Args(cw)[1]); ia != nil && ia.X == use.X && ia.Index == use.Index {
					selects = true
				}
			}
			if !selects {
				return
			}
			nCur++
			cur := use.Index
			var lists []ssa.Value
			notHead := an.CondEdges(fn, func(atom ssa.Value) (bool, bool) {
				b, ok := atom.(*ssa.BinOp)
				if !ok || (b.Op != token.EQL && b.Op != token.NEQ) {
					return false, false
				}
				var r ssa.Value
				switch {
				case b.X == cur:
					r = headOf(b.Y)
				case b.Y == cur:
					r = headOf(b.X)
				}
				if r == nil {
					return false, false
				}
				lists = append(lists, r)
				if b.Op == token.EQL {
					return false, true
				}
				return true, false
			})
			if len(notHead) == 0 {
				c.Bad("O8", "R-PROG", fname, "cursor-vs-evicted-head", use.Pos(),
					"existingWants[cursor] is used although this value of the cursor was never compared with the head of the list of already evicted slots (the skip is missing, or it is an `if` that advances the cursor once and does not re-test): with two adjacent evicted slots the cursor lands on a want that was already cancelled, nothing is evicted, the ledger refuses the newcomer and it is queued anyway — a block is sent for a CID that is not on the peer's want-list")
				return
			}
			empty := an.CondEdges(fn, func(atom ssa.Value) (bool, bool) {
				b, ok := atom.(*ssa.BinOp)
				if !ok {
					return false, false
				}
				lc, ok := b.X.(*ssa.Call)
				if !ok {
					return false, false
				}
				if bi, ok := lc.Call.Value.(*ssa.Builtin); !ok || bi.Name() != "len" || !inRemovedWeb(lc.Call.Args[0]) {
					return false, false
				}
				k, isK := an.ConstOf(b.Y)
				if !isK || k.Kind() != constant.Int {
					return false, false
				}
				kv, _ := constant.Int64Val(k)
				switch {
				case kv == 0 && (b.Op == token.EQL || b.Op == token.LEQ), kv == 1 && b.Op == token.LSS:
					return true, false
				case kv == 0 && (b.Op == token.NEQ || b.Op == token.GTR), kv == 1 && b.Op == token.GEQ:
					return false, true
				}
				return false, false
			})
			c.Check(an.GuardedBy(fn, nil, use, notHead.Union(empty)), "O8", "R-PROG", fname, "cursor-vs-evicted-head", use.Pos(),
				"the candidate under the cursor is used only where the cursor is not the next evicted slot (or none remain)",
				"existingWants[cursor] is reachable on a path where the cursor may equal the next already-evicted slot: an already cancelled want is 'evicted' again, no room is made and the newcomer is queued although the ledger refused it")
			isHead := an.CondEdges(fn, func(atom ssa.Value) (bool, bool) {
				b, ok := atom.(*ssa.BinOp)
				if !ok || (b.Op != token.EQL && b.Op != token.NEQ) {
					return false, false
				}
				if !((b.X == cur && headOf(b.Y) != nil) || (b.Y == cur && headOf(b.X) != nil)) {
					return false, false
				}
				if b.Op == token.EQL {
					return true, false
				}
				return false, true
			})
			advances := func(phiV ssa.Value, isStep func(ssa.Value) bool) bool {
				ph, ok := phiV.(*ssa.Phi)
				if !ok {
					return false
				}
				for i, e := range ph.Edges {
					if !isStep(e) {
						continue
					}
					pred := ph.Block().Preds[i]
					if an.GuardedBy(fn, nil, pred.Instrs[len(pred.Instrs)-1], isHead) {
						return true
					}
				}
				return false
			}
			okCur := advances(cur, func(e ssa.Value) bool {
				b, ok := e.(*ssa.BinOp)
				if !ok || b.Op != token.ADD || b.X != cur {
					return false
				}
				k, ok := an.ConstOf(b.Y)
				return ok && k.String() == "1"
			})
			okList := false
			for _, l := range lists {
				if advances(l, func(e ssa.Value) bool {
					sl, ok := e.(*ssa.Slice)
					if !ok || sl.X != l || sl.Low == nil {
						return false
					}
					k, ok := an.ConstOf(sl.Low)
					return ok && k.String() == "1"
				}) {
					okList = true
				}
			}
			c.Check(okCur && okList, "O8", "R-PROG", fname, "cursor-and-evicted-list-advance-together", use.Pos(),
				"on the equal edge the cursor is incremented and the evicted-index list is popped before the test is repeated",
				"where the cursor equals the head of the evicted-index list, the cursor and the list are not both advanced (cursor+1, list[1:]) before the comparison is repeated: after the first skipped slot the comparison uses a stale head and later evicted slots are not skipped")
		})
	}
	c.Min("O8 cursor uses of the candidate list in the overflow handler", nCur, 1)
}
