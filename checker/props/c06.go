package props

import (
	"fmt"
	"go/ast"
	"go/constant"
	"go/token"
	"go/types"
	"math/big"
	"sort"
	"strings"

	"golang.org/x/tools/go/ssa"

	"verif/checker/an"
)

func init() {
	register("C06", Prop{
		Pkgs: []string{"./chunker"},
		Explain: "Decided (structural necessary conditions of 'bounded, non-empty, fragmentation-independent chunks'): " +
			"O1 in every parser registered through Register(...) each integer obtained from strconv.Atoi that reaches a splitter constructor is proven, by the comparisons that dominate the constructor call (interval reasoning over the guards, including chains min<avg<max), to be >= 1 and <= ChunkSizeLimit, and the values the constructors derive from it for the Rabin library (min = avg/3, max = avg+avg/2, followed through NewRabin/NewRabinMinMax into chunker.New) are >= the library window size resp. <= ChunkSizeLimit; " +
			"O2 constant facts: ChunkSizeLimit = BlockSizeLimit-ChunkOverheadBudget in (0,BlockSizeLimit), 32 <= buzMin < buzMax <= ChunkSizeLimit, the Buzhash buffer is allocated with buzMax, DefaultBlockSize initialiser (and, thorough tier, every constant stored into it) in [1,ChunkSizeLimit]; " +
			"O3 in-repo splitters read their source only through io.ReadFull (boundaries independent of read fragmentation); " +
			"O4 a success return on the short-read path is reached only where the read error is io.ErrUnexpectedEOF (n>0 by io.ReadFull's contract) or where the buffered byte count was tested non-zero (no empty chunk); " +
			"O5 Buzhash carry-over: the bytes kept for the next call start at the very index where the returned chunk ends, and end at the number of buffered bytes. " +
			"O6 a splitter reading into a fresh buffer allocates it with its size field (= constructor argument), returns that buffer after a complete read and shrink(buffer, n) with the count of the same read after a short one, and the shrink helper returns buf[:n] or an n-byte copy. " +
			"NOT decided: losslessness and determinism as such, Rabin/Buzhash boundary positions, the Rabin library internals, values of the mutable global DefaultBlockSize set by callers at run time, float32 rounding in the rabin-N guard (exact below 2^24).",
		Assume:    []string{"io.ReadFull returns io.ErrUnexpectedEOF only with n>0 and io.EOF only with n==0", "github.com/whyrusleeping/chunker honours MinSize/MaxSize when MinSize >= its window size", "strconv.Atoi results are used as mathematical integers (no overflow below ChunkSizeLimit)"},
		Technique: "interval analysis over dominating guard edges with inter-procedural requirement summaries (R-TAINT), constant relations from go/types (R-CONST), callee identity (R-API), edge dominance (R-DOM), value identity (R-FLOW)",
		Run:       runC06,
	})
}

const c06RabinLib = "github.com/whyrusleeping/chunker"

// c06Term is the value floor(C*root + D) (C > 0), or the constant D when Root == nil.
type c06Term struct {
	Root    ssa.Value
	C, D    *big.Rat
	Floored bool // a truncation of a non-integer quantity has happened
}

func c06Rat(n int64) *big.Rat { return new(big.Rat).SetInt64(n) }

func c06IsInt(t types.Type) bool {
	b, ok := t.Underlying().(*types.Basic)
	return ok && b.Info()&types.IsInteger != 0
}

func c06ConstRat(v ssa.Value) (*big.Rat, bool) {
	k, ok := an.ConstOf(v)
	if !ok {
		return nil, false
	}
	switch k.Kind() {
	case constant.Int:
		if i, ok := constant.Int64Val(k); ok {
			return c06Rat(i), true
		}
	case constant.Float:
		r := new(big.Rat)
		if _, ok := r.SetString(k.ExactString()); ok {
			return r, true
		}
	}
	return nil, false
}

// c06Lin expresses v as an affine function of one root (an Atoi result or a
// parameter) when it is built only from conversions, +,-,*,/ with constants
// and sums of such terms over the same root.
func c06Lin(v ssa.Value, isRoot func(ssa.Value) bool) (c06Term, bool) {
	if isRoot(v) {
		return c06Term{Root: v, C: c06Rat(1), D: c06Rat(0)}, true
	}
	if r, ok := c06ConstRat(v); ok {
		return c06Term{D: r}, true
	}
	settle := func(t c06Term, typ types.Type) c06Term {
		if c06IsInt(typ) && t.Root != nil && (!t.C.IsInt() || !t.D.IsInt()) {
			t.Floored = true
		}
		return t
	}
	switch x := v.(type) {
	case *ssa.Convert:
		t, ok := c06Lin(x.X, isRoot)
		if !ok {
			return t, false
		}
		return settle(t, x.Type()), true
	case *ssa.ChangeType:
		return c06Lin(x.X, isRoot)
	case *ssa.UnOp:
		if x.Op == token.MUL {
			if a, ok := x.X.(*ssa.Alloc); ok {
				var only *ssa.Store
				n := 0
				for _, r := range *a.Referrers() {
					if st, ok := r.(*ssa.Store); ok && st.Addr == a {
						only = st
						n++
					}
				}
				if n == 1 {
					return c06Lin(only.Val, isRoot)
				}
			}
		}
	case *ssa.BinOp:
		a, okA := c06Lin(x.X, isRoot)
		b, okB := c06Lin(x.Y, isRoot)
		if !okA || !okB {
			return c06Term{}, false
		}
		switch x.Op {
		case token.ADD, token.SUB:
			sign := c06Rat(1)
			if x.Op == token.SUB {
				sign = c06Rat(-1)
			}
			switch {
			case a.Root == nil && b.Root == nil:
				return c06Term{D: new(big.Rat).Add(a.D, new(big.Rat).Mul(sign, b.D))}, true
			case b.Root == nil:
				if !b.D.IsInt() && c06IsInt(x.Type()) {
					return c06Term{}, false
				}
				return settle(c06Term{Root: a.Root, C: a.C, D: new(big.Rat).Add(a.D, new(big.Rat).Mul(sign, b.D)), Floored: a.Floored}, x.Type()), true
			case a.Root == nil:
				if x.Op == token.SUB {
					return c06Term{}, false // decreasing in the root
				}
				return settle(c06Term{Root: b.Root, C: b.C, D: new(big.Rat).Add(a.D, b.D), Floored: b.Floored}, x.Type()), true
			default:
				if a.Root != b.Root || x.Op == token.SUB || (a.Floored && b.Floored) {
					return c06Term{}, false
				}
				return settle(c06Term{Root: a.Root, C: new(big.Rat).Add(a.C, b.C), D: new(big.Rat).Add(a.D, b.D), Floored: a.Floored || b.Floored}, x.Type()), true
			}
		case token.MUL:
			if a.Root != nil && b.Root != nil {
				return c06Term{}, false
			}
			if a.Root == nil && b.Root == nil {
				return c06Term{D: new(big.Rat).Mul(a.D, b.D)}, true
			}
			t, k := a, b.D
			if a.Root == nil {
				t, k = b, a.D
			}
			if t.Floored || k.Sign() <= 0 {
				return c06Term{}, false
			}
			return settle(c06Term{Root: t.Root, C: new(big.Rat).Mul(t.C, k), D: new(big.Rat).Mul(t.D, k)}, x.Type()), true
		case token.QUO:
			if b.Root != nil || b.D.Sign() <= 0 {
				return c06Term{}, false
			}
			if a.Root == nil {
				q := new(big.Rat).Quo(a.D, b.D)
				if c06IsInt(x.Type()) {
					q = new(big.Rat).SetInt(c06Floor(q))
				}
				return c06Term{D: q}, true
			}
			if c06IsInt(x.Type()) && !b.D.IsInt() {
				return c06Term{}, false
			}
			// floor(floor(y)/k) == floor(y/k) for a positive integer k
			return settle(c06Term{Root: a.Root, C: new(big.Rat).Quo(a.C, b.D), D: new(big.Rat).Quo(a.D, b.D), Floored: a.Floored}, x.Type()), true
		}
	}
	return c06Term{}, false
}

func c06Floor(r *big.Rat) *big.Int {
	q := new(big.Int)
	m := new(big.Int)
	q.DivMod(r.Num(), r.Denom(), m) // Euclidean: floor for positive denominators
	return q
}

func c06Ceil(r *big.Rat) *big.Int {
	f := c06Floor(r)
	if r.IsInt() {
		return f
	}
	return f.Add(f, big.NewInt(1))
}

// eval: floor(C*x + D)
func (t c06Term) eval(x *big.Int) *big.Int {
	r := new(big.Rat).Mul(t.C, new(big.Rat).SetInt(x))
	r.Add(r, t.D)
	return c06Floor(r)
}

func (t c06Term) String() string {
	if t.Root == nil {
		return t.D.RatString()
	}
	s := "x"
	if t.C.Cmp(c06Rat(1)) != 0 {
		s = t.C.RatString() + "*x"
	}
	if t.D.Sign() != 0 {
		s += "+" + t.D.RatString()
	}
	if t.Floored {
		s = "floor(" + s + ")"
	}
	return s
}

// c06Bounds: integer interval known for every root at a program point.
type c06Bounds struct {
	lo, hi map[ssa.Value]*big.Int
}

// c06Solve derives intervals for the roots from the relations that hold on
// edges every path to site must cross.
type c06Fact struct {
	a, b   c06Term
	strict bool // a < b, else a <= b
}

// c06FactsAt: ordering relations (as affine terms over roots) that hold on every path of fn to each of the sites.
func c06FactsAt(fn *ssa.Function, sites []ssa.Instruction, isRoot func(ssa.Value) bool) []c06Fact {
	var facts []c06Fact
	for e, r := range an.XBEdgeRels(fn) {
		if r.Op == token.EQL || r.Op == token.NEQ {
			continue
		}
		if an.XBInCycle(e.From) {
			continue // values may be redefined between the test and the use
		}
		all := len(sites) > 0
		for _, site := range sites {
			if !an.XBMustCross(fn, nil, site, e) {
				all = false
			}
		}
		if !all {
			continue
		}
		ta, okA := c06Lin(r.X, isRoot)
		tb, okB := c06Lin(r.Y, isRoot)
		if !okA || !okB || (ta.Root == nil && tb.Root == nil) {
			continue
		}
		switch r.Op {
		case token.LSS:
			facts = append(facts, c06Fact{ta, tb, true})
		case token.LEQ:
			facts = append(facts, c06Fact{ta, tb, false})
		case token.GTR:
			facts = append(facts, c06Fact{tb, ta, true})
		case token.GEQ:
			facts = append(facts, c06Fact{tb, ta, false})
		}
	}
	return facts
}

func c06LocalCallee(fn *ssa.Function, call ssa.CallInstruction) *ssa.Function {
	g := an.Callee(call).Static
	if g == nil || g == fn || g.Blocks == nil || g.Pkg == nil || fn.Pkg == nil || g.Pkg != fn.Pkg {
		return nil
	}
	return g
}

func c06SuccessReturns(g *ssa.Function) []*ssa.Return {
	var out []*ssa.Return
	for _, r := range an.Returns(g) {
		if n := len(r.Results); n > 0 && an.IsErrorType(r.Results[n-1].Type()) && an.IsNilConst(r.Results[n-1]) {
			out = append(out, r)
		}
	}
	return out
}

func c06Solve(fn *ssa.Function, site ssa.Instruction, isRoot func(ssa.Value) bool) c06Bounds {
	return c06SolveD(fn, site, isRoot, 0)
}

func c06SolveD(fn *ssa.Function, site ssa.Instruction, isRoot func(ssa.Value) bool, depth int) c06Bounds {
	b := c06Bounds{map[ssa.Value]*big.Int{}, map[ssa.Value]*big.Int{}}
	type fact = c06Fact
	facts := c06FactsAt(fn, []ssa.Instruction{site}, isRoot)
	if depth < 2 {
		for _, call := range an.AllCalls(fn) {
			g := c06LocalCallee(fn, call)
			if g == nil || !an.Dominates(call, site) {
				continue
			}
			succ := c06SuccessReturns(g)
			if len(succ) == 0 || !an.XBOnNilEdge(fn, call, site) {
				continue
			}
			// (a) a validating helper: what holds at all of its nil-error returns holds here for the arguments
			isPar := func(v ssa.Value) bool {
				par, ok := v.(*ssa.Parameter)
				return ok && par.Parent() == g && c06IsInt(par.Type())
			}
			var sites []ssa.Instruction
			for _, r := range succ {
				sites = append(sites, r)
			}
			args := call.Common().Args
			subst := func(t c06Term) (c06Term, bool) {
				if t.Root == nil {
					return t, true
				}
				par := t.Root.(*ssa.Parameter)
				for i, q := range g.Params {
					if q != par || i >= len(args) {
						continue
					}
					at, ok := c06Lin(args[i], isRoot)
					if !ok {
						return t, false
					}
					if at.Root == nil {
						// constant argument: evaluate
						v := new(big.Rat).Add(new(big.Rat).Mul(t.C, at.D), t.D)
						if t.Floored {
							v = new(big.Rat).SetInt(c06Floor(v))
						}
						return c06Term{D: v}, true
					}
					if at.C.Cmp(c06Rat(1)) != 0 || at.D.Sign() != 0 || at.Floored {
						return t, false
					}
					return c06Term{Root: at.Root, C: t.C, D: t.D, Floored: t.Floored}, true
				}
				return t, false
			}
			for _, f := range c06FactsAt(g, sites, isPar) {
				ta, okA := subst(f.a)
				tb, okB := subst(f.b)
				if okA && okB && !(ta.Root == nil && tb.Root == nil) {
					facts = append(facts, fact{ta, tb, f.strict})
				}
			}
			// (b) a parsing helper: bounds it establishes for the parsed integer it returns
			if g.Signature.Results().Len() == 2 && c06IsInt(g.Signature.Results().At(0).Type()) {
				for _, rv := range an.Result(call, 0) {
					if !isRoot(rv) {
						continue
					}
					var lo, hi *big.Int
					okLo, okHi := true, true
					for _, r := range succ {
						v := r.Results[0]
						var l, h *big.Int
						if k, isK := an.XBInt64(v); isK {
							l, h = big.NewInt(k), big.NewInt(k)
						} else if isRoot(v) {
							hb := c06SolveD(g, r, isRoot, depth+1)
							l, h = hb.lo[v], hb.hi[v]
						}
						if l == nil {
							okLo = false
						} else if lo == nil || l.Cmp(lo) < 0 {
							lo = l
						}
						if h == nil {
							okHi = false
						} else if hi == nil || h.Cmp(hi) > 0 {
							hi = h
						}
					}
					if okLo && lo != nil {
						b.lo[rv] = lo
					}
					if okHi && hi != nil {
						b.hi[rv] = hi
					}
				}
			}
		}
	}
	setLo := func(r ssa.Value, v *big.Int) bool {
		if cur, ok := b.lo[r]; !ok || cur.Cmp(v) < 0 {
			b.lo[r] = v
			return true
		}
		return false
	}
	setHi := func(r ssa.Value, v *big.Int) bool {
		if cur, ok := b.hi[r]; !ok || cur.Cmp(v) > 0 {
			b.hi[r] = v
			return true
		}
		return false
	}
	// t >= k  (k integer)
	geq := func(t c06Term, k *big.Int) bool {
		if t.Root == nil || t.C.Sign() <= 0 {
			return false
		}
		if t.Floored && k.Sign() <= 0 {
			return false // truncation toward zero: no information for non-positive bounds
		}
		// C*x + D >= k  =>  x >= (k-D)/C
		q := new(big.Rat).Sub(new(big.Rat).SetInt(k), t.D)
		q.Quo(q, t.C)
		return setLo(t.Root, c06Ceil(q))
	}
	// t <= k
	leq := func(t c06Term, k *big.Int) bool {
		if t.Root == nil || t.C.Sign() <= 0 || k.Sign() < 0 {
			return false
		}
		// floor(C*x + D) <= k  =>  C*x + D < k+1  =>  x < (k+1-D)/C
		q := new(big.Rat).Sub(new(big.Rat).SetInt(new(big.Int).Add(k, big.NewInt(1))), t.D)
		q.Quo(q, t.C)
		return setHi(t.Root, new(big.Int).Sub(c06Ceil(q), big.NewInt(1)))
	}
	one := big.NewInt(1)
	for round := 0; round < 16; round++ {
		changed := false
		for _, f := range facts {
			// lower value of a (as integer) gives a lower bound for b, upper value of b an upper bound for a
			var aLo, bHi *big.Int
			if f.a.Root == nil {
				if f.a.D.IsInt() {
					aLo = new(big.Int).Set(f.a.D.Num())
				} else {
					aLo = c06Ceil(f.a.D)
				}
			} else if l, ok := b.lo[f.a.Root]; ok {
				aLo = f.a.eval(l)
			}
			if f.b.Root == nil {
				bHi = c06Floor(f.b.D)
			} else if h, ok := b.hi[f.b.Root]; ok {
				bHi = f.b.eval(h)
			}
			if aLo != nil {
				k := new(big.Int).Set(aLo)
				if f.strict {
					k.Add(k, one)
				}
				if geq(f.b, k) {
					changed = true
				}
			}
			if bHi != nil {
				k := new(big.Int).Set(bHi)
				if f.strict {
					k.Sub(k, one)
				}
				if leq(f.a, k) {
					changed = true
				}
			}
		}
		if !changed {
			break
		}
	}
	return b
}

// c06Req: the quantity T(argument) must be >= K (Lower) or <= K.
type c06Req struct {
	T     c06Term // over the parameter
	Lower bool
	K     *big.Int
	Why   string
}

func runC06(c *an.Ctx) {
	p := c.P
	const ck = "chunker"
	pk := p.Pkg(ck)
	if !c.Need(pk != nil, "package chunker") {
		return
	}
	intConst := func(name string) (*big.Int, bool) {
		v, ok := p.XBConst(ck, name)
		if !ok || v.Kind() != constant.Int {
			return nil, false
		}
		i, ok := constant.Int64Val(v)
		return big.NewInt(i), ok
	}
	limit, ok1 := intConst("ChunkSizeLimit")
	blockLimit, ok2 := intConst("BlockSizeLimit")
	budget, ok3 := intConst("ChunkOverheadBudget")
	if !c.Need(ok1 && ok2 && ok3, "chunker constants ChunkSizeLimit, BlockSizeLimit, ChunkOverheadBudget") {
		return
	}
	// Buzhash parameters by role (the constants are unexported): the buffer size is the constant the []byte field of
	// Buzhash is allocated with; the minimum chunk size is the constant the buffered byte count (carried + read) is
	// compared with after a short read.
	var fBuzBuf, fBuzN *types.Var
	if bt := p.Named(ck, "Buzhash"); bt != nil {
		if st, ok := bt.Underlying().(*types.Struct); ok {
			for i := 0; i < st.NumFields(); i++ {
				f := st.Field(i)
				if sl, ok := f.Type().Underlying().(*types.Slice); ok {
					if b, ok := sl.Elem().Underlying().(*types.Basic); ok && b.Kind() == types.Uint8 {
						fBuzBuf = f
					}
				}
				if b, ok := f.Type().Underlying().(*types.Basic); ok && b.Kind() == types.Int {
					fBuzN = f
				}
			}
		}
	}
	_ = fBuzN
	var buzMin, buzMax *big.Int
	if fBuzBuf != nil {
		for _, fn := range p.PkgFuncs(ck) {
			for _, st := range an.FieldStores(fn, fBuzBuf) {
				var lenV ssa.Value
				if call, ok := an.IsCallTo(st.Val, an.M("github.com/libp2p/go-buffer-pool", "", "Get")); ok {
					lenV = call.Call.Args[0]
				} else if ms, ok := st.Val.(*ssa.MakeSlice); ok {
					lenV = ms.Len
				}
				if k, ok := an.XBInt64(lenV); ok && lenV != nil {
					if buzMax == nil || big.NewInt(k).Cmp(buzMax) > 0 {
						buzMax = big.NewInt(k)
					}
				}
			}
		}
		for _, fn := range p.Methods(ck, "Buzhash") {
			// any read from the source: a call with an io.Reader operand that returns (int, error)
			var reads []ssa.CallInstruction
			for _, call := range an.AllCalls(fn) {
				sig := call.Common().Signature()
				if sig == nil || sig.Results().Len() != 2 || !c06IsInt(sig.Results().At(0).Type()) || !an.IsErrorType(sig.Results().At(1).Type()) {
					continue
				}
				ops := append([]ssa.Value{}, call.Common().Args...)
				if call.Common().IsInvoke() {
					ops = append(ops, call.Common().Value)
				}
				for _, o := range ops {
					if an.TypeIs(o.Type(), "io", "Reader") {
						reads = append(reads, call)
						break
					}
				}
			}
			for _, rd := range reads {
				ns := an.Result(rd, 0)
				for _, r := range an.XBEdgeRels(fn) {
					k, isK := an.XBInt64(r.Y)
					b, isAdd := r.X.(*ssa.BinOp)
					if !isK || !isAdd || b.Op != token.ADD || (r.Op != token.LSS && r.Op != token.GEQ) {
						continue
					}
					for _, n := range ns {
						if b.X == n || b.Y == n {
							buzMin = big.NewInt(k)
						}
					}
				}
			}
		}
	}
	haveBuz := c.Need(buzMin != nil && buzMax != nil, "Buzhash parameters by role: constant buffer allocation of the []byte field and the minimum-chunk constant compared with carried+read")
	if !haveBuz {
		// keep the other obligations running with neutral values; the Buzhash constant facts are skipped
		buzMin, buzMax = big.NewInt(32), new(big.Int).Set(limit)
	}
	// window size of the Rabin library (unexported constant): scope lookup when
	// the dependency is loaded from source, else the length of Chunker.window.
	var window *big.Int
	if imp := pk.Imports[c06RabinLib]; imp != nil && imp.Types != nil {
		if k, ok := imp.Types.Scope().Lookup("windowSize").(*types.Const); ok {
			if i, ok := constant.Int64Val(k.Val()); ok {
				window = big.NewInt(i)
			}
		}
		if window == nil {
			if tn, ok := imp.Types.Scope().Lookup("Chunker").(*types.TypeName); ok {
				if st, ok := tn.Type().Underlying().(*types.Struct); ok {
					for i := 0; i < st.NumFields(); i++ {
						if st.Field(i).Name() == "window" {
							if arr, ok := st.Field(i).Type().Underlying().(*types.Array); ok {
								window = big.NewInt(arr.Len())
							}
						}
					}
				}
			}
		}
	}
	if !c.Need(window != nil, "window size of "+c06RabinLib+" (windowSize / Chunker.window)") {
		return
	}
	splitterT := p.Named(ck, "Splitter")
	if !c.Need(splitterT != nil, "chunker.Splitter") {
		return
	}
	splitterI, _ := splitterT.Underlying().(*types.Interface)
	fns := p.PkgFuncs(ck)

	// ---------------- O1: parser bounds
	isCtor := func(f *ssa.Function) bool {
		if f == nil || f.Pkg == nil || f.Pkg.Pkg != pk.Types || f.Signature.Recv() != nil {
			return false
		}
		res := f.Signature.Results()
		if res.Len() == 0 {
			return false
		}
		return types.AssignableTo(res.At(0).Type(), splitterT) || types.Implements(res.At(0).Type(), splitterI)
	}
	// requirement summaries per constructor parameter
	var reqsOf func(f *ssa.Function, idx int, depth int) []c06Req
	reqsOf = func(f *ssa.Function, idx int, depth int) []c06Req {
		par := f.Params[idx]
		self := c06Term{Root: par, C: c06Rat(1), D: c06Rat(0)}
		name := f.Name() + "(" + par.Name() + ")"
		out := []c06Req{
			{self, true, big.NewInt(1), name + " >= 1"},
			{self, false, limit, name + " <= ChunkSizeLimit"},
		}
		if depth > 4 {
			return out
		}
		isRoot := func(v ssa.Value) bool { return v == ssa.Value(par) }
		for _, call := range an.AllCalls(f) {
			ci := an.Callee(call)
			args := call.Common().Args
			for ai, a := range args {
				if !c06IsInt(a.Type()) {
					continue
				}
				t, ok := c06Lin(a, isRoot)
				if !ok || t.Root == nil {
					continue
				}
				if ci.Pkg == c06RabinLib && ci.Name == "New" && ci.Recv == "" && ci.Fn != nil {
					pn := ci.Fn.Type().(*types.Signature).Params().At(ai).Name()
					what := "chunker.New(" + pn + ")"
					switch pn {
					case "min":
						out = append(out, c06Req{t, true, window, what + " >= library window size " + window.String() + " (else MinSize-windowSize underflows and the whole stream becomes one chunk)"})
					case "max":
						out = append(out, c06Req{t, false, limit, what + " <= ChunkSizeLimit"})
					}
					out = append(out, c06Req{t, true, big.NewInt(1), what + " >= 1"})
					continue
				}
				if g := ci.Static; g != nil && isCtor(g) && g != f && ai < len(g.Params) {
					for _, r := range reqsOf(g, ai, depth+1) {
						// compose r.T (over g's parameter) with t (over f's parameter)
						var comp c06Term
						switch {
						case r.T.C.Cmp(c06Rat(1)) == 0 && r.T.D.Sign() == 0:
							comp = t
						case !t.Floored:
							comp = c06Term{Root: t.Root, C: new(big.Rat).Mul(r.T.C, t.C), D: new(big.Rat).Add(new(big.Rat).Mul(r.T.C, t.D), r.T.D), Floored: r.T.Floored || !(new(big.Rat).Mul(r.T.C, t.C)).IsInt()}
						default:
							c.Note("O1: requirement %s of %s not propagated through %s (nested truncation)", r.Why, an.FuncName(g), an.FuncName(f))
							continue
						}
						out = append(out, c06Req{comp, r.Lower, r.K, r.Why})
					}
				}
			}
		}
		return out
	}
	// family: functions registered through Register(...)
	var family []*ssa.Function
	seenFam := map[*ssa.Function]bool{}
	for _, fn := range fns {
		for _, call := range an.Calls(fn, an.M(ck, "", "Register")) {
			args := an.Args(call)
			if len(args) < 2 {
				continue
			}
			for _, r := range an.Roots(args[1], nil) {
				var g *ssa.Function
				switch x := r.(type) {
				case *ssa.Function:
					g = x
				case *ssa.MakeClosure:
					g, _ = x.Fn.(*ssa.Function)
				}
				if g != nil && g.Blocks != nil && !seenFam[g] {
					seenFam[g] = true
					family = append(family, g)
				}
			}
		}
	}
	c.Min("O1 parsers registered through Register", len(family), 1)
	var isAtoiD func(v ssa.Value, depth int) bool
	isAtoiD = func(v ssa.Value, depth int) bool {
		e, ok := v.(*ssa.Extract)
		if !ok || e.Index != 0 {
			return false
		}
		call, ok := e.Tuple.(*ssa.Call)
		if !ok {
			return false
		}
		ci := an.Callee(call)
		if ci.Pkg == "strconv" && (ci.Name == "Atoi" || ci.Name == "ParseInt" || ci.Name == "ParseUint") {
			return true
		}
		// a package-local helper that returns a parsed integer unchanged
		if g := ci.Static; g != nil && depth < 2 && g.Pkg != nil && g.Pkg.Pkg == pk.Types && g.Blocks != nil {
			some := false
			for _, r := range an.Returns(g) {
				if len(r.Results) == 0 {
					return false
				}
				for _, root := range an.Roots(r.Results[0], nil) {
					if isAtoiD(root, depth+1) {
						some = true
					} else if _, isK := root.(*ssa.Const); !isK {
						return false
					}
				}
			}
			return some
		}
		return false
	}
	isAtoi := func(v ssa.Value) bool { return isAtoiD(v, 0) }
	nO1 := 0
	for _, fam := range family {
		for _, fn := range an.WithClosures(fam) {
			for _, call := range an.AllCalls(fn) {
				g := an.Callee(call).Static
				if !isCtor(g) {
					continue
				}
				args := call.Common().Args
				var bounds *c06Bounds
				for ai, a := range args {
					if ai >= len(g.Params) || !c06IsInt(a.Type()) {
						continue
					}
					t, ok := c06Lin(a, isAtoi)
					if !ok {
						// an integer argument we cannot express: only a problem when it derives from Atoi
						for _, r := range an.Roots(an.XBStripConv(a), nil) {
							if isAtoi(r) {
								c.Problem("O1: argument %s of %s in %s derives from strconv.Atoi through an expression the interval rule does not understand", g.Params[ai].Name(), g.Name(), an.FuncName(fn))
							}
						}
						continue
					}
					if t.Root == nil {
						continue // constant / not parsed from the spec string
					}
					if bounds == nil {
						b := c06Solve(fn, call, isAtoi)
						bounds = &b
					}
					lo, hasLo := bounds.lo[t.Root]
					hi, hasHi := bounds.hi[t.Root]
					var badLo, badHi []string
					nLo, nHi := 0, 0
					for _, r := range reqsOf(g, ai, 0) {
						// requirement over g's parameter, argument is t(root)
						comp := t
						if !(r.T.C.Cmp(c06Rat(1)) == 0 && r.T.D.Sign() == 0) {
							if t.Floored {
								c.Note("O1: requirement %s not evaluated at %s (nested truncation)", r.Why, an.FuncName(fn))
								continue
							}
							cc := new(big.Rat).Mul(r.T.C, t.C)
							comp = c06Term{Root: t.Root, C: cc, D: new(big.Rat).Add(new(big.Rat).Mul(r.T.C, t.D), r.T.D), Floored: r.T.Floored || !cc.IsInt()}
						}
						if r.Lower {
							nLo++
							if !hasLo {
								if r.K.Cmp(big.NewInt(1)) > 0 || len(badLo) == 0 {
									badLo = append(badLo, "no lower bound is established at all; required: "+r.Why)
								}
							} else if got := comp.eval(lo); got.Cmp(r.K) < 0 {
								badLo = append(badLo, fmt.Sprintf("%s: guards only give parsed value >= %s, i.e. %s >= %s", r.Why, lo, comp, got))
							}
						} else {
							nHi++
							if !hasHi {
								if len(badHi) == 0 {
									badHi = append(badHi, "no upper bound is established at all; required: "+r.Why)
								}
							} else if got := comp.eval(hi); got.Cmp(r.K) > 0 {
								badHi = append(badHi, fmt.Sprintf("%s: guards only give parsed value <= %s, i.e. %s <= %s", r.Why, hi, comp, got))
							}
						}
					}
					nO1++
					pname := g.Name() + fmt.Sprintf("(arg%d)", ai) // positional: parameter names are local identifiers
					sort.Strings(badLo)
					sort.Strings(badHi)
					c.Check(len(badLo) == 0, "O1", "R-TAINT", an.FuncName(fn), pname+">=min", call.Pos(),
						fmt.Sprintf("%d lower-bound requirement(s) proven from the dominating guards (parsed value >= %v)", nLo, lo),
						"spec integer reaches "+pname+" without the required lower bound: "+strings.Join(badLo, "; "))
					c.Check(len(badHi) == 0, "O1", "R-TAINT", an.FuncName(fn), pname+"<=max", call.Pos(),
						fmt.Sprintf("%d upper-bound requirement(s) proven from the dominating guards (parsed value <= %v)", nHi, hi),
						"spec integer reaches "+pname+" without the required upper bound (chunks may exceed ChunkSizeLimit): "+strings.Join(badHi, "; "))
				}
			}
		}
	}
	c.Min("O1 parsed integers reaching splitter constructors", nO1, 1)

	// ---------------- O2: constant facts
	cmpOK := func(cond bool, construct, okD, badD string) {
		c.Check(cond, "O2", "R-CONST", ck, construct, pk.Types.Scope().Lookup("ChunkSizeLimit").Pos(), okD, badD)
	}
	cmpOK(new(big.Int).Sub(blockLimit, budget).Cmp(limit) == 0 && limit.Sign() > 0 && limit.Cmp(blockLimit) < 0 && budget.Sign() > 0,
		"ChunkSizeLimit=BlockSizeLimit-ChunkOverheadBudget", "0 < ChunkSizeLimit = BlockSizeLimit-ChunkOverheadBudget < BlockSizeLimit",
		fmt.Sprintf("ChunkSizeLimit=%s BlockSizeLimit=%s ChunkOverheadBudget=%s: a maximal chunk plus framing no longer fits a block", limit, blockLimit, budget))
	cmpOK(buzMin.Cmp(big.NewInt(32)) >= 0 && buzMin.Cmp(buzMax) < 0 && buzMax.Cmp(limit) <= 0,
		"buzhash:32<=min<buffer<=ChunkSizeLimit", "32 <= Buzhash minimum < Buzhash buffer size <= ChunkSizeLimit",
		fmt.Sprintf("buzMin=%s buzMax=%s ChunkSizeLimit=%s: Buzhash chunks can exceed the limit or the 32-byte window does not fit", buzMin, buzMax, limit))
	// DefaultBlockSize initialiser
	foundInit := false
	for _, f := range pk.Syntax {
		for _, d := range f.Decls {
			gd, ok := d.(*ast.GenDecl)
			if !ok || gd.Tok != token.VAR {
				continue
			}
			for _, sp := range gd.Specs {
				vs := sp.(*ast.ValueSpec)
				for i, n := range vs.Names {
					if n.Name != "DefaultBlockSize" || i >= len(vs.Values) {
						continue
					}
					tv := pk.TypesInfo.Types[vs.Values[i]]
					if tv.Value == nil {
						continue
					}
					foundInit = true
					v, _ := constant.Int64Val(constant.ToInt(tv.Value))
					bv := big.NewInt(v)
					c.Check(bv.Sign() > 0 && bv.Cmp(limit) <= 0, "O2", "R-CONST", ck, "DefaultBlockSize-initialiser", n.Pos(),
						"DefaultBlockSize initialiser in [1,ChunkSizeLimit]", fmt.Sprintf("DefaultBlockSize is initialised to %s outside [1,%s]: the default splitter emits oversized (or no) chunks", bv, limit))
				}
			}
		}
	}
	c.Need(foundInit, "constant initialiser of chunker.DefaultBlockSize")
	// buffer of Buzhash allocated with buzMax
	fBuf := fBuzBuf
	if c.Need(fBuf != nil, "[]byte field of Buzhash") {
		n := 0
		for _, fn := range fns {
			for _, st := range an.FieldStores(fn, fBuf) {
				if an.IsNilConst(st.Val) {
					continue
				}
				n++
				call, ok := an.IsCallTo(st.Val, an.M("github.com/libp2p/go-buffer-pool", "", "Get"))
				var k int64
				okK := false
				if ok {
					k, okK = an.XBInt64(call.Call.Args[0])
				} else if ms, ok2 := st.Val.(*ssa.MakeSlice); ok2 {
					k, okK = an.XBInt64(ms.Len)
				}
				c.Check(okK && big.NewInt(k).Cmp(buzMax) == 0, "O2", "R-CONST", an.FuncName(fn), "buzhash-buffer=alloc(max-const)", st.Pos(),
					"Buzhash buffer has exactly buzMax bytes (upper bound of a chunk)", fmt.Sprintf("Buzhash buffer allocated with %d (known=%v), not buzMax=%s: the maximum chunk size is no longer buzMax", k, okK, buzMax))
			}
		}
		c.Min("O2 non-nil stores to the Buzhash buffer field", n, 1)
	}
	// thorough: every store into the global DefaultBlockSize anywhere
	if c.Tier == "thorough" {
		for _, fn := range p.Funcs {
			an.Instrs(fn, func(in ssa.Instruction) {
				st, ok := in.(*ssa.Store)
				if !ok {
					return
				}
				g, ok := st.Addr.(*ssa.Global)
				if !ok || g.Name() != "DefaultBlockSize" || g.Pkg.Pkg != pk.Types {
					return
				}
				if fn.Name() == "init" && fn.Pkg != nil && fn.Pkg.Pkg == pk.Types {
					return // the initialiser checked above
				}
				if k, ok := an.XBInt64(st.Val); ok {
					c.Check(k > 0 && big.NewInt(k).Cmp(limit) <= 0, "O2", "R-CONST", an.FuncName(fn), "DefaultBlockSize=const", st.Pos(),
						"constant stored into DefaultBlockSize in [1,ChunkSizeLimit]", fmt.Sprintf("DefaultBlockSize set to %d outside [1,%s]", k, limit))
				} else {
					c.Note("O2: %s stores a run-time value into chunker.DefaultBlockSize (%s) — not decided statically", an.FuncName(fn), p.Pos(st.Pos()))
				}
			})
		}
	}

	// ---------------- O3/O4/O5: in-repo splitters
	impls := p.XBImplementers(ck, splitterI)
	c.Min("Splitter implementers in package chunker", len(impls), 1)
	readFull := an.M("io", "", "ReadFull")
	pkgGraph := an.XBLocalGraph(p.PkgFuncs(ck))
	nReaders, nShort, nCarry := 0, 0, 0
	for _, T := range impls {
		var methods []*ssa.Function
		for _, m := range p.Methods(ck, T.Obj().Name()) {
			methods = append(methods, an.WithClosures(m)...)
		}
		delegates := false
		for _, fn := range methods {
			// O3: every call made on a value of type io.Reader that was loaded from a field of T
			for _, call := range an.AllCalls(fn) {
				ci := an.Callee(call)
				usesReader := func(v ssa.Value) bool {
					if !an.TypeIs(v.Type(), "io", "Reader") {
						return false
					}
					for _, r := range an.Roots(v, nil) {
						if u, ok := r.(*ssa.UnOp); ok && u.Op == token.MUL {
							if f, _ := an.FieldOf(u.X); f != nil {
								return true
							}
						}
					}
					return false
				}
				if ci.Invoke && usesReader(call.Common().Value) {
					nReaders++
					c.Bad("O3", "R-API", an.FuncName(fn), "Reader."+ci.Name, call.Pos(),
						"splitter calls "+ci.Name+" directly on its source reader: a short read changes the chunk boundaries (must go through io.ReadFull)")
					continue
				}
				for ai, a := range call.Common().Args {
					if call.Common().IsInvoke() || !usesReader(a) {
						continue
					}
					nReaders++
					okCallee := readFull.Match(ci) && ai == 0
					c.Check(okCallee, "O3", "R-API", an.FuncName(fn), "source-read-via-"+ci.Name, call.Pos(),
						"source reader consumed through io.ReadFull", "source reader passed to "+ci.String()+" instead of io.ReadFull: chunk boundaries depend on read fragmentation")
				}
				if ci.Pkg == c06RabinLib {
					delegates = true
				}
			}
		}
		// O4/O5 on the method that reads
		for _, fn := range methods {
			rf := an.Calls(fn, readFull)
			if len(rf) == 0 {
				continue
			}
			for _, rd := range rf {
				errs := an.ErrResult(rd)
				ns := an.Result(rd, 0)
				nilEdges := an.NilEdges(fn, errs, true)
				// edges where err is known to be io.ErrUnexpectedEOF
				al := an.Aliases(errs...)
				isGlobal := func(v ssa.Value, name string) bool {
					u, ok := v.(*ssa.UnOp)
					if !ok || u.Op != token.MUL {
						return false
					}
					g, ok := u.X.(*ssa.Global)
					return ok && g.Pkg.Pkg.Path() == "io" && g.Name() == name
				}
				uEOF := an.CondEdges(fn, func(atom ssa.Value) (bool, bool) {
					if call, ok := atom.(*ssa.Call); ok {
						ci := an.Callee(call)
						if ci.Pkg == "errors" && ci.Name == "Is" && len(call.Call.Args) == 2 && al[call.Call.Args[0]] && isGlobal(call.Call.Args[1], "ErrUnexpectedEOF") {
							return true, false
						}
					}
					if b, ok := atom.(*ssa.BinOp); ok && (b.Op == token.EQL || b.Op == token.NEQ) {
						if (al[b.X] && isGlobal(b.Y, "ErrUnexpectedEOF")) || (al[b.Y] && isGlobal(b.X, "ErrUnexpectedEOF")) {
							return b.Op == token.EQL, b.Op == token.NEQ
						}
					}
					return false, false
				})
				// edges where a count that includes the bytes just read is known non-zero
				countNZ := an.XBEdgesWhere(fn, func(r an.XBRel) bool {
					k, isK := an.XBInt64(r.Y)
					if !isK {
						return false
					}
					derives := false
					var walk func(v ssa.Value, d int)
					walk = func(v ssa.Value, d int) {
						if d > 4 || derives {
							return
						}
						for _, n := range ns {
							if v == n {
								derives = true
							}
						}
						if b, ok := v.(*ssa.BinOp); ok && b.Op == token.ADD {
							walk(b.X, d+1)
							walk(b.Y, d+1)
						}
					}
					walk(r.X, 0)
					if !derives {
						return false
					}
					return (r.Op == token.NEQ && k == 0) || (r.Op == token.GTR && k >= 0) || (r.Op == token.GEQ && k >= 1)
				})
				for _, ret := range an.Returns(fn) {
					// success returns: nil error as the last result. (chunk, nil) with a non-nil chunk; for a reading
					// helper that hands more than the chunk to its caller (count, chunk, flag, nil) every nil-error return
					// counts: the caller continues chunking on it.
					nres := len(ret.Results)
					if nres < 2 || !an.IsErrorType(ret.Results[nres-1].Type()) || !an.IsNilConst(ret.Results[nres-1]) {
						continue
					}
					if nres == 2 && an.IsNilConst(ret.Results[0]) {
						continue
					}
					if !an.Reaches(fn, rd, ret, nil, nil) {
						continue
					}
					// only the short-read paths: those that do not cross the err==nil edge
					if !an.Reaches(fn, rd, ret, nilEdges, nil) {
						continue
					}
					nShort++
					// a path may legitimately continue into the normal splitting code when enough bytes are buffered
					// (Buzhash): accept returns also reachable on the nil edge whose length is not the short count.
					guards := nilEdges.Union(uEOF).Union(countNZ)
					ok := !an.Reaches(fn, rd, ret, guards, nil)
					if !ok {
						// Buzhash idiom: the short-read path rejoins the full-buffer path once buffered >= min;
						// then the chunk length is decided by the window scan, not by the short count.
						ok = c06RejoinsOnMin(fn, rd, ret, nilEdges, uEOF.Union(countNZ), ns, buzMin)
					}
					c.Check(ok, "O4", "R-DOM", an.FuncName(fn), "short-read-success-return", ret.Pos(),
						"success return after a short read only where err is io.ErrUnexpectedEOF (n>0) or the buffered count was tested non-zero (or >= the minimum chunk size)",
						"a chunk is returned with a nil error after a failed io.ReadFull on a path where neither err==io.ErrUnexpectedEOF nor a non-zero byte count is established: an empty chunk (or (nil,nil)) can be emitted at end of input")
				}
			}
		}
		// O5: carry-over (only for splitters that keep bytes between calls: a builtin copy within the buffer field).
		// Anchored on the function that contains the copy; its bounds are followed through parameters to the call
		// sites and through results of package-local helpers to the source read.
		{
			inT := map[*ssa.Function]bool{}
			for _, m := range methods {
				inT[m] = true
			}
			sitesOf := func(g *ssa.Function) []ssa.CallInstruction {
				var out []ssa.CallInstruction
				for _, k := range pkgGraph.Callers[g] {
					if k.Parent() != g && inT[k.Parent()] {
						out = append(out, k)
					}
				}
				return out
			}
			paramIdx := func(v ssa.Value) int {
				q, ok := v.(*ssa.Parameter)
				if !ok {
					return -1
				}
				for i, x := range q.Parent().Params {
					if x == q {
						return i
					}
				}
				return -1
			}
			// readCount: v is the byte count of a read of the source through io.ReadFull
			var readCount func(v ssa.Value, d int) bool
			readCount = func(v ssa.Value, d int) bool {
				if v == nil || d > 4 {
					return false
				}
				if ex, ok := v.(*ssa.Extract); ok && ex.Index == 0 {
					if call, ok := ex.Tuple.(*ssa.Call); ok {
						if readFull.Match(an.Callee(call)) {
							return true
						}
					}
				}
				if ex, ok := v.(*ssa.Extract); ok {
					if call, ok := ex.Tuple.(*ssa.Call); ok {
						if g := an.Callee(call).Static; g != nil && inT[g] {
							rs := an.Returns(g)
							for _, r := range rs {
								if ex.Index >= len(r.Results) || !readCount(r.Results[ex.Index], d+1) {
									return false
								}
							}
							return len(rs) > 0
						}
					}
				}
				if call, ok := v.(*ssa.Call); ok {
					if g := an.Callee(call).Static; g != nil && inT[g] {
						rs := an.Returns(g)
						for _, r := range rs {
							if len(r.Results) != 1 || !readCount(r.Results[0], d+1) {
								return false
							}
						}
						return len(rs) > 0
					}
				}
				if ph, ok := v.(*ssa.Phi); ok {
					for _, e := range ph.Edges {
						if !readCount(e, d+1) {
							return false
						}
					}
					return true
				}
				if i := paramIdx(v); i >= 0 {
					ks := sitesOf(v.(*ssa.Parameter).Parent())
					for _, k := range ks {
						if k.Common().IsInvoke() || i >= len(k.Common().Args) || !readCount(k.Common().Args[i], d+1) {
							return false
						}
					}
					return len(ks) > 0
				}
				return false
			}
			// chunkEndsAt: at site (in h) the chunk handed out is a fresh slice of length v: make([]byte, v) that
			// precedes the site and is returned by h; a parameter is followed to the call sites of h
			var chunkEndsAt func(h *ssa.Function, at ssa.Instruction, v ssa.Value, d int) bool
			chunkEndsAt = func(h *ssa.Function, at ssa.Instruction, v ssa.Value, d int) bool {
				if v == nil || d > 3 {
					return false
				}
				found := false
				an.Instrs(h, func(in ssa.Instruction) {
					ms, ok := in.(*ssa.MakeSlice)
					if !ok || ms.Len != v || !an.Dominates(ms, at) {
						return
					}
					for _, ret := range an.Returns(h) {
						for _, r := range ret.Results {
							if r == ssa.Value(ms) && an.Reaches(h, at, ret, nil, nil) {
								found = true
							}
						}
					}
				})
				if found {
					return true
				}
				if i := paramIdx(v); i >= 0 {
					ks := sitesOf(h)
					for _, k := range ks {
						if k.Common().IsInvoke() || i >= len(k.Common().Args) || !chunkEndsAt(k.Parent(), k, k.Common().Args[i], d+1) {
							return false
						}
					}
					return len(ks) > 0
				}
				return false
			}
			// the carried-count field: the unique int field of the splitter type
			var fN *types.Var
			if st, ok := T.Underlying().(*types.Struct); ok {
				nInt := 0
				for i := 0; i < st.NumFields(); i++ {
					if b, ok := st.Field(i).Type().Underlying().(*types.Basic); ok && b.Kind() == types.Int {
						fN = st.Field(i)
						nInt++
					}
				}
				if nInt != 1 {
					fN = nil
				}
			}
			isCarried := func(v ssa.Value) bool {
				if fN == nil {
					return true
				}
				f, _ := an.FieldOf(c06LoadAddr(v))
				return f == fN
			}
			var buffered func(v ssa.Value, d int) bool
			buffered = func(v ssa.Value, d int) bool {
				if v == nil || d > 3 {
					return false
				}
				if hb, ok := v.(*ssa.BinOp); ok && hb.Op == token.ADD {
					return (readCount(hb.X, 0) && isCarried(hb.Y)) || (readCount(hb.Y, 0) && isCarried(hb.X))
				}
				if i := paramIdx(v); i >= 0 {
					ks := sitesOf(v.(*ssa.Parameter).Parent())
					for _, k := range ks {
						if k.Common().IsInvoke() || i >= len(k.Common().Args) || !buffered(k.Common().Args[i], d+1) {
							return false
						}
					}
					return len(ks) > 0
				}
				return false
			}
			var bufField *types.Var // the buffer field bytes are carried in
			var carryCopies []*ssa.Call
			for _, home := range methods {
				for _, call := range an.Calls(home, an.M("builtin", "", "copy")) {
					cv, ok := call.(*ssa.Call)
					if !ok {
						continue
					}
					src, ok := cv.Call.Args[1].(*ssa.Slice)
					if !ok || src.Low == nil {
						continue
					}
					dstF, _ := an.FieldOf(c06LoadAddr(cv.Call.Args[0]))
					srcF, _ := an.FieldOf(c06LoadAddr(src.X))
					if dstF == nil || dstF != srcF {
						continue
					}
					nCarry++
					bufField = dstF
					carryCopies = append(carryCopies, cv)
					c.Check(chunkEndsAt(home, cv, src.Low, 0), "O5", "R-FLOW", an.FuncName(home), "carry-over-starts-at-chunk-end", cv.Pos(),
						"bytes kept for the next call start at the index where the returned chunk ends",
						"the carry-over copy starts at "+an.PathOf(src.Low)+" which is not the length of the freshly allocated chunk that is returned: bytes are lost or duplicated between consecutive chunks")
					// high bound = bytes buffered = previous carry + bytes read
					okHigh := buffered(src.High, 0)
					c.Check(okHigh, "O5", "R-FLOW", an.FuncName(home), "carry-over-ends-at-buffered", cv.Pos(),
						"carry-over ends at carried+read bytes", "the carry-over copy does not end at (carried + bytes read): trailing bytes are dropped or stale bytes re-emitted")
					if fN != nil {
						stored := false
						for _, st := range an.FieldStores(home, fN) {
							if st.Val == ssa.Value(cv) {
								stored = true
							}
						}
						c.Check(stored, "O5", "R-FLOW", an.FuncName(home), "carried-count=copy-result", cv.Pos(),
							"number of carried bytes is the result of the carry-over copy", "the carried byte count is not the result of the carry-over copy")
					}
				}
			}
			c06ChunkContent(c, methods, bufField, carryCopies, buffered)
		}
		if delegates {
			c.Note("O3: %s delegates reading to %s (external library; it reads through io.ReadFull as of the pinned version) — not analysed", T.Obj().Name(), c06RabinLib)
		}
	}
	c.Min("O3 uses of the source reader in splitter methods", nReaders, 1)

	// ---------------- O6 (round 2): a splitter that reads each chunk into a freshly allocated buffer returns exactly
	// the bytes it read: the full buffer on the nil-error edge, shrink(buffer, n) with the count of that same read on
	// the short-read edge; the shrink helper returns buffer[:n] or an n-byte copy of it; the buffer length is the
	// configured chunk size.
	nO6 := 0
	isAllocOf := func(v ssa.Value) (ssa.Value, bool) { // returns the length operand
		if call, ok := an.IsCallTo(v, an.M("github.com/libp2p/go-buffer-pool", "", "Get")); ok {
			return call.Call.Args[0], true
		}
		if ms, ok := v.(*ssa.MakeSlice); ok {
			return ms.Len, true
		}
		return nil, false
	}
	for _, T := range impls {
		for _, fn := range p.Methods(ck, T.Obj().Name()) {
			for _, rd := range an.Calls(fn, readFull) {
				dst := rd.Common().Args[1]
				lenV, fresh := isAllocOf(dst)
				if !fresh {
					continue // buffering splitter (Buzhash): covered by O5
				}
				ns := an.Result(rd, 0)
				nilEdges := an.NilEdges(fn, an.ErrResult(rd), true)
				// the chunk size: a field of the splitter
				nO6++
				var sizeFld *types.Var
				for _, r := range an.Roots(an.XBStripConv(lenV), nil) {
					if u, ok := r.(*ssa.UnOp); ok && u.Op == token.MUL {
						if f, _ := an.FieldOf(u.X); f != nil {
							sizeFld = f
						}
					}
				}
				okSize := sizeFld != nil && an.XBStripConv(lenV) != nil
				if okSize {
					_, isLoad := an.XBStripConv(lenV).(*ssa.UnOp)
					okSize = isLoad
				}
				c.Check(okSize, "O6", "R-FLOW", an.FuncName(fn), "buffer-len=size-field", rd.Pos(),
					"the read buffer has exactly the configured chunk size", "the buffer handed to io.ReadFull is not allocated with the splitter's size field itself: chunks are longer or shorter than the configured size")
				if sizeFld != nil {
					// the field is stored from the constructor's size parameter
					nSt := 0
					for _, g := range fns {
						for _, st := range an.FieldStores(g, sizeFld) {
							nSt++
							_, isPar := an.XBStripConv(st.Val).(*ssa.Parameter)
							c.Check(isPar, "O6", "R-FLOW", an.FuncName(g), "size-field=ctor-param", st.Pos(),
								"the size field holds the constructor's size argument", "the splitter's size field is not the constructor's size argument")
						}
					}
					c.Min("O6 stores to the splitter size field", nSt, 1)
				}
				for _, ret := range an.Returns(fn) {
					if len(ret.Results) != 2 || !an.IsNilConst(ret.Results[1]) || an.IsNilConst(ret.Results[0]) || !an.Reaches(fn, rd, ret, nil, nil) {
						continue
					}
					nO6++
					res := ret.Results[0]
					if !an.Reaches(fn, rd, ret, nilEdges, nil) {
						// only reachable with err == nil: the whole buffer
						c.Check(res == dst, "O6", "R-FLOW", an.FuncName(fn), "full-read-returns-buffer", ret.Pos(),
							"a complete read returns the buffer that was filled", "after a complete io.ReadFull the splitter returns something other than the buffer it filled: bytes are dropped, duplicated or re-sliced")
						continue
					}
					// short read: buffer[:n] directly, or shrink(buffer, n) through package-local helpers
					okShort := false
					if sl, ok := res.(*ssa.Slice); ok && sl.X == dst && sl.Low == nil {
						for _, n := range ns {
							if sl.High == n {
								okShort = true
							}
						}
					}
					var checkShrink func(call *ssa.Call, buf ssa.Value, cnt []ssa.Value, depth int) bool
					checkShrink = func(call *ssa.Call, buf ssa.Value, cnt []ssa.Value, depth int) bool {
						iB, iN := -1, -1
						for i, a := range call.Call.Args {
							if a == buf {
								iB = i
							}
							for _, n := range cnt {
								if a == n {
									iN = i
								}
							}
						}
						helper := an.Callee(call).Static
						if iB < 0 || iN < 0 || helper == nil || helper.Blocks == nil || iB >= len(helper.Params) || iN >= len(helper.Params) || depth > 2 {
							return false
						}
						hb, hn := ssa.Value(helper.Params[iB]), ssa.Value(helper.Params[iN])
						for _, hr := range an.Returns(helper) {
							if len(hr.Results) != 1 || an.IsNilConst(hr.Results[0]) {
								continue
							}
							nO6++
							okH := true
							forwarded := false
							for _, root := range an.Roots(hr.Results[0], &an.FlowOpts{StopAt: func(v ssa.Value) bool { _, isSl := v.(*ssa.Slice); return isSl }}) {
								switch x := root.(type) {
								case *ssa.Slice:
									if !(x.X == hb && x.Low == nil && x.High == hn) {
										okH = false
									}
								case *ssa.MakeSlice:
									if x.Len != hn {
										okH = false
									}
								case *ssa.Call:
									// forwarded to another shrink helper with the same buffer and count
									if !checkShrink(x, hb, []ssa.Value{hn}, depth+1) {
										okH = false
									}
									forwarded = true
								default:
									okH = false
								}
							}
							// a fresh slice must be filled by copy(fresh, buf) before it is returned
							if _, isSl := hr.Results[0].(*ssa.Slice); !isSl && !forwarded {
								copied := false
								for _, cp := range an.Calls(helper, an.M("builtin", "", "copy")) {
									if cp.Common().Args[0] == hr.Results[0] && cp.Common().Args[1] == hb && an.Dominates(cp, hr) {
										copied = true
									}
								}
								okH = okH && copied
							}
							if forwarded {
								nO6--
								if !okH {
									return false
								}
								continue
							}
							c.Check(okH, "O6", "R-FLOW", an.FuncName(helper), "shrink-returns-buf[:n]-or-n-byte-copy", hr.Pos(),
								"the shrink helper returns buf[:n] or an n-byte copy of buf", "the helper that shrinks the last chunk returns something other than buf[:n] / an n-byte copy of buf: the last chunk is truncated, padded or empty")
						}
						return true
					}
					if call, isCall := res.(*ssa.Call); isCall && !okShort {
						okShort = checkShrink(call, dst, ns, 0)
					}
					c.Check(okShort, "O6", "R-FLOW", an.FuncName(fn), "short-read-returns-buffer[:n]", ret.Pos(),
						"a short read returns the first n bytes of the buffer, n being the count of that read", "after a short io.ReadFull the splitter does not return the first n bytes (n = count returned by that read) of the buffer it filled: the last chunk loses or gains bytes")
				}
			}
		}
	}
	c.Min("O6 fresh-buffer read constructs", nO6, 1)
	c.Min("O4 success returns on short-read paths", nShort, 1)
	c.Min("O5 carry-over copies", nCarry, 1)
}

func c06LoadAddr(v ssa.Value) ssa.Value {
	if u, ok := v.(*ssa.UnOp); ok && u.Op == token.MUL {
		return u.X
	}
	return v
}

// c06RejoinsOnMin accepts the Buzhash shape: after a failed ReadFull the code
// continues into the normal chunking path only across an edge on which
// (carried + n) >= min, min >= 1; every other way to ret is guarded.
func c06RejoinsOnMin(fn *ssa.Function, rd ssa.CallInstruction, ret *ssa.Return, nilEdges, guards an.EdgeSet, ns []ssa.Value, min *big.Int) bool {
	enough := an.XBEdgesWhere(fn, func(r an.XBRel) bool {
		k, isK := an.XBInt64(r.Y)
		if !isK || k < 1 {
			return false
		}
		b, ok := r.X.(*ssa.BinOp)
		if !ok || b.Op != token.ADD {
			return false
		}
		has := false
		for _, n := range ns {
			if b.X == n || b.Y == n {
				has = true
			}
		}
		return has && (r.Op == token.GEQ || (r.Op == token.GTR))
	})
	if len(enough) == 0 {
		return false
	}
	return !an.Reaches(fn, rd, ret, nilEdges.Union(guards).Union(enough), nil)
}

// c06ChunkContent (round 11): a splitter that carries bytes between calls hands out fresh slices; each of them is
// filled by a copy that starts at the beginning of the buffer, and a chunk that is not followed by a carry-over copy
// (the final one) has the length of everything buffered (carried + read).
func c06ChunkContent(c *an.Ctx, methods []*ssa.Function, bufField *types.Var, carryCopies []*ssa.Call, buffered func(ssa.Value, int) bool) {
	if bufField == nil {
		return
	}
	n := 0
	for _, fn := range methods {
		an.Instrs(fn, func(in ssa.Instruction) {
			ms, ok := in.(*ssa.MakeSlice)
			if !ok {
				return
			}
			var rets []*ssa.Return
			for _, ret := range an.Returns(fn) {
				for _, r := range ret.Results {
					if r == ssa.Value(ms) {
						rets = append(rets, ret)
					}
				}
			}
			if len(rets) == 0 {
				return
			}
			n++
			filled := false
			for _, call := range an.Calls(fn, an.M("builtin", "", "copy")) {
				cv, ok := call.(*ssa.Call)
				if !ok || cv.Call.Args[0] != ssa.Value(ms) || !an.Dominates(ms, cv) {
					continue
				}
				src := cv.Call.Args[1]
				if sl, ok := src.(*ssa.Slice); ok {
					if sl.Low != nil {
						if k, isK := an.XBInt64(sl.Low); !isK || k != 0 {
							continue
						}
					}
					src = sl.X
				}
				if f, _ := an.FieldOf(c06LoadAddr(src)); f == bufField {
					filled = true
				}
			}
			c.Check(filled, "O5", "R-FLOW", an.FuncName(fn), "chunk=copy-of-buffer-prefix", ms.Pos(),
				"the chunk handed out is filled from the beginning of the buffer", "the freshly allocated chunk is not filled by a copy that starts at the beginning of the buffer: the chunk does not hold the bytes the carry-over bookkeeping assumes were emitted")
			carried := false
			for _, cv := range carryCopies {
				if cv.Parent() == fn && an.Dominates(ms, cv) {
					carried = true
				}
				// the carry-over copy may live in a helper called after the chunk was allocated
				for _, call := range an.AllCalls(fn) {
					if t := an.Callee(call).Static; t != nil && t == cv.Parent() && t != fn && an.Dominates(ms, call) {
						carried = true
					}
				}
			}
			if !carried {
				if _, isPar := ms.Len.(*ssa.Parameter); !isPar {
					c.Check(buffered(ms.Len, 0), "O5", "R-FLOW", an.FuncName(fn), "final-chunk-length=buffered", ms.Pos(),
						"a chunk after which nothing is carried over holds everything buffered (carried + read)", "a chunk is handed out without a carry-over copy but its length is not (carried + bytes read): buffered bytes are dropped at the end of the input")
				}
			}
		})
	}
	c.Min("O5 chunks handed out by the carrying splitter", n, 1)
}
