package props

import (
	"fmt"
	"go/constant"
	"go/token"
	"go/types"
	"os"
	"sort"
	"strconv"
	"strings"

	"golang.org/x/tools/go/ssa"

	"verif/checker/an"
)

func init() {
	register("C45", Prop{
		Pkgs: []string{"./autoconf"},
		Explain: "Decided (structural necessary conditions of 'an interrupted cache update never costs the cached configuration'): " +
			"O1 the versioned cache file (the name pattern accepted by the cache lister) is either (A) created atomically: no os.WriteFile/os.Create/os.OpenFile on the final name anywhere on the call chain from the saver, the final name is only produced by os.Rename from an os.CreateTemp file whose name pattern the lister rejects, and the Rename is reached only after the data was written without error; or (B) the cached reader falls back: a read or parse error of one cache file leads back to reading the next (older) file instead of leaving the reader; " +
			"O1b (R-API, who-may-call) no function of package autoconf creates or overwrites a file by a direct truncate-then-write (os.WriteFile, os.Create, os.OpenFile for writing) other than on an os.CreateTemp name: every final name in the cache directory is produced only by the atomic writer (temp + rename) — idiom (B) does not help when a direct write hits an existing valid version (the versioned name has one-second resolution); " +
			"O2 the cached reader hands out a configuration only on the nil-error edges of os.ReadFile and json.Unmarshal of that very object; GetCached uses the fallback only on the reader's error edge; " +
			"O3 a fetched body is saved only after json.Unmarshal and validateConfig of the same body/config succeeded; " +
			"O4 the lister orders files newest first (comparator compares base names of (b, a)) and the reader starts at index 0; " +
			"O5 the cleanup keeps the newest files: it deletes files[cacheSize:] and every store to cacheSize is a constant >= 1 or guarded by a '>= 1' test. " +
			"O6 (R-FLOW) the offline cached read that decides about the fallback (GetCached) can fail only because of the listed config files: no callee on that path turns an unreadable/missing other file (.last-refresh, .etag, ...) into an error; " +
			"NOT decided: durability (fsync ordering), behaviour of rename on exotic filesystems, semantic validity of a configuration beyond 'was validated before being saved', the metadata files (.etag/.last-modified/.last-refresh).",
		Assume: []string{
			"os.Rename within one directory replaces the destination atomically; os.CreateTemp(dir, pattern) creates dir/<pattern with the last * replaced by random digits>",
			"a strict prefix of a JSON object document does not parse (json.Unmarshal fails on truncated files)",
		},
		Technique: "callee identity along the package-local call chain (R-API), constant pattern vs lister filter (R-CONST), nil-edge dominance (R-DOM), loop-back reachability from error edges, comparator shape (R-MIRROR), comparison-edge guard (R-CMP)",
		Run:       runC45,
	})
}

type c45Sink struct {
	fn   *ssa.Function
	call ssa.CallInstruction
	kind string // "direct" | "rename"
}

func runC45(c *an.Ctx) {
	p := c.P
	const pk = "autoconf"
	fns := p.PkgFuncs(pk)
	if !c.Need(len(fns) > 0, "package autoconf") {
		return
	}

	// ---- anchors by role
	// lister: the function that calls os.ReadDir and returns []string
	var lister *ssa.Function
	for _, f := range fns {
		if f.Parent() != nil || len(an.Calls(f, an.M("os", "", "ReadDir"))) == 0 {
			continue
		}
		res := f.Signature.Results()
		if res.Len() >= 1 {
			if sl, ok := res.At(0).Type().Underlying().(*types.Slice); ok && an.IsString(sl.Elem()) {
				if lister != nil {
					c.Problem("two candidate cache listers: %s and %s", an.FuncName(lister), an.FuncName(f))
					return
				}
				lister = f
			}
		}
	}
	if !c.Need(lister != nil, "cache lister (function of package autoconf calling os.ReadDir and returning []string)") {
		return
	}
	suffix, infix := "", ""
	for _, call := range an.CallsDeep(lister, an.M("strings", "", "HasSuffix")) {
		if k, ok := an.ConstOf(an.Args(call)[1]); ok && k.Kind() == constant.String {
			suffix = constant.StringVal(k)
		}
	}
	for _, call := range an.CallsDeep(lister, an.M("strings", "", "Contains")) {
		if k, ok := an.ConstOf(an.Args(call)[1]); ok && k.Kind() == constant.String {
			infix = constant.StringVal(k)
		}
	}
	if !c.Need(suffix != "" || infix != "", "constant name filter (strings.HasSuffix / strings.Contains) in "+an.FuncName(lister)) {
		return
	}
	matches := func(name string) bool {
		return strings.HasSuffix(name, suffix) && strings.Contains(name, infix)
	}

	// file parsers: package-local functions reading the file named by a string
	// parameter and parsing it with json.Unmarshal
	parsers := map[*ssa.Function]int{}
	for _, f := range fns {
		if f.Parent() != nil || len(an.Calls(f, an.M("encoding/json", "", "Unmarshal"))) == 0 {
			continue
		}
		off := 0
		if f.Signature.Recv() != nil {
			off = 1
		}
		for _, rd := range an.Calls(f, an.M("os", "", "ReadFile"), an.M("os", "", "Open")) {
			for _, l := range an.Deps(an.Args(rd)[0], nil) {
				if par, ok := l.(*ssa.Parameter); ok && par.Parent() == f && an.IsString(par.Type()) {
					parsers[f] = an.ParamIndex(f, par)
				}
			}
		}
		_ = off
	}
	// readers: functions that list the cache and parse a listed file, directly
	// or through a file parser
	parseCalls := func(f *ssa.Function) []ssa.CallInstruction {
		var out []ssa.CallInstruction
		for _, call := range an.AllCalls(f) {
			if g := an.Callee(call).Static; g != nil {
				if _, ok := parsers[g]; ok && g != f {
					out = append(out, call)
				}
			}
		}
		return out
	}
	var readers []*ssa.Function
	for _, f := range fns {
		if len(an.LocalCallers([]*ssa.Function{f}, lister)) > 0 && (len(an.Calls(f, an.M("encoding/json", "", "Unmarshal"))) > 0 || len(parseCalls(f)) > 0) {
			readers = append(readers, f)
		}
	}
	c.Min("cache readers (list + json.Unmarshal)", len(readers), 1)

	// ---- O1 (B): reader fallback
	readerFallback := len(readers) > 0
	var whyNoB []string
	for _, r := range readers {
		listCalls := an.LocalCallers([]*ssa.Function{r}, lister)
		isList := func(x ssa.Value) bool {
			for _, lc := range listCalls {
				if x == ssa.Value(an.CallValue(lc)) {
					return true
				}
			}
			return false
		}
		fromList := func(v ssa.Value) bool {
			for _, l := range an.Deps(v, &an.DepOpts{Stop: isList}) {
				for _, lc := range listCalls {
					if l == ssa.Value(an.CallValue(lc)) {
						return true
					}
				}
			}
			return false
		}
		nRead := 0
		for _, rd := range an.Calls(r, an.M("os", "", "ReadFile"), an.M("os", "", "Open")) {
			if !fromList(an.Args(rd)[0]) {
				continue
			}
			nRead++
			errEdges := an.NilEdges(r, an.ErrResult(rd), false)
			if len(errEdges) == 0 || !an.EdgeLeadsTo(errEdges, rd, nil, nil) {
				readerFallback = false
				whyNoB = append(whyNoB, an.FuncName(r)+": a failed "+an.Callee(rd).String()+" of the newest file leaves the reader")
			}
			for _, um := range an.Calls(r, an.M("encoding/json", "", "Unmarshal")) {
				ue := an.NilEdges(r, an.ErrResult(um), false)
				if len(ue) == 0 || !an.EdgeLeadsTo(ue, rd, nil, nil) {
					readerFallback = false
					whyNoB = append(whyNoB, an.FuncName(r)+": a parse error of the newest file leaves the reader")
				}
			}
		}
		for _, pc := range parseCalls(r) {
			a := an.ArgAt(pc, parsers[an.Callee(pc).Static])
			if a == nil || !fromList(a) {
				continue
			}
			nRead++
			errEdges := an.NilEdges(r, an.ErrResult(pc), false)
			if len(errEdges) == 0 || !an.EdgeLeadsTo(errEdges, pc, nil, nil) {
				readerFallback = false
				whyNoB = append(whyNoB, an.FuncName(r)+": a read or parse error of the newest file ("+an.Callee(pc).Name+") leaves the reader")
			}
		}
		if nRead == 0 {
			readerFallback = false
			whyNoB = append(whyNoB, an.FuncName(r)+": no read of a listed file recognised")
		}
	}

	// ---- O1 (A): atomic creation of the versioned file
	// start: calls whose string argument is built from a Sprintf whose constant
	// format matches the lister's filter
	isCacheName := func(v ssa.Value) bool {
		for _, l := range an.Deps(v, &an.DepOpts{Stop: func(x ssa.Value) bool {
			_, ok := an.IsCallTo(x, an.M("fmt", "", "Sprintf"))
			return ok
		}}) {
			if sp, ok := an.IsCallTo(l, an.M("fmt", "", "Sprintf")); ok {
				if k, ok := an.ConstOf(sp.Call.Args[0]); ok && k.Kind() == constant.String && matches(constant.StringVal(k)) {
					return true
				}
			}
			if k, ok := an.ConstOf(l); ok && k.Kind() == constant.String && matches(constant.StringVal(k)) {
				return true
			}
		}
		return false
	}
	var sinks []c45Sink
	var savers []*ssa.Function
	seen := map[string]bool{}
	var follow func(f *ssa.Function, isPath func(ssa.Value) bool, depth int)
	follow = func(f *ssa.Function, isPath func(ssa.Value) bool, depth int) {
		if depth > 4 {
			return
		}
		for _, call := range an.AllCalls(f) {
			ci := an.Callee(call)
			args := an.Args(call)
			for i, a := range args {
				if !an.IsString(a.Type()) || !isPath(a) {
					continue
				}
				switch {
				case ci.Pkg == "os" && ci.Recv == "" && (ci.Name == "WriteFile" || ci.Name == "Create" || ci.Name == "OpenFile") && i == 0:
					if ci.Name == "OpenFile" && len(args) > 1 {
						// read-only opens do not create the file
						if k, ok := an.ConstOf(args[1]); ok {
							if fl, exact := constant.Int64Val(k); exact && fl&(0x1|0x2|0x40|0x200|0x400) == 0 {
								continue
							}
						}
					}
					sinks = append(sinks, c45Sink{f, call, "direct"})
				case ci.Pkg == "os" && ci.Recv == "" && ci.Name == "Rename" && i == 1:
					sinks = append(sinks, c45Sink{f, call, "rename"})
				case ci.Static != nil && ci.Static.Pkg != nil && ci.Static.Pkg.Pkg.Path() == an.Mod+"/"+pk && ci.Static.Blocks != nil:
					g := ci.Static
					off := 0
					if g.Signature.Recv() != nil {
						off = 1
					}
					if i+off >= len(g.Params) {
						continue
					}
					key := fmt.Sprintf("%s#%d", an.FuncName(g), i)
					if seen[key] {
						continue
					}
					seen[key] = true
					par := g.Params[i+off]
					follow(g, func(v ssa.Value) bool {
						for _, l := range an.Deps(v, nil) {
							if l == ssa.Value(par) {
								return true
							}
						}
						return false
					}, depth+1)
				}
			}
		}
	}
	for _, f := range fns {
		before := len(sinks)
		nseen := len(seen)
		follow(f, isCacheName, 0)
		if len(sinks) > before || len(seen) > nseen {
			savers = append(savers, f)
		}
	}
	c.Min("functions creating the versioned cache file name", len(savers), 1)

	atomic := len(sinks) > 0
	var whyNoA []string
	nRename := 0
	for _, s := range sinks {
		name := an.FuncName(s.fn)
		switch s.kind {
		case "direct":
			atomic = false
			whyNoA = append(whyNoA, name+" writes the final cache file name with "+an.Callee(s.call).String()+" (truncate-then-write, not atomic)")
		case "rename":
			nRename++
			ok, why := c45RenameFromTemp(s.fn, s.call, matches)
			if !ok {
				atomic = false
				whyNoA = append(whyNoA, name+": "+why)
			}
		}
	}
	if nRename == 0 {
		atomic = false
	}
	saverName := "autoconf.<none>"
	pos := lister.Pos()
	if len(savers) > 0 {
		saverName = an.FuncName(savers[0])
		pos = savers[0].Pos()
	}
	switch {
	case atomic:
		c.OK("O1", "R-API", saverName, "cache-file-atomic-or-reader-fallback", pos, "versioned cache file is created by CreateTemp + write + Rename (idiom A)")
	case readerFallback:
		c.OK("O1", "R-API", saverName, "cache-file-atomic-or-reader-fallback", pos, "cached reader falls back to older files on read/parse errors (idiom B)")
	case len(sinks) == 0:
		c.Problem("O1: no creation of the versioned cache file recognised (neither direct write nor rename) and the reader has no fallback")
	default:
		c.Bad("O1", "R-API", saverName, "cache-file-atomic-or-reader-fallback", pos,
			"a crash while the newest cache file is being written leaves a truncated newest file and the cached reader gives up on it (GetCached then returns the built-in fallback although older valid versions are cached): "+
				"not atomic: "+strings.Join(whyNoA, "; ")+"; no reader fallback: "+strings.Join(whyNoB, "; "))
	}

	// ---- O1b: who may create files: a final name in the cache directory is only
	// ever produced by the atomic writer (CreateTemp + write + Rename). A direct
	// truncate-then-write (os.WriteFile / os.Create / os.OpenFile for writing) on
	// a final name can hit an existing valid version (the versioned name has one
	// second resolution) and truncate it in place, which no reader fallback repairs.
	{
		stopAtCalls := &an.DepOpts{Stop: func(w ssa.Value) bool { _, is := w.(*ssa.Call); return is }}
		isTempName := func(v ssa.Value) bool {
			for _, l := range an.Deps(v, stopAtCalls) {
				call, ok := an.IsCallTo(l, an.M("os", "File", "Name"))
				if !ok {
					continue
				}
				for _, r := range an.Deps(an.Recv(call), stopAtCalls) {
					if _, isT := an.IsCallTo(r, an.M("os", "", "CreateTemp")); isT {
						return true
					}
				}
			}
			return false
		}
		nDirect := 0
		for _, f := range fns {
			for _, call := range an.Calls(f, an.M("os", "", "WriteFile"), an.M("os", "", "Create"), an.M("os", "", "OpenFile")) {
				as := an.Args(call)
				if an.Callee(call).Name == "OpenFile" && len(as) >= 2 {
					if k, ok := an.ConstOf(as[1]); ok {
						if v, exact := constant.Int64Val(k); exact && v&int64(os.O_WRONLY|os.O_RDWR|os.O_CREATE|os.O_TRUNC|os.O_APPEND) == 0 {
							continue // read-only open
						}
					}
				}
				if len(as) == 0 || isTempName(as[0]) {
					continue
				}
				nDirect++
				c.Bad("O1", "R-API", an.FuncName(f), "file-created-only-by-atomic-writer:"+an.Callee(call).Name, call.Pos(),
					an.FuncName(f)+" creates/overwrites a file with "+an.Callee(call).String()+" instead of the atomic writer (temp file in the same directory, then os.Rename): the write truncates the destination first, and the destination can be an existing valid version (the versioned cache name has one-second resolution, so a second update in the same second reuses it) — a process stopped during the write leaves that newest valid version truncated, and the cached read returns an older version or the built-in fallback")
			}
		}
		if nDirect == 0 {
			c.OK("O1", "R-API", "autoconf", "file-created-only-by-atomic-writer", lister.Pos(), "no direct truncate-then-write file creation in package autoconf: final names are only produced by rename from a temp file")
		}
	}

	// ---- O2: reader returns a config only after successful read + parse
	nO2 := 0
	subjects := append([]*ssa.Function{}, readers...)
	for g := range parsers {
		isR := false
		for _, r := range readers {
			isR = isR || r == g
		}
		if !isR {
			subjects = append(subjects, g)
		}
	}
	sort.Slice(subjects, func(i, j int) bool { return subjects[i].Pos() < subjects[j].Pos() })
	for _, r := range subjects {
		ums := an.Calls(r, an.M("encoding/json", "", "Unmarshal"))
		for _, rs := range an.ResultSites(r, 0) {
			if an.IsNilConst(rs.Val) || !an.TypeIs(rs.Val.Type(), pk, "Config") {
				continue
			}
			nO2++
			// the configuration is the result of a file parser, taken on its nil edge
			viaParser := false
			for _, pc := range parseCalls(r) {
				for _, rv := range an.Result(pc, 0) {
					for _, root := range an.Roots(rs.Val, nil) {
						if root == rv && an.OnNilEdgeOf(r, pc, rs.At) {
							viaParser = true
						}
					}
				}
			}
			if viaParser {
				c.OK("O2", "R-DOM", an.FuncName(r), "return-config<=read-ok&&parse-ok", rs.At.Pos(), "configuration returned only on the nil-error edge of the file parser")
				continue
			}
			var um ssa.CallInstruction
			for _, u := range ums {
				// the object returned is the one parsed into
				tgt := an.Args(u)[1]
				for _, l := range an.Deps(tgt, nil) {
					for _, m := range an.Deps(rs.Val, nil) {
						if l == m {
							um = u
						}
					}
				}
			}
			ok := um != nil && an.OnNilEdgeOf(r, um, rs.At)
			why := "the returned configuration is not the target of a successful json.Unmarshal"
			if ok {
				// and the bytes parsed come from a successful read
				data := an.Args(um)[0]
				okRead := false
				for _, l := range an.Deps(data, &an.DepOpts{Stop: func(x ssa.Value) bool {
					_, ok := an.IsCallTo(x, an.M("os", "", "ReadFile"), an.M("io", "", "ReadAll"))
					return ok
				}}) {
					if rd, isRd := an.IsCallTo(l, an.M("os", "", "ReadFile"), an.M("io", "", "ReadAll")); isRd && an.OnNilEdgeOf(r, rd, um) {
						okRead = true
					}
				}
				if !okRead {
					ok, why = false, "json.Unmarshal is applied to bytes whose read error was not checked"
				}
			}
			c.Check(ok, "O2", "R-DOM", an.FuncName(r), "return-config<=read-ok&&parse-ok", rs.At.Pos(),
				"configuration returned only on the nil-error edges of the file read and of json.Unmarshal into it",
				"cached reader can return a configuration without a successful read+parse: "+why+" (a corrupt cache file would be handed out)")
		}
	}
	c.Min("O2 non-nil configuration returns of cache readers", nO2, 1)
	// GetCached: fallback only on the error edge of the offline cached read, and
	// that read depends on nothing but the versioned config files (O6)
	inPkg := map[*ssa.Function]bool{}
	for _, f := range fns {
		inPkg[f] = true
	}
	closure := func(seed func(*ssa.Function) bool) map[*ssa.Function]bool {
		m := map[*ssa.Function]bool{}
		for _, f := range fns {
			if seed(f) {
				m[f] = true
			}
		}
		for changed := true; changed; {
			changed = false
			for _, f := range fns {
				if m[f] {
					continue
				}
				for _, call := range an.AllCalls(f) {
					if g := an.Callee(call).Static; g != nil && m[g] {
						m[f] = true
						changed = true
					}
				}
			}
		}
		return m
	}
	isReader := map[*ssa.Function]bool{}
	for _, r := range readers {
		isReader[r] = true
	}
	reachesReader := closure(func(f *ssa.Function) bool { return isReader[f] })
	reachesNet := closure(func(f *ssa.Function) bool {
		return len(an.Calls(f, an.M("net/http", "Client", "Do"), an.M("net/http", "Client", "Get"), an.M("net/http", "", "Get"))) > 0
	})
	// foreign[g] = g can fail because a file that is not one of the listed
	// config files cannot be read
	errLeaves := func(f *ssa.Function, edges an.EdgeSet) bool {
		n := f.Signature.Results().Len()
		if n == 0 || !an.IsErrorType(f.Signature.Results().At(n-1).Type()) {
			return false
		}
		for _, rs := range an.ResultSites(f, n-1) {
			if !an.IsNilConst(rs.Val) && an.EdgeLeadsTo(edges, rs.At, nil, nil) {
				return true
			}
		}
		return false
	}
	foreign := map[*ssa.Function]string{}
	// paramFail[f][i]: f fails when the file named by its string parameter i
	// cannot be read (whether that is a listed config file is decided by the callers)
	paramFail := map[*ssa.Function]map[int]bool{}
	fromListIn := func(f *ssa.Function, v ssa.Value) bool {
		listCalls := an.LocalCallers([]*ssa.Function{f}, lister)
		isL := func(x ssa.Value) bool {
			for _, lc := range listCalls {
				if x == ssa.Value(an.CallValue(lc)) {
					return true
				}
			}
			return false
		}
		for _, l := range an.Deps(v, &an.DepOpts{Stop: isL}) {
			if isL(l) {
				return true
			}
		}
		return false
	}
	ownParam := func(f *ssa.Function, v ssa.Value) (int, bool) {
		// the path *is* the parameter (not a file below a directory parameter)
		rs := an.Roots(v, nil)
		if len(rs) == 1 {
			if par, ok := rs[0].(*ssa.Parameter); ok && par.Parent() == f && an.IsString(par.Type()) {
				return an.ParamIndex(f, par), true
			}
		}
		return 0, false
	}
	describe := func(v ssa.Value) string {
		what := "a file that is not a listed config file"
		for _, l := range an.Deps(v, nil) {
			if k, ok := an.ConstOf(l); ok && k.Kind() == constant.String && constant.StringVal(k) != "" {
				what = "the metadata file " + strconv.Quote(constant.StringVal(k))
			}
		}
		return what
	}
	markParam := func(f *ssa.Function, i int) bool {
		if paramFail[f] == nil {
			paramFail[f] = map[int]bool{}
		}
		if paramFail[f][i] {
			return false
		}
		paramFail[f][i] = true
		return true
	}
	for changed := true; changed; {
		changed = false
		for _, f := range fns {
			for _, rd := range an.Calls(f, an.M("os", "", "ReadFile"), an.M("os", "", "Open"), an.M("os", "", "Stat"), an.M("os", "", "Lstat")) {
				pth := an.Args(rd)[0]
				if fromListIn(f, pth) || !errLeaves(f, an.NilEdges(f, an.ErrResult(rd), false)) {
					continue
				}
				if i, ok := ownParam(f, pth); ok && f.Object() != nil && !f.Object().Exported() {
					if markParam(f, i) {
						changed = true
					}
					continue
				}
				if foreign[f] == "" {
					foreign[f] = an.FuncName(f) + " fails when " + describe(pth) + " cannot be read"
					changed = true
				}
			}
			for _, call := range an.AllCalls(f) {
				g := an.Callee(call).Static
				if g == nil || !errLeaves(f, an.NilEdges(f, an.ErrResult(call), false)) {
					continue
				}
				if foreign[g] != "" && foreign[f] == "" {
					foreign[f] = foreign[g]
					changed = true
				}
				for i := range paramFail[g] {
					a := an.ArgAt(call, i)
					if a == nil || fromListIn(f, a) {
						continue
					}
					if j, ok := ownParam(f, a); ok && f.Object() != nil && !f.Object().Exported() {
						if markParam(f, j) {
							changed = true
						}
						continue
					}
					if foreign[f] == "" {
						foreign[f] = an.FuncName(g) + " (called from " + an.FuncName(f) + ") fails when " + describe(a) + " cannot be read"
						changed = true
					}
				}
			}
		}
	}
	nFb := 0
	// the fallback: the Client field of type func() *Config
	var fFallback *types.Var
	if cn := p.Named(pk, "Client"); cn != nil {
		fFallback = c15One(c15FieldsWhere(c15StructOf(cn), func(v *types.Var) bool {
			sig, ok := v.Type().Underlying().(*types.Signature)
			return ok && sig.Params().Len() == 0 && sig.Results().Len() == 1 && an.TypeIs(sig.Results().At(0).Type(), pk, "Config")
		}))
	}
	for _, f := range fns {
		if fFallback == nil {
			break
		}
		for _, call := range an.AllCalls(f) {
			// call of the function value loaded from c.fallbackFunc
			if fl, _ := an.LoadedField(call.Common().Value); fl != fFallback {
				continue
			}
			// an offline cached read function must not take the fallback because
			// some other callee failed on a file that is not a listed config file
			offline := false
			for _, k := range an.AllCalls(f) {
				if g := an.Callee(k).Static; g != nil && inPkg[g] && reachesReader[g] && !reachesNet[g] {
					offline = true
				}
				if g := an.Callee(k).Static; g != nil && inPkg[g] && reachesNet[g] {
					offline = false
					break
				}
			}
			for _, k := range an.AllCalls(f) {
				g := an.Callee(k).Static
				if !offline || g == nil || !inPkg[g] || reachesReader[g] || foreign[g] == "" || len(an.ErrResult(k)) == 0 || !an.Reaches(f, k, call, nil, nil) {
					continue
				}
				if an.GuardedBy(f, k, call, an.NilEdges(f, an.ErrResult(k), false)) {
					c.Check(false, "O6", "R-FLOW", an.FuncName(f), "fallback-not-caused-by-other-files", call.Pos(), "",
						an.FuncName(f)+" returns the built-in fallback because "+foreign[g]+", although the config files were not even tried: the files of one cache update are written one after the other (config first, metadata last), so a process stopped in between leaves a complete validated config file but "+an.FuncName(f)+" returns the built-in fallback")
				}
			}
			for _, k := range an.AllCalls(f) {
				g := an.Callee(k).Static
				if g == nil || !inPkg[g] || !reachesReader[g] || reachesNet[g] || !an.Reaches(f, k, call, nil, nil) {
					continue // not an offline cached read preceding this fallback
				}
				nFb++
				errEdges := an.NilEdges(f, an.ErrResult(k), false)
				c.Check(an.GuardedBy(f, k, call, errEdges), "O2", "R-DOM", an.FuncName(f), "fallback<=reader-error", call.Pos(),
					"built-in fallback used only where the cached reader reported an error",
					"the built-in fallback can be returned although the cached reader succeeded")
				c.Check(foreign[g] == "", "O6", "R-FLOW", an.FuncName(f), "cached-read-depends-only-on-config-files", k.Pos(),
					"the offline cached read fails only when no config file can be read and parsed",
					"the cached read behind "+an.FuncName(f)+" goes through "+an.FuncName(g)+", and "+foreign[g]+": the files of one cache update are written one after the other (config first, metadata last), so a process stopped in between leaves a complete validated config file but "+an.FuncName(f)+" returns the built-in fallback")
			}
		}
	}
	c.Min("O2/O6 fallback uses after an offline cached read", nFb, 1)

	// ---- O3: save only validated bodies
	nO3 := 0
	for _, sv := range savers {
		for _, f := range fns {
			for _, call := range an.LocalCallers([]*ssa.Function{f}, sv) {
				nO3++
				var data ssa.Value
				for _, a := range an.Args(call) {
					if sl, ok := a.Type().Underlying().(*types.Slice); ok {
						if b, ok := sl.Elem().Underlying().(*types.Basic); ok && b.Kind() == types.Byte {
							data = a
						}
					}
				}
				ok, why := false, "no []byte argument"
				if data != nil {
					why = "no json.Unmarshal of the saved bytes on whose nil-error edge the save happens"
					for _, um := range an.Calls(f, an.M("encoding/json", "", "Unmarshal")) {
						if !an.SameObj(an.Args(um)[0], data) || !an.OnNilEdgeOf(f, um, call) {
							continue
						}
						why = "the parsed configuration is not validated (validateConfig) before the save"
						for _, vc := range c45ValidateCalls(f, pk) {
							sameCfg := false
							for _, l := range an.Deps(an.Args(vc)[0], nil) {
								for _, m := range an.Deps(an.Args(um)[1], nil) {
									if l == m {
										sameCfg = true
									}
								}
							}
							if sameCfg && an.OnNilEdgeOf(f, vc, call) {
								ok = true
							}
						}
					}
				}
				if !ok && data != nil {
					// parse + validate delegated to a helper of the package
					for _, hc := range an.AllCalls(f) {
						h := an.Callee(hc).Static
						if h == nil || h.Blocks == nil || h.Pkg != f.Pkg || h == f {
							continue
						}
						for i, a := range an.Args(hc) {
							if an.SameObj(a, data) && c45Validates(h, i, pk) && an.OnNilEdgeOf(f, hc, call) {
								ok = true
							}
						}
					}
				}
				c.Check(ok, "O3", "R-DOM", an.FuncName(f), "save<=parse-ok&&validate-ok", call.Pos(),
					"body saved to the cache only after it parsed and validated",
					"a fetched body can be written to the cache without having been parsed and validated: "+why+" (a later cached read would return an unvalidated configuration)")
			}
		}
	}
	c.Min("O3 calls of the cache saver", nO3, 1)

	// ---- O4: newest first
	nO4 := 0
	for _, call := range an.CallsDeep(lister, an.M("slices", "", "SortFunc"), an.M("slices", "", "SortStableFunc"), an.M("sort", "", "Slice"), an.M("sort", "", "SliceStable")) {
		args := call.Common().Args
		if len(args) < 2 {
			continue
		}
		var cmp *ssa.Function
		switch x := args[1].(type) {
		case *ssa.MakeClosure:
			cmp, _ = x.Fn.(*ssa.Function)
		case *ssa.Function:
			cmp = x
		}
		if cmp == nil || len(cmp.Params) != 2 {
			continue
		}
		nO4++
		ok, why := true, ""
		for _, r := range an.Returns(cmp) {
			cc, isCmp := an.IsCallTo(r.Results[0], an.M("strings", "", "Compare"), an.M("cmp", "", "Compare"))
			if !isCmp {
				ok, why = false, "result is not strings.Compare(...)"
				continue
			}
			for i, a := range cc.Call.Args {
				want := cmp.Params[1-i]
				only := true
				n := 0
				for _, l := range an.Deps(a, nil) {
					if _, isConst := l.(*ssa.Const); isConst {
						continue
					}
					n++
					if l != ssa.Value(want) {
						only = false
					}
				}
				if !only || n == 0 {
					ok, why = false, fmt.Sprintf("operand %d of Compare does not derive from parameter %s only (descending order needs Compare(f(b), f(a)))", i, want.Name())
				}
			}
		}
		c.Check(ok, "O4", "R-MIRROR", an.FuncName(lister), "sort-newest-first", call.Pos(),
			"cache files sorted descending by name (newest timestamp first)",
			"cache files are not sorted newest-first: "+why+" (the cached reader would prefer an old version)")
	}
	c.Min("O4 sort in the cache lister", nO4, 1)
	for _, r := range readers {
		for _, rd := range an.Calls(r, an.M("os", "", "ReadFile"), an.M("os", "", "Open")) {
			for _, l := range an.Deps(an.Args(rd)[0], &an.DepOpts{Stop: func(x ssa.Value) bool {
				u, ok := x.(*ssa.UnOp)
				if !ok || u.Op != token.MUL {
					return false
				}
				_, isIdx := u.X.(*ssa.IndexAddr)
				return isIdx
			}}) {
				u, ok := l.(*ssa.UnOp)
				if !ok {
					continue
				}
				ia, ok := u.X.(*ssa.IndexAddr)
				if !ok {
					continue
				}
				if k, isConst := an.ConstOf(ia.Index); isConst {
					c.Check(k.String() == "0", "O4", "R-CONST", an.FuncName(r), "read-index-0", rd.Pos(),
						"reader takes the first (newest) listed file", "reader takes listed file #"+k.String()+" instead of the newest (#0)")
				} else {
					c.OK("O4", "R-CONST", an.FuncName(r), "read-in-list-order", rd.Pos(), "reader walks the listed files in order")
				}
			}
		}
	}

	// ---- O5: cleanup keeps the newest cacheSize >= 1 files
	// the number of versions kept: the int field of Client written by the exported option WithCacheSize
	var fSize *types.Var
	if ctor := p.Func(pk, "", "WithCacheSize"); ctor != nil {
		for _, cl := range an.WithClosures(ctor) {
			an.Instrs(cl, func(in ssa.Instruction) {
				if st, ok := in.(*ssa.Store); ok {
					if fl, _ := an.FieldOf(st.Addr); fl != nil && c15IsIntT(fl.Type()) {
						fSize = fl
					}
				}
			})
		}
	}
	if c.Need(fSize != nil, "autoconf.Client.cacheSize") {
		nRm := 0
		for _, f := range fns {
			lc := an.LocalCallers([]*ssa.Function{f}, lister)
			if len(lc) == 0 || len(an.Calls(f, an.M("os", "", "Remove"), an.M("os", "", "RemoveAll"))) == 0 {
				continue
			}
			for _, rm := range an.Calls(f, an.M("os", "", "Remove"), an.M("os", "", "RemoveAll")) {
				nRm++
				// the removed name is an element of listed[cacheSize:]
				// — either an element of the slice listed[cacheSize:], or listed[i]
				// with an index that is never below cacheSize
				ok := false
				isTail := func(v ssa.Value) bool {
					sl, is := v.(*ssa.Slice)
					if !is || sl.Low == nil || sl.High != nil {
						return false
					}
					fl, _ := an.LoadedField(sl.Low)
					return fl == fSize
				}
				elemLoad := func(x ssa.Value) *ssa.IndexAddr {
					if u, isU := x.(*ssa.UnOp); isU && u.Op == token.MUL {
						if ia, isIA := u.X.(*ssa.IndexAddr); isIA {
							return ia
						}
					}
					return nil
				}
				nGood, nBad := 0, 0
				for _, l := range an.Deps(an.Args(rm)[0], &an.DepOpts{Stop: func(x ssa.Value) bool {
					_, is := x.(*ssa.Slice)
					return is || elemLoad(x) != nil
				}}) {
					if isTail(l) {
						nGood++
						continue
					}
					ia := elemLoad(l)
					if ia == nil || !an.IsString(l.Type()) {
						continue
					}
					// ... or the element is read only where index >= cacheSize was tested
					idx := ia.Index
					tested := an.CmpEdges(f, func(op token.Token, a, b ssa.Value) (bool, bool) {
						if b == idx {
							a, b, op = b, a, an.SwapCmp(op)
						}
						if fl, _ := an.LoadedField(b); a != idx || fl != fSize {
							return false, false
						}
						switch op {
						case token.GEQ, token.GTR:
							return true, false
						case token.LSS:
							return false, true
						}
						return false, false
					})
					if isTail(ia.X) || c45AtLeast(idx, fSize, map[ssa.Value]bool{}) || (len(tested) > 0 && an.GuardedBy(f, nil, ia, tested)) {
						nGood++
					} else {
						nBad++
					}
				}
				ok = nGood > 0 && nBad == 0
				c.Check(ok, "O5", "R-FLOW", an.FuncName(f), "remove-only-beyond-cacheSize", rm.Pos(),
					"cleanup removes only listed[cacheSize:] (the oldest files)",
					"cleanup removes a cache file that is not taken from listed[cacheSize:]: the newest valid version can be deleted")
			}
		}
		c.Min("O5 removals in cache cleanup", nRm, 1)
		nSt := 0
		for _, f := range fns {
			for _, st := range an.FieldStores(f, fSize) {
				nSt++
				if k, ok := an.ConstOf(st.Val); ok {
					v, exact := constant.Int64Val(k)
					c.Check(exact && v >= 1, "O5", "R-CONST", an.FuncName(f), "cacheSize-const>=1", st.Pos(), "cacheSize default >= 1", "cacheSize set to constant "+k.String()+" < 1: cleanup would delete every cached version")
					continue
				}
				val := st.Val
				edges := an.CmpEdges(f, func(op token.Token, x, y ssa.Value) (bool, bool) {
					// normalise to  val OP k
					var k constant.Value
					if an.SameObj(x, val) {
						kk, ok := an.ConstOf(y)
						if !ok {
							return false, false
						}
						k = kk
					} else if an.SameObj(y, val) {
						kk, ok := an.ConstOf(x)
						if !ok {
							return false, false
						}
						k, op = kk, an.SwapCmp(op)
					} else {
						return false, false
					}
					n, exact := constant.Int64Val(k)
					if !exact {
						return false, false
					}
					atLeast1 := func(op token.Token) bool {
						switch op {
						case token.GEQ:
							return n >= 1
						case token.GTR:
							return n >= 0
						case token.EQL:
							return n >= 1
						}
						return false
					}
					return atLeast1(op), atLeast1(an.NegateCmp(op))
				})
				c.Check(an.GuardedBy(f, nil, st, edges), "O5", "R-CMP", an.FuncName(f), "cacheSize-store-guarded>=1", st.Pos(),
					"cacheSize stored only where the value is known >= 1",
					"cacheSize can be set to a value < 1: cleanup (files[cacheSize:]) would then delete every cached version including the newest")
			}
		}
		c.Min("O5 stores to cacheSize", nSt, 1)
	}
}

// c45RenameFromTemp checks idiom A at one os.Rename(src, final): src is the
// Name() of an os.CreateTemp file whose pattern the lister rejects, and the
// rename is reached only after every write to that file succeeded.
func c45RenameFromTemp(fn *ssa.Function, rename ssa.CallInstruction, matches func(string) bool) (bool, string) {
	final := an.Args(rename)[1]
	sameDirAs := func(v ssa.Value) bool {
		for _, l := range an.Deps(v, nil) {
			for _, m := range an.Deps(final, nil) {
				if _, isConst := l.(*ssa.Const); !isConst && l == m {
					return true
				}
			}
		}
		return false
	}
	return c45TempSource(fn, an.Args(rename)[0], rename, sameDirAs, matches, 0)
}

// c45TempSource: value src, needed at instruction `at` of fn, is the name of an
// os.CreateTemp file (pattern rejected by the lister, directory accepted by
// dirOK) and `at` is reached only after every write to that file succeeded.
// The temp file may be produced by a helper of the package that returns its
// name: then the helper's successful returns take the place of `at`.
func c45TempSource(fn *ssa.Function, src ssa.Value, at ssa.Instruction, dirOK func(ssa.Value) bool, matches func(string) bool, depth int) (bool, string) {
	isLocal := func(x ssa.Value) (*ssa.Call, int) {
		idx := 0
		if e, ok := x.(*ssa.Extract); ok {
			x, idx = e.Tuple, e.Index
		}
		call, ok := x.(*ssa.Call)
		if !ok {
			return nil, 0
		}
		if g := an.Callee(call).Static; g != nil && g.Blocks != nil && g.Pkg == fn.Pkg && g != fn {
			return call, idx
		}
		return nil, 0
	}
	for _, l := range an.Deps(src, &an.DepOpts{Stop: func(x ssa.Value) bool {
		if _, ok := an.IsCallTo(x, an.M("os", "", "CreateTemp")); ok {
			return true
		}
		lc, _ := isLocal(x)
		return lc != nil
	}}) {
		if lc, idx := isLocal(l); lc != nil && depth < 2 {
			g := an.Callee(lc).Static
			if !an.OnNilEdgeOf(fn, lc, at) {
				return false, "the temporary file name returned by " + g.Name() + " is used although the helper reported an error"
			}
			off := 0
			if g.Signature.Recv() != nil {
				off = 1
			}
			inner := func(v ssa.Value) bool {
				// the helper's directory value, seen from the caller
				for _, d := range an.Deps(v, nil) {
					if par, ok := d.(*ssa.Parameter); ok && par.Parent() == g {
						if a := an.ArgAt(lc, an.ParamIndex(g, par)); a != nil && dirOK(a) {
							return true
						}
					}
				}
				return false
			}
			_ = off
			n := g.Signature.Results().Len()
			nSucc := 0
			for _, es := range an.ResultSites(g, n-1) {
				if !an.IsNilConst(es.Val) {
					continue
				}
				for _, ss := range an.ResultSites(g, idx) {
					if ss.Ret != es.Ret {
						continue
					}
					nSucc++
					if ok, why := c45TempSource(g, ss.Val, ss.At, inner, matches, depth+1); !ok {
						return false, why
					}
				}
			}
			if nSucc == 0 {
				return false, "helper " + g.Name() + " has no successful return"
			}
			return true, ""
		}
	}
	var tmpCalls []*ssa.Call
	for _, l := range an.Deps(src, &an.DepOpts{Stop: func(x ssa.Value) bool {
		_, ok := an.IsCallTo(x, an.M("os", "", "CreateTemp"))
		return ok
	}}) {
		ct, ok := an.IsCallTo(l, an.M("os", "", "CreateTemp"))
		if !ok {
			if _, isConst := l.(*ssa.Const); isConst {
				continue
			}
			return false, "os.Rename source does not come from os.CreateTemp only"
		}
		tmpCalls = append(tmpCalls, ct)
	}
	if len(tmpCalls) == 0 {
		return false, "os.Rename source does not come from os.CreateTemp"
	}
	for _, ct := range tmpCalls {
		// same directory as the final name (rename is atomic only within a file system)
		if !dirOK(ct.Call.Args[0]) {
			return false, "the temporary file is not created in the directory of the final name (os.Rename across directories/file systems is not an atomic replace)"
		}
		k, ok := an.ConstOf(ct.Call.Args[1])
		if !ok || k.Kind() != constant.String {
			return false, "os.CreateTemp pattern is not a constant"
		}
		pat := constant.StringVal(k)
		// the generated name is prefix+random+suffix (suffix = text after the last '*')
		sample := pat + "0123456789"
		if i := strings.LastIndex(pat, "*"); i >= 0 {
			sample = pat[:i] + "0123456789" + pat[i+1:]
		}
		if matches(sample) {
			return false, fmt.Sprintf("temporary files named by pattern %q are accepted by the cache lister (a torn temp file would be read as a cache version)", pat)
		}
		// every write through the temp file must have succeeded before the rename
		file := an.Result(ct, 0)
		isTmp := func(v ssa.Value) bool {
			for _, l := range an.Deps(v, &an.DepOpts{Stop: func(x ssa.Value) bool {
				_, ok := an.IsCallTo(x, an.M("os", "", "CreateTemp"))
				return ok
			}}) {
				if c2, ok := an.IsCallTo(l, an.M("os", "", "CreateTemp")); ok && c2 == ct {
					return true
				}
			}
			return false
		}
		_ = file
		nW := 0
		for _, w := range an.AllCalls(fn) {
			ci := an.Callee(w)
			isWrite := false
			switch {
			case ci.Pkg == "os" && ci.Recv == "File" && (ci.Name == "Write" || ci.Name == "WriteString" || ci.Name == "ReadFrom" || ci.Name == "WriteAt"):
				isWrite = an.Recv(w) != nil && isTmp(an.Recv(w))
			case ci.Pkg == "io" && (ci.Name == "Copy" || ci.Name == "WriteString" || ci.Name == "CopyN"):
				isWrite = isTmp(w.Common().Args[0])
			case ci.Invoke && ci.Name == "Write":
				isWrite = isTmp(w.Common().Value)
			}
			if !isWrite {
				continue
			}
			nW++
			if !an.OnNilEdgeOf(fn, w, at) {
				return false, "os.Rename to the final name is reachable although writing the temporary file failed (or before it was written)"
			}
		}
		if nW == 0 {
			return false, "no write to the temporary file found before os.Rename"
		}
	}
	return true, ""
}

// c45Validates: helper h returns a nil error only after json.Unmarshal of its
// parameter i and validateConfig of the parsed configuration both succeeded.
func c45Validates(h *ssa.Function, i int, pk string) bool {
	off := 0
	if h.Signature.Recv() != nil {
		off = 1
	}
	n := h.Signature.Results().Len()
	if i+off >= len(h.Params) || n == 0 || !an.IsErrorType(h.Signature.Results().At(n-1).Type()) {
		return false
	}
	par := h.Params[i+off]
	for _, um := range an.Calls(h, an.M("encoding/json", "", "Unmarshal")) {
		if an.Args(um)[0] != ssa.Value(par) {
			continue
		}
		for _, vc := range c45ValidateCalls(h, pk) {
			same := false
			for _, l := range an.Deps(an.Args(vc)[0], nil) {
				for _, m := range an.Deps(an.Args(um)[1], nil) {
					if l == m {
						same = true
					}
				}
			}
			if !same {
				continue
			}
			all, nSucc := true, 0
			for _, rs := range an.ResultSites(h, n-1) {
				if !an.IsNilConst(rs.Val) {
					continue
				}
				nSucc++
				if !an.OnNilEdgeOf(h, um, rs.At) || !an.OnNilEdgeOf(h, vc, rs.At) {
					all = false
				}
			}
			if all && nSucc > 0 {
				return true
			}
		}
	}
	return false
}

// c45ValidateCalls: calls of the configuration validator — by role: a function
// or method of the package taking a *Config (only) and returning only an error.
func c45ValidateCalls(f *ssa.Function, pk string) []ssa.CallInstruction {
	var out []ssa.CallInstruction
	for _, call := range an.AllCalls(f) {
		g := an.Callee(call).Static
		if g == nil || g.Pkg == nil || g.Pkg.Pkg.Path() != an.Mod+"/"+pk {
			continue
		}
		ps, rs := g.Signature.Params(), g.Signature.Results()
		if ps.Len() == 1 && an.TypeIs(ps.At(0).Type(), pk, "Config") && rs.Len() == 1 && an.IsErrorType(rs.At(0).Type()) {
			out = append(out, call)
		}
	}
	return out
}

// c45AtLeast: the int value v is never below the value of field fl: it is a
// read of fl, such a value plus a non-negative constant, or a loop variable
// (phi) that starts at such a value and is only stepped upwards.
func c45AtLeast(v ssa.Value, fl *types.Var, assumed map[ssa.Value]bool) bool {
	if assumed[v] {
		return true
	}
	if f, _ := an.LoadedField(v); f != nil && f == fl {
		return true
	}
	switch v := v.(type) {
	case *ssa.BinOp:
		if v.Op != token.ADD {
			return false
		}
		nonNeg := func(x ssa.Value) bool {
			k, ok := an.ConstOf(x)
			if !ok || k.Kind() != constant.Int {
				return false
			}
			return constant.Sign(k) >= 0
		}
		return (nonNeg(v.Y) && c45AtLeast(v.X, fl, assumed)) || (nonNeg(v.X) && c45AtLeast(v.Y, fl, assumed))
	case *ssa.Phi:
		assumed[v] = true
		for _, e := range v.Edges {
			if !c45AtLeast(e, fl, assumed) {
				delete(assumed, v)
				return false
			}
		}
		return true
	}
	return false
}
