package props

import (
	"fmt"
	"go/constant"
	"go/token"
	"go/types"
	"sort"
	"strings"

	"golang.org/x/tools/go/ssa"

	"verif/checker/an"
)

func init() {
	register("C02", Prop{
		Pkgs: []string{"./blockstore"},
		Explain: "Decided (structural necessary conditions of cache transparency): " +
			"O1 in the two-queue cache every call on the wrapped store and every cache write/invalidate happens while the per-key lock of cacheKey(<the CID involved>) is held (write mode for Put/PutMany/DeleteBlock), every lock is released with the same key and mode, the batched put locks every key of the batch before the store call and unlocks the same key list afterwards; the lock helper takes the RWMutex in the requested mode and keeps its reference count under the table mutex; cacheKey is the multihash; " +
			"O2 a positive cache entry is written only on evidence of presence (store call returned nil / a non-nil block) with the size of the very block, a negative entry only on IsNotFound or successful delete, and a failing mutator always invalidates or rewrites the entries of its keys; " +
			"O3 every answer given without consulting the store rests on queryCache's ok==true edge with the matching polarity of has (and size>=0 for sizes); PutMany skips a block only on ok&&has; " +
			"O4 Bloom: active.Store(true) only after populate(<the filter that is live>) returned nil and while buildMu is held; populate returns nil only after the key channel was closed and errFn() returned nil, adds key.Hash() of every received key to its target; hasCached answers conclusively only where BloomActive() and !HasTS(k.Hash()) on the live filter; Rebuild deactivates before swapping and swaps before populating; every answer given without the store rests on hasCached's ok&&!has edge; " +
			"O5 after a successful store write Bloom Put/PutMany add the multihash of every written block to the live filter; " +
			"O6 the key enumeration goroutine records an error before every exit other than the end of the result set, closes the key channel before signalling completion, and the error function waits for completion before reading the error; " +
			"O8 the cache layers' PutMany report success only after the whole batch was consumed; the batch's keys are sorted and de-duplicated before they are locked; a query entry carrying an error is recorded before the enumeration goes on; the Bloom filter pointer that receives AddTS is loaded after the store write returned; " +
			"O9 where a slice is compacted in place (elements stored at a running index inside a loop, the slice re-sliced to a bound derived from that index after the loop), the bound keeps every element written: bound == index+1 when the index is advanced before the write, bound == index when it is advanced after (no obligation when no such loop exists); " +
			"O7 every type that implements Blockstore by delegating AllKeysChan to a wrapped Blockstore also implements AllKeysChanWithErr by delegating to the same wrapped store (so enumeration errors are not lost between a cache and the datastore). " +
			"NOT decided: linearizability itself, LRU eviction, snapshot-consistency of datastore enumeration during Rebuild, stores that are sources and cannot report enumeration errors (Filestore, gateway stores).",
		Assume:    []string{"sync.RWMutex, atomic.Bool/Pointer, golang-lru and bbloom behave as documented", "the wrapped store's answers are linearizable per key"},
		Technique: "lock-state dataflow with a per-key lock model (R-GUARD), condition-edge dominance (R-DOM), must-follow (R-POST), value provenance (R-FLOW), interface-implementer sweep (R-SIB)",
		Run:       runC02,
	})
}

func runC02(c *an.Ctx) {
	c02Tq(c)
	c02Bloom(c)
	c02Enum(c)
	c02Siblings(c)
	// O8: the caches' batched puts consume the whole batch (shared rule with C01 O11)
	n := 0
	for _, typ := range []*types.Named{c01TTqcache(c.P), c01TBloomcache(c.P)} {
		for _, fn := range c01MethodsOf(c.P, "blockstore", typ) {
			n += c01BatchComplete(c, fn, "O8")
		}
	}
	c.Min("O8 batched puts of the cache layers", n, 1)
	c02Compaction(c)
	c.Note("advisory (not confirmed dynamically, 200 readers x 60 s against a Rebuild loop did not reproduce): bloomcache.hasCached reads the active flag and then loads the filter pointer as two separate atomic operations; a Rebuild that deactivates and swaps between the two reads lets the fresh, still empty filter answer 'absent'. A re-validation (same pointer and still active after HasTS) would close the window.")
}

// c02Compaction (O9): in-place compaction keeps every element it wrote. Only
// the two counting idioms are judged; anything else produces no obligation.
//
//	j := 0; for ... { j++; s[j] = x }; s = s[:j+1]     (index advanced before the write)
//	n := 0; for ... { s[n] = x; n++ }; s = s[:n]       (index advanced after the write)
func c02Compaction(c *an.Ctx) {
	// off: v == base + k, syntactically
	var off func(v ssa.Value) (ssa.Value, int64, bool)
	off = func(v ssa.Value) (ssa.Value, int64, bool) {
		if b, ok := v.(*ssa.BinOp); ok && (b.Op == token.ADD || b.Op == token.SUB) {
			if k, isK := an.ConstOf(b.Y); isK && k.Kind() == constant.Int {
				n, exact := constant.Int64Val(k)
				if base, k0, ok := off(b.X); ok && exact {
					if b.Op == token.SUB {
						n = -n
					}
					return base, k0 + n, true
				}
			}
			return nil, 0, false
		}
		if cv, ok := v.(*ssa.Convert); ok {
			return off(cv.X)
		}
		return v, 0, true
	}
	sliceField := func(v ssa.Value) (*types.Var, string) {
		ld, ok := v.(*ssa.UnOp)
		if !ok || ld.Op != token.MUL {
			return nil, ""
		}
		f, _ := an.FieldOf(ld.X)
		if f == nil {
			return nil, ""
		}
		return f, an.PathOf(ld.X)
	}
	for _, fn := range c.P.PkgFuncs("blockstore") {
		if fn.Blocks == nil {
			continue
		}
		name := an.FuncName(fn)
		an.Instrs(fn, func(in ssa.Instruction) {
			sl, ok := in.(*ssa.Slice)
			if !ok || sl.Low != nil || sl.High == nil || sl.Max != nil {
				return
			}
			f, path := sliceField(sl.X)
			if f == nil {
				return
			}
			base, h, ok := off(sl.High)
			phi, isPhi := base.(*ssa.Phi)
			if !ok || !isPhi {
				return
			}
			// the phi is a counter: every incoming value (through merges) is the
			// phi itself, a constant, or phi+1
			seen := map[ssa.Value]bool{}
			counter, steps := true, 0
			var walk func(v ssa.Value)
			walk = func(v ssa.Value) {
				if seen[v] {
					return
				}
				seen[v] = true
				if v == ssa.Value(phi) {
					return
				}
				if _, isK := an.ConstOf(v); isK {
					return
				}
				if q, ok := v.(*ssa.Phi); ok {
					for _, e := range q.Edges {
						walk(e)
					}
					return
				}
				if b, k, ok := off(v); ok && b == ssa.Value(phi) && k == 1 {
					steps++
					return
				}
				counter = false
			}
			for _, e := range phi.Edges {
				walk(e)
			}
			if !counter || steps == 0 {
				return
			}
			// the re-slice comes after the loop
			if an.Reaches(fn, sl, phi, nil, nil) {
				return
			}
			// element writes of the same slice at phi+w inside the loop
			w, nW, uniform := int64(0), 0, true
			an.Instrs(fn, func(in2 ssa.Instruction) {
				st, ok := in2.(*ssa.Store)
				if !ok {
					return
				}
				ia, ok := st.Addr.(*ssa.IndexAddr)
				if !ok {
					return
				}
				f2, path2 := sliceField(ia.X)
				if f2 != f || path2 != path {
					return
				}
				b, k, ok := off(ia.Index)
				if !ok || b != ssa.Value(phi) || !an.Reaches(fn, st, phi, nil, nil) {
					uniform = false
					return
				}
				if nW > 0 && k != w {
					uniform = false
				}
				w = k
				nW++
			})
			if nW == 0 || !uniform || (w != 0 && w != 1) {
				return
			}
			c.Check(h == w, "O9", "R-BOUND", name, "compacted "+types.TypeString(f.Type(), func(p *types.Package) string { return p.Name() })+"[:bound] keeps every written element", sl.Pos(),
				"the bound of the compacted slice covers the last element written",
				"a slice compacted in place is cut at a bound that does not match the running index of the elements written: the last kept element is dropped (or a stale one kept): a block of the batch is acknowledged but never handed to the store, and is later reported missing")
		})
	}
}

// ---------------------------------------------------------------------------
// two-queue cache

type c02tq struct {
	c                            *an.Ctx
	fStore, fViewer, fCache      *types.Var
	lock, unlock, query, cacheKy *ssa.Function
	writers                      map[*ssa.Function]string // have | size | invalidate
	pkgFns                       []*ssa.Function
}

// c02LoadOfField: v is a load of field f (of any base).
func c02LoadOfField(v ssa.Value, fs ...*types.Var) *types.Var {
	u, ok := v.(*ssa.UnOp)
	if !ok || u.Op != token.MUL {
		return nil
	}
	f, _ := an.FieldOf(u.X)
	for _, x := range fs {
		if x != nil && f == x {
			return f
		}
	}
	return nil
}

func c02IsBool(t types.Type) bool { return types.Identical(t.Underlying(), types.Typ[types.Bool]) }
func c02IsString(t types.Type) bool {
	return types.Identical(t.Underlying(), types.Typ[types.String])
}

// c02CidArgs classifies the CID / block / block-slice arguments of a call.
func c02CidArgs(call ssa.CallInstruction) (cidv, blk, slice ssa.Value) {
	for _, a := range an.Args(call) {
		switch {
		case an.TypeIs(a.Type(), c01Cid, "Cid"):
			cidv = a
		case an.TypeIs(a.Type(), c01Blocks, "Block"):
			blk = a
		default:
			if s, ok := a.Type().Underlying().(*types.Slice); ok && an.TypeIs(s.Elem(), c01Blocks, "Block") {
				slice = a
			}
		}
	}
	return
}

func c02Tq(c *an.Ctx) {
	p := c.P
	const pkg = "blockstore"
	t := &c02tq{c: c, writers: map[*ssa.Function]string{}, pkgFns: p.PkgFuncs(pkg)}
	tTq := c01TTqcache(p)
	if !c.Need(tTq != nil, "the Blockstore implementation of package blockstore that holds a *lru.TwoQueueCache") {
		return
	}
	t.fStore, t.fViewer = c01One(c01FieldBy(tTq, c01IsBlockstoreT)), c01One(c01FieldBy(tTq, c01IsViewerT))
	t.fCache = c01One(c01FieldBy(tTq, func(x types.Type) bool { return an.TypeIs(x, "github.com/hashicorp/golang-lru/v2", "TwoQueueCache") }))
	meths := c01MethodsOf(p, pkg, tTq)
	if !c.Need(t.fStore != nil && t.fViewer != nil && t.fCache != nil && len(meths) > 0, "blockstore.tqcache fields blockstore, viewer, cache and methods") {
		return
	}
	// role-based discovery of the helpers
	for _, fn := range meths {
		sg := fn.Signature
		nAdd, nRem, nGet, nLock, nUnlock := 0, 0, 0, 0, 0
		for _, call := range an.AllCalls(fn) {
			ci := an.Callee(call)
			if ci.Recv == "TwoQueueCache" && c02LoadOfField(an.Recv(call), t.fCache) != nil {
				switch ci.Name {
				case "Add":
					nAdd++
				case "Remove":
					nRem++
				case "Get", "Peek", "Contains":
					nGet++
				}
			}
			if ci.Pkg == "sync" && ci.Recv == "RWMutex" {
				switch ci.Name {
				case "Lock", "RLock":
					nLock++
				case "Unlock", "RUnlock":
					nUnlock++
				}
			}
		}
		isKeyBool := sg.Params().Len() == 2 && c02IsString(sg.Params().At(0).Type()) && c02IsBool(sg.Params().At(1).Type()) && sg.Results().Len() == 0
		switch {
		case nLock > 0 && nUnlock == 0 && isKeyBool:
			t.lock = fn
		case nUnlock > 0 && nLock == 0 && isKeyBool:
			t.unlock = fn
		case nGet > 0 && nAdd == 0 && sg.Params().Len() == 1 && c02IsString(sg.Params().At(0).Type()) && sg.Results().Len() == 3:
			t.query = fn
		case nAdd > 0 && nRem == 0 && sg.Params().Len() == 2 && sg.Results().Len() == 0:
			// kind by the dynamic type stored
			for _, call := range an.Calls(fn, an.M("", "TwoQueueCache", "Add")) {
				v := an.Args(call)[1]
				if mi, ok := v.(*ssa.MakeInterface); ok {
					switch {
					case c02IsBool(mi.X.Type()): // entry kind: named bool = "has / has not"
						t.writers[fn] = "have"
					case types.Identical(mi.X.Type().Underlying(), types.Typ[types.Int]): // named int = "has, with size"
						t.writers[fn] = "size"
					}
				}
			}
		case nRem > 0 && nAdd == 0 && sg.Params().Len() == 1 && sg.Results().Len() == 0:
			t.writers[fn] = "invalidate"
		}
	}
	for _, fn := range p.PkgFuncs(pkg) {
		sg := fn.Signature
		if fn.Parent() == nil && sg.Recv() == nil && sg.Params().Len() == 1 && an.TypeIs(sg.Params().At(0).Type(), c01Cid, "Cid") &&
			sg.Results().Len() == 1 && c02IsString(sg.Results().At(0).Type()) {
			for _, m := range meths {
				for _, call := range an.AllCalls(m) {
					if call.Common().StaticCallee() == fn {
						t.cacheKy = fn
					}
				}
			}
		}
	}
	kinds := map[string]int{}
	for _, k := range t.writers {
		kinds[k]++
	}
	if !c.Need(t.lock != nil && t.unlock != nil && t.query != nil && t.cacheKy != nil && kinds["have"] == 1 && kinds["size"] == 1 && kinds["invalidate"] == 1,
		"tqcache helpers by role: per-key lock(string,bool), unlock(string,bool), cache query (string)->(bool,int,bool), writers of cacheHave/cacheSize entries, invalidator, cacheKey(cid) string") {
		return
	}

	t.helpers()

	batchHelpers := map[*ssa.Function]bool{}
	for _, fn := range meths {
		if len(t.lockAllOps(fn)) > 0 {
			if H, _, _, _ := t.batchStoreHelper(fn); H != nil {
				// only when every caller of the helper is such a batch context
				all := true
				for _, cs := range an.CallSitesOf(t.pkgFns, H) {
					if len(t.lockAllOps(cs.Caller)) == 0 {
						all = false
					}
				}
				if all {
					batchHelpers[H] = true
				}
			}
		}
	}
	nStore, nWrite, nEarly := 0, 0, 0
	for _, fn := range meths {
		if fn == t.lock || fn == t.unlock || fn == t.query || t.writers[fn] != "" {
			continue
		}
		if _, _, ok := t.allHelper(fn, t.lock); ok {
			continue // lock-all helper: summarised at its call sites
		}
		if _, _, ok := t.allHelper(fn, t.unlock); ok {
			continue
		}
		if batchHelpers[fn] {
			continue // checked from its caller, which holds the locks of all its keys
		}
		a, b, e := t.method(fn)
		nStore += a
		nWrite += b
		nEarly += e
	}
	c.Min("O1 tqcache store calls carrying a CID/block", nStore, 1)
	c.Min("O2 tqcache cache writes", nWrite, 1)
	c.Min("O3 tqcache answers from the cache", nEarly, 1)
}

// helpers checks the lock helper bodies and cacheKey.
func (t *c02tq) helpers() {
	c := t.c
	// cacheKey = string(k.Hash())
	okKey := true
	for _, r := range an.Returns(t.cacheKy) {
		for _, root := range an.Roots(r.Results[0], nil) {
			hc, ok := an.IsCallTo(root, an.M(c01Cid, "Cid", "Hash"))
			if !ok || hc.Call.Args[0] != ssa.Value(t.cacheKy.Params[0]) {
				okKey = false
			}
		}
	}
	c.Check(okKey, "O1", "R-FLOW", an.FuncName(t.cacheKy), "key=string(k.Hash())", t.cacheKy.Pos(),
		"cache key is the multihash of the CID", "the cache key is not the CID's multihash: CIDv0/CIDv1 aliases of one block get separate locks and cache entries, the cache disagrees with the multihash-keyed store")

	for _, h := range []struct {
		fn         *ssa.Function
		excl, shar string
	}{{t.lock, "Lock", "RLock"}, {t.unlock, "Unlock", "RUnlock"}} {
		fn := h.fn
		name := an.FuncName(fn)
		wr := fn.Params[2] // receiver, key, write
		onW := an.BoolEdges(fn, []ssa.Value{wr}, true)
		onR := an.BoolEdges(fn, []ssa.Value{wr}, false)
		n := 0
		for _, call := range an.Calls(fn, an.M("sync", "RWMutex", "")) {
			ci := an.Callee(call)
			n++
			var ok bool
			switch ci.Name {
			case h.excl:
				ok = an.GuardedBy(fn, nil, call, onW)
			case h.shar:
				ok = an.GuardedBy(fn, nil, call, onR)
			}
			c.Check(ok, "O1", "R-DOM", name, "RWMutex."+ci.Name+"<=mode", call.Pos(),
				"RWMutex."+ci.Name+" taken exactly for the requested mode",
				"per-key lock helper calls RWMutex."+ci.Name+" for the wrong mode (write flag): writers and readers of one key are no longer mutually exclusive / unlock mismatches lock")
		}
		c.Min("O1 RWMutex operations in "+fn.Name(), n, 1)
		// both modes are served
		for _, mode := range []struct {
			name  string
			edges an.EdgeSet
		}{{h.excl, onW}, {h.shar, onR}} {
			found := false
			for _, call := range an.Calls(fn, an.M("sync", "RWMutex", mode.name)) {
				_ = call
				found = true
			}
			c.Check(found, "O1", "R-DOM", name, "serves-"+mode.name, fn.Pos(), "mode served", "per-key lock helper never calls RWMutex."+mode.name)
		}
		// reference count and table are touched under the table mutex only
		lf := an.Locks(fn, an.SyncModel, nil, true)
		// the table mutex: the plain sync.Mutex field of the receiver locked by the helper
		tableMu := map[string]bool{}
		for _, mc := range an.Calls(fn, an.M("sync", "Mutex", "Lock")) {
			if r := an.Recv(mc); r != nil {
				if _, base := an.FieldOf(r); base != nil && base == ssa.Value(fn.Params[0]) {
					tableMu[an.PathOf(r)] = true
				}
			}
		}
		nG := 0
		an.Instrs(fn, func(in ssa.Instruction) {
			guarded := false
			what := ""
			switch x := in.(type) {
			case *ssa.Store:
				if f, _ := an.FieldOf(x.Addr); c02IsHolderCount(f, x.Addr) {
					guarded, what = true, "refcnt store"
				}
			case *ssa.MapUpdate:
				guarded, what = true, "lock table insert"
			case *ssa.Lookup:
				if _, isMap := x.X.Type().Underlying().(*types.Map); isMap {
					guarded, what = true, "lock table lookup"
				}
			case *ssa.Call:
				if _, ok := an.IsBuiltinCall(x, "delete"); ok {
					guarded, what = true, "lock table delete"
				}
			}
			if !guarded {
				return
			}
			nG++
			held := false
			for pth, m := range lf.Before[in] {
				if m == an.LWrite && tableMu[pth] {
					held = true
				}
			}
			c.Check(held, "O1", "R-GUARD", name, what+" under table mutex", in.Pos(),
				what+" happens with the table mutex held", what+" in the per-key lock helper happens without the table mutex: two goroutines can obtain different lock objects for one key")
		})
		c.Min("O1 guarded table accesses in "+fn.Name(), nG, 1)
	}
	// unlock deletes the table entry only when the count reached zero
	un := t.unlock
	isCnt := func(v ssa.Value) bool {
		u, ok := v.(*ssa.UnOp)
		if !ok || u.Op != token.MUL {
			return false
		}
		f, _ := an.FieldOf(u.X)
		return c02IsHolderCount(f, u.X)
	}
	isZero := func(v ssa.Value) bool { k, ok := an.ConstOf(v); return ok && k.String() == "0" }
	zeroEdges := an.RelEdges(un, isCnt, isZero, an.RelEQ)
	nDel := 0
	for _, call := range an.AllCalls(un) {
		cv, ok := call.(*ssa.Call)
		if !ok {
			continue
		}
		if _, isDel := an.IsBuiltinCall(cv, "delete"); !isDel {
			continue
		}
		nDel++
		c.Check(an.GuardedBy(un, nil, call, zeroEdges), "O1", "R-DOM", an.FuncName(un), "delete<=holders==0", call.Pos(),
			"lock object dropped from the table only when no holder/waiter is left",
			"the per-key lock object is removed from the table while it may still be held: a later locker of the same key gets a fresh mutex and runs concurrently with the holder")
	}
	c.Min("O1 table deletes in unlock", nDel, 1)
	// lock increments, unlock decrements
	for _, h := range []struct {
		fn *ssa.Function
		op token.Token
	}{{t.lock, token.ADD}, {t.unlock, token.SUB}} {
		ok := false
		an.Instrs(h.fn, func(in ssa.Instruction) {
			st, isSt := in.(*ssa.Store)
			if !isSt {
				return
			}
			if f, _ := an.FieldOf(st.Addr); !c02IsHolderCount(f, st.Addr) {
				return
			}
			if b, isB := st.Val.(*ssa.BinOp); isB && b.Op == h.op && isCnt(b.X) {
				if k, isK := an.ConstOf(b.Y); isK && k.String() == "1" {
					ok = true
				}
			}
		})
		c.Check(ok, "O1", "R-PAIR", an.FuncName(h.fn), "holders"+h.op.String()+"1", h.fn.Pos(), "reference count adjusted by one",
			"per-key lock helper does not adjust the reference count by one: the lock object is dropped too early or never")
	}
}

type c02lockOp struct {
	call   ssa.CallInstruction
	key    ssa.Value
	path   string
	mode   int
	defer_ bool
}

// keyPath: identity of a key value inside one function.
func c02KeyPath(v ssa.Value) string { return an.PathOf(v) }

func (t *c02tq) lockOps(fn *ssa.Function, callee *ssa.Function) []c02lockOp {
	var out []c02lockOp
	for _, call := range an.AllCalls(fn) {
		if call.Common().StaticCallee() != callee {
			continue
		}
		args := an.Args(call)
		op := c02lockOp{call: call, key: args[0], path: c02KeyPath(args[0]), mode: -1}
		if k, ok := an.ConstOf(args[1]); ok {
			if k.String() == "true" {
				op.mode = an.LWrite
			} else {
				op.mode = an.LRead
			}
		}
		_, op.defer_ = call.(*ssa.Defer)
		out = append(out, op)
	}
	return out
}

func (t *c02tq) model(c ssa.CallInstruction) []an.LockOp {
	f := c.Common().StaticCallee()
	if f != t.lock && f != t.unlock {
		return nil
	}
	args := an.Args(c)
	mode := an.LRead
	if k, ok := an.ConstOf(args[1]); ok && k.String() == "true" {
		mode = an.LWrite
	}
	return []an.LockOp{{Path: c02KeyPath(args[0]), Mode: mode, Acquire: f == t.lock}}
}

// keyIsFor: key value = cacheKey(cidv) or cacheKey(blk.Cid()).
func (t *c02tq) keyIsFor(key, cidv, blk ssa.Value) bool {
	rs := an.Roots(key, nil)
	if len(rs) == 0 {
		return false
	}
	for _, r := range rs {
		// key parameter of an unexported helper: the relation must hold at every call site
		if kp, isP := r.(*ssa.Parameter); isP && an.IsLocalHelper(kp.Parent()) {
			sites := an.CallSitesOf(t.pkgFns, kp.Parent())
			if len(sites) == 0 {
				return false
			}
			mapArg := func(cs an.CallSite, v ssa.Value) ssa.Value {
				if v == nil {
					return nil
				}
				prm, ok := v.(*ssa.Parameter)
				if !ok || prm.Parent() != kp.Parent() {
					return nil
				}
				return cs.Call.Common().Args[an.RawParamIndex(prm)]
			}
			for _, cs := range sites {
				ca, ba := mapArg(cs, cidv), mapArg(cs, blk)
				if (cidv != nil && ca == nil) || (blk != nil && ba == nil) || (ca == nil && ba == nil) {
					return false
				}
				if !t.keyIsFor(cs.Call.Common().Args[an.RawParamIndex(kp)], ca, ba) {
					return false
				}
			}
			continue
		}
		kc, ok := r.(*ssa.Call)
		if !ok || kc.Call.StaticCallee() != t.cacheKy {
			return false
		}
		a := kc.Call.Args[0]
		switch {
		case cidv != nil && an.SameObj(a, cidv):
		case blk != nil && c02IsCidOf(a, blk):
		default:
			return false
		}
	}
	return true
}

// c02IsCidOf: v is blk.Cid().
func c02IsCidOf(v, blk ssa.Value) bool {
	rs := an.Roots(v, nil)
	if len(rs) == 0 {
		return false
	}
	for _, r := range rs {
		rc, ok := r.(*ssa.Call)
		if !ok || an.Callee(rc).Name != "Cid" || len(an.Args(rc)) != 0 || an.Recv(rc) == nil || !an.SameObj(an.Recv(rc), blk) {
			return false
		}
	}
	return true
}

var c02Mutators = map[string]bool{"Put": true, "PutMany": true, "DeleteBlock": true}

// method checks O1, O2, O3 for one Blockstore/Viewer method of tqcache.
func (t *c02tq) method(fn *ssa.Function) (nStore, nWrite, nEarly int) {
	c := t.c
	name := an.FuncName(fn)
	// store calls
	var stores []ssa.CallInstruction
	for _, call := range an.AllCalls(fn) {
		if !call.Common().IsInvoke() || c02LoadOfField(call.Common().Value, t.fStore, t.fViewer) == nil {
			continue
		}
		cidv, blk, slice := c02CidArgs(call)
		if cidv == nil && blk == nil && slice == nil {
			continue
		}
		stores = append(stores, call)
	}
	type wr struct {
		call ssa.CallInstruction
		kind string
	}
	var writes []wr
	for _, call := range an.AllCalls(fn) {
		if k := t.writers[call.Common().StaticCallee()]; k != "" {
			writes = append(writes, wr{call, k})
		}
	}
	locks := t.lockOps(fn, t.lock)
	unlocks := t.lockOps(fn, t.unlock)
	if len(stores) == 0 && len(writes) == 0 && len(locks) == 0 && len(t.lockAllOps(fn)) == 0 {
		return
	}
	// multi-key idiom?
	if ops := t.lockAllOps(fn); len(ops) > 0 {
		return t.batch(fn, stores, ops)
	}
	keyOf := map[string]ssa.Value{}
	// an unexported helper runs under the locks its callers hold at every call site
	var entry an.LockState
	if an.IsLocalHelper(fn) {
		sites := an.CallSitesOf(t.pkgFns, fn)
		for i, cs := range sites {
			if _, isCall := cs.Call.(*ssa.Call); !isCall {
				entry = an.LockState{}
				break
			}
			clf := an.Locks(cs.Caller, t.model, nil, true)
			st := an.LockState{}
			for _, prm := range fn.Params {
				if !c02IsString(prm.Type()) {
					continue
				}
				a := cs.Call.Common().Args[an.RawParamIndex(prm)]
				if m := clf.Held(cs.Call, c02KeyPath(a)); m != an.LNone {
					st[c02KeyPath(prm)] = m
				}
			}
			if i == 0 {
				entry = st
				continue
			}
			for k, m := range entry {
				if st[k] < m {
					entry[k] = st[k]
				}
				if entry[k] == an.LNone {
					delete(entry, k)
				}
			}
		}
	}
	lf := an.Locks(fn, t.model, entry, true)
	for pth := range entry {
		for _, prm := range fn.Params {
			if c02KeyPath(prm) == pth {
				keyOf[pth] = prm
			}
		}
	}
	for _, l := range locks {
		keyOf[l.path] = l.key
		c.Check(l.mode >= 0, "O1", "R-GUARD", name, "lock-mode-constant", l.call.Pos(), "lock mode is a constant", "per-key lock taken with a computed mode: cannot be matched with its unlock")
	}
	// O1: store calls under the lock of their own key
	for _, s := range stores {
		nStore++
		ci := an.Callee(s)
		cidv, blk, _ := c02CidArgs(s)
		need := an.LRead
		if c02Mutators[ci.Name] {
			need = an.LWrite
		}
		held, right := 0, false
		for pth, m := range lf.Before[s] {
			if m == an.LNone {
				continue
			}
			if kv := keyOf[pth]; kv != nil && t.keyIsFor(kv, cidv, blk) {
				right = true
				if m > held {
					held = m
				}
			}
		}
		construct := "store." + ci.Name + " under key lock"
		switch {
		case !right:
			c.Bad("O1", "R-GUARD", name, construct, s.Pos(), "the wrapped store's "+ci.Name+" is called without holding the per-key lock of cacheKey(<its CID>) on every path: a concurrent writer of the same key can interleave between the store access and the cache update, leaving a stale cache entry")
		case held < need:
			c.Bad("O1", "R-GUARD", name, construct, s.Pos(), "the mutating store call "+ci.Name+" runs under the read lock only: two writers (or a writer and readers) of one key update store and cache concurrently")
		default:
			c.OK("O1", "R-GUARD", name, construct, s.Pos(), "store call under the per-key lock of its own CID in the required mode")
		}
	}
	// O1: cache writes under the lock of the key they write
	for _, w := range writes {
		nWrite++
		key := an.Args(w.call)[0]
		ok := lf.Held(w.call, c02KeyPath(key)) != an.LNone
		c.Check(ok, "O1", "R-GUARD", name, "cache."+w.kind+" under key lock", w.call.Pos(), "cache entry written while its key is locked",
			"cache entry ("+w.kind+") is written without holding the per-key lock of that key: the entry can overwrite a newer one written by a concurrent operation")
	}
	// O1: every lock released with the same key and mode
	for _, l := range locks {
		ok, why := false, "no unlock of this key"
		for _, u := range unlocks {
			if u.path != l.path {
				continue
			}
			if u.mode != l.mode {
				why = "unlock mode differs from lock mode"
				continue
			}
			if u.defer_ {
				switch {
				case an.Dominates(l.call, u.call) && !an.Reaches(fn, l.call, c02AnyReturnBefore(fn, l.call, u.call), nil, map[ssa.Instruction]bool{u.call: true}):
					ok = true
				case an.Dominates(u.call, l.call) && an.ReachesAnyReturn(fn, u.call, nil, map[ssa.Instruction]bool{l.call: true}) == nil:
					ok = true // `defer unlock` registered just before the lock, no exit in between
				default:
					why = "deferred unlock is not registered on every path after the lock"
				}
			}
		}
		if !ok {
			// explicit unlocks: no return reachable with the lock held
			leak := false
			for r, st := range lf.AtExit {
				if st[l.path] != an.LNone && an.Reaches(fn, l.call, r, nil, nil) {
					leak = true
				}
			}
			if !leak && len(unlocks) > 0 {
				ok = true
				for _, u := range unlocks {
					if u.path == l.path && u.mode != l.mode {
						ok = false
					}
				}
			}
		}
		c.Check(ok, "O1", "R-PAIR", name, "lock=>unlock(same key, same mode)", l.call.Pos(), "lock released with the same key and mode on every path",
			"per-key lock is not released with the same key and mode on every path ("+why+"): later operations on the key block forever or the RWMutex is unlocked in the wrong mode")
	}

	// O2: evidence for cache writes
	var store ssa.CallInstruction
	if len(stores) == 1 {
		store = stores[0]
	}
	for _, w := range writes {
		if w.kind == "invalidate" {
			continue
		}
		if store == nil {
			c.Bad("O2", "R-DOM", name, "cache."+w.kind+"<=evidence", w.call.Pos(), fmt.Sprintf("cache entry written in a method with %d store calls: cannot attribute the evidence", len(stores)))
			continue
		}
		t.evidence(fn, store, w.call, w.kind)
	}
	if store != nil && c02Mutators[an.Callee(store).Name] {
		var set []ssa.Instruction
		for _, w := range writes {
			set = append(set, w.call)
		}
		ok, _ := an.MustFollow(fn, store, set)
		c.Check(ok, "O2", "R-POST", name, "mutator=>cache-updated-or-invalidated", store.Pos(),
			"after the mutating store call every path rewrites or invalidates the key's cache entry",
			"after "+an.Callee(store).Name+" on the wrapped store some path (e.g. the error path) returns without rewriting or invalidating the cache entry of the key: the store may have changed while the cache keeps the old answer")
	}

	// O3: answers without the store
	nEarly += t.early(fn, stores, locks)
	return
}

// c02AnyReturnBefore is a helper for the deferred-unlock check: it returns a
// return instruction reachable from lock without passing the defer, or the
// defer itself when there is none (making the Reaches query false).
func c02AnyReturnBefore(fn *ssa.Function, lock, deferI ssa.Instruction) ssa.Instruction {
	for _, r := range an.Returns(fn) {
		if an.Reaches(fn, lock, r, nil, map[ssa.Instruction]bool{deferI: true}) {
			return r
		}
	}
	return lock // Reaches(lock -> lock) is false outside loops
}

// evidence checks one positive/negative cache write against the store call.
func (t *c02tq) evidence(fn *ssa.Function, store, w ssa.CallInstruction, kind string) {
	c := t.c
	name := an.FuncName(fn)
	sci := an.Callee(store)
	errs := an.ErrResult(store)
	nilE := an.NilEdges(fn, errs, true)
	args := an.Args(w)
	val := args[1]
	_, sblk, _ := c02CidArgs(store)
	construct := "cache." + kind + "<=evidence(" + sci.Name + ")"
	if !an.Dominates(store, w) {
		c.Bad("O2", "R-DOM", name, construct, w.Pos(), "cache entry written before the store was consulted")
		return
	}
	if kind == "have" {
		if k, ok := an.ConstOf(val); ok && k.String() == "false" {
			// negative entry
			var ok2 bool
			if sci.Name == "DeleteBlock" {
				ok2 = an.GuardedBy(fn, store, w, nilE)
			} else {
				nf := an.CallEdges(fn, an.M("github.com/ipfs/go-ipld-format", "", "IsNotFound"), 0, func(v ssa.Value) bool {
					al := an.Aliases(errs...)
					return al[v]
				}, true)
				ok2 = an.GuardedBy(fn, store, w, nf)
			}
			c.Check(ok2, "O2", "R-DOM", name, construct, w.Pos(), "negative entry only on not-found / successful delete",
				"a 'not present' cache entry is written without the store having answered not-found (or a delete having succeeded): a stored block is then reported missing")
			// the error tested must be the store's own: when the store call is handed
			// a callback, an error returned by user code must not come back through it
			if src := c02CallbackErrorSource(fn, store); src != "" {
				c.Bad("O2", "R-FLOW", name, "not-found-is-the-store's-own-error("+sci.Name+")", w.Pos(),
					"the error whose not-found-ness makes the cache record 'absent' can originate from the caller's callback ("+src+"): a callback returning ipld.ErrNotFound for a block that IS stored makes the cache report the block missing")
			} else if len(c02FuncArgs(store)) > 0 {
				c.OK("O2", "R-FLOW", name, "not-found-is-the-store's-own-error("+sci.Name+")", w.Pos(), "the function handed to the store never returns the user callback's error")
			}
			return
		}
		// have := result of store.Has
		okV := sci.Name == "Has"
		for _, r := range an.Roots(val, nil) {
			e, ok := r.(*ssa.Extract)
			if !ok || e.Tuple != ssa.Value(an.CallValue(store)) || e.Index != 0 {
				okV = false
			}
		}
		c.Check(okV && an.GuardedBy(fn, store, w, nilE), "O2", "R-DOM", name, construct, w.Pos(), "existence entry = the store's own answer, on its nil-error edge",
			"an existence cache entry is written from something else than the store's successful Has answer")
		return
	}
	// size entry: presence evidence
	var blkRes []ssa.Value
	if sci.Name == "Get" {
		blkRes = an.Result(store, 0)
	}
	ev := nilE.Union(an.NilEdges(fn, blkRes, false))
	okE := an.GuardedBy(fn, store, w, ev)
	// value
	okV, why := true, ""
	for _, r := range c02RootsThroughLocalFields(fn, val) {
		if e, ok := r.(*ssa.Extract); ok && sci.Name == "GetSize" && e.Tuple == ssa.Value(an.CallValue(store)) && e.Index == 0 {
			continue
		}
		lc, ok := an.IsBuiltinCall(r, "len")
		if !ok {
			okV, why = false, "size is "+an.PathOf(r)
			continue
		}
		for _, br := range an.Roots(lc.Call.Args[0], nil) {
			if rd, ok := br.(*ssa.Call); ok && an.Callee(rd).Name == "RawData" {
				x := an.Recv(rd)
				al := an.Aliases(blkRes...)
				if (sblk != nil && an.SameObj(x, sblk)) || al[x] {
					continue
				}
				okV, why = false, "size of a different block"
				continue
			}
			if prm, ok := br.(*ssa.Parameter); ok && prm.Parent().Parent() == fn {
				// buffer handed to the closure passed to the store's View
				passed := false
				for _, a := range an.Args(store) {
					if mc, ok := a.(*ssa.MakeClosure); ok && mc.Fn == prm.Parent() {
						passed = true
					}
				}
				if passed {
					continue
				}
			}
			okV, why = false, "size of "+an.PathOf(br)
		}
	}
	c.Check(okE, "O2", "R-DOM", name, construct, w.Pos(), "size entry only on evidence of presence (nil error / non-nil block)",
		"a 'present with size' cache entry is written without the store call having succeeded: a missing block is then reported present (Put is skipped, Has answers true)")
	c.Check(okV, "O2", "R-FLOW", name, "cache.size=size-of-that-block("+sci.Name+")", w.Pos(), "cached size is the size of the block involved",
		"the cached size is not the size of the block read/written ("+why+"): GetSize answers from the cache with a wrong size")
}

// early checks the answers given before taking the lock.
func (t *c02tq) early(fn *ssa.Function, stores []ssa.CallInstruction, locks []c02lockOp) int {
	c := t.c
	name := an.FuncName(fn)
	var q *ssa.Call
	for _, call := range an.AllCalls(fn) {
		if call.Common().StaticCallee() == t.query {
			if q != nil {
				c.Bad("O3", "R-DOM", name, "single-cache-query", call.Pos(), "two cache queries in one method: cannot attribute early answers")
				return 0
			}
			q = an.CallValue(call)
		}
	}
	if q == nil {
		return t.earlyViaHelper(fn, stores, locks)
	}
	blocked := map[ssa.Instruction]bool{}
	for _, l := range locks {
		blocked[l.call] = true
	}
	for _, s := range stores {
		blocked[s] = true
	}
	inf := an.InfeasibleEdges(fn)
	okT := an.BoolEdges(fn, an.Result(q, 2), true).Union(inf)
	hasT := an.BoolEdges(fn, an.Result(q, 0), true).Union(inf)
	hasF := an.BoolEdges(fn, an.Result(q, 0), false).Union(inf)
	sizeOK := an.RelEdges(fn, func(v ssa.Value) bool {
		e, ok := v.(*ssa.Extract)
		return ok && e.Tuple == ssa.Value(q) && e.Index == 1
	}, func(v ssa.Value) bool { k, ok := an.ConstOf(v); return ok && k.String() == "0" }, an.RelGE).Union(inf)
	// the key queried is the key of the CID/block parameter
	var cidv, blk ssa.Value
	for _, prm := range fn.Params {
		if an.TypeIs(prm.Type(), c01Cid, "Cid") {
			cidv = prm
		}
		if an.TypeIs(prm.Type(), c01Blocks, "Block") {
			blk = prm
		}
	}
	c.Check(t.keyIsFor(q.Call.Args[1], cidv, blk), "O3", "R-FLOW", name, "query(cacheKey(<own CID>))", q.Pos(), "the cache is queried with the key of the method's own CID",
		"the cache is queried with a key that is not cacheKey(<the CID asked about>)")
	n := 0
	for _, r := range an.Returns(fn) {
		if !an.Reaches(fn, q, r, nil, blocked) {
			continue
		}
		n++
		guard := func(es an.EdgeSet) bool { return !an.Reaches(fn, q, r, es, blocked) }
		ok, why := guard(okT), "without ok==true"
		if ok {
			switch fn.Name() {
			case "Put":
				ok, why = guard(hasT), "Put skipped without has==true"
			case "DeleteBlock":
				ok, why = guard(hasF), "DeleteBlock skipped without has==false"
			case "Has":
				v := an.RetVal(r, 0)
				e, isE := v.(*ssa.Extract)
				ok, why = isE && e.Tuple == ssa.Value(q) && e.Index == 0 && an.IsNilConst(an.RetVal(r, 1)), "Has does not return the cached flag"
			default:
				errv := an.RetVal(r, -1)
				if errv != nil && !an.IsNilConst(errv) {
					ok, why = guard(hasF), "not-found answered without has==false"
				} else if fn.Name() == "GetSize" {
					v := an.RetVal(r, 0)
					e, isE := v.(*ssa.Extract)
					ok, why = guard(hasT) && guard(sizeOK) && isE && e.Tuple == ssa.Value(q) && e.Index == 1, "size answered without has==true && size>=0 from the cache entry"
				} else {
					ok, why = false, "success answered from the cache without reading the store"
				}
			}
		}
		c.Check(ok, "O3", "R-DOM", name, "answer-from-cache", r.Pos(), "answer given without the store rests on a conclusive cache entry of the right polarity",
			"an answer is returned without consulting the store and "+why+": an inconclusive or opposite cache state decides the result")
	}
	return n
}

// c02allOp: an event of fn after which every element of the slice `keys` is
// locked (or, for releases, unlocked) in mode `mode`: an inline range loop
// over the slice calling the per-key helper for every element, or a call of a
// package helper that does exactly that with its slice parameter.
type c02allOp struct {
	at   ssa.Instruction // per-key call inside the inline loop, or the helper call / defer
	keys ssa.Value
	mode int
	loop *an.RangeLoop // nil for helper calls
	ok   bool          // every element, no early exit
}

func (o c02allOp) after(site ssa.Instruction) bool {
	if o.loop != nil {
		return o.loop.After(site)
	}
	return an.Dominates(o.at, site)
}

func (o c02allOp) entry() ssa.Instruction {
	if o.loop != nil {
		return o.loop.Header.Instrs[0]
	}
	return o.at
}

// allHelper: f does nothing but call `callee` (the per-key lock or unlock
// helper) with a constant mode for every element of one of its slice
// parameters (range loop, every iteration, no early exit).
func (t *c02tq) allHelper(f, callee *ssa.Function) (idx, mode int, ok bool) {
	if f == nil || f == t.lock || f == t.unlock || f.Blocks == nil || f.Parent() != nil {
		return 0, 0, false
	}
	ops := t.lockOps(f, callee)
	if len(ops) != 1 || ops[0].mode < 0 || ops[0].defer_ {
		return 0, 0, false
	}
	other := t.lock
	if callee == t.lock {
		other = t.unlock
	}
	if len(t.lockOps(f, other)) != 0 {
		return 0, 0, false
	}
	rl := an.RangeLoopOfElem(f, ops[0].key)
	if rl == nil || !rl.EveryIteration(ops[0].call) || len(rl.ExitEdges()) != 0 {
		return 0, 0, false
	}
	prm, isP := rl.Slice.(*ssa.Parameter)
	if !isP {
		return 0, 0, false
	}
	// nothing else of interest happens in the helper
	for _, call := range an.AllCalls(f) {
		if call.Common().IsInvoke() && c02LoadOfField(call.Common().Value, t.fStore, t.fViewer) != nil {
			return 0, 0, false
		}
		if t.writers[call.Common().StaticCallee()] != "" {
			return 0, 0, false
		}
	}
	for _, r := range an.Returns(f) {
		if an.Reaches(f, nil, r, nil, nil) && !rl.After(r) {
			return 0, 0, false
		}
	}
	for i, q := range f.Params {
		if q == prm {
			idx = i
		}
	}
	return idx, ops[0].mode, true
}

// lockAllOps lists the lock-all events of fn.
func (t *c02tq) lockAllOps(fn *ssa.Function) []c02allOp {
	var out []c02allOp
	for _, l := range t.lockOps(fn, t.lock) {
		if rl := an.RangeLoopOfElem(fn, l.key); rl != nil {
			out = append(out, c02allOp{l.call, rl.Slice, l.mode, rl, rl.EveryIteration(l.call) && len(rl.ExitEdges()) == 0})
		}
	}
	for _, call := range an.AllCalls(fn) {
		if _, isCall := call.(*ssa.Call); !isCall {
			continue
		}
		if idx, mode, ok := t.allHelper(call.Common().StaticCallee(), t.lock); ok {
			out = append(out, c02allOp{call, call.Common().Args[idx], mode, nil, true})
		}
	}
	return out
}

// batchStoreHelper: fn hands its key/block table to an unexported helper that
// performs the (single) batched store call on the table's block list.
func (t *c02tq) batchStoreHelper(fn *ssa.Function) (*ssa.Function, ssa.CallInstruction, int, ssa.CallInstruction) {
	for _, call := range an.AllCalls(fn) {
		H := call.Common().StaticCallee()
		if !an.IsLocalHelper(H) || H == fn {
			continue
		}
		if _, isCall := call.(*ssa.Call); !isCall {
			continue
		}
		var hs []ssa.CallInstruction
		for _, hc := range an.AllCalls(H) {
			if hc.Common().IsInvoke() && c02LoadOfField(hc.Common().Value, t.fStore, t.fViewer) != nil {
				if _, _, sl := c02CidArgs(hc); sl != nil {
					hs = append(hs, hc)
				}
			}
		}
		if len(hs) != 1 || len(t.lockAllOps(H)) != 0 {
			continue
		}
		_, _, sl := c02CidArgs(hs[0])
		_, base := an.FieldOf(c01LoadAddr(sl))
		prm, isP := base.(*ssa.Parameter)
		if !isP || prm.Parent() != H {
			continue
		}
		return H, call, an.RawParamIndex(prm), hs[0]
	}
	return nil, nil, 0, nil
}

// c02KeyList identifies a key list: (field, owning table object).
func c02KeyList(v ssa.Value) (*types.Var, string) {
	f, g := an.FieldOf(c01LoadAddr(v))
	if f == nil {
		return nil, ""
	}
	return f, c02ObjID(g)
}

// batch checks the multi-key idiom of PutMany.
func (t *c02tq) batch(fn *ssa.Function, stores []ssa.CallInstruction, locks []c02allOp) (nStore, nWrite, nEarly int) {
	c := t.c
	name := an.FuncName(fn)
	bad := func(construct string, pos token.Pos, msg string) { c.Bad("O1", "R-GUARD", name, construct, pos, msg) }
	// the store call may live in a helper that is handed the table
	// (`return b.putManyLocked(ctx, good)`): the caller side (locking) is checked
	// here at the helper call, the store side (cache updates) inside the helper
	hfn, hgid := fn, ""
	var hstore ssa.CallInstruction
	var store ssa.Instruction
	var tableArg ssa.Value
	if len(stores) == 0 && len(locks) == 1 {
		if H, call, idx, hs := t.batchStoreHelper(fn); H != nil {
			hfn, hstore, store, tableArg = H, hs, call, call.Common().Args[idx]
			hgid = c02ObjID(H.Params[idx])
		}
	}
	if hstore == nil && len(stores) == 1 {
		hstore, store = stores[0], stores[0]
	}
	if hstore == nil || len(locks) != 1 {
		bad("batch-shape", fn.Pos(), fmt.Sprintf("batched method with %d store calls and %d lock-all sites: idiom not recognised", len(stores), len(locks)))
		return
	}
	l := locks[0]
	nStore = 1
	// G: the object whose .keys are locked
	keysF, g := an.FieldOf(c01LoadAddr(l.keys))
	if keysF == nil {
		bad("batch-keys", l.at.Pos(), "locked keys are not a field of a key/block table")
		return
	}
	gid := c02ObjID(g)
	if hfn == fn {
		hgid = gid
	}
	_, _, slice := c02CidArgs(hstore)
	blocksF, g2 := an.FieldOf(c01LoadAddr(slice))
	sameTable := c02ObjID(g2) == hgid
	if hfn != fn {
		sameTable = sameTable && c02ObjID(tableArg) == gid
	}
	okShape := l.mode == an.LWrite && l.ok && l.after(store) &&
		blocksF != nil && sameTable && blocksF != keysF
	c.Check(okShape, "O1", "R-GUARD", name, "store.PutMany under all key locks", store.Pos(),
		"every key of the batch is write-locked (loop without early exit) before the store call on the paired block list",
		"the batched store call is not preceded by a complete write-lock loop over the keys paired with the blocks written: some block of the batch is written without its per-key lock")
	// lock order: the key list that is locked must have been sorted and
	// de-duplicated (a duplicate key would be write-locked twice by this
	// goroutine, two unsorted batches can lock in opposite orders)
	okSorted, whyS := false, "no sort of the key list before the lock loop"
	isSortCall := func(ci an.CallInfo) bool {
		return (ci.Pkg == "sort" && (ci.Name == "Sort" || ci.Name == "Stable" || ci.Name == "Strings" || ci.Name == "Slice" || ci.Name == "SliceStable")) ||
			(ci.Pkg == "slices" && (ci.Name == "Sort" || ci.Name == "SortFunc" || ci.Name == "SortStableFunc"))
	}
	for _, call := range an.AllCalls(fn) {
		f := call.Common().StaticCallee()
		if f == nil || len(call.Common().Args) == 0 || !an.Dominates(call, l.entry()) {
			continue
		}
		if f.Signature.Recv() == nil || c02ObjID(call.Common().Args[0]) != gid {
			continue
		}
		sorts, truncK, truncB := false, false, false
		for _, sc := range an.AllCalls(f) {
			if isSortCall(an.Callee(sc)) {
				sorts = true
			}
		}
		an.Instrs(f, func(in ssa.Instruction) {
			if st, ok := in.(*ssa.Store); ok {
				// the list is replaced by a re-slice of itself, possibly grown again by append
				isSl := false
				for _, r := range an.Roots(st.Val, &an.FlowOpts{StopAt: func(v ssa.Value) bool { _, ok := v.(*ssa.Slice); return ok }, Through: func(ac *ssa.Call) ([]ssa.Value, bool) {
					if _, isApp := an.IsBuiltinCall(ac, "append"); isApp {
						return []ssa.Value{ac.Call.Args[0]}, true
					}
					return nil, false
				}}) {
					if _, ok := r.(*ssa.Slice); ok {
						isSl = true
					}
				}
				if isSl {
					if fld, base := an.FieldOf(st.Addr); fld != nil && base == ssa.Value(f.Params[0]) {
						if fld == keysF {
							truncK = true
						} else if fld == blocksF {
							truncB = true
						}
					}
				}
			}
		})
		switch {
		case !sorts:
		case !truncK || !truncB:
			whyS = "the table is sorted but duplicates are not removed from both the key and the block list"
		default:
			okSorted = true
			// no entry may be added after sorting
			for _, ac := range an.AllCalls(fn) {
				g := ac.Common().StaticCallee()
				if g != nil && g != f && g.Signature.Recv() != nil && len(ac.Common().Args) == 3 && c02ObjID(ac.Common().Args[0]) == gid && an.Reaches(fn, call, ac, nil, nil) {
					okSorted, whyS = false, "entries are added to the table after it was sorted"
				}
			}
		}
	}
	c.Check(okSorted, "O1", "R-LOCKORD", name, "keys sorted+deduplicated before lock-all", l.at.Pos(),
		"the batch's keys are sorted and de-duplicated before they are locked",
		"the per-key locks of a batch are taken over a key list that was not sorted and de-duplicated first ("+whyS+"): a batch containing one block twice write-locks the same key twice and blocks forever, two concurrent batches can lock common keys in opposite orders")
	// the table must not change between locking and unlocking
	okFrozen := true
	var froz ssa.Instruction
	for _, call := range an.AllCalls(fn) {
		f := call.Common().StaticCallee()
		if f == nil || f.Signature.Recv() == nil || len(call.Common().Args) == 0 {
			continue
		}
		if c02ObjID(call.Common().Args[0]) == gid && an.Reaches(fn, l.at, call, nil, nil) {
			okFrozen, froz = false, call
		}
	}
	pos := l.at.Pos()
	if froz != nil {
		pos = froz.Pos()
	}
	c.Check(okFrozen, "O1", "R-PAIR", name, "key-table-frozen-while-locked", pos, "the key/block table is not modified once locking started",
		"the key/block table is modified after its keys were locked: the deferred unlock walks a different key list than the one locked")
	// pairing key<->block when the table is filled: in this function, or in the
	// package function that builds and returns the table
	tableFn, tgids := fn, map[string]bool{gid: true}
	if pc, isCall := c01First(an.Roots(g, nil)).(*ssa.Call); isCall {
		if F := pc.Call.StaticCallee(); F != nil && F.Blocks != nil && F.Pkg == fn.Pkg {
			ids := map[string]bool{}
			for _, r := range an.Returns(F) {
				if len(r.Results) > 0 && an.Reaches(F, nil, r, nil, nil) {
					ids[c02ObjID(an.RetVal(r, 0))] = true
				}
			}
			for _, call := range an.AllCalls(F) {
				if f := call.Common().StaticCallee(); f != nil && f.Signature.Recv() != nil && len(call.Common().Args) == 3 && ids[c02ObjID(call.Common().Args[0])] {
					tableFn, tgids = F, ids
				}
			}
		}
	}
	nApp := 0
	for _, call := range an.AllCalls(tableFn) {
		f := call.Common().StaticCallee()
		if f == nil || f.Signature.Recv() == nil || len(call.Common().Args) != 3 || !tgids[c02ObjID(call.Common().Args[0])] {
			continue
		}
		k, b := call.Common().Args[1], call.Common().Args[2]
		if !c02IsString(k.Type()) || !an.TypeIs(b.Type(), c01Blocks, "Block") {
			continue
		}
		nApp++
		c.Check(t.keyIsFor(k, nil, b) && c02PairAppend(f), "O1", "R-FLOW", an.FuncName(tableFn), "table.append(cacheKey(blk.Cid()), blk)", call.Pos(),
			"each block enters the table together with its own key",
			"a block is entered into the batch table under a key that is not cacheKey(<its CID>) (or the table does not append key and block together): the lock taken does not protect the block written")
		// O3: skipped only on ok && has
		nEarly += t.batchSkip(tableFn, call)
	}
	c.Min("O1 batch table appends", nApp, 1)
	// deferred unlock-all over the same keys
	okDefer, why := false, "no deferred unlock loop"
	for _, in := range an.FindInstrs(fn, func(i ssa.Instruction) bool { _, ok := i.(*ssa.Defer); return ok }) {
		d := in.(*ssa.Defer)
		type rel struct {
			kf      *types.Var
			gid     string
			mode    int
			allKeys bool
		}
		var rels []rel
		if mc, ok := d.Call.Value.(*ssa.MakeClosure); ok {
			cl := mc.Fn.(*ssa.Function)
			for _, u := range t.lockOps(cl, t.unlock) {
				url := an.RangeLoopOfElem(cl, u.key)
				if url == nil {
					why = "deferred unlock is not a loop over the key list"
					continue
				}
				kf, ug := c02KeyList(url.Slice)
				rels = append(rels, rel{kf, ug, u.mode, url.EveryIteration(u.call) && len(url.ExitEdges()) == 0})
			}
			for _, call := range an.AllCalls(cl) {
				if idx, mode, ok := t.allHelper(call.Common().StaticCallee(), t.unlock); ok {
					kf, ug := c02KeyList(call.Common().Args[idx])
					rels = append(rels, rel{kf, ug, mode, true})
				}
			}
		} else if idx, mode, ok := t.allHelper(d.Call.StaticCallee(), t.unlock); ok {
			kf, ug := c02KeyList(d.Call.Args[idx])
			rels = append(rels, rel{kf, ug, mode, true})
		}
		for _, u := range rels {
			switch {
			case u.kf != keysF || u.gid != gid:
				why = "deferred unlock walks a different key list"
			case u.mode != l.mode:
				why = "deferred unlock mode differs from lock mode"
			case !u.allKeys:
				why = "deferred unlock loop can skip keys"
			case !an.Dominates(d, store) || !(l.after(d) || c02AllReturnsAfterOp(fn, d, l)):
				why = "the unlock loop can run although not all keys were locked (registered before the lock loop with an exit in between), or is not registered before the store call"
			default:
				okDefer = true
			}
		}
	}
	c.Check(okDefer, "O1", "R-PAIR", name, "lock-all=>deferred-unlock-all(same keys, same mode)", l.at.Pos(), "all keys unlocked by a deferred loop over the same key list",
		"the keys locked for the batch are not all released by a deferred loop over the same list in the same mode ("+why+")")
	// cache writes
	var set []ssa.Instruction
	for _, call := range an.AllCalls(hfn) {
		kind := t.writers[call.Common().StaticCallee()]
		if kind == "" {
			continue
		}
		nWrite++
		wl := an.RangeLoopOfElem(hfn, an.Args(call)[0])
		okW := false
		if wl != nil {
			kf, wg := an.FieldOf(c01LoadAddr(wl.Slice))
			okW = kf == keysF && c02ObjID(wg) == hgid && wl.After(hstore) == false && an.Dominates(hstore, call)
			if okW && wl.EveryIteration(call) && len(wl.ExitEdges()) == 0 {
				set = append(set, wl.Header.Instrs[0])
			}
		}
		c.Check(okW, "O1", "R-GUARD", name, "cache."+kind+" under key lock", call.Pos(), "cache entries written for the locked keys only, before the deferred unlock",
			"a cache entry is written in the batched put for a key that is not one of the locked keys")
		if kind == "size" && wl != nil {
			okE := an.GuardedBy(hfn, hstore, call, an.NilEdges(hfn, an.ErrResult(hstore), true))
			c.Check(okE, "O2", "R-DOM", name, "cache.size<=evidence(PutMany)", call.Pos(), "size entries only after the batch write succeeded",
				"'present' cache entries are written although the batched store write failed: missing blocks are then reported present")
			// value: len(G.blocks[i].RawData()) with the same index
			okV := false
			if lc, ok := an.IsBuiltinCall(c01First(an.Roots(an.Args(call)[1], nil)), "len"); ok {
				if rd, ok := c01First(an.Roots(lc.Call.Args[0], nil)).(*ssa.Call); ok && an.Callee(rd).Name == "RawData" {
					if u, ok := an.Recv(rd).(*ssa.UnOp); ok && u.Op == token.MUL {
						if ia, ok := u.X.(*ssa.IndexAddr); ok && ia.Index == wl.Idx {
							bf, bg := an.FieldOf(c01LoadAddr(ia.X))
							okV = bf == blocksF && c02ObjID(bg) == hgid
						}
					}
				}
			}
			c.Check(okV, "O2", "R-FLOW", name, "cache.size=size-of-that-block(PutMany)", call.Pos(), "cached size is the size of the block stored at the same index as the key",
				"the size cached for a key of the batch is not the size of the block paired with that key")
		}
	}
	ok, _ := an.MustFollow(hfn, hstore, set)
	if !ok {
		// an invalidate loop or explicit calls on the failing path also satisfy the obligation
		var all []ssa.Instruction
		all = append(all, set...)
		for _, call := range an.AllCalls(hfn) {
			if t.writers[call.Common().StaticCallee()] != "" {
				if wl := an.RangeLoopOfElem(hfn, an.Args(call)[0]); wl != nil && wl.EveryIteration(call) && len(wl.ExitEdges()) == 0 {
					all = append(all, wl.Header.Instrs[0])
				}
			}
		}
		ok, _ = an.MustFollow(hfn, hstore, all)
	}
	c.Check(ok, "O2", "R-POST", name, "mutator=>cache-updated-or-invalidated", hstore.Pos(),
		"after the batched store call every path rewrites or invalidates the cache entries of all keys",
		"after PutMany on the wrapped store some path (the error path) returns without rewriting or invalidating the cache entries of the batch: a partially written batch leaves 'not present' entries for blocks that are now stored")
	return
}

// cacheVerdict: H(key) bool is a package helper around the cache query that is
// true only on a conclusive entry: "absent" (ok && !has) or "present" (ok && has).
func (t *c02tq) cacheVerdict(H *ssa.Function) string {
	if !an.IsLocalHelper(H) || H.Signature.Results().Len() != 1 || !c02IsBool(H.Signature.Results().At(0).Type()) {
		return ""
	}
	var q *ssa.Call
	for _, call := range an.AllCalls(H) {
		if call.Common().StaticCallee() == t.query {
			if q != nil {
				return ""
			}
			q = an.CallValue(call)
		}
	}
	if q == nil {
		return ""
	}
	if _, isP := q.Call.Args[1].(*ssa.Parameter); !isP {
		return ""
	}
	okT := an.BoolEdges(H, an.Result(q, 2), true)
	has := an.Aliases(an.Result(q, 0)...)
	isNotHas := func(v ssa.Value) bool {
		u, ok := v.(*ssa.UnOp)
		return ok && u.Op == token.NOT && has[u.X]
	}
	if an.TrueImplies(H, 0, []an.EdgeSet{okT, an.BoolEdges(H, an.Result(q, 0), false)}, func(i int, v ssa.Value) bool { return i == 1 && isNotHas(v) }) {
		return "absent"
	}
	if an.TrueImplies(H, 0, []an.EdgeSet{okT, an.BoolEdges(H, an.Result(q, 0), true)}, func(i int, v ssa.Value) bool { return i == 1 && has[v] }) {
		return "present"
	}
	return ""
}

// earlyViaHelper: answers given before taking the lock on the verdict of a
// boolean helper around the cache query.
func (t *c02tq) earlyViaHelper(fn *ssa.Function, stores []ssa.CallInstruction, locks []c02lockOp) int {
	c := t.c
	name := an.FuncName(fn)
	var cidv, blk ssa.Value
	for _, prm := range fn.Params {
		if an.TypeIs(prm.Type(), c01Cid, "Cid") {
			cidv = prm
		}
		if an.TypeIs(prm.Type(), c01Blocks, "Block") {
			blk = prm
		}
	}
	blocked := map[ssa.Instruction]bool{}
	for _, l := range locks {
		blocked[l.call] = true
	}
	for _, s := range stores {
		blocked[s] = true
	}
	inf := an.InfeasibleEdges(fn)
	verdicts := map[string][]ssa.Value{}
	var first *ssa.Call
	for _, call := range an.AllCalls(fn) {
		cv := an.CallValue(call)
		if cv == nil {
			continue
		}
		H := call.Common().StaticCallee()
		kind := t.cacheVerdict(H)
		if kind == "" {
			// a boolean helper around the cache query that is not a conclusive verdict
			if an.IsLocalHelper(H) && H.Signature.Results().Len() == 1 && c02IsBool(H.Signature.Results().At(0).Type()) {
				for _, hc := range an.AllCalls(H) {
					if hc.Common().StaticCallee() == t.query {
						c.Bad("O3", "R-DOM", name, "answer-from-cache", call.Pos(), "the method decides on "+H.Name()+"(key), which can be true without a conclusive cache entry (ok && has / ok && !has): an inconclusive cache state decides the result")
					}
				}
			}
			continue
		}
		var keyArg ssa.Value
		for _, a := range call.Common().Args {
			if c02IsString(a.Type()) {
				keyArg = a
			}
		}
		c.Check(keyArg != nil && t.keyIsFor(keyArg, cidv, blk), "O3", "R-FLOW", name, "query(cacheKey(<own CID>))", call.Pos(), "the cache is queried with the key of the method's own CID",
			"the cache is queried with a key that is not cacheKey(<the CID asked about>)")
		verdicts[kind] = append(verdicts[kind], cv)
		if first == nil {
			first = cv
		}
	}
	if first == nil {
		return 0
	}
	absent := an.BoolEdges(fn, verdicts["absent"], true).Union(inf)
	present := an.BoolEdges(fn, verdicts["present"], true).Union(inf)
	n := 0
	for _, r := range an.Returns(fn) {
		if !an.Reaches(fn, first, r, nil, blocked) {
			continue
		}
		n++
		need, why := absent, "not-found / skip answered without the cache being conclusively negative"
		switch fn.Name() {
		case "Put":
			need, why = present, "Put skipped without a conclusive 'present' cache entry"
		case "DeleteBlock":
		case "Has":
			if k, isK := an.ConstOf(an.RetVal(r, 0)); isK && k.String() == "true" {
				need, why = present, "Has answers true without a conclusive 'present' cache entry"
			}
		default:
			if ev := an.RetVal(r, -1); ev == nil || an.IsNilConst(ev) {
				need, why = an.EdgeSet{}, "success answered from the cache without reading the store"
			}
		}
		ok := len(need) > 0 && !an.Reaches(fn, first, r, need, blocked)
		c.Check(ok, "O3", "R-DOM", name, "answer-from-cache", r.Pos(), "answer given without the store rests on a conclusive cache verdict of the right polarity",
			"an answer is returned without consulting the store and "+why+": an inconclusive or opposite cache state decides the result")
	}
	return n
}

// batchSkip: a block is left out of the batch only on ok && has.
func (t *c02tq) batchSkip(fn *ssa.Function, app ssa.CallInstruction) int {
	c := t.c
	name := an.FuncName(fn)
	var q *ssa.Call
	for _, call := range an.AllCalls(fn) {
		if call.Common().StaticCallee() == t.query && an.SameObj(call.Common().Args[1], app.Common().Args[1]) {
			q = an.CallValue(call)
		}
	}
	if q == nil {
		c.OK("O3", "R-DOM", name, "batch-skip", app.Pos(), "no cache query: every block is written")
		return 1
	}
	blocked := map[ssa.Instruction]bool{app: true}
	targets := []ssa.Instruction{q}
	for _, r := range an.Returns(fn) {
		targets = append(targets, r)
	}
	for _, call := range an.AllCalls(fn) {
		if call.Common().StaticCallee() == t.lock {
			targets = append(targets, call)
		}
	}
	inf := an.InfeasibleEdges(fn)
	okT := an.BoolEdges(fn, an.Result(q, 2), true).Union(inf)
	hasT := an.BoolEdges(fn, an.Result(q, 0), true).Union(inf)
	ok := true
	for _, tg := range targets {
		if an.Reaches(fn, q, tg, okT, blocked) || an.Reaches(fn, q, tg, hasT, blocked) {
			ok = false
		}
	}
	c.Check(ok, "O3", "R-DOM", name, "batch-skip<=ok&&has", app.Pos(), "a block is left out of the batch only where the cache conclusively has it",
		"PutMany leaves a block out of the batch without a conclusive 'present' cache entry (ok && has): the block is acknowledged but never stored")
	return 1
}

// c02AllReturnsAfter: every return reachable from instruction d is reached
// only after loop rl ran to exhaustion.
func c02AllReturnsAfter(fn *ssa.Function, d ssa.Instruction, rl *an.RangeLoop) bool {
	for _, r := range an.Returns(fn) {
		if an.Reaches(fn, d, r, nil, nil) && !rl.After(r) {
			return false
		}
	}
	return true
}

// c02AllReturnsAfterOp: every return reachable from d is reached only after the lock-all event.
func c02AllReturnsAfterOp(fn *ssa.Function, d ssa.Instruction, l c02allOp) bool {
	for _, r := range an.Returns(fn) {
		if an.Reaches(fn, d, r, nil, nil) && !l.after(r) {
			return false
		}
	}
	return true
}

// c02Adder: H adds, on every path, the multihash of its CID parameter (or of
// its block parameter's CID) to the live filter b.bloom.Load().
func c02Adder(H *ssa.Function, isLive func(ssa.Value) bool) (idx int, isBlock, ok bool) {
	if !an.IsLocalHelper(H) {
		return 0, false, false
	}
	for _, call := range an.Calls(H, an.M("", "Bloom", "AddTS")) {
		if !isLive(c01First(an.Roots(an.Recv(call), nil))) {
			continue
		}
		hc, isH := an.IsCallTo(c01First(an.Roots(an.Args(call)[0], nil)), an.M(c01Cid, "Cid", "Hash"))
		if !isH {
			continue
		}
		all := true
		for _, r := range an.Returns(H) {
			if an.Reaches(H, nil, r, nil, nil) && !an.Dominates(call, r) {
				all = false
			}
		}
		if !all {
			continue
		}
		x := c01First(an.Roots(hc.Call.Args[0], nil))
		if prm, isP := x.(*ssa.Parameter); isP && prm.Parent() == H {
			return an.RawParamIndex(prm), false, true
		}
		if cc, isC := x.(*ssa.Call); isC && an.Callee(cc).Name == "Cid" {
			if prm, isP := an.Recv(cc).(*ssa.Parameter); isP && prm.Parent() == H {
				return an.RawParamIndex(prm), true, true
			}
		}
	}
	return 0, false, false
}

// c02FuncArgs: the function-typed arguments of a call.
func c02FuncArgs(call ssa.CallInstruction) []ssa.Value {
	var out []ssa.Value
	for _, a := range an.Args(call) {
		if _, ok := a.Type().Underlying().(*types.Signature); ok {
			out = append(out, a)
		}
	}
	return out
}

// c02CallbackErrorSource: the store call of fn is handed a function through
// which an error produced by user code (a function-typed parameter of fn) can
// be returned to the store, and hence come back as the store call's error.
// Returns "" when that is impossible (no function argument, or a local closure
// whose results never derive from calling a user function).
func c02CallbackErrorSource(fn *ssa.Function, store ssa.CallInstruction) string {
	isUserFunc := func(v ssa.Value) bool {
		for _, r := range an.Roots(v, nil) {
			if prm, ok := r.(*ssa.Parameter); ok {
				if _, isSig := prm.Type().Underlying().(*types.Signature); isSig && prm.Parent() == fn {
					return true
				}
			}
		}
		return false
	}
	for _, a := range c02FuncArgs(store) {
		if isUserFunc(a) {
			return "the caller's callback is passed to the store as it is"
		}
		mc, ok := a.(*ssa.MakeClosure)
		if !ok {
			return "a function value of unknown origin is passed to the store"
		}
		cl := mc.Fn.(*ssa.Function)
		for _, r := range an.Returns(cl) {
			for i, res := range r.Results {
				if !an.IsErrorType(res.Type()) {
					continue
				}
				for _, root := range an.Roots(an.RetVal(r, i), nil) {
					var call *ssa.Call
					switch x := root.(type) {
					case *ssa.Call:
						call = x
					case *ssa.Extract:
						call, _ = x.Tuple.(*ssa.Call)
					}
					if call != nil && call.Call.StaticCallee() == nil && !call.Call.IsInvoke() && isUserFunc(call.Call.Value) {
						return "the function handed to the store returns the result of the caller's callback"
					}
				}
			}
		}
	}
	return ""
}

// c02RootsThroughLocalFields: an.Roots, additionally looking through fields of
// local (possibly captured) struct variables: a load of `v.f` is replaced by
// the values stored to `v.f` in fn and its closures.
func c02RootsThroughLocalFields(fn *ssa.Function, v ssa.Value) []ssa.Value {
	var out []ssa.Value
	seen := map[ssa.Value]bool{}
	var walk func(x ssa.Value, d int)
	walk = func(x ssa.Value, d int) {
		for _, r := range an.Roots(x, nil) {
			if seen[r] || d > 6 {
				continue
			}
			seen[r] = true
			u, ok := r.(*ssa.UnOp)
			if !ok || u.Op != token.MUL {
				out = append(out, r)
				continue
			}
			fa, ok := u.X.(*ssa.FieldAddr)
			var cell *ssa.Alloc
			if ok {
				cell = an.CellOf(fa.X)
			}
			if cell == nil {
				out = append(out, r)
				continue
			}
			n := 0
			for _, g := range an.WithClosures(fn) {
				an.Instrs(g, func(in ssa.Instruction) {
					st, ok := in.(*ssa.Store)
					if !ok {
						return
					}
					if fa2, ok := st.Addr.(*ssa.FieldAddr); ok && fa2.Field == fa.Field && an.CellOf(fa2.X) == cell {
						n++
						walk(st.Val, d+1)
					}
				})
			}
			if n == 0 {
				out = append(out, r)
			}
		}
	}
	walk(v, 0)
	return out
}

// c02IsHolderCount: field f (addressed by addr) is the reference counter of the
// per-key lock object: the int field of the struct that embeds the RWMutex.
func c02IsHolderCount(f *types.Var, addr ssa.Value) bool {
	if f == nil || !types.Identical(f.Type().Underlying(), types.Typ[types.Int]) {
		return false
	}
	fa, ok := addr.(*ssa.FieldAddr)
	if !ok {
		return false
	}
	t := fa.X.Type()
	if pt, ok := t.Underlying().(*types.Pointer); ok {
		t = pt.Elem()
	}
	st, ok := t.Underlying().(*types.Struct)
	if !ok {
		return false
	}
	for i := 0; i < st.NumFields(); i++ {
		if an.TypeIs(st.Field(i).Type(), "sync", "RWMutex") {
			return true
		}
	}
	return false
}

// c02IsEnumHelper: f is the package helper func(ctx, Blockstore) (<-chan cid.Cid,
// func() error, error) that obtains an enumeration with error from a store.
func c02IsEnumHelper(f *ssa.Function) bool {
	if f == nil || f.Pkg == nil || f.Pkg.Pkg.Path() != an.Mod+"/blockstore" || f.Signature.Recv() != nil {
		return false
	}
	sg := f.Signature
	if sg.Params().Len() != 2 || sg.Results().Len() != 3 || !an.TypeIs(sg.Params().At(1).Type(), "blockstore", "Blockstore") {
		return false
	}
	_, isFn := sg.Results().At(1).Type().Underlying().(*types.Signature)
	return isFn && an.IsErrorType(sg.Results().At(2).Type())
}

// c02PairAppend: the table method appends its key parameter to the key list
// and its block parameter to the block list.
func c02PairAppend(f *ssa.Function) bool {
	if len(f.Params) != 3 {
		return false
	}
	got := map[string]bool{}
	an.Instrs(f, func(in ssa.Instruction) {
		st, ok := in.(*ssa.Store)
		if !ok {
			return
		}
		fld, base := an.FieldOf(st.Addr)
		if fld == nil || base != ssa.Value(f.Params[0]) {
			return
		}
		ac, ok := an.IsBuiltinCall(st.Val, "append")
		if !ok {
			return
		}
		elems, ok := an.AppendElems(ac)
		if !ok || len(elems) != 1 || c02LoadOfField(ac.Call.Args[0], fld) == nil {
			return
		}
		switch elems[0] {
		case ssa.Value(f.Params[1]):
			got["k"] = true
		case ssa.Value(f.Params[2]):
			got["b"] = true
		}
	})
	return got["k"] && got["b"]
}

// c02ObjID identifies an object across a function and its closures: loads of
// a (captured) local cell are named by the cell.
func c02ObjID(v ssa.Value) string {
	if v == nil {
		return "<nil>"
	}
	if u, ok := v.(*ssa.UnOp); ok && u.Op == token.MUL {
		if cell := an.CellOf(u.X); cell != nil {
			return fmt.Sprintf("cell@%d", cell.Pos())
		}
	}
	return an.PathOf(v)
}

// ---------------------------------------------------------------------------
// Bloom cache

func c02Bloom(c *an.Ctx) {
	p := c.P
	const pkg = "blockstore"
	tBloom := c01TBloomcache(p)
	if !c.Need(tBloom != nil, "the Blockstore implementation of package blockstore that holds an atomic.Pointer[bloom.Bloom]") {
		return
	}
	fActive := c01One(c01FieldBy(tBloom, func(x types.Type) bool { return an.TypeIs(x, "sync/atomic", "Bool") }))
	fBloom := c01One(c01FieldBy(tBloom, func(x types.Type) bool { return an.TypeIs(x, "sync/atomic", "Pointer") }))
	fStore, fViewer := c01One(c01FieldBy(tBloom, c01IsBlockstoreT)), c01One(c01FieldBy(tBloom, c01IsViewerT))
	fBuildMu := c01One(c01FieldBy(tBloom, func(x types.Type) bool { return an.TypeIs(x, "sync", "Mutex") }))
	meths := c01MethodsOf(p, pkg, tBloom)
	if !c.Need(fActive != nil && fBloom != nil && fStore != nil && fViewer != nil && len(meths) > 0, "blockstore.bloomcache fields active, bloom, blockstore, viewer and methods") {
		return
	}
	onField := func(call ssa.CallInstruction, f *types.Var) bool {
		r := an.Recv(call)
		if r == nil {
			return false
		}
		g, _ := an.FieldOf(r)
		return g == f
	}
	isLiveFilter := func(v ssa.Value) bool { // b.bloom.Load()
		lc, ok := v.(*ssa.Call)
		return ok && an.Callee(lc).Name == "Load" && onField(lc, fBloom)
	}
	// role discovery: populate = method with a *bloom.Bloom parameter calling AddTS on it;
	// hasCached = method (cid) (bool,bool) calling HasTS
	var populate, hasCached, activeGetter *ssa.Function
	for _, fn := range meths {
		sg := fn.Signature
		for _, call := range an.AllCalls(fn) {
			ci := an.Callee(call)
			if ci.Recv == "Bloom" && ci.Name == "AddTS" {
				if prm, ok := an.Recv(call).(*ssa.Parameter); ok && prm.Parent() == fn {
					populate = fn
				}
			}
			if ci.Recv == "Bloom" && ci.Name == "HasTS" && sg.Results().Len() == 2 && c02IsBool(sg.Results().At(0).Type()) && c02IsBool(sg.Results().At(1).Type()) {
				hasCached = fn
			}
			if ci.Pkg == "sync/atomic" && ci.Recv == "Bool" && ci.Name == "Load" && onField(call, fActive) && sg.Params().Len() == 0 && sg.Results().Len() == 1 {
				activeGetter = fn
			}
		}
	}
	if !c.Need(populate != nil && hasCached != nil, "bloomcache helpers by role: populate(ctx, *bloom.Bloom) and hasCached(cid)(has, ok)") {
		return
	}

	pkgFns := p.PkgFuncs(pkg)
	// storesParam: helper H stores its parameter #idx into b.bloom
	storesParam := func(H *ssa.Function, idx int) bool {
		if H == nil || H.Blocks == nil || idx >= len(H.Params) {
			return false
		}
		for _, st := range an.Calls(H, an.M("sync/atomic", "Pointer", "Store")) {
			if onField(st, fBloom) && an.Args(st)[0] == ssa.Value(H.Params[idx]) {
				ok := true
				for _, r := range an.Returns(H) {
					if an.Reaches(H, nil, r, nil, nil) && !an.Dominates(st, r) {
						ok = false
					}
				}
				if ok {
					return true
				}
			}
		}
		return false
	}
	// liveAt: filter value v is the live filter at site: b.bloom.Load(), or
	// stored into b.bloom before site (directly or by a helper), or a
	// parameter of an unexported helper that is live at every call site
	var liveAt func(fn *ssa.Function, v ssa.Value, site ssa.Instruction, depth int) bool
	liveAt = func(fn *ssa.Function, v ssa.Value, site ssa.Instruction, depth int) bool {
		rs := an.Roots(v, nil)
		if len(rs) == 0 {
			return false
		}
		allLoad := true
		for _, r := range rs {
			if !isLiveFilter(r) {
				allLoad = false
			}
		}
		if allLoad {
			return true
		}
		for _, st := range an.Calls(fn, an.M("sync/atomic", "Pointer", "Store")) {
			if onField(st, fBloom) && an.Dominates(st, site) && an.SameObj(an.Args(st)[0], v) {
				return true
			}
		}
		for _, call := range an.AllCalls(fn) {
			H := call.Common().StaticCallee()
			if H == nil || !an.Dominates(call, site) {
				continue
			}
			for i, a := range call.Common().Args {
				if an.SameObj(a, v) && storesParam(H, i) {
					return true
				}
			}
		}
		if prm, ok := rs[0].(*ssa.Parameter); ok && len(rs) == 1 && an.IsLocalHelper(fn) && depth < 3 {
			sites := an.CallSitesOf(pkgFns, fn)
			if len(sites) == 0 {
				return false
			}
			for _, cs := range sites {
				if !liveAt(cs.Caller, cs.Call.Common().Args[an.RawParamIndex(prm)], cs.Call, depth+1) {
					return false
				}
			}
			return true
		}
		return false
	}
	// heldBuildMu: buildMu is write-held at instr, in fn or (for an unexported
	// helper) at every call site
	var heldBuildMu func(fn *ssa.Function, in ssa.Instruction, depth int) bool
	heldBuildMu = func(fn *ssa.Function, in ssa.Instruction, depth int) bool {
		lf := an.Locks(fn, an.SyncModel, nil, true)
		for pth, m := range lf.Before[in] {
			if m == an.LWrite && fBuildMu != nil && strings.HasSuffix(pth, "."+fBuildMu.Name()) {
				return true
			}
		}
		if an.IsLocalHelper(fn) && depth < 3 {
			sites := an.CallSitesOf(pkgFns, fn)
			if len(sites) == 0 {
				return false
			}
			for _, cs := range sites {
				if _, isCall := cs.Call.(*ssa.Call); !isCall || !heldBuildMu(cs.Caller, cs.Call, depth+1) {
					return false
				}
			}
			return true
		}
		return false
	}
	// O4a: activation
	nAct := 0
	for _, fn := range p.PkgFuncs(pkg) { // constructors included: the flag must never be set without a build
		name := an.FuncName(fn)
		for _, call := range an.Calls(fn, an.M("sync/atomic", "Bool", "Store")) {
			if !onField(call, fActive) {
				continue
			}
			k, isK := an.ConstOf(an.Args(call)[0])
			if !isK {
				c.Bad("O4", "R-DOM", name, "active.Store(computed)", call.Pos(), "Bloom activation flag stored from a computed value: cannot relate it to a complete enumeration")
				continue
			}
			if k.String() != "true" {
				continue
			}
			nAct++
			var pc ssa.CallInstruction
			for _, pcall := range an.AllCalls(fn) {
				if pcall.Common().StaticCallee() == populate && an.OnNilEdgeOf(fn, pcall, call) {
					pc = pcall
				}
			}
			if !c.Check(pc != nil, "O4", "R-DOM", name, "active.Store(true)<=populate-ok", call.Pos(), "filter activated only after populate returned nil",
				"the Bloom filter is activated without a successful (complete) populate on that path: negative answers are trusted although existing blocks were never indexed") {
				continue
			}
			// the populated filter is the live one
			target := an.Args(pc)[1]
			okT := liveAt(fn, target, pc, 0)
			c.Check(okT, "O4", "R-FLOW", name, "populate(<live filter>)", pc.Pos(), "the filter populated is the one lookups and writes use",
				"populate fills a filter that is not the live one (b.bloom): the activated filter misses existing blocks")
			// serialised
			held := heldBuildMu(fn, call, 0)
			c.Check(held, "O4", "R-GUARD", name, "active.Store(true) under buildMu", call.Pos(), "activation serialised with other builds",
				"the Bloom filter is activated without holding buildMu: a concurrent Rebuild that just swapped in an empty filter gets activated by the older build")
		}
	}
	c.Min("O4 activations", nAct, 1)

	// O4b: populate
	{
		fn := populate
		name := an.FuncName(fn)
		var src *ssa.Call
		for _, call := range an.AllCalls(fn) {
			if f := call.Common().StaticCallee(); c02IsEnumHelper(f) {
				src = an.CallValue(call)
			}
		}
		if c.Need(src != nil, "call of the enumeration helper func(ctx, Blockstore) (<-chan cid.Cid, func() error, error) in "+fn.Name()) {
			c.Check(c02LoadOfField(src.Call.Args[1], fStore) != nil, "O4", "R-FLOW", name, "enumerate(b.blockstore)", src.Pos(), "enumerates the wrapped store",
				"populate enumerates something else than the wrapped blockstore")
			ch, errFn := an.Result(src, 0), an.Result(src, 1)
			var errCalls []ssa.Value
			for _, call := range an.AllCalls(fn) {
				cv := an.CallValue(call)
				if cv == nil {
					continue
				}
				for _, e := range errFn {
					if call.Common().Value == e {
						errCalls = append(errCalls, cv)
					}
				}
			}
			// receive sites on ch
			var recvOK, recvVal []ssa.Value
			an.Instrs(fn, func(in ssa.Instruction) {
				sel, ok := in.(*ssa.Select)
				if !ok {
					return
				}
				for _, st := range sel.States {
					isCh := false
					for _, x := range ch {
						if st.Chan == x {
							isCh = true
						}
					}
					if !isCh || st.Dir != types.RecvOnly {
						continue
					}
					for _, r := range *sel.Referrers() {
						if e, ok := r.(*ssa.Extract); ok {
							if e.Index == 1 {
								recvOK = append(recvOK, e)
							} else if e.Index >= 2 && an.RecvChan(e) == st.Chan {
								recvVal = append(recvVal, e)
							}
						}
					}
				}
			})
			an.Instrs(fn, func(in ssa.Instruction) {
				if u, ok := in.(*ssa.UnOp); ok && u.Op == token.ARROW && u.CommaOk {
					for _, x := range ch {
						if u.X == x {
							for _, r := range *u.Referrers() {
								if e, ok := r.(*ssa.Extract); ok {
									if e.Index == 1 {
										recvOK = append(recvOK, e)
									} else {
										recvVal = append(recvVal, e)
									}
								}
							}
						}
					}
				}
			})
			closed := an.BoolEdges(fn, recvOK, false)
			errNil := an.NilEdges(fn, errCalls, true)
			nRet := 0
			for _, r := range an.Returns(fn) {
				if !an.IsNilErrReturn(r) {
					continue
				}
				nRet++
				ok := len(recvOK) > 0 && len(errCalls) > 0 && an.GuardedBy(fn, nil, r, closed) && an.GuardedBy(fn, nil, r, errNil)
				c.Check(ok, "O4", "R-DOM", name, "return-nil<=channel-closed&&errFn()==nil", r.Pos(), "success only after the key channel was closed and the enumeration reported no error",
					"populate can report success without the key channel having been closed and errFn() having returned nil: a truncated enumeration activates the filter and existing blocks are reported missing")
			}
			c.Min("O4 success returns of populate", nRet, 1)
			// every received key is added to the target
			nAdd := 0
			for _, call := range an.Calls(fn, an.M("", "Bloom", "AddTS")) {
				nAdd++
				okA := an.Recv(call) == ssa.Value(fn.Params[2])
				for _, r := range an.Roots(an.Args(call)[0], nil) {
					hc, ok := an.IsCallTo(r, an.M(c01Cid, "Cid", "Hash"))
					if !ok {
						okA = false
						continue
					}
					isRecv := false
					for _, v := range recvVal {
						if hc.Call.Args[0] == v {
							isRecv = true
						}
					}
					if !isRecv {
						okA = false
					}
				}
				// no path from a successful receive back to the next receive without the add
				for _, v := range recvVal {
					ex := v.(*ssa.Extract)
					sel := ex.Tuple.(ssa.Instruction)
					open := an.BoolEdges(fn, recvOK, true)
					_ = open
					// from the extract of the key, reaching the select again without AddTS
					if an.Reaches(fn, ex, sel, nil, map[ssa.Instruction]bool{call: true}) {
						okA = false
					}
				}
				c.Check(okA, "O4", "R-POST", name, "AddTS(target, key.Hash()) for every key", call.Pos(), "every enumerated key's multihash is added to the target filter",
					"populate does not add the multihash of every received key to its target filter: an existing block is missing from the activated filter")
			}
			c.Min("O4 AddTS in populate", nAdd, 1)
		}
	}

	// O4c: hasCached
	{
		fn := hasCached
		name := an.FuncName(fn)
		prm := fn.Params[1]
		var actCalls []ssa.Value
		for _, call := range an.AllCalls(fn) {
			ci := an.Callee(call)
			if (activeGetter != nil && call.Common().StaticCallee() == activeGetter) || (ci.Pkg == "sync/atomic" && ci.Recv == "Bool" && ci.Name == "Load" && onField(call, fActive)) {
				if cv := an.CallValue(call); cv != nil {
					actCalls = append(actCalls, cv)
				}
			}
		}
		var hasTS []ssa.Value
		okArgs := true
		for _, call := range an.Calls(fn, an.M("", "Bloom", "HasTS")) {
			cv := an.CallValue(call)
			hasTS = append(hasTS, cv)
			if !isLiveFilter(c01First(an.Roots(an.Recv(call), nil))) {
				okArgs = false
			}
			for _, r := range an.Roots(an.Args(call)[0], nil) {
				hc, ok := an.IsCallTo(r, an.M(c01Cid, "Cid", "Hash"))
				if !ok || hc.Call.Args[0] != ssa.Value(prm) {
					okArgs = false
				}
			}
		}
		c.Check(okArgs && len(hasTS) > 0, "O4", "R-FLOW", name, "HasTS(live filter, k.Hash())", fn.Pos(), "the live filter is asked about the multihash of the CID",
			"hasCached asks a filter other than the live one, or about something else than k.Hash() (Put adds bl.Cid().Hash())")
		active := an.BoolEdges(fn, actCalls, true)
		absent := an.BoolEdges(fn, hasTS, false)
		n := 0
		for _, r := range an.Returns(fn) {
			okv, isK := an.ConstOf(an.RetVal(r, 1))
			if !isK {
				c.Bad("O4", "R-DOM", name, "ok-computed", r.Pos(), "hasCached returns a computed ok flag: cannot decide where it is conclusive")
				continue
			}
			if okv.String() != "true" {
				continue
			}
			n++
			hv, isH := an.ConstOf(an.RetVal(r, 0))
			ok := len(actCalls) > 0 && an.GuardedBy(fn, nil, r, active) && an.GuardedBy(fn, nil, r, absent) && isH && hv.String() == "false"
			c.Check(ok, "O4", "R-DOM", name, "conclusive<=active&&!HasTS", r.Pos(), "conclusive only for 'absent' while the filter is active",
				"hasCached answers conclusively without (BloomActive() && !HasTS(k.Hash())) or with has=true: an inactive/partial filter or a Bloom positive decides the result")
		}
		c.Min("O4 conclusive returns of hasCached", n, 1)
	}

	// O4d: Rebuild order; O4e: users of hasCached; O5: adds after writes
	nUsers, nO5 := 0, 0
	for _, fn := range meths {
		name := an.FuncName(fn)
		// Rebuild-like: stores a filter into b.bloom and is not a constructor
		for _, st := range an.Calls(fn, an.M("sync/atomic", "Pointer", "Store")) {
			if !onField(st, fBloom) {
				continue
			}
			deactBefore := func(g *ssa.Function, site ssa.Instruction) bool {
				for _, call := range an.Calls(g, an.M("sync/atomic", "Bool", "Store")) {
					if k, ok := an.ConstOf(an.Args(call)[0]); ok && k.String() == "false" && onField(call, fActive) && an.Dominates(call, site) {
						return true
					}
				}
				return false
			}
			okDeact := deactBefore(fn, st)
			if !okDeact && an.IsLocalHelper(fn) {
				sites := an.CallSitesOf(pkgFns, fn)
				okDeact = len(sites) > 0
				for _, cs := range sites {
					if !deactBefore(cs.Caller, cs.Call) {
						okDeact = false
					}
				}
			}
			c.Check(okDeact, "O4", "R-DOM", name, "deactivate<swap", st.Pos(), "filter deactivated before the swap",
				"the live Bloom filter is replaced without first deactivating it: lookups trust the new, still empty filter and report existing blocks missing")
			// every populate of a filter that is not loaded from b.bloom must follow its installation
			for _, g := range pkgFns {
				for _, call := range an.AllCalls(g) {
					if call.Common().StaticCallee() != populate {
						continue
					}
					tgt := an.Args(call)[1]
					if isLiveFilter(c01First(an.Roots(tgt, nil))) {
						continue
					}
					c.Check(liveAt(g, tgt, call, 0), "O4", "R-DOM", an.FuncName(g), "swap<populate", call.Pos(), "a fresh filter is installed before it is populated",
						"populate fills a fresh filter before it was installed as the live one: concurrent Puts land in the discarded filter and are missing after activation")
				}
			}
		}
		// users of hasCached
		var h *ssa.Call
		for _, call := range an.AllCalls(fn) {
			if call.Common().StaticCallee() == hasCached {
				h = an.CallValue(call)
			}
		}
		var stores []ssa.CallInstruction
		for _, call := range an.AllCalls(fn) {
			if call.Common().IsInvoke() && c02LoadOfField(call.Common().Value, fStore, fViewer) != nil {
				if cv, bl, sl := c02CidArgs(call); cv != nil || bl != nil || sl != nil {
					stores = append(stores, call)
				}
			}
		}
		if h != nil {
			blocked := map[ssa.Instruction]bool{}
			for _, s := range stores {
				blocked[s] = true
			}
			// static calls to own methods (View -> Get fallback) also consult the store
			for _, call := range an.AllCalls(fn) {
				if f := call.Common().StaticCallee(); f != nil && f != hasCached && f.Signature.Recv() != nil && len(call.Common().Args) > 0 && call.Common().Args[0] == ssa.Value(fn.Params[0]) {
					blocked[call] = true
				}
			}
			var cidPrm ssa.Value
			for _, prm := range fn.Params {
				if an.TypeIs(prm.Type(), c01Cid, "Cid") {
					cidPrm = prm
				}
			}
			c.Check(cidPrm != nil && h.Call.Args[1] == cidPrm, "O4", "R-FLOW", name, "hasCached(<own CID>)", h.Pos(), "filter consulted for the method's own CID", "the Bloom filter is consulted for a CID other than the one asked about")
			inf := an.InfeasibleEdges(fn)
			okT := an.BoolEdges(fn, an.Result(h, 1), true).Union(inf)
			hasF := an.BoolEdges(fn, an.Result(h, 0), false).Union(inf)
			for _, r := range an.Returns(fn) {
				if !an.Reaches(fn, h, r, nil, blocked) {
					continue
				}
				nUsers++
				ok := !an.Reaches(fn, h, r, okT, blocked)
				if ok && fn.Name() == "Has" {
					v := an.RetVal(r, 0)
					e, isE := v.(*ssa.Extract)
					ok = (isE && e.Tuple == ssa.Value(h) && e.Index == 0) || !an.Reaches(fn, h, r, hasF, blocked)
				} else if ok {
					ok = !an.Reaches(fn, h, r, hasF, blocked)
				}
				c.Check(ok, "O4", "R-DOM", name, "answer-from-filter", r.Pos(), "answer without the store only on hasCached's ok && !has",
					"an answer is returned without consulting the store although hasCached was not conclusive (ok && !has): blocks present in the store are reported missing or deletes are dropped")
			}
		}
		// O5
		for _, s := range stores {
			ci := an.Callee(s)
			if ci.Name != "Put" && ci.Name != "PutMany" {
				continue
			}
			nO5++
			_, blk, slice := c02CidArgs(s)
			nonNil := an.NilEdges(fn, an.ErrResult(s), false)
			ok, why := false, "no AddTS on the live filter"
			// add events: AddTS on b.bloom.Load() with <cid>.Hash(), or a call of a
			// package helper that does that with its CID / block parameter
			type addEv struct {
				at     ssa.Instruction
				cidVal ssa.Value // the CID whose Hash() is added
				blkVal ssa.Value // or the block whose Cid().Hash() is added
			}
			var evs []addEv
			for _, call := range an.Calls(fn, an.M("", "Bloom", "AddTS")) {
				if !isLiveFilter(c01First(an.Roots(an.Recv(call), nil))) {
					why = "AddTS on a filter that is not b.bloom.Load()"
					continue
				}
				// the filter pointer must be read after the store write: a Rebuild
				// may swap the filter while the write is in flight, and only a load
				// that follows the completed write is guaranteed to see either the
				// filter whose enumeration contains the block or the fresh one
				if ld := c01First(an.Roots(an.Recv(call), nil)).(*ssa.Call); !an.Dominates(s, ld) {
					c.Bad("O5", "R-DOM", name, ci.Name+": filter loaded after the store write", ld.Pos(),
						"the Bloom filter pointer that receives AddTS is loaded before (or independently of) the store write: a "+ci.Name+" that straddles Rebuild's filter swap adds its key to the discarded filter, and after re-activation the stored block is reported missing")
					why = "filter pointer loaded before the store write"
					continue
				}
				c.OK("O5", "R-DOM", name, ci.Name+": filter loaded after the store write", call.Pos(), "b.bloom.Load() feeding AddTS happens after the store write returned")
				hc, isH := an.IsCallTo(c01First(an.Roots(an.Args(call)[0], nil)), an.M(c01Cid, "Cid", "Hash"))
				if !isH {
					why = "AddTS argument is not <block>.Cid().Hash()"
					continue
				}
				evs = append(evs, addEv{call, hc.Call.Args[0], nil})
			}
			for _, call := range an.AllCalls(fn) {
				H := call.Common().StaticCallee()
				idx, isBlk, isAdder := c02Adder(H, isLiveFilter)
				if !isAdder {
					continue
				}
				if _, isCall := call.(*ssa.Call); !isCall || !an.Dominates(s, call) {
					why = "the helper that adds to the filter is not called after the store write"
					continue
				}
				c.OK("O5", "R-DOM", name, ci.Name+": filter loaded after the store write", call.Pos(), "the helper loading b.bloom and adding the key is called after the store write returned")
				if isBlk {
					evs = append(evs, addEv{call, nil, call.Common().Args[idx]})
				} else {
					evs = append(evs, addEv{call, call.Common().Args[idx], nil})
				}
			}
			for _, ev := range evs {
				call := ev.at
				if blk != nil {
					if !((ev.cidVal != nil && c02IsCidOf(ev.cidVal, blk)) || (ev.blkVal != nil && an.SameObj(ev.blkVal, blk))) {
						why = "AddTS of a different block"
						continue
					}
					if r := an.ReachesAnyReturn(fn, s, nonNil, map[ssa.Instruction]bool{call: true}); r != nil {
						why = "a successful Put can return without AddTS"
						continue
					}
					ok = true
				} else {
					// loop over the written slice
					var rl *an.RangeLoop
					for _, l := range an.RangeLoops(fn) {
						if l.Slice == slice && l.Contains(call) {
							rl = l
						}
					}
					if rl == nil {
						why = "AddTS is not in a range loop over the slice written"
						continue
					}
					okElem := ev.blkVal != nil && rl.IsElem(ev.blkVal)
					if ev.cidVal != nil {
						for _, r := range an.Roots(ev.cidVal, nil) {
							if rc, isC := r.(*ssa.Call); isC && an.Callee(rc).Name == "Cid" && rl.IsElem(an.Recv(rc)) {
								okElem = true
							}
						}
					}
					if !okElem || !rl.EveryIteration(call) || len(rl.ExitEdges()) != 0 {
						why = "the loop does not add every block of the batch"
						continue
					}
					if r := an.ReachesAnyReturn(fn, s, nonNil, map[ssa.Instruction]bool{rl.Header.Instrs[0]: true}); r != nil {
						why = "a successful PutMany can return without the add loop"
						continue
					}
					ok = true
				}
			}
			c.Check(ok, "O5", "R-POST", name, ci.Name+"-ok=>AddTS(block.Cid().Hash())", s.Pos(), "every successfully written block is added to the live filter",
				"after a successful "+ci.Name+" on the wrapped store the block's multihash is not added to the live Bloom filter on every path ("+why+"): once active the filter reports the block missing")
		}
	}
	c.Min("O4 answers given from the filter", nUsers, 1)
	c.Min("O5 bloom writes", nO5, 1)
}

// ---------------------------------------------------------------------------
// O6 enumeration goroutine

func c02Enum(c *an.Ctx) {
	p := c.P
	var fn *ssa.Function
	if tBS := c01TBlockstore(p); tBS != nil {
		fn = p.Func("blockstore", tBS.Obj().Name(), "AllKeysChanWithErr")
	}
	if !c.Need(fn != nil, "blockstore.blockstore.AllKeysChanWithErr") {
		return
	}
	name := an.FuncName(fn)
	// the error function: a closure, or a bound method value (`enum.wait`)
	pmap := map[*ssa.Parameter]ssa.Value{}
	var errFn *ssa.Function
	for _, r := range an.Returns(fn) {
		if len(r.Results) == 3 {
			if mc, ok := r.Results[1].(*ssa.MakeClosure); ok {
				errFn = mc.Fn.(*ssa.Function)
				if errFn.Synthetic != "" && len(mc.Bindings) == 1 {
					// bound method wrapper: the method itself, its receiver bound here
					for _, call := range an.AllCalls(errFn) {
						if m := call.Common().StaticCallee(); m != nil && m.Blocks != nil && len(m.Params) > 0 {
							errFn = m
							pmap[m.Params[0]] = mc.Bindings[0]
						}
					}
				}
			}
		}
	}
	// the goroutine: a closure, or a package function/method started with `go`
	var gor *ssa.Function
	for _, call := range an.AllCalls(fn) {
		if g, ok := call.(*ssa.Go); ok {
			if mc, ok := g.Call.Value.(*ssa.MakeClosure); ok {
				gor = mc.Fn.(*ssa.Function)
			} else if f := g.Call.StaticCallee(); f != nil && f.Blocks != nil {
				gor = f
				for i, q := range f.Params {
					if i < len(g.Call.Args) {
						pmap[q] = g.Call.Args[i]
					}
				}
			}
		}
	}
	if !c.Need(errFn != nil && gor != nil, "error function and enumeration goroutine of AllKeysChanWithErr") {
		return
	}
	// locOf: identity of a memory location (a captured variable of fn, or a
	// field of an object allocated in fn) from inside the goroutine / the
	// error function, through captured variables, parameters and receivers
	var locOf func(addr ssa.Value, d int) string
	var objOf func(v ssa.Value, d int) string
	objOf = func(v ssa.Value, d int) string {
		if v == nil || d > 8 {
			return ""
		}
		// a pointer held in a (possibly twice captured) variable: its single assignment
		if u, ok := v.(*ssa.UnOp); ok && u.Op == token.MUL {
			if cell := an.CellOf(u.X); cell != nil {
				var stored ssa.Value
				n := 0
				for _, ref := range *cell.Referrers() {
					if st, ok := ref.(*ssa.Store); ok && st.Addr == ssa.Value(cell) {
						stored = st.Val
						n++
					}
				}
				if n == 1 {
					return objOf(stored, d+1)
				}
				return ""
			}
		}
		rs := an.Roots(v, nil)
		if len(rs) != 1 {
			return ""
		}
		switch r := rs[0].(type) {
		case *ssa.Alloc:
			return fmt.Sprintf("obj@%d", r.Pos())
		case *ssa.Parameter:
			return objOf(pmap[r], d+1)
		}
		return ""
	}
	locOf = func(addr ssa.Value, d int) string {
		if addr == nil || d > 8 {
			return ""
		}
		switch a := addr.(type) {
		case *ssa.Alloc:
			return fmt.Sprintf("cell@%d", a.Pos())
		case *ssa.FreeVar:
			if cell := an.CellOf(a); cell != nil {
				return fmt.Sprintf("cell@%d", cell.Pos())
			}
		case *ssa.Parameter:
			return locOf(pmap[a], d+1)
		case *ssa.FieldAddr:
			if o := objOf(a.X, d+1); o != "" {
				return fmt.Sprintf("%s.%d", o, a.Field)
			}
		case *ssa.UnOp:
			// a pointer held in a variable (`errp` spilled, captured ...)
			if a.Op == token.MUL {
				rs := an.Roots(a, nil)
				if len(rs) == 1 && rs[0] != ssa.Value(a) {
					return locOf(rs[0], d+1)
				}
			}
		}
		return ""
	}
	chanLoc := func(v ssa.Value) string {
		for i := 0; i < 4 && v != nil; i++ {
			switch x := v.(type) {
			case *ssa.UnOp:
				if x.Op == token.MUL {
					if l := locOf(x.X, 0); l != "" {
						return l
					}
				}
				return ""
			case *ssa.Parameter:
				v = pmap[x]
			case *ssa.ChangeType:
				v = x.X
			default:
				return ""
			}
		}
		return ""
	}
	errLoc, doneLoc := "", ""
	var errLoad, doneRecv ssa.Instruction
	for _, r := range an.Returns(errFn) {
		if len(r.Results) == 1 {
			if u, ok := r.Results[0].(*ssa.UnOp); ok && u.Op == token.MUL {
				errLoc = locOf(u.X, 0)
				errLoad = u
			}
		}
	}
	an.Instrs(errFn, func(in ssa.Instruction) {
		if u, ok := in.(*ssa.UnOp); ok && u.Op == token.ARROW {
			doneLoc = chanLoc(u.X)
			doneRecv = u
		}
	})
	if !c.Need(errLoc != "", "error location read by the returned error function") {
		return
	}
	c.Check(doneLoc != "" && doneRecv != nil && errLoad != nil && an.Dominates(doneRecv, errLoad), "O6", "R-DOM", an.FuncName(errFn), "wait-done<read-iterErr", errFn.Pos(),
		"the error function waits for the goroutine before reading the error", "the error function reads the iteration error without first waiting for the enumeration goroutine to finish: a failed enumeration can be read as complete")
	// exits of the goroutine
	var next *ssa.Call
	for _, call := range an.AllCalls(gor) {
		if ci := an.Callee(call); ci.Name == "NextSync" || ci.Name == "Next" {
			next = an.CallValue(call)
		}
	}
	if !c.Need(next != nil, "result iteration call in the enumeration goroutine") {
		return
	}
	var errStores []ssa.Instruction
	an.Instrs(gor, func(in ssa.Instruction) {
		if st, ok := in.(*ssa.Store); ok && !an.IsNilConst(st.Val) && locOf(st.Addr, 0) == errLoc {
			errStores = append(errStores, st)
		}
	})
	blocked := map[ssa.Instruction]bool{}
	for _, s := range errStores {
		blocked[s] = true
	}
	exhausted := an.BoolEdges(gor, an.Result(next, 1), false)
	n := 0
	for _, r := range an.Returns(gor) {
		if !an.Reaches(gor, nil, r, nil, nil) {
			continue // recover block
		}
		n++
		ok := an.Dominates(next, r) && !an.Reaches(gor, next, r, exhausted, blocked)
		c.Check(ok, "O6", "R-POST", an.FuncName(gor), "exit=>iterErr-set-unless-exhausted", r.Pos(), "every exit other than 'result set exhausted' records an error first",
			"the enumeration goroutine can stop early (iteration error, cancelled context) without recording an error: the Bloom filter is built from a truncated key list and activated")
	}
	c.Min("O6 exits of the enumeration goroutine", n, 1)
	// an entry that carries an iteration error must be recorded before the next
	// entry is fetched (it must not be skipped silently)
	var entryErrs []ssa.Value
	an.Instrs(gor, func(in ssa.Instruction) {
		if u, ok := in.(*ssa.UnOp); ok && u.Op == token.MUL {
			if f, _ := an.FieldOf(u.X); f != nil && f.Name() == "Error" && an.IsErrorType(u.Type()) {
				entryErrs = append(entryErrs, u)
			}
		}
	})
	failing := an.NilEdges(gor, entryErrs, false)
	okEntry := len(failing) > 0
	for e := range failing {
		ifi := e.From.Instrs[len(e.From.Instrs)-1]
		cut := an.EdgeSet{an.Edge{From: e.From, Succ: 1 - e.Succ}: true}
		targets := []ssa.Instruction{next}
		for _, r := range an.Returns(gor) {
			targets = append(targets, r)
		}
		for _, tg := range targets {
			if an.Reaches(gor, ifi, tg, cut, blocked) {
				okEntry = false
			}
		}
	}
	c.Check(okEntry, "O6", "R-POST", an.FuncName(gor), "entry.Error=>iterErr-set", next.Pos(), "a result entry carrying an error is recorded as the enumeration error",
		"a query result that carries an iteration error is not recorded as the enumeration's error before the goroutine goes on or returns (or the entry's Error is never tested): keys are silently missing from the enumeration and the Bloom filter is activated without them")
	// deferred closes: output before done
	okOrder := false
	doneID := doneLoc
	for _, g := range gor.AnonFuncs {
		var closes []*ssa.Call
		var ids []string
		for _, call := range an.AllCalls(g) {
			if cv, ok := call.(*ssa.Call); ok {
				if cc, ok := an.IsBuiltinCall(cv, "close"); ok {
					closes = append(closes, cc)
					id := chanLoc(cc.Call.Args[0])
					if id == "" {
						id = "other:" + an.PathOf(cc.Call.Args[0])
					}
					ids = append(ids, id)
				}
			}
		}
		for i := range closes {
			for j := range closes {
				if ids[j] == doneID && ids[i] != doneID && an.Dominates(closes[i], closes[j]) {
					okOrder = true
				}
			}
		}
		for i := range closes {
			if ids[i] == doneID {
				for j := range closes {
					if ids[j] != doneID && !an.Dominates(closes[j], closes[i]) {
						okOrder = false
					}
				}
			}
		}
	}
	c.Check(okOrder, "O6", "R-DOM", name, "close(output)<close(done)", gor.Pos(), "the key channel is closed before completion is signalled",
		"completion is signalled before the key channel is closed (or never): the consumer can read a nil error before the goroutine recorded one")
}

// ---------------------------------------------------------------------------
// O7 delegating wrappers

func c02Siblings(c *an.Ctx) {
	p := c.P
	bsPkg := p.Pkg("blockstore")
	if !c.Need(bsPkg != nil, "package blockstore") {
		return
	}
	lookupIface := func(name string) *types.Interface {
		tn, _ := bsPkg.Types.Scope().Lookup(name).(*types.TypeName)
		if tn == nil {
			return nil
		}
		i, _ := tn.Type().Underlying().(*types.Interface)
		return i
	}
	iBS, iErr := lookupIface("Blockstore"), lookupIface("AllKeysChanWithErrer")
	if !c.Need(iBS != nil && iErr != nil, "interfaces blockstore.Blockstore and blockstore.AllKeysChanWithErrer") {
		return
	}
	implBS := func(t types.Type) bool {
		return types.Implements(t, iBS) || types.Implements(types.NewPointer(t), iBS)
	}
	n := 0
	var names []string
	for _, pk := range p.Pkgs {
		scope := pk.Types.Scope()
		for _, nm := range scope.Names() {
			tn, ok := scope.Lookup(nm).(*types.TypeName)
			if !ok || tn.IsAlias() {
				continue
			}
			named, ok := tn.Type().(*types.Named)
			if !ok {
				continue
			}
			st, ok := named.Underlying().(*types.Struct)
			if !ok || !implBS(named) {
				continue
			}
			// how is AllKeysChan provided?
			obj, index, _ := types.LookupFieldOrMethod(types.NewPointer(named), true, pk.Types, "AllKeysChan")
			m, ok := obj.(*types.Func)
			if !ok {
				continue
			}
			var inner string // description of the wrapped store
			var innerField *types.Var
			if len(index) > 1 {
				// promoted through an embedded field
				f := st.Field(index[0])
				if _, isIface := f.Type().Underlying().(*types.Interface); isIface && implBS(f.Type()) {
					inner, innerField = "embedded "+f.Name(), f
				} else {
					continue // promoted from an embedded concrete type: that type is checked itself
				}
			} else if fn := p.FuncOf(m); fn != nil {
				// explicit method: returns wrapped.AllKeysChan(ctx) directly
				for _, r := range an.Returns(fn) {
					if len(r.Results) != 2 {
						continue
					}
					call, ok := an.IsCallTo(r.Results[0], an.M("", "", "AllKeysChan"))
					if !ok || !call.Call.IsInvoke() {
						continue
					}
					if f, _ := an.FieldOf(c01LoadAddr(call.Call.Value)); f != nil && implBS(f.Type()) {
						inner, innerField = "field "+f.Name(), f
					}
				}
			}
			if innerField == nil {
				continue // a source (datastore-backed, remote ...), not a delegator
			}
			n++
			tname := strings.TrimPrefix(pk.PkgPath, an.Mod+"/") + "." + tn.Name()
			names = append(names, tname)
			// must implement AllKeysChanWithErrer by delegating to the same field
			ok2, why := false, "does not implement AllKeysChanWithErrer"
			if types.Implements(named, iErr) || types.Implements(types.NewPointer(named), iErr) {
				why = "AllKeysChanWithErr does not forward to the wrapped store's enumeration with error"
				eobj, eidx, _ := types.LookupFieldOrMethod(types.NewPointer(named), true, pk.Types, "AllKeysChanWithErr")
				if em, ok := eobj.(*types.Func); ok && len(eidx) == 1 {
					if efn := p.FuncOf(em); efn != nil {
						for _, call := range an.AllCalls(efn) {
							cs := call.Common()
							var arg ssa.Value
							if f := cs.StaticCallee(); c02IsEnumHelper(f) && len(cs.Args) == 2 {
								arg = cs.Args[1]
							} else if cs.IsInvoke() && cs.Method.Name() == "AllKeysChanWithErr" {
								// own type assertion on the wrapped store
								for _, r := range an.Roots(cs.Value, nil) {
									if ta, ok := r.(*ssa.Extract); ok {
										if t, ok := ta.Tuple.(*ssa.TypeAssert); ok {
											arg = t.X
										}
									} else if t, ok := r.(*ssa.TypeAssert); ok {
										arg = t.X
									}
								}
							}
							if arg == nil {
								continue
							}
							if f, _ := an.FieldOf(c01LoadAddr(arg)); f == innerField {
								// results returned as they are
								for _, r := range an.Returns(efn) {
									if len(r.Results) == 3 {
										if rc, ok := an.IsCallTo(r.Results[1], an.M("", "", "")); ok && ssa.Instruction(rc) == call.(ssa.Instruction) {
											ok2 = true
										}
									}
								}
							}
						}
					}
				}
			}
			pos := tn.Pos()
			c.Check(ok2, "O7", "R-SIB", tname, "AllKeysChan("+inner+")=>AllKeysChanWithErr(same store)", pos,
				"delegating wrapper forwards enumeration errors of the store it wraps",
				tname+" implements Blockstore by delegating AllKeysChan to the store it wraps but "+why+": a cache layered on top sees a truncated enumeration as complete, activates its Bloom filter and reports existing blocks missing")
		}
	}
	sort.Strings(names)
	c.Note("O7 delegating Blockstore wrappers: %s", strings.Join(names, ", "))
	c.Min("O7 delegating Blockstore wrappers", n, 1)
}
