package props

// Role-based resolution of the unexported types, fields and constants that the
// C15/C16/C17/C45 checks anchor on (impl-d). Exported identifiers (Shard,
// BasicDirectory, HAMTDirectory, ProtoNode, NewHAMTDirectory, Set* methods,
// Logtwo, With* options ...) are API and used by name; everything unexported is
// found by its type and by how it is used, so that a renaming pass over the
// repository does not change what the checks see.

import (
	"go/constant"
	"go/token"
	"go/types"

	"golang.org/x/tools/go/ssa"

	"verif/checker/an"
)

func c15StructOf(n *types.Named) *types.Struct {
	if n == nil {
		return nil
	}
	st, _ := n.Underlying().(*types.Struct)
	return st
}

func c15IsIntT(t types.Type) bool {
	b, ok := t.Underlying().(*types.Basic)
	return ok && b.Kind() == types.Int
}

func c15SliceOfPtrTo(t types.Type, pkg, name string) bool {
	sl, ok := t.Underlying().(*types.Slice)
	if !ok {
		return false
	}
	_, isPtr := sl.Elem().(*types.Pointer)
	return isPtr && an.TypeIs(sl.Elem(), pkg, name)
}

// fieldsWhere returns the fields of st satisfying pred.
func c15FieldsWhere(st *types.Struct, pred func(*types.Var) bool) []*types.Var {
	var out []*types.Var
	if st == nil {
		return nil
	}
	for i := 0; i < st.NumFields(); i++ {
		if pred(st.Field(i)) {
			out = append(out, st.Field(i))
		}
	}
	return out
}

func c15One(vs []*types.Var) *types.Var {
	if len(vs) == 1 {
		return vs[0]
	}
	return nil
}

// ---------------------------------------------------------------- hamt

type c15HamtRoles struct {
	shard, childer, hashBits, linkType *types.Named
	// Shard fields
	fChilder, fTableSize, fTableSizeLg2, fMaxpadlen, fPrefixPad, fKey, fVal, fBuilder *types.Var
	// childer fields
	fChildren, fLinks, fBitfield, fOwner *types.Var
	// hashBits
	fConsumed *types.Var
	// link kinds
	kShard, kValue constant.Value
}

func (r *c15HamtRoles) childerName() string {
	if r.childer != nil {
		return r.childer.Obj().Name()
	}
	return "childer"
}

func (r *c15HamtRoles) hashBitsName() string {
	if r.hashBits != nil {
		return r.hashBits.Obj().Name()
	}
	return "hashBits"
}

func (r *c15HamtRoles) isHashBits(t types.Type) bool {
	return r.hashBits != nil && an.TypeIs(t, c15H, r.hashBits.Obj().Name())
}

func (r *c15HamtRoles) isLinkType(t types.Type) bool {
	return r.linkType != nil && an.TypeIs(t, c15H, r.linkType.Obj().Name())
}

var c15HR *c15HamtRoles

func c15ResolveHamt(p *an.Prog) *c15HamtRoles {
	r := &c15HamtRoles{}
	c15HR = r
	pk := p.Pkg(c15H)
	if pk == nil {
		return r
	}
	r.shard = p.Named(c15H, "Shard")
	sst := c15StructOf(r.shard)
	if sst == nil {
		return r
	}
	const lf = "github.com/ipfs/go-ipld-format"
	// childer: the struct (pointed to by a Shard field) that holds []*Shard
	for i := 0; i < sst.NumFields(); i++ {
		f := sst.Field(i)
		pt, ok := f.Type().(*types.Pointer)
		if !ok {
			continue
		}
		n, ok := types.Unalias(pt.Elem()).(*types.Named)
		if !ok || n.Obj().Pkg() != pk.Types {
			continue
		}
		if st := c15StructOf(n); st != nil && len(c15FieldsWhere(st, func(v *types.Var) bool { return c15SliceOfPtrTo(v.Type(), c15H, "Shard") })) == 1 {
			r.childer, r.fChilder = n, f
		}
	}
	if cst := c15StructOf(r.childer); cst != nil {
		r.fChildren = c15One(c15FieldsWhere(cst, func(v *types.Var) bool { return c15SliceOfPtrTo(v.Type(), c15H, "Shard") }))
		r.fLinks = c15One(c15FieldsWhere(cst, func(v *types.Var) bool { return c15SliceOfPtrTo(v.Type(), lf, "Link") }))
		r.fBitfield = c15One(c15FieldsWhere(cst, func(v *types.Var) bool { return an.TypeIs(v.Type(), "github.com/ipfs/go-bitfield", "Bitfield") }))
		r.fOwner = c15One(c15FieldsWhere(cst, func(v *types.Var) bool {
			_, isPtr := v.Type().(*types.Pointer)
			return isPtr && an.TypeIs(v.Type(), c15H, "Shard")
		}))
	}
	r.fVal = c15One(c15FieldsWhere(sst, func(v *types.Var) bool {
		_, isPtr := v.Type().(*types.Pointer)
		return isPtr && an.TypeIs(v.Type(), lf, "Link")
	}))
	r.fBuilder = c15One(c15FieldsWhere(sst, func(v *types.Var) bool { return an.TypeIs(v.Type(), "github.com/ipfs/go-cid", "Builder") }))
	// the int / string fields of Shard: told apart by what the constructor stores
	isShardField := func(v *types.Var) bool {
		for i := 0; i < sst.NumFields(); i++ {
			if sst.Field(i) == v {
				return true
			}
		}
		return false
	}
	for _, f := range p.PkgFuncs(c15H) {
		an.Instrs(f, func(in ssa.Instruction) {
			st, ok := in.(*ssa.Store)
			if !ok {
				return
			}
			fl, base := an.FieldOf(st.Addr)
			if fl == nil || !isShardField(fl) || !an.IsFresh(base) {
				return
			}
			switch {
			case c15IsIntT(fl.Type()):
				if _, isLg := an.IsCallTo(st.Val, an.M(c15H, "", "Logtwo")); isLg {
					r.fTableSizeLg2 = fl
				} else if _, isPar := st.Val.(*ssa.Parameter); isPar {
					r.fTableSize = fl
				} else if call, isCall := st.Val.(*ssa.Call); isCall {
					if bi, isB := call.Call.Value.(*ssa.Builtin); isB && bi.Name() == "len" {
						r.fMaxpadlen = fl
					}
				}
			case an.IsString(fl.Type()):
				if _, isSp := an.IsCallTo(st.Val, an.M("fmt", "", "Sprintf")); isSp {
					r.fPrefixPad = fl
				} else if _, isPar := st.Val.(*ssa.Parameter); isPar {
					r.fKey = fl
				}
			}
		})
	}
	// ... and, more robustly (the constructor is what a faulty change edits), by
	// how the methods use them
	useInt := map[string]*types.Var{}
	useStr := map[string]*types.Var{}
	for _, f := range p.PkgFuncs(c15H) {
		an.Instrs(f, func(in ssa.Instruction) {
			switch x := in.(type) {
			case *ssa.Slice:
				// name[<field>:] on a string
				if an.IsString(x.X.Type()) && x.Low != nil {
					if fl, _ := an.LoadedField(x.Low); fl != nil && isShardField(fl) && c15IsIntT(fl.Type()) {
						useInt["maxpadlen"] = fl
					}
				}
			case *ssa.BinOp:
				if x.Op == token.EQL || x.Op == token.NEQ {
					for _, pair := range [][2]ssa.Value{{x.X, x.Y}, {x.Y, x.X}} {
						if fl, _ := an.LoadedField(pair[0]); fl != nil && isShardField(fl) && an.IsString(fl.Type()) {
							if _, isPar := pair[1].(*ssa.Parameter); isPar {
								useStr["key"] = fl
							}
						}
					}
				}
			case ssa.CallInstruction:
				ci := an.Callee(x)
				args := x.Common().Args
				switch {
				case ci.Pkg == "fmt" && ci.Name == "Sprintf" && len(args) > 0:
					if fl, _ := an.LoadedField(args[0]); fl != nil && isShardField(fl) {
						useStr["prefixPad"] = fl
					}
				case ci.Name == "Next" && ci.Pkg == an.Mod+"/"+c15H:
					for _, a := range an.Args(x) {
						if fl, _ := an.LoadedField(a); fl != nil && isShardField(fl) && c15IsIntT(fl.Type()) {
							useInt["lg2"] = fl
						}
					}
				case ci.Name == "NewShard" && ci.Pkg == an.Mod+"/"+c15H && f.Signature.Recv() != nil:
					for _, a := range an.Args(x) {
						if fl, _ := an.LoadedField(a); fl != nil && isShardField(fl) && c15IsIntT(fl.Type()) {
							useInt["size"] = fl
						}
					}
				}
			}
		})
	}
	if v := useInt["maxpadlen"]; v != nil {
		r.fMaxpadlen = v
	}
	if v := useInt["lg2"]; v != nil {
		r.fTableSizeLg2 = v
	}
	if v := useInt["size"]; v != nil {
		r.fTableSize = v
	}
	if v := useStr["prefixPad"]; v != nil {
		r.fPrefixPad = v
	}
	if v := useStr["key"]; v != nil {
		r.fKey = v
	}
	// hashBits: the package's struct of exactly ([]byte, int)
	sc := pk.Types.Scope()
	for _, name := range sc.Names() {
		tn, ok := sc.Lookup(name).(*types.TypeName)
		if !ok {
			continue
		}
		n, ok := tn.Type().(*types.Named)
		if !ok {
			continue
		}
		if st := c15StructOf(n); st != nil && st.NumFields() == 2 {
			var nb, ni int
			var fi *types.Var
			for i := 0; i < 2; i++ {
				if sl, ok := st.Field(i).Type().Underlying().(*types.Slice); ok {
					if b, ok := sl.Elem().Underlying().(*types.Basic); ok && b.Kind() == types.Byte {
						nb++
					}
				}
				if c15IsIntT(st.Field(i).Type()) {
					ni++
					fi = st.Field(i)
				}
			}
			if nb == 1 && ni == 1 {
				r.hashBits, r.fConsumed = n, fi
			}
		}
	}
	// linkType: the unexported int type returned (with an error) by a Shard method
	if r.shard != nil {
		for _, m := range p.Methods(c15H, "Shard") {
			rs := m.Signature.Results()
			if rs.Len() != 2 || !an.IsErrorType(rs.At(1).Type()) {
				continue
			}
			n, ok := types.Unalias(rs.At(0).Type()).(*types.Named)
			if !ok || n.Obj().Pkg() != pk.Types || n.Obj().Exported() || !c15IsIntT(n) {
				continue
			}
			r.linkType = n
			// the link kinds: the constant returned where len(name) == maxpadlen is
			// the shard link; the other one returned with a nil error the value link
			var eqTrue an.EdgeSet
			if r.fMaxpadlen != nil {
				eqTrue = an.CmpEdges(m, func(op token.Token, a, b ssa.Value) (bool, bool) {
					if op != token.EQL && op != token.NEQ {
						return false, false
					}
					fa, _ := an.LoadedField(a)
					fb, _ := an.LoadedField(b)
					if fa != r.fMaxpadlen && fb != r.fMaxpadlen {
						return false, false
					}
					return op == token.EQL, op == token.NEQ
				})
			}
			errSites := an.ResultSites(m, 1)
			for _, ks := range an.ResultSites(m, 0) {
				k, ok := an.ConstOf(ks.Val)
				if !ok {
					continue
				}
				okErr := false
				for _, es := range errSites {
					if es.Ret == ks.Ret && an.IsNilConst(es.Val) {
						okErr = true
					}
				}
				if !okErr {
					continue
				}
				if len(eqTrue) > 0 && an.GuardedBy(m, nil, ks.At, eqTrue) {
					r.kShard = k
				} else {
					r.kValue = k
				}
			}
		}
	}
	return r
}

// ---------------------------------------------------------------- io

type c16IORoles struct {
	basic, hamt                                 *types.Named
	bNode, bEst, bTot, bMode, bMtime, bMaxLinks *types.Var
	hShard, hSizeChange, hTot, hMaxLinks        *types.Var
	pnLinks                                     *types.Var        // merkledag.ProtoNode's link slice (nil when merkledag is not loaded from source)
	label                                       map[string]string // config field name -> stable role label
}

var c16IOR *c16IORoles

func c16ResolveIO(p *an.Prog) *c16IORoles {
	r := &c16IORoles{label: map[string]string{}}
	c16IOR = r
	r.basic, r.hamt = p.Named(c16IO, "BasicDirectory"), p.Named(c16IO, "HAMTDirectory")
	bst, hst := c15StructOf(r.basic), c15StructOf(r.hamt)
	if bst == nil || hst == nil {
		return r
	}
	isPtrTo := func(v *types.Var, pkg, name string) bool {
		_, isPtr := v.Type().(*types.Pointer)
		return isPtr && an.TypeIs(v.Type(), pkg, name)
	}
	r.bNode = c15One(c15FieldsWhere(bst, func(v *types.Var) bool { return isPtrTo(v, "ipld/merkledag", "ProtoNode") }))
	r.bMode = c15One(c15FieldsWhere(bst, func(v *types.Var) bool { return an.TypeIs(v.Type(), "io/fs", "FileMode") }))
	r.bMtime = c15One(c15FieldsWhere(bst, func(v *types.Var) bool { return an.TypeIs(v.Type(), "time", "Time") }))
	r.hShard = c15One(c15FieldsWhere(hst, func(v *types.Var) bool { return isPtrTo(v, "ipld/unixfs/hamt", "Shard") }))
	// int fields written by exported setters are configuration
	setterField := func(typ, setter string, st *types.Struct) *types.Var {
		f := p.Func(c16IO, typ, setter)
		if f == nil {
			return nil
		}
		var out *types.Var
		an.Instrs(f, func(in ssa.Instruction) {
			if s, ok := in.(*ssa.Store); ok {
				if fl, _ := an.FieldOf(s.Addr); fl != nil && c15IsIntT(fl.Type()) {
					for i := 0; i < st.NumFields(); i++ {
						if st.Field(i) == fl {
							out = fl
						}
					}
				}
			}
		})
		return out
	}
	cfgB, cfgH := map[*types.Var]bool{}, map[*types.Var]bool{}
	for _, s := range []string{"SetMaxLinks", "SetMaxHAMTFanout", "SetHAMTShardingSize"} {
		if f := setterField("BasicDirectory", s, bst); f != nil {
			cfgB[f] = true
			if s == "SetMaxLinks" {
				r.bMaxLinks = f
			}
		}
		if f := setterField("HAMTDirectory", s, hst); f != nil {
			cfgH[f] = true
			if s == "SetMaxLinks" {
				r.hMaxLinks = f
			}
		}
	}
	fns := p.PkgFuncs(c16IO)
	// BasicDirectory: of the remaining int fields, the estimate is the one a size
	// function result is stored/added to, the link counter the one stepped by 1
	for _, f := range fns {
		an.Instrs(f, func(in ssa.Instruction) {
			s, ok := in.(*ssa.Store)
			if !ok {
				return
			}
			fl, _ := an.FieldOf(s.Addr)
			if fl == nil || !c15IsIntT(fl.Type()) {
				return
			}
			inB, inH := false, false
			for i := 0; i < bst.NumFields(); i++ {
				inB = inB || bst.Field(i) == fl
			}
			for i := 0; i < hst.NumFields(); i++ {
				inH = inH || hst.Field(i) == fl
			}
			if (inB && cfgB[fl]) || (inH && cfgH[fl]) {
				return
			}
			switch v := s.Val.(type) {
			case *ssa.Call:
				if inB && c16SizeKind(v) != "" {
					r.bEst = fl
				}
			case *ssa.BinOp:
				if fx, _ := an.LoadedField(v.X); fx != fl || (v.Op != token.ADD && v.Op != token.SUB) {
					return
				}
				if k, isK := an.ConstOf(v.Y); isK && k.String() == "1" {
					if inB {
						r.bTot = fl
					} else if inH {
						r.hTot = fl
					}
				} else if call, isCall := v.Y.(*ssa.Call); isCall && inB && c16SizeKind(call) != "" {
					r.bEst = fl
				}
			case *ssa.Parameter:
				// HAMTDirectory: the tracker is initialised from the int parameter of the exported constructor
				if inH && s.Parent() != nil && s.Parent().Name() == "NewHAMTDirectory" && c15IsIntT(v.Type()) {
					r.hSizeChange = fl
				}
			}
		})
	}
	if pn := p.Named("ipld/merkledag", "ProtoNode"); pn != nil {
		r.pnLinks = c15One(c15FieldsWhere(c15StructOf(pn), func(v *types.Var) bool {
			return c15SliceOfPtrTo(v.Type(), "github.com/ipfs/go-ipld-format", "Link")
		}))
	}
	return r
}

// c15KeyName is the name used for a callee inside an obligation key: the
// callee's own name when it is exported API, the given role label otherwise
// (keys must not change when an unexported helper is renamed).
func c15KeyName(call ssa.CallInstruction, role string) string {
	ci := an.Callee(call)
	if ci.Name != "" && token.IsExported(ci.Name) {
		return ci.Name
	}
	return role
}
