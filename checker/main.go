// boxocheck decides structural obligations behind the boxo properties by
// static analysis of /repo's current working tree. See /verif/DESIGN.md.
package main

import (
	"encoding/json"
	"fmt"
	"os"
	"runtime/debug"
	"sort"

	"verif/checker/an"
	"verif/checker/props"
)

func main() {
	if len(os.Args) < 2 {
		fmt.Fprintln(os.Stderr, "usage: boxocheck <Cnn|list> [quick|thorough] [--replay file]")
		os.Exit(2)
	}
	if os.Args[1] == "list" {
		var ids []string
		for id := range props.Registry {
			ids = append(ids, id)
		}
		sort.Strings(ids)
		for _, id := range ids {
			fmt.Println(id)
		}
		return
	}
	if os.Args[1] == "describe" {
		type d struct {
			ID, Explain, Technique string
			Assume                 []string
			Pkgs                   []string
		}
		var out []d
		for id, p := range props.Registry {
			out = append(out, d{id, p.Explain, p.Technique, p.Assume, p.Pkgs})
		}
		sort.Slice(out, func(i, j int) bool { return out[i].ID < out[j].ID })
		b, _ := json.MarshalIndent(out, "", " ")
		fmt.Println(string(b))
		return
	}
	id := os.Args[1]
	tier := "quick"
	replay := ""
	for i := 2; i < len(os.Args); i++ {
		switch os.Args[i] {
		case "quick", "thorough":
			tier = os.Args[i]
		case "--replay":
			if i+1 < len(os.Args) {
				replay = os.Args[i+1]
				i++
			}
		}
	}
	pr, ok := props.Registry[id]
	if !ok {
		fmt.Fprintf(os.Stderr, "unknown property %s\n", id)
		os.Exit(2)
	}
	os.Exit(run(id, tier, replay, pr))
}

func run(id, tier, replay string, pr props.Prop) (code int) {
	c := an.NewCtx(id, tier)
	c.Explain = pr.Explain
	c.Assume = pr.Assume
	defer func() {
		if r := recover(); r != nil {
			fmt.Printf("CHECKER-PROBLEM property=%s panic: %v\n%s\n", id, r, debug.Stack())
			code = 2
		}
	}()
	pats := pr.Pkgs
	if tier == "thorough" {
		pats = []string{"./..."}
	}
	p, err := an.Load(pats...)
	if err != nil {
		fmt.Printf("CHECKER-PROBLEM property=%s %v\n", id, err)
		c.P = &an.Prog{}
		c.Problem("%v", err)
		return c.Finish()
	}
	c.P = p
	pr.Run(c)
	if replay != "" {
		c.PrintReplay(replay)
	}
	return c.Finish()
}
