package an

import (
	"sort"

	"golang.org/x/tools/go/ssa"
)

// Lock modes.
const (
	LNone  = 0
	LRead  = 1
	LWrite = 2
)

// LockOp is the effect of one call on one lock.
type LockOp struct {
	Path    string // canonical access path of the mutex
	Mode    int    // LRead / LWrite
	Acquire bool
}

// LockModel recognises lock operations. The default model (SyncModel) knows
// sync.Mutex / sync.RWMutex methods; properties add their own wrappers.
type LockModel func(c ssa.CallInstruction) []LockOp

func SyncModel(c ssa.CallInstruction) []LockOp {
	ci := Callee(c)
	if ci.Pkg != "sync" || (ci.Recv != "Mutex" && ci.Recv != "RWMutex") {
		return nil
	}
	r := Recv(c)
	if r == nil {
		return nil
	}
	p := PathOf(r)
	switch ci.Name {
	case "Lock":
		return []LockOp{{p, LWrite, true}}
	case "Unlock":
		return []LockOp{{p, LWrite, false}}
	case "RLock":
		return []LockOp{{p, LRead, true}}
	case "RUnlock":
		return []LockOp{{p, LRead, false}}
	}
	return nil
}

// LockState maps lock path -> mode held.
type LockState map[string]int

func (s LockState) clone() LockState {
	r := LockState{}
	for k, v := range s {
		r[k] = v
	}
	return r
}

func (s LockState) String() string {
	var ks []string
	for k, v := range s {
		if v != LNone {
			m := "R"
			if v == LWrite {
				m = "W"
			}
			ks = append(ks, k+":"+m)
		}
	}
	sort.Strings(ks)
	out := "{"
	for i, k := range ks {
		if i > 0 {
			out += ","
		}
		out += k
	}
	return out + "}"
}

// LockFacts holds the lock state before every instruction of a function.
type LockFacts struct {
	Before map[ssa.Instruction]LockState
	AtExit map[*ssa.Return]LockState // state at return, before deferred calls run
	// Deferred releases registered on every path (applied at exit)
	Fn *ssa.Function
}

// Locks runs a forward dataflow over fn. With must=true the result is the set
// of locks held on *all* paths (meet = min); with must=false on *some* path
// (meet = max). entry is the state assumed at function entry. Deferred
// lock operations take effect at function exit only.
func Locks(fn *ssa.Function, model LockModel, entry LockState, must bool) *LockFacts {
	if entry == nil {
		entry = LockState{}
	}
	n := len(fn.Blocks)
	in := make([]LockState, n) // nil = not yet computed (top for must, bottom for may)
	out := make([]LockState, n)
	apply := func(st LockState, c ssa.CallInstruction) {
		if _, isDefer := c.(*ssa.Defer); isDefer {
			return
		}
		if _, isGo := c.(*ssa.Go); isGo {
			return
		}
		for _, op := range model(c) {
			if op.Acquire {
				if st[op.Path] < op.Mode {
					st[op.Path] = op.Mode
				}
			} else {
				st[op.Path] = LNone
			}
		}
	}
	transfer := func(b *ssa.BasicBlock, st LockState) LockState {
		st = st.clone()
		for _, i := range b.Instrs {
			if c, ok := i.(ssa.CallInstruction); ok {
				apply(st, c)
			}
		}
		return st
	}
	meet := func(a, b LockState) LockState {
		r := LockState{}
		keys := map[string]bool{}
		for k := range a {
			keys[k] = true
		}
		for k := range b {
			keys[k] = true
		}
		for k := range keys {
			x, y := a[k], b[k]
			if must {
				if y < x {
					x = y
				}
			} else if y > x {
				x = y
			}
			if x != LNone {
				r[k] = x
			}
		}
		return r
	}
	equal := func(a, b LockState) bool {
		if (a == nil) != (b == nil) {
			return false
		}
		for k, v := range a {
			if b[k] != v {
				return false
			}
		}
		for k, v := range b {
			if a[k] != v {
				return false
			}
		}
		return true
	}
	changed := true
	for iter := 0; changed && iter < 4*n+8; iter++ {
		changed = false
		for _, b := range fn.Blocks {
			var st LockState
			if b.Index == 0 {
				st = entry.clone()
			}
			for _, p := range b.Preds {
				if out[p.Index] == nil {
					continue
				}
				if st == nil {
					st = out[p.Index].clone()
				} else {
					st = meet(st, out[p.Index])
				}
			}
			if st == nil {
				continue
			}
			if b.Index == 0 && len(b.Preds) > 0 {
				// loop back to entry block: already merged above
			}
			o := transfer(b, st)
			if !equal(in[b.Index], st) || !equal(out[b.Index], o) {
				in[b.Index], out[b.Index] = st, o
				changed = true
			}
		}
	}
	lf := &LockFacts{Before: map[ssa.Instruction]LockState{}, AtExit: map[*ssa.Return]LockState{}, Fn: fn}
	for _, b := range fn.Blocks {
		st := in[b.Index]
		if st == nil {
			continue // unreachable
		}
		st = st.clone()
		for _, i := range b.Instrs {
			lf.Before[i] = st.clone()
			if c, ok := i.(ssa.CallInstruction); ok {
				apply(st, c)
			}
			if r, ok := i.(*ssa.Return); ok {
				lf.AtExit[r] = st.clone()
			}
		}
	}
	return lf
}

// Held returns the mode in which the lock with the given path is held before
// instruction in (LNone if unknown/unreachable).
func (lf *LockFacts) Held(in ssa.Instruction, path string) int {
	st, ok := lf.Before[in]
	if !ok {
		return LNone
	}
	return st[path]
}

// DeferredOps lists lock operations registered with defer in fn (directly or
// in a deferred closure literal).
func DeferredOps(fn *ssa.Function, model LockModel) []LockOp {
	var out []LockOp
	Instrs(fn, func(in ssa.Instruction) {
		d, ok := in.(*ssa.Defer)
		if !ok {
			return
		}
		out = append(out, model(d)...)
		if mc, ok := d.Call.Value.(*ssa.MakeClosure); ok {
			if g, ok := mc.Fn.(*ssa.Function); ok {
				for _, c := range AllCalls(g) {
					out = append(out, model(c)...)
				}
			}
		}
	})
	return out
}
