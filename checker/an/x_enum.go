package an

import (
	"go/constant"
	"go/token"
	"regexp"

	"golang.org/x/tools/go/ssa"
)

// This file: "abstract execution by enumerator" and relational condition
// edges. Both are pure CFG/SSA queries (nothing is executed).
//
//   * InfeasibleUnder(fn, subj, k): the branch edges that cannot be taken when
//     the value selected by subj equals the constant k. go/ssa lowers every
//     `switch x { case A, B: ... }` and every `if x == A || x == B` into a
//     chain of `If (x == const)`, so cutting those edges and asking what is
//     still reachable decides "what does this function do for enumerator k"
//     independently of the if/switch form that was used.
//   * ReachSet: instructions reachable from a point under cut edges.
//   * TokRelEdges: edges on which a relation `X op Y` is known to hold,
//     normalised over operand order and negation.

// InfeasibleUnder returns the If-edges contradicting subj == k.
func InfeasibleUnder(fn *ssa.Function, subj func(ssa.Value) bool, k constant.Value) EdgeSet {
	out := EdgeSet{}
	for _, b := range fn.Blocks {
		if len(b.Instrs) == 0 {
			continue
		}
		ifi, ok := b.Instrs[len(b.Instrs)-1].(*ssa.If)
		if !ok {
			continue
		}
		atom, neg := atomOf(ifi.Cond)
		bo, ok := atom.(*ssa.BinOp)
		if !ok {
			continue
		}
		var kc *ssa.Const
		op := bo.Op
		switch {
		case subj(bo.X):
			kc, _ = bo.Y.(*ssa.Const)
		case subj(bo.Y):
			kc, _ = bo.X.(*ssa.Const)
			op = swapRel(op)
		}
		if kc == nil || kc.Value == nil || !isRel(op) {
			continue
		}
		if kc.Value.Kind() != k.Kind() {
			continue
		}
		truth := constant.Compare(k, op, kc.Value) // k op const
		if neg {
			truth = !truth
		}
		if truth {
			out[Edge{b, 1}] = true // false edge infeasible
		} else {
			out[Edge{b, 0}] = true
		}
	}
	return out
}

func isRel(op token.Token) bool {
	switch op {
	case token.EQL, token.NEQ, token.LSS, token.LEQ, token.GTR, token.GEQ:
		return true
	}
	return false
}

func swapRel(op token.Token) token.Token {
	switch op {
	case token.LSS:
		return token.GTR
	case token.LEQ:
		return token.GEQ
	case token.GTR:
		return token.LSS
	case token.GEQ:
		return token.LEQ
	}
	return op
}

func negRel(op token.Token) token.Token {
	switch op {
	case token.EQL:
		return token.NEQ
	case token.NEQ:
		return token.EQL
	case token.LSS:
		return token.GEQ
	case token.LEQ:
		return token.GTR
	case token.GTR:
		return token.LEQ
	case token.GEQ:
		return token.LSS
	}
	return op
}

// relImplies: does the fact `X have Y` imply `X want Y`?
func relImplies(have, want token.Token) bool {
	if have == want {
		return true
	}
	switch want {
	case token.LEQ:
		return have == token.LSS || have == token.EQL
	case token.GEQ:
		return have == token.GTR || have == token.EQL
	case token.NEQ:
		return have == token.LSS || have == token.GTR
	}
	return false
}

// TokRelEdges returns the edges on which `X want Y` is known to hold, for the
// comparisons of fn whose operands satisfy isX / isY (in either order).
func TokRelEdges(fn *ssa.Function, isX, isY func(ssa.Value) bool, want token.Token) EdgeSet {
	return CondEdges(fn, func(atom ssa.Value) (bool, bool) {
		bo, ok := atom.(*ssa.BinOp)
		if !ok || !isRel(bo.Op) {
			return false, false
		}
		op := bo.Op
		switch {
		case isX(bo.X) && isY(bo.Y):
		case isX(bo.Y) && isY(bo.X):
			op = swapRel(op)
		default:
			return false, false
		}
		return relImplies(op, want), relImplies(negRel(op), want)
	})
}

// IsIntConst returns a predicate matching integer constants equal to n.
func IsIntConst(n int64) func(ssa.Value) bool {
	return func(v ssa.Value) bool {
		c, ok := v.(*ssa.Const)
		if !ok || c.Value == nil || c.Value.Kind() != constant.Int {
			return false
		}
		x, exact := constant.Int64Val(c.Value)
		return exact && x == n
	}
}

// ReachSet returns every instruction that can execute after `from` (nil =
// function entry) without crossing a cut edge; instructions in stop are
// included but not passed.
func ReachSet(fn *ssa.Function, from ssa.Instruction, cut EdgeSet, stop map[ssa.Instruction]bool) map[ssa.Instruction]bool {
	out := map[ssa.Instruction]bool{}
	if len(fn.Blocks) == 0 {
		return out
	}
	seen := map[*ssa.BasicBlock]bool{}
	var scan func(b *ssa.BasicBlock, start int)
	scan = func(b *ssa.BasicBlock, start int) {
		for i := start; i < len(b.Instrs); i++ {
			in := b.Instrs[i]
			out[in] = true
			if stop[in] {
				return
			}
		}
		for si, s := range b.Succs {
			if cut[Edge{b, si}] || seen[s] {
				continue
			}
			seen[s] = true
			scan(s, 0)
		}
	}
	if from == nil {
		seen[fn.Blocks[0]] = true
		scan(fn.Blocks[0], 0)
	} else {
		scan(from.Block(), idxOf(from)+1)
	}
	return out
}

// SameVal: the two values denote the same object or the same access path.
func SameVal(a, b ssa.Value) bool {
	if a == nil || b == nil {
		return false
	}
	return SameObj(a, b)
}

// RootedIn returns a predicate: every provenance root of the value satisfies
// ok (and there is at least one).
func RootedIn(ok func(ssa.Value) bool) func(ssa.Value) bool {
	return func(v ssa.Value) bool {
		r, _ := AllRoots(v, nil, ok)
		return r
	}
}

var posSuffix = regexp.MustCompile(`@[0-9]+`)

// ShowPath renders PathOf(v) for reports without the position suffixes of
// local cells (report texts stay stable when lines move).
func ShowPath(v ssa.Value) string { return posSuffix.ReplaceAllString(PathOf(v), "") }

// ValuesUnder expands v path-sensitively: a phi contributes only the inputs
// whose incoming edge is feasible, i.e. the predecessor's terminator is in the
// reach set and the edge is not cut. Value-preserving conversions are looked
// through. The result is the set of possible producers of v on the paths of
// the reach set.
func ValuesUnder(v ssa.Value, reach map[ssa.Instruction]bool, cut EdgeSet) []ssa.Value {
	var out []ssa.Value
	seen := map[ssa.Value]bool{}
	var walk func(v ssa.Value)
	walk = func(v ssa.Value) {
		if v == nil || seen[v] {
			return
		}
		seen[v] = true
		switch x := v.(type) {
		case *ssa.Phi:
			b := x.Block()
			for i, e := range x.Edges {
				pred := b.Preds[i]
				if len(pred.Instrs) == 0 || !reach[pred.Instrs[len(pred.Instrs)-1]] {
					continue
				}
				feasible := false
				for si, sb := range pred.Succs {
					if sb == b && !cut[Edge{pred, si}] {
						feasible = true
					}
				}
				if feasible {
					walk(e)
				}
			}
		case *ssa.ChangeType:
			walk(x.X)
		case *ssa.MakeInterface:
			walk(x.X)
		case *ssa.ChangeInterface:
			walk(x.X)
		case *ssa.UnOp:
			// load of a local cell (named result, variable shared with a defer):
			// take the store that reaches it inside its own block, if any
			if cell, ok := x.X.(*ssa.Alloc); ok && x.Op == token.MUL {
				if st := lastStoreBefore(x, cell); st != nil {
					walk(st.Val)
					return
				}
			}
			out = append(out, v)
		default:
			out = append(out, v)
		}
	}
	walk(v)
	return out
}

// lastStoreBefore returns the last store to cell that precedes load in the
// load's own basic block (with no call in between that could run a closure
// writing the cell), or nil.
func lastStoreBefore(load *ssa.UnOp, cell *ssa.Alloc) *ssa.Store {
	b := load.Block()
	captured := false
	for _, r := range *cell.Referrers() {
		if _, ok := r.(*ssa.MakeClosure); ok {
			captured = true
		}
	}
	for i := idxOf(load) - 1; i >= 0; i-- {
		switch in := b.Instrs[i].(type) {
		case *ssa.Store:
			if in.Addr == ssa.Value(cell) {
				return in
			}
		case *ssa.RunDefers, ssa.CallInstruction:
			if captured {
				return nil
			}
		}
	}
	return nil
}

// InfeasibleUnderV is InfeasibleUnder that also evaluates branch conditions
// which are boolean *values* computed from the subject (`removeOld := t == Remove
// || t == Mod; if removeOld {…}`): a boolean phi is evaluated from the incoming
// edges that are still feasible and reachable under subj == k; if every such
// incoming value evaluates to the same constant the If on it is decided.
// Iterated to a fixpoint (each decided branch prunes further incomings).
func InfeasibleUnderV(fn *ssa.Function, subj func(ssa.Value) bool, k constant.Value) EdgeSet {
	out := InfeasibleUnder(fn, subj, k)
	if len(fn.Blocks) == 0 {
		return out
	}
	reachable := func() map[*ssa.BasicBlock]bool {
		seen := map[*ssa.BasicBlock]bool{fn.Blocks[0]: true}
		work := []*ssa.BasicBlock{fn.Blocks[0]}
		for len(work) > 0 {
			b := work[len(work)-1]
			work = work[:len(work)-1]
			for si, s := range b.Succs {
				if out[Edge{b, si}] || seen[s] {
					continue
				}
				seen[s] = true
				work = append(work, s)
			}
		}
		return seen
	}
	var eval func(v ssa.Value, reach map[*ssa.BasicBlock]bool, d int) (val, known bool)
	eval = func(v ssa.Value, reach map[*ssa.BasicBlock]bool, d int) (bool, bool) {
		if d > 8 {
			return false, false
		}
		switch x := v.(type) {
		case *ssa.Const:
			if x.Value != nil && x.Value.Kind() == constant.Bool {
				return constant.BoolVal(x.Value), true
			}
		case *ssa.UnOp:
			if x.Op == token.NOT {
				b, ok := eval(x.X, reach, d+1)
				return !b, ok
			}
		case *ssa.BinOp:
			var kc *ssa.Const
			op := x.Op
			switch {
			case subj(x.X):
				kc, _ = x.Y.(*ssa.Const)
			case subj(x.Y):
				kc, _ = x.X.(*ssa.Const)
				op = swapRel(op)
			}
			if kc != nil && kc.Value != nil && isRel(op) && kc.Value.Kind() == k.Kind() {
				return constant.Compare(k, op, kc.Value), true
			}
		case *ssa.Phi:
			first, have := false, false
			for i, e := range x.Edges {
				pred := x.Block().Preds[i]
				if !reach[pred] {
					continue
				}
				feasible := false
				for si, sb := range pred.Succs {
					if sb == x.Block() && !out[Edge{pred, si}] {
						feasible = true
					}
				}
				if !feasible {
					continue
				}
				b, ok := eval(e, reach, d+1)
				if !ok {
					return false, false
				}
				if have && b != first {
					return false, false
				}
				first, have = b, true
			}
			return first, have
		}
		return false, false
	}
	for iter := 0; iter < 6; iter++ {
		reach := reachable()
		grew := false
		for _, b := range fn.Blocks {
			if !reach[b] || len(b.Instrs) == 0 {
				continue
			}
			ifi, ok := b.Instrs[len(b.Instrs)-1].(*ssa.If)
			if !ok || out[Edge{b, 0}] || out[Edge{b, 1}] {
				continue
			}
			atom, neg := atomOf(ifi.Cond)
			if _, isPhi := atom.(*ssa.Phi); !isPhi {
				continue
			}
			val, known := eval(atom, reach, 0)
			if !known {
				continue
			}
			if neg {
				val = !val
			}
			if val {
				out[Edge{b, 1}] = true
			} else {
				out[Edge{b, 0}] = true
			}
			grew = true
		}
		if !grew {
			break
		}
	}
	return out
}
