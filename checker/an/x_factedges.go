package an

import (
	"go/token"
	"go/types"

	"golang.org/x/tools/go/ssa"
)

// FactEdges is CondEdges for a fact given by its atoms, extended to branch
// conditions that are boolean *values*: `b := x && y; if b {…}` is lowered by
// go/ssa to a phi of constants and operands with no If on `y` at all, and
// `flag := cond; if !flag { flag = f() }; if flag {…}` to a phi of a condition
// value and a call result. For an If on such a phi the fact holds on the true
// (false) edge when, for every incoming value that can be true (false), either
// the value itself being true (false) implies the fact (it is an atom of the
// fact, possibly negated, or again such a phi), or the incoming CFG edge is
// only taken where the fact already holds. Computed as a fixpoint over the
// edge set, so facts established by earlier tests carry over to later phis.
//
// classify receives a condition with negations stripped and says whether the
// fact holds when it is true / when it is false.
func FactEdges(fn *ssa.Function, classify func(atom ssa.Value) (onTrue, onFalse bool)) EdgeSet {
	cur := CondEdges(fn, classify)
	isBool := func(v ssa.Value) bool {
		b, ok := v.Type().Underlying().(*types.Basic)
		return ok && b.Kind() == types.Bool
	}
	edgeHolds := func(pred, blk *ssa.BasicBlock) bool {
		for si, s := range pred.Succs {
			if s == blk && cur[Edge{pred, si}] {
				return true
			}
		}
		if len(pred.Instrs) == 0 {
			return false
		}
		return GuardedBy(fn, nil, pred.Instrs[len(pred.Instrs)-1], cur)
	}
	// implies(v, pol): v evaluating to pol implies the fact
	var implies func(v ssa.Value, pol bool, depth int) bool
	implies = func(v ssa.Value, pol bool, depth int) bool {
		if depth > 6 {
			return false
		}
		switch x := v.(type) {
		case *ssa.Const:
			if x.Value == nil {
				return false
			}
			return (x.Value.String() == "true") != pol // cannot take this value: vacuous
		case *ssa.UnOp:
			if x.Op == token.NOT {
				return implies(x.X, !pol, depth+1)
			}
		case *ssa.Phi:
			if !isBool(x) {
				return false
			}
			for i, e := range x.Edges {
				if implies(e, pol, depth+1) {
					continue
				}
				if edgeHolds(x.Block().Preds[i], x.Block()) {
					continue
				}
				return false
			}
			return true
		}
		t, f := classify(v)
		if pol {
			return t
		}
		return f
	}
	for iter := 0; iter < 4; iter++ {
		next := CondEdges(fn, func(atom ssa.Value) (bool, bool) {
			if t, f := classify(atom); t || f {
				return t, f
			}
			if ph, ok := atom.(*ssa.Phi); ok && isBool(ph) {
				return implies(ph, true, 0), implies(ph, false, 0)
			}
			return false, false
		})
		grew := false
		for e := range next {
			if !cur[e] {
				cur[e] = true
				grew = true
			}
		}
		if !grew {
			break
		}
	}
	return cur
}
