package an

import (
	"golang.org/x/tools/go/ssa"
)

// LocalReach returns fn, its nested closures and every function of the same
// package that is (transitively) called or referenced from them through static
// callees or closures. It is how rules stay indifferent to the extraction of a
// block into an unexported helper: a construct "of fn" is looked up in the
// whole set.
func LocalReach(fn *ssa.Function) []*ssa.Function {
	pkg := pkgOf(fn)
	seen := map[*ssa.Function]bool{}
	var out []*ssa.Function
	var visit func(f *ssa.Function)
	visit = func(f *ssa.Function) {
		if f == nil || seen[f] || f.Blocks == nil || pkgOf(f) != pkg {
			return
		}
		seen[f] = true
		out = append(out, f)
		for _, a := range f.AnonFuncs {
			visit(a)
		}
		Instrs(f, func(in ssa.Instruction) {
			if c, ok := in.(ssa.CallInstruction); ok {
				if s := c.Common().StaticCallee(); s != nil {
					visit(s)
				}
			}
			// function values passed along (callbacks, method values)
			for _, op := range in.Operands(nil) {
				if op == nil || *op == nil {
					continue
				}
				switch v := (*op).(type) {
				case *ssa.Function:
					visit(v)
				case *ssa.MakeClosure:
					if g, ok := v.Fn.(*ssa.Function); ok {
						visit(g)
					}
				}
			}
		})
	}
	visit(fn)
	return out
}

func pkgOf(f *ssa.Function) *ssa.Package {
	for f != nil && f.Pkg == nil && f.Parent() != nil {
		f = f.Parent()
	}
	if f == nil {
		return nil
	}
	if f.Pkg == nil && f.Origin() != nil {
		return f.Origin().Pkg
	}
	return f.Pkg
}

// AlwaysDoes reports whether every normal return of method/function m is
// preceded, on every path from entry, by an instruction satisfying pred
// (a "summary": calling m performs the action).
func AlwaysDoes(m *ssa.Function, pred func(ssa.Instruction) bool) bool {
	if m == nil || m.Blocks == nil {
		return false
	}
	set := FindInstrs(m, pred)
	if len(set) == 0 {
		return false
	}
	rets := Returns(m)
	if len(rets) == 0 {
		return false
	}
	for _, r := range rets {
		if !MustPrecede(m, r, set) {
			return false
		}
	}
	return true
}
