package an

import (
	"go/token"
	"go/types"

	"golang.org/x/tools/go/ssa"
)

// Edge is the CFG edge From -> From.Succs[Succ].
type Edge struct {
	From *ssa.BasicBlock
	Succ int
}

type EdgeSet map[Edge]bool

func (e EdgeSet) Union(o EdgeSet) EdgeSet {
	r := EdgeSet{}
	for k := range e {
		r[k] = true
	}
	for k := range o {
		r[k] = true
	}
	return r
}

func idxOf(in ssa.Instruction) int {
	for i, x := range in.Block().Instrs {
		if x == in {
			return i
		}
	}
	return -1
}

// Dominates reports whether a is executed before b on every path to b
// (same function).
func Dominates(a, b ssa.Instruction) bool {
	if a.Parent() != b.Parent() {
		return false
	}
	if a.Block() == b.Block() {
		return idxOf(a) < idxOf(b)
	}
	return a.Block().Dominates(b.Block())
}

// Reaches reports whether execution can go from just after `from` (or from
// function entry when from == nil) to `to` without crossing an edge in cut and
// without executing an instruction in blocked.
func Reaches(fn *ssa.Function, from, to ssa.Instruction, cut EdgeSet, blocked map[ssa.Instruction]bool) bool {
	if to.Parent() != fn || (from != nil && from.Parent() != fn) {
		return false
	}
	seen := map[*ssa.BasicBlock]bool{}
	var scan func(b *ssa.BasicBlock, start int) bool
	scan = func(b *ssa.BasicBlock, start int) bool {
		for i := start; i < len(b.Instrs); i++ {
			in := b.Instrs[i]
			if in == to {
				return true
			}
			if blocked[in] {
				return false
			}
		}
		for si, s := range b.Succs {
			if cut[Edge{b, si}] {
				continue
			}
			if seen[s] {
				continue
			}
			seen[s] = true
			if scan(s, 0) {
				return true
			}
		}
		return false
	}
	if from == nil {
		if len(fn.Blocks) == 0 {
			return false
		}
		seen[fn.Blocks[0]] = true
		return scan(fn.Blocks[0], 0)
	}
	return scan(from.Block(), idxOf(from)+1)
}

// ReachesAnyReturn reports whether a normal return is reachable from `from`
// avoiding cut edges and blocked instructions; it returns the witness.
func ReachesAnyReturn(fn *ssa.Function, from ssa.Instruction, cut EdgeSet, blocked map[ssa.Instruction]bool) *ssa.Return {
	for _, r := range Returns(fn) {
		if r == from {
			continue
		}
		if Reaches(fn, from, r, cut, blocked) {
			return r
		}
	}
	return nil
}

// atomOf strips boolean negations from a condition.
func atomOf(c ssa.Value) (ssa.Value, bool) {
	neg := false
	for {
		u, ok := c.(*ssa.UnOp)
		if !ok || u.Op != token.NOT {
			return c, neg
		}
		neg = !neg
		c = u.X
	}
}

// CondEdges classifies every If of fn. classify receives the condition with
// negations stripped and says on which outcome (atom true / atom false) the
// fact of interest holds. The returned set contains the CFG edges on which it
// holds.
func CondEdges(fn *ssa.Function, classify func(atom ssa.Value) (onTrue, onFalse bool)) EdgeSet {
	out := EdgeSet{}
	for _, b := range fn.Blocks {
		if len(b.Instrs) == 0 {
			continue
		}
		ifi, ok := b.Instrs[len(b.Instrs)-1].(*ssa.If)
		if !ok {
			continue
		}
		atom, neg := atomOf(ifi.Cond)
		onT, onF := classify(atom)
		if neg {
			onT, onF = onF, onT
		}
		if onT {
			out[Edge{b, 0}] = true
		}
		if onF {
			out[Edge{b, 1}] = true
		}
	}
	return out
}

// Aliases returns the set of SSA values that are known to hold the same
// dynamic value as one of vs at the point they are used: conversions that do
// not change the value, and loads of a local cell whose reaching store is
// unambiguously the store of that value.
func Aliases(vs ...ssa.Value) map[ssa.Value]bool {
	set := map[ssa.Value]bool{}
	var add func(v ssa.Value)
	add = func(v ssa.Value) {
		if v == nil || set[v] {
			return
		}
		set[v] = true
		refs := v.Referrers()
		if refs == nil {
			return
		}
		for _, r := range *refs {
			switch r := r.(type) {
			case *ssa.ChangeType:
				add(r)
			case *ssa.MakeInterface:
				add(r)
			case *ssa.ChangeInterface:
				add(r)
			case *ssa.Store:
				if r.Val != v {
					continue
				}
				cell, ok := r.Addr.(*ssa.Alloc)
				if !ok {
					continue
				}
				for _, l := range loadsOf(cell) {
					if storeReachesOnly(r, l, cell) {
						add(l)
					}
				}
			}
		}
	}
	for _, v := range vs {
		add(v)
	}
	return set
}

func loadsOf(cell *ssa.Alloc) []*ssa.UnOp {
	var out []*ssa.UnOp
	for _, r := range *cell.Referrers() {
		if u, ok := r.(*ssa.UnOp); ok && u.Op == token.MUL && u.X == cell {
			out = append(out, u)
		}
	}
	return out
}

// storeReachesOnly: st dominates load and no other store to cell (in the same
// function) lies on a path from st to load.
func storeReachesOnly(st *ssa.Store, load *ssa.UnOp, cell *ssa.Alloc) bool {
	if st.Parent() != load.Parent() || !Dominates(st, load) {
		return false
	}
	fn := st.Parent()
	for _, r := range *cell.Referrers() {
		o, ok := r.(*ssa.Store)
		if !ok || o == st || o.Addr != cell || o.Parent() != fn {
			continue
		}
		// is o between st and load on some path?
		if Reaches(fn, st, o, nil, map[ssa.Instruction]bool{load: true}) &&
			Reaches(fn, o, load, nil, map[ssa.Instruction]bool{st: true}) {
			return false
		}
	}
	return true
}

// NilEdges returns the edges on which (one of) vs is known to be nil
// (wantNil) or non-nil (!wantNil). Comparisons against the nil constant in
// either operand order, negations, and aliases through local cells are
// recognised.
func NilEdges(fn *ssa.Function, vs []ssa.Value, wantNil bool) EdgeSet {
	al := Aliases(vs...)
	return CondEdges(fn, func(atom ssa.Value) (bool, bool) {
		b, ok := atom.(*ssa.BinOp)
		if !ok || (b.Op != token.EQL && b.Op != token.NEQ) {
			return false, false
		}
		var subj ssa.Value
		switch {
		case IsNilConst(b.Y):
			subj = b.X
		case IsNilConst(b.X):
			subj = b.Y
		default:
			return false, false
		}
		if !al[subj] {
			return false, false
		}
		isNilOnTrue := b.Op == token.EQL
		if wantNil {
			return isNilOnTrue, !isNilOnTrue
		}
		return !isNilOnTrue, isNilOnTrue
	})
}

// BoolEdges returns the edges on which boolean value v (or an alias) is known
// to equal want.
func BoolEdges(fn *ssa.Function, vs []ssa.Value, want bool) EdgeSet {
	al := Aliases(vs...)
	return CondEdges(fn, func(atom ssa.Value) (bool, bool) {
		if al[atom] {
			return want, !want
		}
		// v == true / v == false forms
		if b, ok := atom.(*ssa.BinOp); ok && (b.Op == token.EQL || b.Op == token.NEQ) {
			var subj ssa.Value
			var k ssa.Value
			if al[b.X] {
				subj, k = b.X, b.Y
			} else if al[b.Y] {
				subj, k = b.Y, b.X
			}
			if subj != nil {
				if c, ok := k.(*ssa.Const); ok && c.Value != nil && types.Identical(c.Type().Underlying(), types.Typ[types.Bool]) {
					kv := c.Value.String() == "true"
					eq := b.Op == token.EQL
					// atom true means subj == kv (eq) or subj != kv
					tv := kv
					if !eq {
						tv = !kv
					}
					return tv == want, tv != want
				}
			}
		}
		return false, false
	})
}

// CallEdges: edges on which a boolean-valued call matching m, applied to an
// argument satisfying argOK at position argIdx (-1 = receiver), is `want`.
func CallEdges(fn *ssa.Function, m Matcher, argIdx int, argOK func(ssa.Value) bool, want bool) EdgeSet {
	var vals []ssa.Value
	for _, c := range Calls(fn, m) {
		call := CallValue(c)
		if call == nil {
			continue
		}
		if argOK != nil {
			var a ssa.Value
			if argIdx < 0 {
				a = Recv(c)
			} else if as := Args(c); argIdx < len(as) {
				a = as[argIdx]
			}
			if a == nil || !argOK(a) {
				continue
			}
		}
		vals = append(vals, call)
	}
	if len(vals) == 0 {
		return EdgeSet{}
	}
	return BoolEdges(fn, vals, want)
}

// GuardedBy reports whether every path from `from` (nil = entry) to site
// crosses one of the edges.
func GuardedBy(fn *ssa.Function, from, site ssa.Instruction, edges EdgeSet) bool {
	return !Reaches(fn, from, site, edges, nil)
}

// OnNilEdgeOf reports whether site can only be reached, after call c, along an
// edge where c's error result was tested nil. It also requires c to dominate
// site.
func OnNilEdgeOf(fn *ssa.Function, c ssa.CallInstruction, site ssa.Instruction) bool {
	if !Dominates(c, site) {
		return false
	}
	errs := ErrResult(c)
	if len(errs) == 0 {
		return false
	}
	return GuardedBy(fn, c, site, NilEdges(fn, errs, true))
}

// EnclosingSite lifts an instruction located in a closure nested (at any
// depth) in fn to the MakeClosure instruction inside fn that creates it.
// For an instruction of fn itself it returns the instruction.
func EnclosingSite(fn *ssa.Function, in ssa.Instruction) ssa.Instruction {
	g := in.Parent()
	if g == fn {
		return in
	}
	for g != nil && g.Parent() != fn {
		g = g.Parent()
	}
	if g == nil {
		return nil
	}
	var found ssa.Instruction
	Instrs(fn, func(i ssa.Instruction) {
		if mc, ok := i.(*ssa.MakeClosure); ok && mc.Fn == g && found == nil {
			found = mc
		}
	})
	return found
}
