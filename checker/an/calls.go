package an

import (
	"go/constant"
	"go/token"
	"go/types"
	"strings"

	"golang.org/x/tools/go/ssa"
)

// CallInfo identifies the callee of a call instruction through type
// information (never by text).
type CallInfo struct {
	Pkg     string // package path of the declaring package
	Recv    string // bare receiver type name (struct or interface), "" for functions
	Name    string
	Invoke  bool        // dynamic dispatch through an interface
	Fn      *types.Func // nil for calls of function values / builtins
	Static  *ssa.Function
	Builtin string
}

func (ci CallInfo) String() string {
	if ci.Builtin != "" {
		return "builtin." + ci.Builtin
	}
	if ci.Fn == nil {
		return "<dynamic>"
	}
	p := strings.TrimPrefix(ci.Pkg, Mod+"/")
	if ci.Recv != "" {
		return p + "." + ci.Recv + "." + ci.Name
	}
	return p + "." + ci.Name
}

func recvTypeName(t types.Type) string {
	if pt, ok := t.(*types.Pointer); ok {
		t = pt.Elem()
	}
	switch t := t.(type) {
	case *types.Named:
		return t.Obj().Name()
	case *types.Alias:
		return t.Obj().Name()
	}
	return ""
}

// Callee resolves the callee of any call-like instruction (Call, Go, Defer).
func Callee(c ssa.CallInstruction) CallInfo {
	cc := c.Common()
	if cc.IsInvoke() {
		m := cc.Method
		ci := CallInfo{Name: m.Name(), Invoke: true, Fn: m}
		if m.Pkg() != nil {
			ci.Pkg = m.Pkg().Path()
		}
		// receiver: the static interface type of the value if named,
		// otherwise the interface that declares the method
		ci.Recv = recvTypeName(cc.Value.Type())
		if ci.Recv == "" {
			if r := m.Type().(*types.Signature).Recv(); r != nil {
				ci.Recv = recvTypeName(r.Type())
			}
		}
		if n, ok := types.Unalias(cc.Value.Type()).(*types.Named); ok && n.Obj().Pkg() != nil {
			ci.Pkg = n.Obj().Pkg().Path()
		}
		return ci
	}
	switch v := cc.Value.(type) {
	case *ssa.Builtin:
		return CallInfo{Builtin: v.Name(), Name: v.Name()}
	case *ssa.Function:
		return fnInfo(v)
	case *ssa.MakeClosure:
		if f, ok := v.Fn.(*ssa.Function); ok {
			return fnInfo(f)
		}
	}
	return CallInfo{}
}

func fnInfo(f *ssa.Function) CallInfo {
	if f.Origin() != nil {
		f2 := f.Origin()
		ci := fnInfo(f2)
		ci.Static = f
		return ci
	}
	ci := CallInfo{Name: f.Name(), Static: f}
	if o, ok := f.Object().(*types.Func); ok && o != nil {
		ci.Fn = o
		if o.Pkg() != nil {
			ci.Pkg = o.Pkg().Path()
		}
		if r := o.Type().(*types.Signature).Recv(); r != nil {
			ci.Recv = recvTypeName(r.Type())
		}
	} else if f.Pkg != nil {
		ci.Pkg = f.Pkg.Pkg.Path()
	}
	// bound-method / thunk wrappers: resolve to the wrapped method
	if f.Synthetic != "" && f.Object() == nil {
		ci.Name = strings.TrimSuffix(strings.TrimSuffix(f.Name(), "$bound"), "$thunk")
	}
	return ci
}

// Matcher selects callees. Pkg may be a full path or module-relative
// ("blockstore"); empty fields match anything.
type Matcher struct{ Pkg, Recv, Name string }

func M(pkg, recv, name string) Matcher { return Matcher{pkg, recv, name} }

func (m Matcher) Match(ci CallInfo) bool {
	if ci.Builtin != "" {
		return m.Pkg == "builtin" && m.Name == ci.Builtin
	}
	if ci.Fn == nil && ci.Static == nil {
		return false
	}
	if m.Name != "" && m.Name != ci.Name {
		return false
	}
	if m.Recv != "" && m.Recv != ci.Recv {
		if !(m.Recv == "-" && ci.Recv == "") {
			return false
		}
	}
	if m.Pkg != "" && m.Pkg != ci.Pkg && Mod+"/"+m.Pkg != ci.Pkg {
		return false
	}
	return true
}

func (m Matcher) String() string {
	s := m.Pkg
	if m.Recv != "" {
		s += "." + m.Recv
	}
	return s + "." + m.Name
}

// Instrs iterates over all instructions of f in block order.
func Instrs(f *ssa.Function, visit func(ssa.Instruction)) {
	for _, b := range f.Blocks {
		for _, in := range b.Instrs {
			visit(in)
		}
	}
}

// Calls returns the call-like instructions of f (not of nested closures)
// whose callee satisfies one of the matchers.
func Calls(f *ssa.Function, ms ...Matcher) []ssa.CallInstruction {
	var out []ssa.CallInstruction
	Instrs(f, func(in ssa.Instruction) {
		c, ok := in.(ssa.CallInstruction)
		if !ok {
			return
		}
		ci := Callee(c)
		for _, m := range ms {
			if m.Match(ci) {
				out = append(out, c)
				return
			}
		}
	})
	return out
}

// CallsDeep is Calls over f and its nested closures.
func CallsDeep(f *ssa.Function, ms ...Matcher) []ssa.CallInstruction {
	var out []ssa.CallInstruction
	for _, g := range WithClosures(f) {
		out = append(out, Calls(g, ms...)...)
	}
	return out
}

// AllCalls returns every call-like instruction in f.
func AllCalls(f *ssa.Function) []ssa.CallInstruction {
	var out []ssa.CallInstruction
	Instrs(f, func(in ssa.Instruction) {
		if c, ok := in.(ssa.CallInstruction); ok {
			out = append(out, c)
		}
	})
	return out
}

// CallValue returns the SSA value of a call (nil for go/defer).
func CallValue(c ssa.CallInstruction) *ssa.Call {
	v, _ := c.(*ssa.Call)
	return v
}

// Result returns the idx-th result value(s) of call c: the call itself for a
// single-result call, or all Extract instructions with that index.
func Result(c ssa.CallInstruction, idx int) []ssa.Value {
	call := CallValue(c)
	if call == nil {
		return nil
	}
	sig := c.Common().Signature()
	n := sig.Results().Len()
	if idx < 0 {
		idx = n + idx
	}
	if n == 1 {
		if idx == 0 {
			return []ssa.Value{call}
		}
		return nil
	}
	var out []ssa.Value
	for _, r := range *call.Referrers() {
		if e, ok := r.(*ssa.Extract); ok && e.Index == idx {
			out = append(out, e)
		}
	}
	return out
}

// ErrResult returns the values carrying the (last) error result of c.
func ErrResult(c ssa.CallInstruction) []ssa.Value {
	sig := c.Common().Signature()
	n := sig.Results().Len()
	if n == 0 {
		return nil
	}
	if !IsErrorType(sig.Results().At(n - 1).Type()) {
		return nil
	}
	return Result(c, n-1)
}

var errType = types.Universe.Lookup("error").Type()

func IsErrorType(t types.Type) bool { return types.Identical(t, errType) }

// Args returns the actual arguments excluding the receiver.
func Args(c ssa.CallInstruction) []ssa.Value {
	cc := c.Common()
	if cc.IsInvoke() {
		return cc.Args
	}
	if sig := cc.Signature(); sig != nil && sig.Recv() != nil && len(cc.Args) > 0 {
		return cc.Args[1:]
	}
	// bound method closures and plain functions
	return cc.Args
}

// Recv returns the receiver value of a method call (invoke or static), or nil.
func Recv(c ssa.CallInstruction) ssa.Value {
	cc := c.Common()
	if cc.IsInvoke() {
		return cc.Value
	}
	if sig := cc.Signature(); sig != nil && sig.Recv() != nil && len(cc.Args) > 0 {
		return cc.Args[0]
	}
	return nil
}

// FieldOf reports the struct field addressed/read by v (FieldAddr or Field).
func FieldOf(v ssa.Value) (*types.Var, ssa.Value) {
	switch v := v.(type) {
	case *ssa.FieldAddr:
		st := deref(v.X.Type()).Underlying().(*types.Struct)
		return st.Field(v.Field), v.X
	case *ssa.Field:
		st := v.X.Type().Underlying().(*types.Struct)
		return st.Field(v.Field), v.X
	}
	return nil, nil
}

func deref(t types.Type) types.Type {
	if p, ok := t.Underlying().(*types.Pointer); ok {
		return p.Elem()
	}
	return t
}

// FieldStores returns the stores in f whose address is field fld.
func FieldStores(f *ssa.Function, fld *types.Var) []*ssa.Store {
	var out []*ssa.Store
	Instrs(f, func(in ssa.Instruction) {
		if st, ok := in.(*ssa.Store); ok {
			if fv, _ := FieldOf(st.Addr); fv == fld {
				out = append(out, st)
			}
		}
	})
	return out
}

// FieldReads returns loads (UnOp * of FieldAddr, or Field) of fld in f.
func FieldReads(f *ssa.Function, fld *types.Var) []ssa.Value {
	var out []ssa.Value
	Instrs(f, func(in ssa.Instruction) {
		switch v := in.(type) {
		case *ssa.UnOp:
			if v.Op == token.MUL {
				if fv, _ := FieldOf(v.X); fv == fld {
					out = append(out, v)
				}
			}
		case *ssa.Field:
			if fv, _ := FieldOf(v); fv == fld {
				out = append(out, v)
			}
		}
	})
	return out
}

// FieldAddrs returns every FieldAddr of fld in f (reads, writes, address-taken).
func FieldAddrs(f *ssa.Function, fld *types.Var) []*ssa.FieldAddr {
	var out []*ssa.FieldAddr
	Instrs(f, func(in ssa.Instruction) {
		if fa, ok := in.(*ssa.FieldAddr); ok {
			if fv, _ := FieldOf(fa); fv == fld {
				out = append(out, fa)
			}
		}
	})
	return out
}

// ConstOf returns the constant value of v if it is an SSA constant.
func ConstOf(v ssa.Value) (constant.Value, bool) {
	if c, ok := v.(*ssa.Const); ok && c.Value != nil {
		return c.Value, true
	}
	return nil, false
}

// IsNilConst reports whether v is the nil constant.
func IsNilConst(v ssa.Value) bool {
	c, ok := v.(*ssa.Const)
	return ok && c.IsNil()
}

// Returns lists the Return instructions of f.
func Returns(f *ssa.Function) []*ssa.Return {
	var out []*ssa.Return
	for _, b := range f.Blocks {
		if len(b.Instrs) > 0 {
			if r, ok := b.Instrs[len(b.Instrs)-1].(*ssa.Return); ok {
				out = append(out, r)
			}
		}
	}
	return out
}
