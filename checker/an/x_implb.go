package an

// Helpers added by impl-b (C06..C10). All exported names carry the XB prefix
// so that they cannot clash with helpers of other implementers.

import (
	"go/constant"
	"go/token"
	"go/types"

	"golang.org/x/tools/go/ssa"
)

// XBInCycle reports whether block b lies on a CFG cycle (can reach itself).
func XBInCycle(b *ssa.BasicBlock) bool {
	seen := map[*ssa.BasicBlock]bool{}
	var walk func(x *ssa.BasicBlock) bool
	walk = func(x *ssa.BasicBlock) bool {
		for _, s := range x.Succs {
			if s == b {
				return true
			}
			if !seen[s] {
				seen[s] = true
				if walk(s) {
					return true
				}
			}
		}
		return false
	}
	return walk(b)
}

// XBMustCross reports whether every path from `from` (nil = function entry)
// to site crosses edge e, and site is reachable at all.
func XBMustCross(fn *ssa.Function, from, site ssa.Instruction, e Edge) bool {
	if !Reaches(fn, from, site, nil, nil) {
		return false
	}
	return !Reaches(fn, from, site, EdgeSet{e: true}, nil)
}

// XBConst looks up a package-level constant of a loaded root package.
func (p *Prog) XBConst(rel, name string) (constant.Value, bool) {
	pk := p.Pkg(rel)
	if pk == nil {
		return nil, false
	}
	c, ok := pk.Types.Scope().Lookup(name).(*types.Const)
	if !ok {
		return nil, false
	}
	return c.Val(), true
}

// XBInt64 returns the int64 value of an SSA constant operand.
func XBInt64(v ssa.Value) (int64, bool) {
	k, ok := ConstOf(v)
	if !ok || k.Kind() != constant.Int {
		return 0, false
	}
	return constant.Int64Val(k)
}

// XBPhiClosure returns v together with every value that may flow into v or
// that v may flow into through Phi nodes, conversions and single-function
// local cells (both directions, one function). It is used to recognise that
// "if err != nil" tests the result of a given call when err is a variable
// assigned on several paths.
func XBPhiClosure(v ssa.Value) map[ssa.Value]bool {
	set := map[ssa.Value]bool{}
	var fwd func(x ssa.Value)
	fwd = func(x ssa.Value) {
		if x == nil || set[x] {
			return
		}
		set[x] = true
		refs := x.Referrers()
		if refs == nil {
			return
		}
		for _, r := range *refs {
			switch r := r.(type) {
			case *ssa.Phi:
				fwd(r)
			case *ssa.ChangeType:
				fwd(r)
			case *ssa.MakeInterface:
				fwd(r)
			case *ssa.ChangeInterface:
				fwd(r)
			case *ssa.Store:
				if r.Val == x {
					if cell, ok := r.Addr.(*ssa.Alloc); ok {
						for _, l := range allLoads(cell) {
							fwd(l)
						}
					}
				}
			}
		}
	}
	fwd(v)
	return set
}

// XBNilEdgesVia returns the edges on which a value in the forward phi-closure
// of v is known to be nil (wantNil) / non-nil. Because a phi merges several
// definitions, crossing such an edge on a path that executed the definition of
// v after any other merged definition implies the fact for v itself; callers
// use it only together with a "from the defining call" path query.
func XBNilEdgesVia(fn *ssa.Function, v ssa.Value, wantNil bool) EdgeSet {
	cl := XBPhiClosure(v)
	return CondEdges(fn, func(atom ssa.Value) (bool, bool) {
		b, ok := atom.(*ssa.BinOp)
		if !ok || (b.Op != token.EQL && b.Op != token.NEQ) {
			return false, false
		}
		var subj ssa.Value
		switch {
		case IsNilConst(b.Y):
			subj = b.X
		case IsNilConst(b.X):
			subj = b.Y
		default:
			return false, false
		}
		if !cl[subj] {
			return false, false
		}
		isNilOnTrue := b.Op == token.EQL
		if wantNil {
			return isNilOnTrue, !isNilOnTrue
		}
		return !isNilOnTrue, isNilOnTrue
	})
}

// XBErrNilEdges: edges on which the error result of call c is known nil,
// looking through phis / local cells.
func XBErrNilEdges(fn *ssa.Function, c ssa.CallInstruction) EdgeSet {
	out := EdgeSet{}
	for _, e := range ErrResult(c) {
		out = out.Union(XBNilEdgesVia(fn, e, true))
	}
	return out
}

// XBOnNilEdge: site is reachable from call c only across an edge on which c's
// error result (possibly merged into an error variable) was tested nil.
func XBOnNilEdge(fn *ssa.Function, c ssa.CallInstruction, site ssa.Instruction) bool {
	if len(ErrResult(c)) == 0 {
		return false
	}
	return !Reaches(fn, c, site, XBErrNilEdges(fn, c), nil)
}

// XBRel is a normalised integer comparison found as the condition of an If.
type XBRel struct {
	X, Y ssa.Value
	Op   token.Token // LSS, LEQ, GTR, GEQ, EQL, NEQ (holds for X Op Y on the edge)
}

// XBNegate returns the relation that holds when r does not.
func XBNegate(op token.Token) token.Token {
	switch op {
	case token.LSS:
		return token.GEQ
	case token.LEQ:
		return token.GTR
	case token.GTR:
		return token.LEQ
	case token.GEQ:
		return token.LSS
	case token.EQL:
		return token.NEQ
	case token.NEQ:
		return token.EQL
	}
	return token.ILLEGAL
}

// XBSwap returns the operator with operands exchanged.
func XBSwap(op token.Token) token.Token {
	switch op {
	case token.LSS:
		return token.GTR
	case token.LEQ:
		return token.GEQ
	case token.GTR:
		return token.LSS
	case token.GEQ:
		return token.LEQ
	}
	return op
}

// XBEdgeRels lists, for every If of fn whose condition is a comparison
// (possibly negated), the relation that holds on each outgoing edge.
func XBEdgeRels(fn *ssa.Function) map[Edge]XBRel {
	out := map[Edge]XBRel{}
	for _, b := range fn.Blocks {
		if len(b.Instrs) == 0 {
			continue
		}
		ifi, ok := b.Instrs[len(b.Instrs)-1].(*ssa.If)
		if !ok {
			continue
		}
		atom, neg := atomOf(ifi.Cond)
		bo, ok := atom.(*ssa.BinOp)
		if !ok {
			continue
		}
		switch bo.Op {
		case token.LSS, token.LEQ, token.GTR, token.GEQ, token.EQL, token.NEQ:
		default:
			continue
		}
		op := bo.Op
		if neg {
			op = XBNegate(op)
		}
		out[Edge{b, 0}] = XBRel{bo.X, bo.Y, op}
		out[Edge{b, 1}] = XBRel{bo.X, bo.Y, XBNegate(op)}
	}
	return out
}

// XBEdgesWhere returns the edges whose relation satisfies pred.
func XBEdgesWhere(fn *ssa.Function, pred func(XBRel) bool) EdgeSet {
	out := EdgeSet{}
	for e, r := range XBEdgeRels(fn) {
		if pred(r) {
			out[e] = true
		}
	}
	return out
}

// XBStripConv removes value-preserving conversions (Convert, ChangeType).
func XBStripConv(v ssa.Value) ssa.Value {
	for {
		switch x := v.(type) {
		case *ssa.Convert:
			v = x.X
		case *ssa.ChangeType:
			v = x.X
		default:
			return v
		}
	}
}

// XBImplementers returns the named types of package rel whose pointer or
// value method set implements the interface type iface.
func (p *Prog) XBImplementers(rel string, iface *types.Interface) []*types.Named {
	pk := p.Pkg(rel)
	if pk == nil || iface == nil {
		return nil
	}
	var out []*types.Named
	sc := pk.Types.Scope()
	for _, n := range sc.Names() {
		tn, ok := sc.Lookup(n).(*types.TypeName)
		if !ok || tn.IsAlias() {
			continue
		}
		named, ok := tn.Type().(*types.Named)
		if !ok || types.IsInterface(named) {
			continue
		}
		if types.Implements(named, iface) || types.Implements(types.NewPointer(named), iface) {
			out = append(out, named)
		}
	}
	return out
}

// ---------------------------------------------------------------------------
// Seeker family (C09-O2, C10-O1)

// XBIsSeek reports whether fn is a method Seek(int64, int) (int64, error).
func XBIsSeek(fn *ssa.Function) bool {
	if fn == nil || fn.Name() != "Seek" || fn.Signature.Recv() == nil || len(fn.Params) != 3 {
		return false
	}
	return xbSeekSig(fn.Signature)
}

func xbSeekSig(sig *types.Signature) bool {
	isB := func(t types.Type, k types.BasicKind) bool {
		b, ok := t.Underlying().(*types.Basic)
		return ok && b.Kind() == k
	}
	return sig.Params().Len() == 2 && sig.Results().Len() == 2 &&
		isB(sig.Params().At(0).Type(), types.Int64) && isB(sig.Params().At(1).Type(), types.Int) &&
		isB(sig.Results().At(0).Type(), types.Int64) && IsErrorType(sig.Results().At(1).Type())
}

// XBSeekMethods lists the Seek methods among the loaded source functions.
func (p *Prog) XBSeekMethods() []*ssa.Function {
	var out []*ssa.Function
	for _, f := range p.Funcs {
		if XBIsSeek(f) {
			out = append(out, f)
		}
	}
	return out
}

func xbDerivedFrom(v ssa.Value, src map[ssa.Value]bool, depth int) bool {
	v = XBStripConv(v)
	if src[v] {
		return true
	}
	if depth > 4 {
		return false
	}
	switch x := v.(type) {
	case *ssa.BinOp:
		if x.Op == token.ADD {
			return xbDerivedFrom(x.X, src, depth+1) || xbDerivedFrom(x.Y, src, depth+1)
		}
	case *ssa.Phi:
		if len(x.Edges) == 0 {
			return false
		}
		for _, e := range x.Edges {
			if !xbDerivedFrom(e, src, depth+1) {
				return false
			}
		}
		return true
	case *ssa.UnOp:
		if x.Op == token.MUL {
			if a, ok := x.X.(*ssa.Alloc); ok {
				// a variable captured by a closure may be rewritten there: its value is not known here
				for _, r := range *a.Referrers() {
					if _, isMC := r.(*ssa.MakeClosure); isMC {
						return false
					}
				}
				sts := storesTo(a)
				if len(sts) == 0 {
					return false
				}
				for _, st := range sts {
					if !xbDerivedFrom(st.Val, src, depth+1) {
						return false
					}
				}
				return true
			}
		}
	}
	return false
}

func xbCaseEdges(fn *ssa.Function, whAl map[ssa.Value]bool) map[int64]EdgeSet {
	caseEdges := map[int64]EdgeSet{}
	for e, r := range XBEdgeRels(fn) {
		if r.Op != token.EQL {
			continue
		}
		x, y := r.X, r.Y
		if !whAl[x] {
			x, y = y, x
		}
		if !whAl[x] {
			continue
		}
		if k, ok := XBInt64(y); ok {
			if caseEdges[k] == nil {
				caseEdges[k] = EdgeSet{}
			}
			caseEdges[k][e] = true
		}
	}
	return caseEdges
}

func xbNegEdges(fn *ssa.Function, offAl map[ssa.Value]bool) EdgeSet {
	neg := EdgeSet{}
	for e, r := range XBEdgeRels(fn) {
		x, y, op := r.X, r.Y, r.Op
		if _, isK := XBInt64(x); isK {
			x, y, op = y, x, XBSwap(op)
		}
		k, isK := XBInt64(y)
		if !isK || !xbDerivedFrom(x, offAl, 0) {
			continue
		}
		if (op == token.GEQ && k == 0) || (op == token.GTR && k == -1) {
			neg[e] = true
		}
	}
	return neg
}

func xbSeekForwards(fn *ssa.Function) []ssa.CallInstruction {
	var fwd []ssa.CallInstruction
	for _, call := range AllCalls(fn) {
		ci := Callee(call)
		if ci.Name != "Seek" || ci.Fn == nil {
			continue
		}
		sig, ok := ci.Fn.Type().(*types.Signature)
		if !ok || !xbSeekSig(sig) {
			continue
		}
		fwd = append(fwd, call)
	}
	return fwd
}

func xbRecvStores(fn *ssa.Function) []*ssa.Store {
	if fn.Signature.Recv() == nil || len(fn.Params) == 0 {
		return nil
	}
	recvPath := "p:" + fn.Params[0].Name()
	var out []*ssa.Store
	Instrs(fn, func(in ssa.Instruction) {
		if st, ok := in.(*ssa.Store); ok {
			if f, base := FieldOf(st.Addr); f != nil && PathOf(base) == recvPath {
				out = append(out, st)
			}
		}
	})
	return out
}

// XBCheckSeeker records the Seeker-family obligations for one Seek method and
// returns its kind: "computing", "forwarding" or "" (not classified).
//
// The interpretation of whence may live in the Seek method itself or in a
// package-local helper that receives the (offset, whence) parameters (the
// "resolver"); state changes may live in Seek, in the resolver, or in a
// package-local helper that receives the target position.
func XBCheckSeeker(c *Ctx, ob string, fn *ssa.Function) string {
	name := FuncName(fn)
	offset, whence := ssa.Value(fn.Params[1]), ssa.Value(fn.Params[2])
	offAl, whAl := Aliases(offset), Aliases(whence)
	local := func(g *ssa.Function) bool {
		if g == nil || g.Blocks == nil || g == fn {
			return false
		}
		r := g
		for r.Parent() != nil {
			r = r.Parent()
		}
		return r.Pkg != nil && r.Pkg == fn.Pkg
	}
	// ---- who interprets whence?
	R := fn
	rOffAl, rWhAl := offAl, whAl
	var rcall ssa.CallInstruction
	rArgOf := map[*ssa.Parameter]ssa.Value{} // resolver parameter -> argument in fn
	caseEdges := xbCaseEdges(fn, whAl)
	if len(caseEdges) == 0 {
		for _, call := range AllCalls(fn) {
			g := Callee(call).Static
			if !local(g) {
				continue
			}
			args := call.Common().Args
			oi, wi := -1, -1
			for i, a := range args {
				if whAl[a] {
					wi = i
				}
				if offAl[a] {
					oi = i
				}
			}
			if wi < 0 || wi >= len(g.Params) || oi < 0 || oi >= len(g.Params) {
				continue
			}
			ce := xbCaseEdges(g, Aliases(ssa.Value(g.Params[wi])))
			if len(ce) == 0 {
				continue
			}
			R, rcall, caseEdges = g, call, ce
			rOffAl, rWhAl = Aliases(ssa.Value(g.Params[oi])), Aliases(ssa.Value(g.Params[wi]))
			for i, a := range args {
				if i < len(g.Params) {
					rArgOf[g.Params[i]] = a
				}
			}
			break
		}
	}
	_ = rWhAl
	fwd := xbSeekForwards(fn)
	isSelf := func(call ssa.CallInstruction) bool {
		g := Callee(call).Static
		return g != nil && (g == fn || g == R)
	}
	if len(caseEdges) == 0 {
		n := 0
		for _, call := range fwd {
			if isSelf(call) {
				continue
			}
			n++
			args := Args(call)
			ok := len(args) == 2 && offAl[args[0]] && whAl[args[1]]
			c.Check(ok, ob, "R-SIB", name, "forwards(offset,whence)", call.Pos(),
				"Seek forwards its (offset, whence) pair unchanged to "+Callee(call).String(),
				"Seek forwards a modified (offset, whence) pair to "+Callee(call).String()+" without interpreting whence itself: the two seekers disagree on the resulting position")
		}
		if n == 0 {
			c.Note("%s: Seek method %s neither interprets whence nor forwards to another Seeker — not classified", ob, name)
			return ""
		}
		return "forwarding"
	}
	// ---- computing seeker (R interprets whence)
	errIdx := R.Signature.Results().Len() - 1
	isSuccess := func(r *ssa.Return) bool {
		return errIdx >= 0 && len(r.Results) == errIdx+1 && IsErrorType(r.Results[errIdx].Type()) && IsNilConst(r.Results[errIdx])
	}
	// (a) exhaustive dispatch with an error default
	all := EdgeSet{}
	missing := ""
	for _, kn := range []struct {
		k  int64
		nm string
	}{{0, "io.SeekStart"}, {1, "io.SeekCurrent"}, {2, "io.SeekEnd"}} {
		if len(caseEdges[kn.k]) == 0 {
			missing += " " + kn.nm
		}
		all = all.Union(caseEdges[kn.k])
	}
	c.Check(missing == "", ob, "R-EXH", name, "whence-cases", R.Pos(), "whence dispatch handles SeekStart, SeekCurrent and SeekEnd", "whence dispatch does not handle:"+missing)
	defOK := true
	var defPos token.Pos = R.Pos()
	for _, r := range Returns(R) {
		if isSuccess(r) && Reaches(R, nil, r, all, nil) {
			defOK = false
			defPos = r.Pos()
		}
	}
	c.Check(defOK, ob, "R-EXH", name, "whence-default-is-error", defPos, "an unknown whence never reaches a success return", "a success return is reachable for a whence value other than SeekStart/SeekCurrent/SeekEnd")
	// (b) relative targets are additions
	for _, kk := range []struct {
		k    int64
		what string
	}{{1, "SeekCurrent"}, {2, "SeekEnd"}} {
		if len(caseEdges[kk.k]) == 0 {
			continue
		}
		n := 0
		Instrs(R, func(in ssa.Instruction) {
			b, ok := in.(*ssa.BinOp)
			if !ok || (b.Op != token.ADD && b.Op != token.SUB) {
				return
			}
			x, y := XBStripConv(b.X), XBStripConv(b.Y)
			var other ssa.Value
			switch {
			case rOffAl[x]:
				other = y
			case rOffAl[y]:
				other = x
			default:
				return
			}
			if !Reaches(R, nil, in, nil, nil) || Reaches(R, nil, in, caseEdges[kk.k], nil) {
				return // not specific to this case
			}
			n++
			okOp := b.Op == token.ADD
			c.Check(okOp, ob, "R-SIB", name, kk.what+"-target=base+offset", b.Pos(),
				kk.what+" target is base + offset",
				kk.what+" target is computed as base - offset: io.Seeker requires base + offset (Seek(-3, "+kk.what+") moves forward instead of backward)")
			if kk.k == 2 {
				sizeish := false
				var test func(v ssa.Value, d int)
				test = func(v ssa.Value, d int) {
					for _, r := range Roots(v, nil) {
						if call, ok := IsCallTo(r, M("", "", "Size")); ok && call != nil {
							sizeish = true
						}
						if u, ok := r.(*ssa.UnOp); ok && u.Op == token.MUL {
							// the field an exported Size() method of the same type returns
							if f, base := FieldOf(u.X); f != nil && xbIsSizeField(R.Prog, f, base) {
								sizeish = true
							}
						}
						// a parameter of the resolver: look at what the Seek method passes
						if par, ok := r.(*ssa.Parameter); ok && d < 2 {
							if a := rArgOf[par]; a != nil {
								test(a, d+1)
							}
						}
					}
				}
				test(other, 0)
				c.Check(sizeish, ob, "R-SIB", name, "SeekEnd-base=size", b.Pos(), "SeekEnd is relative to the size", "SeekEnd target is not relative to a Size()/size value ("+PathOf(other)+")")
			}
		})
		if n == 0 {
			c.Bad(ob, "R-SIB", name, kk.what+"-target=base+offset", R.Pos(), kk.what+" branch does not compute base + offset from the offset parameter")
		}
	}
	// (c) negative targets rejected before any state change / forwarding / success of the resolver
	var unguarded []string
	pos := fn.Pos()
	negR := xbNegEdges(R, rOffAl)
	flag := func(what string, p token.Pos) {
		unguarded = append(unguarded, what)
		pos = p
	}
	// constructs inside the resolver
	for _, st := range xbRecvStores(R) {
		if Reaches(R, nil, st, negR, nil) {
			f, _ := FieldOf(st.Addr)
			flag("store to "+f.Name(), st.Pos())
		}
	}
	for _, fc := range xbSeekForwards(R) {
		if !isSelf(fc) && Reaches(R, nil, fc, negR, nil) {
			flag("forward to "+Callee(fc).String(), fc.Pos())
		}
	}
	if R != fn {
		for _, r := range Returns(R) {
			if isSuccess(r) && Reaches(R, nil, r, negR, nil) {
				flag("success return of "+R.Name(), r.Pos())
			}
		}
		// constructs of the Seek method: only after the resolver succeeded (or a local test)
		guards := xbNegEdges(fn, offAl).Union(XBErrNilEdges(fn, rcall))
		for _, st := range xbRecvStores(fn) {
			if Reaches(fn, nil, st, guards, nil) {
				f, _ := FieldOf(st.Addr)
				flag("store to "+f.Name(), st.Pos())
			}
		}
		for _, fc := range fwd {
			if !isSelf(fc) && Reaches(fn, nil, fc, guards, nil) {
				flag("forward to "+Callee(fc).String(), fc.Pos())
			}
		}
	}
	// state changes in package-local helpers that receive the target position
	for _, call := range AllCalls(R) {
		g := Callee(call).Static
		if !local(g) || g == R {
			continue
		}
		for i, a := range call.Common().Args {
			if i >= len(g.Params) || !xbDerivedFrom(a, rOffAl, 0) {
				continue
			}
			if !Reaches(R, nil, call, negR, nil) {
				continue // the call itself is guarded
			}
			negG := xbNegEdges(g, Aliases(ssa.Value(g.Params[i])))
			for _, st := range xbRecvStores(g) {
				if Reaches(g, nil, st, negG, nil) {
					f, _ := FieldOf(st.Addr)
					flag("store to "+f.Name()+" in "+g.Name(), st.Pos())
				}
			}
			for _, fc := range xbSeekForwards(g) {
				if cg := Callee(fc).Static; cg != nil && (cg == fn || cg == R || cg == g) {
					continue
				}
				if Reaches(g, nil, fc, negG, nil) {
					flag("forward to "+Callee(fc).String()+" in "+g.Name(), fc.Pos())
				}
			}
		}
	}
	detail := ""
	seen := map[string]bool{}
	for _, u := range unguarded {
		if !seen[u] {
			seen[u] = true
			if detail != "" {
				detail += ", "
			}
			detail += u
		}
	}
	c.Check(len(unguarded) == 0, ob, "R-DOM", name, "negative-target-rejected", pos,
		"every state change / forwarded seek is reached only where the target was tested non-negative",
		"Seek changes state without rejecting a negative target position ("+detail+"): io.Seeker requires an error for a negative position")
	// forwarded pairs of a computing seeker
	for _, call := range fwd {
		// (a seek forwarded to the method itself obeys the same rule: a computed target goes with io.SeekStart)
		args := Args(call)
		same := len(args) == 2 && offAl[args[0]] && whAl[args[1]]
		k, isK := int64(-1), false
		if len(args) == 2 {
			k, isK = XBInt64(args[1])
		}
		abs := isK && k == 0
		c.Check(same || abs, ob, "R-SIB", name, "forwarded-pair", call.Pos(),
			"forwarded seek uses the same (offset, whence) pair or an absolute (target, SeekStart) pair",
			"forwarded seek uses a pair that is neither the caller's (offset, whence) nor (target, io.SeekStart)")
	}
	return "computing"
}

// ---------------------------------------------------------------------------
// Round 3: reasoning through package-local helpers

// XBGraph is the static call graph among a set of functions (closures count
// as functions of their own; a call made inside a closure belongs to it).
type XBGraph struct {
	Callers map[*ssa.Function][]ssa.CallInstruction
	In      map[*ssa.Function]bool
}

// XBLocalGraph builds the graph of static calls among fns.
func XBLocalGraph(fns []*ssa.Function) *XBGraph {
	g := &XBGraph{Callers: map[*ssa.Function][]ssa.CallInstruction{}, In: map[*ssa.Function]bool{}}
	for _, f := range fns {
		g.In[f] = true
	}
	for _, f := range fns {
		for _, call := range AllCalls(f) {
			if _, isGo := call.(*ssa.Go); isGo {
				continue
			}
			if t := Callee(call).Static; t != nil && g.In[t] {
				g.Callers[t] = append(g.Callers[t], call)
			}
		}
	}
	return g
}

// HeldUp: pred holds for (fn, site), or fn is only reached through static
// call sites for which it holds (recursively, at most depth frames up). This
// is the "caller holds" summary: a site inside a helper is guarded when every
// call site of the helper is guarded.
func (g *XBGraph) HeldUp(fn *ssa.Function, site ssa.Instruction, pred func(f *ssa.Function, s ssa.Instruction) bool, depth int) bool {
	if pred(fn, site) {
		return true
	}
	if depth <= 0 {
		return false
	}
	cs := g.Callers[fn]
	if len(cs) == 0 {
		return false
	}
	outer := 0
	for _, call := range cs {
		if call.Parent() == fn {
			continue // recursion does not add a new context
		}
		outer++
		if !g.HeldUp(call.Parent(), call, pred, depth-1) {
			return false
		}
	}
	return outer > 0
}

// HeldUpV is HeldUp with a tracked value: when climbing to a caller, a tracked
// parameter is replaced by the corresponding argument (conversions stripped);
// any other value cannot be followed and becomes nil.
func (g *XBGraph) HeldUpV(fn *ssa.Function, site ssa.Instruction, val ssa.Value, pred func(f *ssa.Function, s ssa.Instruction, v ssa.Value) bool, depth int) bool {
	if pred(fn, site, val) {
		return true
	}
	if depth <= 0 {
		return false
	}
	cs := g.Callers[fn]
	if len(cs) == 0 {
		return false
	}
	idx := -1
	if par, ok := XBStripConv(val).(*ssa.Parameter); ok {
		for i, q := range fn.Params {
			if q == par {
				idx = i
			}
		}
	}
	outer := 0
	for _, call := range cs {
		if call.Parent() == fn {
			continue
		}
		var v ssa.Value
		if args := call.Common().Args; idx >= 0 && !call.Common().IsInvoke() && idx < len(args) {
			v = XBStripConv(args[idx])
		}
		outer++
		if !g.HeldUpV(call.Parent(), call, v, pred, depth-1) {
			return false
		}
	}
	return outer > 0
}

// XBPerforms computes the functions (among the graph's functions) that execute
// an action on every path from entry to every non-failing return, where an
// action is an instruction accepted by isAct or a call to a function already
// known to perform it. isFailure classifies returns that need not be covered.
func (g *XBGraph) XBPerforms(isAct func(ssa.Instruction) bool, isFailure func(*ssa.Function, *ssa.Return) bool) map[*ssa.Function]bool {
	out := map[*ssa.Function]bool{}
	for changed := true; changed; {
		changed = false
		for f := range g.In {
			if out[f] {
				continue
			}
			var acts []ssa.Instruction
			Instrs(f, func(in ssa.Instruction) {
				if isAct(in) {
					acts = append(acts, in)
					return
				}
				if call, ok := in.(ssa.CallInstruction); ok {
					if t := Callee(call).Static; t != nil && out[t] {
						acts = append(acts, in)
					}
				}
			})
			if len(acts) == 0 {
				continue
			}
			blocked := map[ssa.Instruction]bool{}
			for _, a := range acts {
				blocked[a] = true
			}
			all := true
			for _, r := range Returns(f) {
				if isFailure != nil && isFailure(f, r) {
					continue
				}
				if Reaches(f, nil, r, nil, blocked) {
					all = false
				}
			}
			if all {
				out[f] = true
				changed = true
			}
		}
	}
	return out
}

// XBActs lists the instructions of fn that are actions: accepted by isAct, or
// calls to functions in performs.
func XBActs(fn *ssa.Function, isAct func(ssa.Instruction) bool, performs map[*ssa.Function]bool) []ssa.Instruction {
	var acts []ssa.Instruction
	Instrs(fn, func(in ssa.Instruction) {
		if isAct(in) {
			acts = append(acts, in)
			return
		}
		if call, ok := in.(ssa.CallInstruction); ok {
			if t := Callee(call).Static; t != nil && performs[t] {
				acts = append(acts, in)
			}
		}
	})
	return acts
}

// XBDerivedFromOffset reports whether v is the offset parameter of Seek method
// fn or a target computed from it by additions / phis.
func XBDerivedFromOffset(fn *ssa.Function, v ssa.Value) bool {
	if !XBIsSeek(fn) || v == nil {
		return false
	}
	src := Aliases(ssa.Value(fn.Params[1]))
	// a copy of the offset kept in a variable that a closure captures may be rewritten there: not the offset any more
	for a := range src {
		if u, ok := a.(*ssa.UnOp); ok && u.Op == token.MUL {
			if cell, ok := u.X.(*ssa.Alloc); ok {
				for _, r := range *cell.Referrers() {
					if _, isMC := r.(*ssa.MakeClosure); isMC {
						delete(src, a)
					}
				}
			}
		}
	}
	return xbDerivedFrom(v, src, 0)
}

// xbIsSizeField: f is the field that a method named Size of base's type returns (directly or converted).
func xbIsSizeField(prog *ssa.Program, f *types.Var, base ssa.Value) bool {
	t := base.Type()
	ms := prog.MethodSets.MethodSet(t)
	for i := 0; i < ms.Len(); i++ {
		if ms.At(i).Obj().Name() != "Size" {
			continue
		}
		m := prog.MethodValue(ms.At(i))
		if m == nil || m.Blocks == nil {
			continue
		}
		for _, r := range Returns(m) {
			for _, res := range r.Results {
				if u, ok := XBStripConv(res).(*ssa.UnOp); ok && u.Op == token.MUL {
					if g, _ := FieldOf(u.X); g == f {
						return true
					}
				}
			}
		}
	}
	return false
}

// ---------------------------------------------------------------------------
// Round 8: parameter slots (a parameter, or one field of a struct-valued parameter)

// XBSlot names a parameter of Fn (Field < 0) or field number Field of a
// struct-valued parameter of Fn.
type XBSlot struct {
	Fn         *ssa.Function
	Idx, Field int
}

func xbParamIdx(p *ssa.Parameter) int {
	for i, q := range p.Parent().Params {
		if q == p {
			return i
		}
	}
	return -1
}

// XBSlotOf recognises v as an occurrence of a parameter slot: the parameter
// itself, param.f of a struct-valued parameter, or (*param).f / a load of it
// for a pointer-to-struct parameter is NOT a slot (the pointee can change).
func XBSlotOf(v ssa.Value) (XBSlot, bool) {
	switch x := v.(type) {
	case *ssa.Parameter:
		if i := xbParamIdx(x); i >= 0 {
			return XBSlot{x.Parent(), i, -1}, true
		}
	case *ssa.Field:
		if p, ok := x.X.(*ssa.Parameter); ok {
			if i := xbParamIdx(p); i >= 0 {
				return XBSlot{p.Parent(), i, x.Field}, true
			}
		}
	case *ssa.UnOp:
		// a struct parameter spilled into a local cell: load of &cell.f where the only store to cell is the parameter
		if x.Op == token.MUL {
			if fa, ok := x.X.(*ssa.FieldAddr); ok {
				if cell, ok := fa.X.(*ssa.Alloc); ok {
					sts := storesTo(cell)
					if len(sts) == 1 {
						if p, ok := sts[0].Val.(*ssa.Parameter); ok {
							if i := xbParamIdx(p); i >= 0 {
								return XBSlot{p.Parent(), i, fa.Field}, true
							}
						}
					}
				}
			}
		}
	}
	return XBSlot{}, false
}

// Values lists the values of s.Fn that denote the slot.
func (s XBSlot) Values() []ssa.Value {
	var out []ssa.Value
	if s.Fn == nil || s.Idx < 0 || s.Idx >= len(s.Fn.Params) {
		return nil
	}
	if s.Field < 0 {
		return []ssa.Value{s.Fn.Params[s.Idx]}
	}
	Instrs(s.Fn, func(in ssa.Instruction) {
		if v, ok := in.(ssa.Value); ok {
			if t, ok := XBSlotOf(v); ok && t == s {
				out = append(out, v)
			}
		}
	})
	return out
}

// XBFieldValue returns the value stored into field number fld of a struct
// value built in place (composite literal loaded from its cell), or nil.
func XBFieldValue(sv ssa.Value, fld int) ssa.Value {
	u, ok := sv.(*ssa.UnOp)
	if !ok || u.Op != token.MUL {
		return nil
	}
	cell, ok := u.X.(*ssa.Alloc)
	if !ok {
		return nil
	}
	// only a cell that is built field by field (composite literal): no store of a whole struct into it
	for _, r := range *cell.Referrers() {
		if st, ok := r.(*ssa.Store); ok && st.Addr == ssa.Value(cell) {
			return nil
		}
	}
	var val ssa.Value
	n := 0
	for _, r := range *cell.Referrers() {
		fa, ok := r.(*ssa.FieldAddr)
		if !ok || fa.Field != fld {
			continue
		}
		for _, rr := range *fa.Referrers() {
			if st, ok := rr.(*ssa.Store); ok && st.Addr == fa {
				val = st.Val
				n++
			}
		}
	}
	if n != 1 {
		return nil
	}
	return val
}

// XBArgOf returns what a call passes for slot s of its (static) callee:
// a value of the caller (val != nil), or — when the caller hands a struct
// parameter of its own through unchanged — the corresponding slot of the
// caller (ok2). Both nil/false when it cannot be told.
func XBArgOf(call ssa.CallInstruction, s XBSlot) (val ssa.Value, pass XBSlot, ok2 bool) {
	args := call.Common().Args
	if call.Common().IsInvoke() || s.Idx < 0 || s.Idx >= len(args) {
		return nil, XBSlot{}, false
	}
	a := args[s.Idx]
	if s.Field < 0 {
		return a, XBSlot{}, false
	}
	if v := XBFieldValue(a, s.Field); v != nil {
		return v, XBSlot{}, false
	}
	if v := XBFieldLoad(a, s.Field); v != nil {
		return v, XBSlot{}, false
	}
	if p, ok := a.(*ssa.Parameter); ok {
		if i := xbParamIdx(p); i >= 0 {
			return nil, XBSlot{p.Parent(), i, s.Field}, true
		}
	}
	return nil, XBSlot{}, false
}

// ---------------------------------------------------------------------------
// Round 9

// XBCounterBelow reports whether site executes only while some loop counter
// (phi(init, counter+1)) is known to be < k. Two loop shapes are recognised:
// the classic one (the test "counter < k" is crossed on the way to site in every
// iteration) and the rotated one go/ssa builds for "for range k" / do-while
// loops (every edge into the counter's block either carries a constant < k or is
// the true edge of "(counter+1) < k"), with site dominated by the counter's block.
func XBCounterBelow(fn *ssa.Function, site ssa.Instruction, k int64) bool {
	rels := XBEdgeRels(fn)
	isStepOf := func(v ssa.Value, ph *ssa.Phi) bool {
		b, ok := v.(*ssa.BinOp)
		if !ok || b.Op != token.ADD {
			return false
		}
		one, isK := XBInt64(b.Y)
		return isK && one == 1 && b.X == ssa.Value(ph)
	}
	for _, blk := range fn.Blocks {
		for _, in := range blk.Instrs {
			ph, ok := in.(*ssa.Phi)
			if !ok {
				break
			}
			stepped := false
			for _, e := range ph.Edges {
				if isStepOf(e, ph) {
					stepped = true
				}
			}
			if !stepped {
				continue
			}
			// classic: counter < k on an edge that guards the site per iteration
			classic := EdgeSet{}
			for e, r := range rels {
				kk, isK := XBInt64(r.Y)
				if isK && r.X == ssa.Value(ph) && ((r.Op == token.LSS && kk <= k) || (r.Op == token.LEQ && kk < k)) {
					classic[e] = true
				}
			}
			if len(classic) > 0 && GuardedBy(fn, nil, site, classic) && !Reaches(fn, site, site, classic, nil) {
				return true
			}
			// rotated: every way into the counter's block establishes counter < k
			if !(blk == site.Block() || blk.Dominates(site.Block())) {
				continue
			}
			all := len(ph.Edges) > 0
			for i, v := range ph.Edges {
				pred := blk.Preds[i]
				if c, isK := XBInt64(v); isK {
					if c < k {
						continue
					}
					all = false
					break
				}
				okEdge := false
				for si, sb := range pred.Succs {
					if sb != blk {
						continue
					}
					if r, ok := rels[Edge{pred, si}]; ok {
						kk, isK := XBInt64(r.Y)
						if isK && r.X == v && ((r.Op == token.LSS && kk <= k) || (r.Op == token.LEQ && kk < k)) && isStepOf(v, ph) {
							okEdge = true
						}
					}
				}
				if !okEdge {
					all = false
					break
				}
			}
			if all {
				return true
			}
		}
	}
	return false
}

// XBSameLocation: a and b are loads of the same field of the same local struct
// cell and no store to that field exists in the function (so both read the
// value the cell was initialised with as a whole).
func XBSameLocation(a, b ssa.Value) bool {
	la, ok1 := a.(*ssa.UnOp)
	lb, ok2 := b.(*ssa.UnOp)
	if !ok1 || !ok2 || la.Op != token.MUL || lb.Op != token.MUL {
		return false
	}
	fa, ok1 := la.X.(*ssa.FieldAddr)
	fb, ok2 := lb.X.(*ssa.FieldAddr)
	if !ok1 || !ok2 || fa.Field != fb.Field || fa.X != fb.X {
		return false
	}
	cell, ok := fa.X.(*ssa.Alloc)
	if !ok {
		return false
	}
	return xbFieldStores(cell, fa.Field) == 0
}

func xbFieldStores(cell *ssa.Alloc, fld int) int {
	n := 0
	for _, r := range *cell.Referrers() {
		f, ok := r.(*ssa.FieldAddr)
		if !ok || f.Field != fld {
			continue
		}
		for _, rr := range *f.Referrers() {
			if st, ok := rr.(*ssa.Store); ok && st.Addr == f {
				n++
			}
		}
	}
	return n
}

// XBFieldLoad returns some load of field fld of the local struct cell behind
// the struct value sv (a load of that cell) when the field is never stored
// individually: every such load yields the field of the value the cell was
// initialised with.
func XBFieldLoad(sv ssa.Value, fld int) ssa.Value {
	u, ok := sv.(*ssa.UnOp)
	if !ok || u.Op != token.MUL {
		return nil
	}
	cell, ok := u.X.(*ssa.Alloc)
	if !ok || xbFieldStores(cell, fld) != 0 {
		return nil
	}
	for _, r := range *cell.Referrers() {
		f, ok := r.(*ssa.FieldAddr)
		if !ok || f.Field != fld {
			continue
		}
		for _, rr := range *f.Referrers() {
			if l, ok := rr.(*ssa.UnOp); ok && l.Op == token.MUL && l.X == ssa.Value(f) {
				return l
			}
		}
	}
	return nil
}
