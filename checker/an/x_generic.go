package an

import (
	"go/token"
	"go/types"
	"sort"

	"golang.org/x/tools/go/ssa"
)

// x_generic.go — helpers for packages whose types are generic. The loader's
// Prog.Methods/Prog.Funcs enumerate methods through method sets, which are
// empty for uninstantiated generic types; the generic (origin) bodies are
// nevertheless built by go/ssa and reachable through Program.FuncValue.

// MethodsG returns the SSA methods (with bodies) declared on a named type of a
// root package, also when the type is generic (origin bodies).
func (p *Prog) MethodsG(n *types.Named) []*ssa.Function {
	if n == nil {
		return nil
	}
	n = n.Origin()
	var out []*ssa.Function
	for i := 0; i < n.NumMethods(); i++ {
		if f := p.SSA.FuncValue(n.Method(i)); f != nil && len(f.Blocks) > 0 {
			out = append(out, f)
		}
	}
	return out
}

// MethodG returns one declared method (generic-aware) or nil.
func (p *Prog) MethodG(n *types.Named, name string) *ssa.Function {
	for _, f := range p.MethodsG(n) {
		if f.Name() == name {
			return f
		}
	}
	return nil
}

// NamedTypes lists the named (non-alias) types declared at package level in a
// root package, sorted by name. rel == "" lists those of every root package.
func (p *Prog) NamedTypes(rel string) []*types.Named {
	var out []*types.Named
	for _, pk := range p.Pkgs {
		if rel != "" && pk.PkgPath != Mod+"/"+rel {
			continue
		}
		sc := pk.Types.Scope()
		for _, nm := range sc.Names() {
			tn, ok := sc.Lookup(nm).(*types.TypeName)
			if !ok || tn.IsAlias() {
				continue
			}
			if n, ok := tn.Type().(*types.Named); ok {
				out = append(out, n)
			}
		}
	}
	sort.SliceStable(out, func(i, j int) bool {
		a, b := out[i].Obj(), out[j].Obj()
		if a.Pkg().Path() != b.Pkg().Path() {
			return a.Pkg().Path() < b.Pkg().Path()
		}
		return a.Name() < b.Name()
	})
	return out
}

// FieldName returns the name of the struct field addressed/read by v, and the
// base object, or "" (field objects of instantiated generic structs are not
// identical to the origin's, so generic code is compared by name).
func FieldName(v ssa.Value) (string, ssa.Value) {
	f, b := FieldOf(v)
	if f == nil {
		return "", nil
	}
	return f.Name(), b
}

// LoadOfField reports whether v is a load (*FieldAddr or Field) of the field
// called name of the object base (same access path).
func LoadOfField(v ssa.Value, base ssa.Value, name string) bool {
	switch x := v.(type) {
	case *ssa.UnOp:
		if x.Op != token.MUL {
			return false
		}
		n, b := FieldName(x.X)
		return n == name && b != nil && SameObj(b, base)
	case *ssa.Field:
		n, b := FieldName(x)
		return n == name && b != nil && SameObj(b, base)
	}
	return false
}

// StoresToFieldNamed lists the stores in fn to the field called name of the
// object base (nil = any base).
func StoresToFieldNamed(fn *ssa.Function, base ssa.Value, name string) []*ssa.Store {
	var out []*ssa.Store
	Instrs(fn, func(in ssa.Instruction) {
		st, ok := in.(*ssa.Store)
		if !ok {
			return
		}
		n, b := FieldName(st.Addr)
		if n == name && (base == nil || SameObj(b, base)) {
			out = append(out, st)
		}
	})
	return out
}

// LoadsOfFieldNamed lists the loads in fn of the field called name of base.
func LoadsOfFieldNamed(fn *ssa.Function, base ssa.Value, name string) []ssa.Value {
	var out []ssa.Value
	Instrs(fn, func(in ssa.Instruction) {
		if v, ok := in.(ssa.Value); ok && LoadOfField(v, base, name) {
			out = append(out, v)
		}
	})
	return out
}

// Rel is a normalised integer comparison "A op B" established on a CFG edge.
// Op is one of token.LSS, LEQ, GTR, GEQ, EQL, NEQ.
type GRel struct {
	A, B ssa.Value
	Op   token.Token
}

func gNegRel(op token.Token) token.Token {
	switch op {
	case token.LSS:
		return token.GEQ
	case token.LEQ:
		return token.GTR
	case token.GTR:
		return token.LEQ
	case token.GEQ:
		return token.LSS
	case token.EQL:
		return token.NEQ
	case token.NEQ:
		return token.EQL
	}
	return token.ILLEGAL
}

// SwapRel mirrors a relation: A op B  ==  B SwapRel(op) A.
func SwapRel(op token.Token) token.Token {
	switch op {
	case token.LSS:
		return token.GTR
	case token.LEQ:
		return token.GEQ
	case token.GTR:
		return token.LSS
	case token.GEQ:
		return token.LEQ
	}
	return op
}

// GRelEdges returns the CFG edges of fn on which holds(rel) is true, where rel
// is the comparison known to hold on that edge (condition taken, or its
// negation on the false edge; boolean negations are stripped). Short-circuit
// && / || are separate Ifs in SSA, so the caller composes edge sets.
func GRelEdges(fn *ssa.Function, holds func(GRel) bool) EdgeSet {
	out := EdgeSet{}
	for _, b := range fn.Blocks {
		if len(b.Instrs) == 0 {
			continue
		}
		ifi, ok := b.Instrs[len(b.Instrs)-1].(*ssa.If)
		if !ok {
			continue
		}
		atom, neg := atomOf(ifi.Cond)
		bo, ok := atom.(*ssa.BinOp)
		if !ok || gNegRel(bo.Op) == token.ILLEGAL {
			continue
		}
		opT, opF := bo.Op, gNegRel(bo.Op)
		if neg {
			opT, opF = opF, opT
		}
		if holds(GRel{bo.X, bo.Y, opT}) {
			out[Edge{b, 0}] = true
		}
		if holds(GRel{bo.X, bo.Y, opF}) {
			out[Edge{b, 1}] = true
		}
	}
	return out
}

// IntConst returns the integer value of an SSA constant.
func IntConst(v ssa.Value) (int64, bool) {
	c, ok := v.(*ssa.Const)
	if !ok || c.Value == nil {
		return 0, false
	}
	if b, ok := c.Type().Underlying().(*types.Basic); !ok || b.Info()&types.IsInteger == 0 {
		return 0, false
	}
	return c.Int64(), true
}

// FieldBaseType returns the struct type (possibly named) whose field is
// addressed/read by v (FieldAddr or Field), or nil.
func FieldBaseType(v ssa.Value) types.Type {
	switch x := v.(type) {
	case *ssa.FieldAddr:
		return deref(x.X.Type())
	case *ssa.Field:
		return x.X.Type()
	}
	return nil
}
