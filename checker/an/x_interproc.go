package an

// Small inter-procedural helpers (package-local, summary based) used to keep
// rules robust when a block is extracted into a helper function.

import (
	"golang.org/x/tools/go/ssa"
)

// CallSite is one static call of a function.
type CallSite struct {
	Caller *ssa.Function
	Call   ssa.CallInstruction
}

// CallSitesOf lists the static call sites of f inside fns.
func CallSitesOf(fns []*ssa.Function, f *ssa.Function) []CallSite {
	var out []CallSite
	for _, g := range fns {
		for _, c := range AllCalls(g) {
			if c.Common().StaticCallee() == f {
				out = append(out, CallSite{g, c})
			}
		}
	}
	return out
}

// IsLocalHelper: f is an unexported, named function or method with a body
// (its callers inside the package are all its callers, except through
// function values).
func IsLocalHelper(f *ssa.Function) bool {
	return f != nil && f.Blocks != nil && f.Parent() == nil && f.Object() != nil && !f.Object().Exported()
}

// RawParamIndex returns the index of p among its function's Params (the
// receiver, if any, is index 0), i.e. the index into CallCommon.Args of a
// static call.
func RawParamIndex(p *ssa.Parameter) int {
	for i, q := range p.Parent().Params {
		if q == p {
			return i
		}
	}
	return -1
}

// TrueImplies reports whether boolean result #idx of fn can be true only when
// every condition i holds, where condition i holds on a path that crossed an
// edge of conds[i], or when the returned value itself is one whose truth
// establishes it (valOK(i, v)). It understands `a && b` results (phis of
// constants and values) by looking at each incoming edge separately.
func TrueImplies(fn *ssa.Function, idx int, conds []EdgeSet, valOK func(i int, v ssa.Value) bool) bool {
	seen := map[ssa.Value]bool{}
	var walk func(v ssa.Value, at ssa.Instruction) bool
	walk = func(v ssa.Value, at ssa.Instruction) bool {
		if k, ok := ConstOf(v); ok {
			if k.String() == "false" {
				return true
			}
			for i := range conds {
				if !GuardedBy(fn, nil, at, conds[i]) {
					return false
				}
			}
			return true
		}
		if phi, ok := v.(*ssa.Phi); ok && !seen[v] {
			seen[v] = true
			for k, e := range phi.Edges {
				pred := phi.Block().Preds[k]
				if len(pred.Instrs) == 0 {
					return false
				}
				if !walk(e, pred.Instrs[len(pred.Instrs)-1]) {
					return false
				}
			}
			return true
		}
		for i := range conds {
			if valOK != nil && valOK(i, v) {
				continue
			}
			if !GuardedBy(fn, nil, at, conds[i]) {
				return false
			}
		}
		return true
	}
	n := 0
	for _, r := range Returns(fn) {
		if !Reaches(fn, nil, r, nil, nil) {
			continue
		}
		n++
		v := RetVal(r, idx)
		if v == nil || !walk(v, r) {
			return false
		}
	}
	return n > 0
}
