package an

import (
	"go/token"
	"go/types"

	"golang.org/x/tools/go/ssa"
)

// SameObj reports whether two values denote the same object within one
// function: identical SSA value or identical canonical access path.
func SameObj(a, b ssa.Value) bool {
	if a == b {
		return true
	}
	return PathOf(a) == PathOf(b)
}

// IsFresh reports whether v is an object allocated in the current function
// (new(T), &T{...}, make) and therefore not yet visible to anyone else.
func IsFresh(v ssa.Value) bool {
	for _, r := range Roots(v, &FlowOpts{}) {
		switch x := r.(type) {
		case *ssa.Alloc:
			_ = x
		case *ssa.MakeSlice, *ssa.MakeMap:
		default:
			return false
		}
	}
	return true
}

// FindInstrs returns the instructions of fn satisfying pred.
func FindInstrs(fn *ssa.Function, pred func(ssa.Instruction) bool) []ssa.Instruction {
	var out []ssa.Instruction
	Instrs(fn, func(in ssa.Instruction) {
		if pred(in) {
			out = append(out, in)
		}
	})
	return out
}

// MustFollow reports whether on every path from `from` to a normal return one
// of the instructions in set executes. When not, the escaping return is given.
func MustFollow(fn *ssa.Function, from ssa.Instruction, set []ssa.Instruction) (bool, *ssa.Return) {
	blocked := map[ssa.Instruction]bool{}
	for _, s := range set {
		blocked[s] = true
	}
	if r := ReachesAnyReturn(fn, from, nil, blocked); r != nil {
		return false, r
	}
	return true, nil
}

// MustPrecede reports whether every path from entry to `at` executes one of
// the instructions in set.
func MustPrecede(fn *ssa.Function, at ssa.Instruction, set []ssa.Instruction) bool {
	blocked := map[ssa.Instruction]bool{}
	for _, s := range set {
		if s == at {
			continue
		}
		blocked[s] = true
	}
	return !Reaches(fn, nil, at, nil, blocked)
}

// Around: one of set either precedes `at` on every path from entry, or follows
// it on every path to a normal return.
func Around(fn *ssa.Function, at ssa.Instruction, set []ssa.Instruction) bool {
	if len(set) == 0 {
		return false
	}
	if MustPrecede(fn, at, set) {
		return true
	}
	ok, _ := MustFollow(fn, at, set)
	return ok
}

// StoresToField lists stores to field fld whose base object is the same as
// base (nil = any base).
func StoresToField(fn *ssa.Function, fld *types.Var, base ssa.Value) []*ssa.Store {
	var out []*ssa.Store
	for _, st := range FieldStores(fn, fld) {
		_, b := FieldOf(st.Addr)
		if base == nil || SameObj(b, base) {
			out = append(out, st)
		}
	}
	return out
}

// IsZeroValue reports whether v is a zero/nil constant, or a load of the
// package-level variable pkg.name (e.g. cid.Undef).
func IsZeroValue(v ssa.Value, zeroGlobals ...string) bool {
	switch x := v.(type) {
	case *ssa.Const:
		return x.Value == nil || x.IsNil()
	case *ssa.UnOp:
		if x.Op == token.MUL {
			if g, ok := x.X.(*ssa.Global); ok {
				full := g.Pkg.Pkg.Path() + "." + g.Name()
				for _, z := range zeroGlobals {
					if z == full {
						return true
					}
				}
			}
		}
	}
	return false
}

func instrs[T ssa.Instruction](xs []T) []ssa.Instruction {
	out := make([]ssa.Instruction, len(xs))
	for i, x := range xs {
		out[i] = x
	}
	return out
}

// AsInstrs converts a typed slice of instructions.
func AsInstrs[T ssa.Instruction](xs []T) []ssa.Instruction { return instrs(xs) }

// IsFreshOrCallResult: the object was allocated here or returned by a call made
// here (constructor result not yet shared).
func IsFreshOrCallResult(v ssa.Value) bool {
	for _, r := range Roots(v, &FlowOpts{}) {
		switch x := r.(type) {
		case *ssa.Alloc, *ssa.Call, *ssa.MakeSlice, *ssa.MakeMap:
		case *ssa.Extract:
			if _, ok := x.Tuple.(*ssa.Call); !ok {
				return false
			}
		default:
			return false
		}
	}
	return true
}
