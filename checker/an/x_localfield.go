package an

import (
	"go/token"

	"golang.org/x/tools/go/ssa"
)

// Values carried in a small local struct (`t := struct{a, b T}{x, y}; use(t.a)`)
// are, for provenance purposes, local variables: a load of field f of a local
// struct cell yields what was stored into that field of that cell.

// localStructField: addr is &cell.f for a local struct cell whose address is
// only used for field addressing / whole-value loads and stores.
func localStructField(addr ssa.Value) (*ssa.Alloc, int, bool) {
	fa, ok := addr.(*ssa.FieldAddr)
	if !ok {
		return nil, 0, false
	}
	cell, ok := fa.X.(*ssa.Alloc)
	if !ok || !cellIsLocalStruct(cell) {
		return nil, 0, false
	}
	return cell, fa.Field, true
}

// cellIsLocalStruct: the cell's address is only used for field addressing and
// whole-value loads/stores (it does not escape).
func cellIsLocalStruct(cell *ssa.Alloc) bool {
	for _, r := range *cell.Referrers() {
		switch x := r.(type) {
		case *ssa.FieldAddr, *ssa.DebugRef:
		case *ssa.UnOp:
			if x.Op != token.MUL {
				return false
			}
		case *ssa.Store:
			if x.Addr != ssa.Value(cell) {
				return false // the struct's address escapes
			}
		default:
			return false
		}
	}
	return true
}

// LocalFieldStores returns the values stored into field `field` of the local
// struct cell (through any &cell.field), and whether a whole-struct store also
// exists (then the field may hold something else as well).
func LocalFieldStores(cell *ssa.Alloc, field int) (vals []ssa.Value, whole bool) {
	for _, r := range *cell.Referrers() {
		switch x := r.(type) {
		case *ssa.FieldAddr:
			if x.Field != field {
				continue
			}
			for _, r2 := range *x.Referrers() {
				if st, ok := r2.(*ssa.Store); ok && st.Addr == ssa.Value(x) {
					vals = append(vals, st.Val)
				}
			}
		case *ssa.Store:
			if x.Addr != ssa.Value(cell) {
				continue
			}
			// whole-struct initialisation from a composite literal built in
			// another local cell: take that cell's field stores
			if u, ok := x.Val.(*ssa.UnOp); ok && u.Op == token.MUL {
				if src, ok := u.X.(*ssa.Alloc); ok && src != cell {
					if cellIsLocalStruct(src) {
						sv, sw := LocalFieldStores(src, field)
						if !sw {
							vals = append(vals, sv...)
							continue
						}
					}
				}
			}
			whole = true
		}
	}
	return vals, whole
}

// LocalFieldValues: v is a load of a field of a local struct cell; the values
// stored into that field are returned.
func LocalFieldValues(v ssa.Value) ([]ssa.Value, bool) {
	u, ok := v.(*ssa.UnOp)
	if !ok || u.Op != token.MUL {
		return nil, false
	}
	cell, field, ok := localStructField(u.X)
	if !ok {
		return nil, false
	}
	vals, whole := LocalFieldStores(cell, field)
	if whole || len(vals) == 0 {
		return nil, false
	}
	return vals, true
}

// RootsX is Roots that additionally looks through fields of local struct cells.
func RootsX(v ssa.Value, o *FlowOpts) []ssa.Value {
	var out []ssa.Value
	seen := map[ssa.Value]bool{}
	var walk func(v ssa.Value, d int)
	walk = func(v ssa.Value, d int) {
		for _, r := range Roots(v, o) {
			if seen[r] {
				continue
			}
			seen[r] = true
			if vals, ok := LocalFieldValues(r); ok && d < 8 {
				for _, x := range vals {
					walk(x, d+1)
				}
				continue
			}
			out = append(out, r)
		}
	}
	walk(v, 0)
	return out
}

// AllRootsX is AllRoots over RootsX.
func AllRootsX(v ssa.Value, o *FlowOpts, ok func(ssa.Value) bool) (bool, ssa.Value) {
	rs := RootsX(v, o)
	if len(rs) == 0 {
		return false, v
	}
	for _, r := range rs {
		if !ok(r) {
			return false, r
		}
	}
	return true, nil
}
