package an

// Helpers added for C15/C16/C17/C38/C45 (impl-d): data-dependence leaves,
// block-level reachability, edge targets, package-local call summaries.

import (
	"go/token"
	"go/types"

	"golang.org/x/tools/go/ssa"
)

// To returns the block the edge leads to.
func (e Edge) To() *ssa.BasicBlock { return e.From.Succs[e.Succ] }

// ReachesFromBlock reports whether execution starting at the first
// instruction of blk can reach `to` without crossing an edge in cut and
// without executing an instruction in blocked.
func ReachesFromBlock(blk *ssa.BasicBlock, to ssa.Instruction, cut EdgeSet, blocked map[ssa.Instruction]bool) bool {
	seen := map[*ssa.BasicBlock]bool{blk: true}
	var scan func(b *ssa.BasicBlock) bool
	scan = func(b *ssa.BasicBlock) bool {
		for _, in := range b.Instrs {
			if in == to {
				return true
			}
			if blocked[in] {
				return false
			}
		}
		for si, s := range b.Succs {
			if cut[Edge{b, si}] || seen[s] {
				continue
			}
			seen[s] = true
			if scan(s) {
				return true
			}
		}
		return false
	}
	return scan(blk)
}

// EdgeLeadsTo reports whether, after taking one of the edges, `to` can be
// reached (avoiding cut edges / blocked instructions).
func EdgeLeadsTo(edges EdgeSet, to ssa.Instruction, cut EdgeSet, blocked map[ssa.Instruction]bool) bool {
	for e := range edges {
		if ReachesFromBlock(e.To(), to, cut, blocked) {
			return true
		}
	}
	return false
}

// DepOpts configures Deps.
type DepOpts struct {
	// Stop makes a value a leaf (it is reported, not looked through).
	Stop func(v ssa.Value) bool
	// SkipArg lets a call ignore some operands (e.g. the content argument of
	// os.Symlink is not a path that is acted on). idx -1 = receiver.
	SkipArg func(c *ssa.Call, idx int) bool
}

// Deps returns the leaves of the backward data-dependence closure of v:
// every value-computing instruction (conversions, phis, binary operators,
// slices, indexing, calls — a call result depends on all its operands) is
// looked through; loads of local cells continue at the values stored to the
// cell (also by closures). Leaves are parameters, constants, globals, loads
// of struct fields and of other non-local memory, allocations and anything
// selected by Stop. "Every leaf satisfies P" is a statement about every
// value that can flow into v.
func Deps(v ssa.Value, o *DepOpts) []ssa.Value {
	if o == nil {
		o = &DepOpts{}
	}
	seen := map[ssa.Value]bool{}
	var leaves []ssa.Value
	var walk func(v ssa.Value)
	leaf := func(v ssa.Value) { leaves = append(leaves, v) }
	walk = func(v ssa.Value) {
		if v == nil || seen[v] {
			return
		}
		seen[v] = true
		if o.Stop != nil && o.Stop(v) {
			leaf(v)
			return
		}
		switch x := v.(type) {
		case *ssa.ChangeType:
			walk(x.X)
		case *ssa.Convert:
			walk(x.X)
		case *ssa.MakeInterface:
			walk(x.X)
		case *ssa.ChangeInterface:
			walk(x.X)
		case *ssa.TypeAssert:
			walk(x.X)
		case *ssa.Slice:
			walk(x.X)
		case *ssa.SliceToArrayPointer:
			walk(x.X)
		case *ssa.BinOp:
			walk(x.X)
			walk(x.Y)
		case *ssa.Phi:
			for _, e := range x.Edges {
				walk(e)
			}
		case *ssa.Extract:
			walk(x.Tuple)
		case *ssa.Index:
			walk(x.X)
		case *ssa.Lookup:
			walk(x.X)
		case *ssa.Field:
			leaf(v)
		case *ssa.Call:
			cc := x.Common()
			if _, isBuiltin := cc.Value.(*ssa.Builtin); isBuiltin {
				for _, a := range cc.Args {
					walk(a)
				}
				return
			}
			n := 0
			if cc.IsInvoke() {
				if o.SkipArg == nil || !o.SkipArg(x, -1) {
					walk(cc.Value)
					n++
				}
			} else if _, isFn := cc.Value.(*ssa.Function); !isFn {
				if mc, ok := cc.Value.(*ssa.MakeClosure); ok {
					for _, b := range mc.Bindings {
						walk(b)
						n++
					}
				} else {
					walk(cc.Value)
					n++
				}
			}
			hasRecv := !cc.IsInvoke() && cc.Signature() != nil && cc.Signature().Recv() != nil
			for i, a := range cc.Args {
				idx := i
				if hasRecv {
					idx = i - 1
				}
				if o.SkipArg != nil && o.SkipArg(x, idx) {
					continue
				}
				walk(a)
				n++
			}
			if n == 0 {
				leaf(v)
			}
		case *ssa.UnOp:
			if x.Op != token.MUL {
				walk(x.X)
				return
			}
			switch a := x.X.(type) {
			case *ssa.Alloc:
				sts := storesTo(a)
				for _, st := range sts {
					walk(st.Val)
				}
				// a local aggregate built field by field (composite literal)
				// and then loaded as a whole
				n := len(sts)
				if refs := a.Referrers(); refs != nil {
					for _, r := range *refs {
						switch r := r.(type) {
						case *ssa.FieldAddr:
							if r.X == ssa.Value(a) {
								for _, rr := range *r.Referrers() {
									if st, ok := rr.(*ssa.Store); ok && st.Addr == ssa.Value(r) {
										n++
										walk(st.Val)
									}
								}
							}
						case *ssa.IndexAddr:
							if r.X == ssa.Value(a) {
								for _, rr := range *r.Referrers() {
									if st, ok := rr.(*ssa.Store); ok && st.Addr == ssa.Value(r) {
										n++
										walk(st.Val)
									}
								}
							}
						}
					}
				}
				if n == 0 {
					leaf(v)
				}
			case *ssa.FreeVar:
				if al := CellOf(a); al != nil {
					sts := storesTo(al)
					if len(sts) == 0 {
						leaf(v)
					}
					for _, st := range sts {
						walk(st.Val)
					}
				} else {
					leaf(v)
				}
			case *ssa.IndexAddr:
				walk(a.X)
			default:
				// field loads, global loads, loads through pointers
				leaf(v)
			}
		case *ssa.FreeVar:
			if b := bindingOf(x); b != nil {
				walk(b)
			} else {
				leaf(v)
			}
		case *ssa.Alloc:
			// a local aggregate used by address (varargs array, struct
			// literal): depends on everything stored into it
			n := 0
			var visit func(addr ssa.Value)
			visit = func(addr ssa.Value) {
				refs := addr.Referrers()
				if refs == nil {
					return
				}
				for _, r := range *refs {
					switch r := r.(type) {
					case *ssa.Store:
						if r.Addr == addr {
							n++
							walk(r.Val)
						}
					case *ssa.IndexAddr:
						if r.X == addr {
							visit(r)
						}
					case *ssa.FieldAddr:
						if r.X == addr {
							visit(r)
						}
					}
				}
			}
			visit(x)
			if n == 0 {
				leaf(v)
			}
		default:
			leaf(v)
		}
	}
	walk(v)
	return leaves
}

// ResultSite is one way a function produces its idx-th result: the value and
// the instruction that fixes it (the Return, or the store into the result
// cell for functions whose results live in cells because of defer/recover or
// naming).
type ResultSite struct {
	At  ssa.Instruction
	Val ssa.Value
	Ret *ssa.Return
}

// ResultSites enumerates, per normal Return of fn, the value(s) returned as
// result idx. Loads of a result cell are resolved to the stores that can reach
// the return.
func ResultSites(fn *ssa.Function, idx int) []ResultSite {
	var out []ResultSite
	for _, r := range Returns(fn) {
		if idx >= len(r.Results) || (fn.Recover != nil && r.Block() == fn.Recover) {
			continue
		}
		v := r.Results[idx]
		if u, ok := v.(*ssa.UnOp); ok && u.Op == token.MUL {
			if cell, ok := u.X.(*ssa.Alloc); ok {
				var sts []*ssa.Store
				for _, ref := range *cell.Referrers() {
					if st, ok := ref.(*ssa.Store); ok && st.Addr == cell {
						sts = append(sts, st)
					}
				}
				found := false
				for _, st := range sts {
					blocked := map[ssa.Instruction]bool{}
					for _, o := range sts {
						if o != st {
							blocked[o] = true
						}
					}
					if Reaches(fn, st, r, nil, blocked) {
						out = append(out, ResultSite{st, st.Val, r})
						found = true
					}
				}
				if found {
					continue
				}
			}
		}
		out = append(out, ResultSite{r, v, r})
	}
	return out
}

// LoadedField reports the struct field a leaf value was loaded from (load of
// a FieldAddr, or a Field projection) together with the base object.
func LoadedField(v ssa.Value) (*types.Var, ssa.Value) {
	switch x := v.(type) {
	case *ssa.UnOp:
		if x.Op == token.MUL {
			return FieldOf(x.X)
		}
	case *ssa.Field:
		return FieldOf(x)
	}
	return nil, nil
}

// IsString reports whether t's underlying type is string.
func IsString(t types.Type) bool {
	b, ok := t.Underlying().(*types.Basic)
	return ok && b.Info()&types.IsString != 0
}

// LocalCallers lists the static call sites of g inside the given functions.
func LocalCallers(fns []*ssa.Function, g *ssa.Function) []ssa.CallInstruction {
	var out []ssa.CallInstruction
	for _, f := range fns {
		for _, c := range AllCalls(f) {
			if ci := Callee(c); ci.Static == g || (ci.Static != nil && ci.Static.Origin() == g) {
				out = append(out, c)
			}
		}
	}
	return out
}

// ParamIndex returns the index of p among fn's parameters excluding the
// receiver (-1 for the receiver itself, -2 if not a parameter of fn).
func ParamIndex(fn *ssa.Function, p *ssa.Parameter) int {
	off := 0
	if fn.Signature.Recv() != nil {
		off = 1
	}
	for i, q := range fn.Params {
		if q == p {
			return i - off
		}
	}
	return -2
}

// ArgAt returns the actual argument for parameter index idx (excluding the
// receiver; -1 = receiver) of a static call.
func ArgAt(c ssa.CallInstruction, idx int) ssa.Value {
	if idx == -1 {
		return Recv(c)
	}
	as := Args(c)
	if idx >= 0 && idx < len(as) {
		return as[idx]
	}
	return nil
}

// CmpEdges returns the edges on which the relation `x OP y` (OP one of
// token.LSS, LEQ, GTR, GEQ, EQL, NEQ) is known to hold, for every If of fn
// whose condition is a comparison accepted by match(x, y) (operands given in
// the normalised order of the returned relation). match receives the
// comparison as written and returns ok=false to ignore it.
func CmpEdges(fn *ssa.Function, holds func(op token.Token, x, y ssa.Value) (onTrue, onFalse bool)) EdgeSet {
	return CondEdges(fn, func(atom ssa.Value) (bool, bool) {
		b, ok := atom.(*ssa.BinOp)
		if !ok {
			return false, false
		}
		switch b.Op {
		case token.LSS, token.LEQ, token.GTR, token.GEQ, token.EQL, token.NEQ:
			return holds(b.Op, b.X, b.Y)
		}
		return false, false
	})
}

// NegateCmp returns the comparison that holds when `op` does not.
func NegateCmp(op token.Token) token.Token {
	switch op {
	case token.LSS:
		return token.GEQ
	case token.LEQ:
		return token.GTR
	case token.GTR:
		return token.LEQ
	case token.GEQ:
		return token.LSS
	case token.EQL:
		return token.NEQ
	case token.NEQ:
		return token.EQL
	}
	return token.ILLEGAL
}

// SwapCmp returns the comparison with operands exchanged (x OP y == y OP' x).
func SwapCmp(op token.Token) token.Token {
	switch op {
	case token.LSS:
		return token.GTR
	case token.LEQ:
		return token.GEQ
	case token.GTR:
		return token.LSS
	case token.GEQ:
		return token.LEQ
	}
	return op
}

// ValueGuardedBy reports whether value `want` can become the value v observed
// at `site` only along paths (from `from`, nil = entry) that cross one of the
// edges. v may be a phi: each incoming edge that carries `want` (possibly
// through conversions) is examined on its own, so that
//
//	if cond { err = X }; return err
//
// is understood as "X is returned on the cond edge, the old err otherwise".
// match decides whether an incoming value is the wanted one.
func ValueGuardedBy(fn *ssa.Function, from ssa.Instruction, site ssa.Instruction, v ssa.Value, match func(ssa.Value) bool, edges EdgeSet) (found bool, guarded bool) {
	guarded = true
	seen := map[*ssa.Phi]bool{}
	var visit func(v ssa.Value, at ssa.Instruction)
	visit = func(v ssa.Value, at ssa.Instruction) {
		if phi, ok := v.(*ssa.Phi); ok {
			if seen[phi] {
				return
			}
			seen[phi] = true
			for i, e := range phi.Edges {
				pred := phi.Block().Preds[i]
				si := -1
				for k, sblk := range pred.Succs {
					if sblk == phi.Block() {
						si = k
					}
				}
				if _, isPhi := e.(*ssa.Phi); isPhi {
					visit(e, pred.Instrs[len(pred.Instrs)-1])
					continue
				}
				if !match(e) {
					continue
				}
				found = true
				if si >= 0 && edges[Edge{pred, si}] {
					continue
				}
				if !GuardedBy(fn, from, pred.Instrs[len(pred.Instrs)-1], edges) {
					guarded = false
				}
			}
			return
		}
		if !match(v) {
			return
		}
		found = true
		if !GuardedBy(fn, from, at, edges) {
			guarded = false
		}
	}
	visit(v, site)
	return found, found && guarded
}
