package an

import (
	"go/token"

	"golang.org/x/tools/go/ssa"
)

// XReaches is Reaches with one path-sensitivity refinement: a materialised
// short-circuit condition
//
//	ok := a && b        // phi [false, b] in the join block
//	if ok { ... }
//
// is a Phi of boolean constants tested by the If of the same block. A path
// that enters the join block over an edge whose Phi operand is a constant
// can only leave it over the matching successor.
func XReaches(fn *ssa.Function, from, to ssa.Instruction, cut EdgeSet, blocked map[ssa.Instruction]bool) bool {
	if to.Parent() != fn || (from != nil && from.Parent() != fn) {
		return false
	}
	type key struct {
		b    *ssa.BasicBlock
		only int // -1 = any successor, else the only feasible successor index
	}
	seen := map[key]bool{}
	var scan func(b *ssa.BasicBlock, start, only int) bool
	scan = func(b *ssa.BasicBlock, start, only int) bool {
		for i := start; i < len(b.Instrs); i++ {
			in := b.Instrs[i]
			if in == to {
				return true
			}
			if blocked[in] {
				return false
			}
		}
		for si, s := range b.Succs {
			if cut[Edge{b, si}] || (only >= 0 && si != only) {
				continue
			}
			o := feasibleSucc(b, s)
			k := key{s, o}
			if seen[k] {
				continue
			}
			seen[k] = true
			if scan(s, 0, o) {
				return true
			}
		}
		return false
	}
	if from == nil {
		if len(fn.Blocks) == 0 {
			return false
		}
		seen[key{fn.Blocks[0], -1}] = true
		return scan(fn.Blocks[0], 0, -1)
	}
	return scan(from.Block(), idxOf(from)+1, -1)
}

// feasibleSucc: entering s from pred, which successor of s is the only
// feasible one (-1 = unknown/any).
func feasibleSucc(pred, s *ssa.BasicBlock) int {
	if len(s.Instrs) == 0 {
		return -1
	}
	ifi, ok := s.Instrs[len(s.Instrs)-1].(*ssa.If)
	if !ok {
		return -1
	}
	atom, neg := atomOf(ifi.Cond)
	phi, ok := atom.(*ssa.Phi)
	if !ok || phi.Block() != s {
		return -1
	}
	// the block may only contain phis, negations of the phi and the If
	for _, in := range s.Instrs[:len(s.Instrs)-1] {
		switch x := in.(type) {
		case *ssa.Phi:
		case *ssa.UnOp:
			if x.Op != token.NOT {
				return -1
			}
		case *ssa.DebugRef:
		default:
			return -1
		}
	}
	for i, p := range s.Preds {
		if p != pred {
			continue
		}
		k, ok := phi.Edges[i].(*ssa.Const)
		if !ok || k.Value == nil {
			return -1
		}
		v := k.Value.String() == "true"
		if neg {
			v = !v
		}
		if v {
			return 0
		}
		return 1
	}
	return -1
}

// XGuardedBy is GuardedBy on top of XReaches.
func XGuardedBy(fn *ssa.Function, from, site ssa.Instruction, edges EdgeSet) bool {
	return !XReaches(fn, from, site, edges, nil)
}

// XCondEdges is CondEdges that also understands materialised short-circuit
// conditions: for `p := a && b` (phi [false, b]) the true outcome of p
// implies b (and, by the CFG, a); for `p := a || b` (phi [true, b]) the false
// outcome implies !b.
func XCondEdges(fn *ssa.Function, classify func(atom ssa.Value) (onTrue, onFalse bool)) EdgeSet {
	var cls func(atom ssa.Value, depth int) (bool, bool)
	cls = func(atom ssa.Value, depth int) (bool, bool) {
		phi, ok := atom.(*ssa.Phi)
		if !ok || depth > 4 {
			return classify(atom)
		}
		var rest []ssa.Value
		nTrue, nFalse := 0, 0
		for _, e := range phi.Edges {
			if k, ok := e.(*ssa.Const); ok && k.Value != nil {
				if k.Value.String() == "true" {
					nTrue++
				} else {
					nFalse++
				}
				continue
			}
			rest = append(rest, e)
		}
		if len(rest) != 1 || (nTrue > 0 && nFalse > 0) || nTrue+nFalse == 0 {
			return classify(atom)
		}
		v, neg := atomOf(rest[0])
		t, f := cls(v, depth+1)
		if neg {
			t, f = f, t
		}
		if nFalse > 0 { // a && v
			return t, false
		}
		return false, f // a || v
	}
	return CondEdges(fn, func(atom ssa.Value) (bool, bool) { return cls(atom, 0) })
}
