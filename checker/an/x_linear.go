package an

import (
	"fmt"
	"go/token"
	"go/types"
	"sort"
	"strings"

	"golang.org/x/tools/go/ssa"
)

// x_linear.go — normalisation of integer SSA expressions built from +, -,
// constants and integer conversions into a linear form  sum(coef*leaf) + K,
// so that `1 + to - from`, `to - from + 1` and `(to + 1) - from` compare equal
// and an off-by-one is visible as a different constant. Leaves are identified
// by LinKey: separate loads of the same struct field (go/ssa performs no CSE)
// get the same key.

type Lin struct {
	Coef map[string]int64     // leaf key -> coefficient (zero coefficients removed)
	Leaf map[string]ssa.Value // leaf key -> one representative value
	K    int64
}

// LinKey is the identity of a leaf: field loads are keyed by "<struct type>.<field>"
// plus the access path of the base, everything else by its SSA identity.
func LinKey(v ssa.Value) string {
	switch x := v.(type) {
	case *ssa.UnOp:
		if x.Op == token.MUL {
			// a load of a local cell (captured variable / spilled parameter)
			// that is stored exactly once denotes that stored value
			if cell := CellOf(x.X); cell != nil {
				if sts := storesTo(cell); len(sts) == 1 {
					return LinKey(sts[0].Val)
				}
			}
			if f, _ := FieldOf(x.X); f != nil {
				return "load:" + PathOf(x.X)
			}
			if inner, ok := x.X.(*ssa.UnOp); ok && inner.Op == token.MUL {
				return "load:*" + LinKey(inner)
			}
		}
	case *ssa.Field:
		return "load:" + PathOf(x)
	case *ssa.Parameter:
		return "param:" + x.Name()
	}
	return fmt.Sprintf("val:%s@%p", v.Name(), v)
}

// LinOf computes the linear form of an integer-valued expression.
func LinOf(v ssa.Value) Lin {
	l := Lin{Coef: map[string]int64{}, Leaf: map[string]ssa.Value{}}
	var walk func(v ssa.Value, sign int64, depth int)
	walk = func(v ssa.Value, sign int64, depth int) {
		if depth < 32 {
			switch x := v.(type) {
			case *ssa.Const:
				if k, ok := IntConst(x); ok {
					l.K += sign * k
					return
				}
			case *ssa.BinOp:
				switch x.Op {
				case token.ADD:
					walk(x.X, sign, depth+1)
					walk(x.Y, sign, depth+1)
					return
				case token.SUB:
					walk(x.X, sign, depth+1)
					walk(x.Y, -sign, depth+1)
					return
				}
			case *ssa.Convert:
				if b, ok := x.X.Type().Underlying().(*types.Basic); ok && b.Info()&types.IsInteger != 0 {
					if b2, ok := x.Type().Underlying().(*types.Basic); ok && b2.Info()&types.IsInteger != 0 {
						walk(x.X, sign, depth+1)
						return
					}
				}
			case *ssa.ChangeType:
				walk(x.X, sign, depth+1)
				return
			}
		}
		k := LinKey(v)
		l.Coef[k] += sign
		l.Leaf[k] = v
		if l.Coef[k] == 0 {
			delete(l.Coef, k)
		}
	}
	walk(v, 1, 0)
	return l
}

// Is reports whether the form equals sum(coef[key]) + k exactly.
func (l Lin) Is(k int64, coef map[string]int64) bool {
	if l.K != k || len(l.Coef) != len(coef) {
		return false
	}
	for key, c := range coef {
		if l.Coef[key] != c {
			return false
		}
	}
	return true
}

// Single returns the only leaf when the form is 1*leaf + K.
func (l Lin) Single() (ssa.Value, string, bool) {
	if len(l.Coef) != 1 {
		return nil, "", false
	}
	for k, c := range l.Coef {
		if c == 1 {
			return l.Leaf[k], k, true
		}
	}
	return nil, "", false
}

func (l Lin) String() string {
	var ks []string
	for k := range l.Coef {
		ks = append(ks, k)
	}
	sort.Strings(ks)
	var sb strings.Builder
	for _, k := range ks {
		name := k
		if i := strings.LastIndex(name, "."); i >= 0 && strings.HasPrefix(name, "load:") {
			name = name[i+1:]
		} else if v := l.Leaf[k]; v != nil {
			name = v.Name()
		}
		fmt.Fprintf(&sb, "%+d*%s ", l.Coef[k], name)
	}
	fmt.Fprintf(&sb, "%+d", l.K)
	return sb.String()
}

// PhiEdgeGuarded reports whether the control-flow edge that feeds operand idx
// of phi can only be taken after crossing one of the edges in set (or is
// itself in set).
func PhiEdgeGuarded(fn *ssa.Function, phi *ssa.Phi, idx int, set EdgeSet) bool {
	if len(set) == 0 || idx >= len(phi.Block().Preds) {
		return false
	}
	pred := phi.Block().Preds[idx]
	for si, s := range pred.Succs {
		if s != phi.Block() {
			continue
		}
		if set[Edge{pred, si}] {
			continue
		}
		if len(pred.Instrs) == 0 || Reaches(fn, nil, pred.Instrs[len(pred.Instrs)-1], set, nil) {
			return false
		}
	}
	return true
}
