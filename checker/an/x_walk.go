package an

import (
	"go/constant"
	"go/token"
	"strings"

	"golang.org/x/tools/go/ssa"
)

// Walk is a CFG reachability query that is sensitive to the value a phi
// takes on the edge a block is entered through: when a block ends in `If c`
// and c is (a negation of) a phi of that very block, the walk evaluates c for
// the incoming edge. A constant selects the single feasible branch, any other
// value is handed to valCut, which may declare one outcome of that value as
// "not to be followed" (the same callback is applied to conditions that are
// not phis). Materialised short-circuit conditions (x := a || b; if x ...) are
// thereby treated like the direct form (if a || b ...).
type Walk struct {
	Fn      *ssa.Function
	Cut     EdgeSet
	Blocked map[ssa.Instruction]bool
	ValCut  func(v ssa.Value, outcome bool) bool
}

func (w *Walk) branches(b *ssa.BasicBlock, pred int) []int {
	var out []int
	ifi, isIf := b.Instrs[len(b.Instrs)-1].(*ssa.If)
	known, kval := false, false
	var cutT, cutF bool
	if isIf {
		v := ifi.Cond
		neg := false
		for i := 0; i < 8; i++ {
			if u, ok := v.(*ssa.UnOp); ok && u.Op == token.NOT {
				neg = !neg
				v = u.X
				continue
			}
			if ph, ok := v.(*ssa.Phi); ok && ph.Block() == b && pred >= 0 && pred < len(ph.Edges) {
				v = ph.Edges[pred]
				continue
			}
			break
		}
		if k, ok := v.(*ssa.Const); ok && k.Value != nil && k.Value.Kind() == constant.Bool {
			known, kval = true, constant.BoolVal(k.Value) != neg
		} else if w.ValCut != nil {
			// outcome of v that corresponds to the true branch is !neg
			cutT = w.ValCut(v, !neg)
			cutF = w.ValCut(v, neg)
		}
	}
	for si := range b.Succs {
		if w.Cut[Edge{From: b, Succ: si}] {
			continue
		}
		if isIf {
			if known && ((si == 0) != kval) {
				continue
			}
			if (si == 0 && cutT) || (si == 1 && cutF) {
				continue
			}
		}
		out = append(out, si)
	}
	return out
}

// reaches: can execution go from just after `from` (nil = entry) to an
// instruction satisfying target?
func (w *Walk) Reaches(from ssa.Instruction, target func(ssa.Instruction) bool) bool {
	type state struct {
		b    *ssa.BasicBlock
		pred int
	}
	seen := map[state]bool{}
	var scan func(b *ssa.BasicBlock, pred, start int) bool
	scan = func(b *ssa.BasicBlock, pred, start int) bool {
		for i := start; i < len(b.Instrs); i++ {
			in := b.Instrs[i]
			if target(in) {
				return true
			}
			if w.Blocked[in] {
				return false
			}
		}
		for _, si := range w.branches(b, pred) {
			s := b.Succs[si]
			// index of b among s.Preds (first matching edge not yet used for this si)
			pi := -1
			n := 0
			for k, q := range s.Preds {
				if q == b {
					// the n-th occurrence of b in s.Preds corresponds to the n-th edge b->s
					m := 0
					for sj := 0; sj < si; sj++ {
						if b.Succs[sj] == s {
							m++
						}
					}
					if n == m {
						pi = k
					}
					n++
				}
			}
			st := state{s, pi}
			if seen[st] {
				continue
			}
			seen[st] = true
			if scan(s, pi, 0) {
				return true
			}
		}
		return false
	}
	if from == nil {
		if len(w.Fn.Blocks) == 0 {
			return false
		}
		seen[state{w.Fn.Blocks[0], -1}] = true
		return scan(w.Fn.Blocks[0], -1, 0)
	}
	b := from.Block()
	for i, in := range b.Instrs {
		if in == from {
			return scan(b, -1, i+1)
		}
	}
	return false
}

func (w *Walk) ReachesReturn(from ssa.Instruction) bool {
	return w.Reaches(from, func(in ssa.Instruction) bool { _, ok := in.(*ssa.Return); return ok && in != from })
}

// BoolIs: valCut callback "value v is one of vals (or vals[i] == const) and has the given outcome".
func BoolIs(vals []ssa.Value, want bool) func(ssa.Value, bool) bool {
	set := Aliases(vals...)
	return func(v ssa.Value, outcome bool) bool { return set[v] && outcome == want }
}

// LastComp returns the last component of the canonical access path of v and
// whether v has a recognisable parameter/local field path at all.
func LastComp(v ssa.Value) (string, bool) {
	p := PathOf(v)
	if !(strings.HasPrefix(p, "p:") || strings.HasPrefix(p, "local:")) || !strings.Contains(p, ".") {
		return "", false
	}
	return p[strings.LastIndex(p, ".")+1:], true
}

// AnyCut combines ValCut callbacks: an outcome is cut when any of them cuts it.
func AnyCut(fs ...func(ssa.Value, bool) bool) func(ssa.Value, bool) bool {
	return func(v ssa.Value, outcome bool) bool {
		for _, f := range fs {
			if f != nil && f(v, outcome) {
				return true
			}
		}
		return false
	}
}

// GuardedByVal is GuardedBy(fn, nil, site, edges) made sensitive to
// materialised conditions: besides the static edges, a branch is not followed
// when the condition evaluates (through the phis of its block, for the edge the
// block was entered by) to one of vals with outcome want.
func GuardedByVal(fn *ssa.Function, site ssa.Instruction, edges EdgeSet, cut func(ssa.Value, bool) bool) bool {
	w := &Walk{Fn: fn, Cut: edges, ValCut: cut}
	return !w.Reaches(nil, func(in ssa.Instruction) bool { return in == site })
}
