package an

import (
	"crypto/sha1"
	"encoding/hex"
	"encoding/json"
	"fmt"
	"go/token"
	"os"
	"path/filepath"
	"sort"
	"strconv"
	"strings"
	"time"
)

type Status string

const (
	Discharged Status = "discharged"
	Violated   Status = "violated"
	Known      Status = "known-finding"
)

// Obligation is one rule instance applied to one construct.
type Obligation struct {
	Key    string `json:"key"`  // stable: <ob>|<rule>|<func>|<construct>  (no line numbers)
	Ob     string `json:"ob"`   // e.g. "O1"
	Rule   string `json:"rule"` // e.g. "R-DOM"
	Site   string `json:"site"` // file:line (reporting only)
	Status Status `json:"status"`
	Detail string `json:"detail"`
}

// Ctx collects the obligations of one property run.
type Ctx struct {
	Prop     string
	Tier     string
	P        *Prog
	Obs      []Obligation
	Notes    []string // advisory remarks, never affect the verdict
	Explain  string   // what is decided / what is not
	Assume   []string
	Rules    map[string]int // rule instance -> site count
	problems []string       // checker malfunction (unresolved anchor, vacuity)
	start    time.Time
}

func NewCtx(prop, tier string) *Ctx {
	return &Ctx{Prop: prop, Tier: tier, Rules: map[string]int{}, start: time.Now()}
}

func key(ob, rule, fn, construct string) string {
	return ob + "|" + rule + "|" + fn + "|" + construct
}

// OK records a discharged obligation.
func (c *Ctx) OK(ob, rule, fn, construct string, pos token.Pos, detail string) {
	c.Obs = append(c.Obs, Obligation{key(ob, rule, fn, construct), ob, rule, c.P.Pos(pos), Discharged, detail})
	c.Rules[ob+" "+rule]++
}

// Bad records a violated obligation.
func (c *Ctx) Bad(ob, rule, fn, construct string, pos token.Pos, detail string) {
	c.Obs = append(c.Obs, Obligation{key(ob, rule, fn, construct), ob, rule, c.P.Pos(pos), Violated, detail})
	c.Rules[ob+" "+rule]++
}

// Check records OK or Bad depending on cond.
func (c *Ctx) Check(cond bool, ob, rule, fn, construct string, pos token.Pos, okDetail, badDetail string) bool {
	if cond {
		c.OK(ob, rule, fn, construct, pos, okDetail)
	} else {
		c.Bad(ob, rule, fn, construct, pos, badDetail)
	}
	return cond
}

// Note adds an advisory remark to the evidence.
func (c *Ctx) Note(format string, a ...any) { c.Notes = append(c.Notes, fmt.Sprintf(format, a...)) }

// Problem records a malfunction of the checker itself (unresolved anchor,
// instance count below the hand-confirmed minimum): exit status 2.
func (c *Ctx) Problem(format string, a ...any) {
	c.problems = append(c.problems, fmt.Sprintf(format, a...))
}

// Need asserts an anchor was resolved.
func (c *Ctx) Need(ok bool, what string) bool {
	if !ok {
		c.Problem("unresolved anchor: %s", what)
	}
	return ok
}

// Min is the vacuity guard: a rule instance must have matched at least min
// constructs (the number confirmed by reading today's tree).
func (c *Ctx) Min(what string, got, min int) {
	if got < min {
		c.Problem("vacuity: %s matched %d construct(s), expected at least %d", what, got, min)
	}
}

// ---- known findings ----

type KnownFinding struct {
	Property string `json:"property"`
	Key      string `json:"key"`
	What     string `json:"what"`
}

type knownFile struct {
	Known []KnownFinding `json:"known"`
	Fixed []string       `json:"fixed"`
}

func VerifDir() string {
	if d := os.Getenv("VERIF_DIR"); d != "" {
		return d
	}
	return "/verif"
}

// OutDir is where evidence/ and replay/ are written (VERIF_OUT overrides, for
// runs against scratch trees that must not touch the committed evidence).
func OutDir() string {
	if d := os.Getenv("VERIF_OUT"); d != "" {
		return d
	}
	return VerifDir()
}

func loadKnown() (map[string]KnownFinding, error) {
	b, err := os.ReadFile(filepath.Join(VerifDir(), "known_findings.json"))
	if err != nil {
		if os.IsNotExist(err) {
			return map[string]KnownFinding{}, nil
		}
		return nil, err
	}
	var kf knownFile
	if err := json.Unmarshal(b, &kf); err != nil {
		return nil, err
	}
	m := map[string]KnownFinding{}
	for _, k := range kf.Known {
		m[k.Property+"\x00"+k.Key] = k
	}
	return m, nil
}

// Finish prints the verdict lines, writes evidence and replay files and
// returns the process exit status.
func (c *Ctx) Finish() int {
	known, err := loadKnown()
	if err != nil {
		c.Problem("known_findings.json unreadable: %v", err)
	}
	seen := map[string]int{}
	for i := range c.Obs {
		// keys must be unique per run; disambiguate repeated constructs by ordinal
		k := c.Obs[i].Key
		seen[k]++
		if seen[k] > 1 {
			c.Obs[i].Key = k + "#" + strconv.Itoa(seen[k])
		}
	}
	nv, nk, nd := 0, 0, 0
	var viol []Obligation
	for i := range c.Obs {
		o := &c.Obs[i]
		switch o.Status {
		case Discharged:
			nd++
		case Violated:
			if kf, ok := known[c.Prop+"\x00"+o.Key]; ok {
				o.Status = Known
				nk++
				fmt.Printf("KNOWN-FINDING: property=%s %s — %s (%s)\n", c.Prop, o.Key, kf.What, o.Site)
			} else {
				nv++
				viol = append(viol, *o)
			}
		}
	}
	sort.Slice(viol, func(i, j int) bool { return viol[i].Key < viol[j].Key })
	os.MkdirAll(filepath.Join(OutDir(), "replay"), 0o755)
	for _, o := range viol {
		h := sha1.Sum([]byte(o.Key))
		rp := filepath.Join(OutDir(), "replay", c.Prop+"-"+hex.EncodeToString(h[:6])+".json")
		b, _ := json.MarshalIndent(map[string]any{"property": c.Prop, "obligation": o}, "", " ")
		os.WriteFile(rp, b, 0o644)
		fmt.Printf("  violated %s at %s: %s\n", o.Key, o.Site, o.Detail)
		fmt.Printf("VIOLATION property=%s replay=%s\n", c.Prop, rp)
	}
	for _, p := range c.problems {
		fmt.Printf("CHECKER-PROBLEM property=%s %s\n", c.Prop, p)
	}
	c.writeEvidence(nd, nk, nv)
	fmt.Printf("%s %s: obligations=%d discharged=%d known=%d violated=%d problems=%d functions=%d packages=%d (%.1fs)\n",
		c.Prop, c.Tier, len(c.Obs), nd, nk, nv, len(c.problems), c.nfuncs(), c.npkgs(), time.Since(c.start).Seconds())
	if nv > 0 {
		return 1
	}
	if len(c.problems) > 0 {
		return 2
	}
	return 0
}

func (c *Ctx) nfuncs() int {
	if c.P == nil {
		return 0
	}
	return c.P.NFuncs
}
func (c *Ctx) npkgs() int {
	if c.P == nil {
		return 0
	}
	return c.P.NPkgs
}

func (c *Ctx) writeEvidence(nd, nk, nv int) {
	seed := 0
	if s := os.Getenv("VERIF_SEED"); s != "" {
		if n, err := strconv.Atoi(s); err == nil {
			seed = n
		}
	}
	distinct := map[string]bool{}
	for _, o := range c.Obs {
		distinct[o.Key] = true
	}
	var samples []any
	// samples: first obligation of each rule instance, then all non-discharged
	perRule := map[string]int{}
	for _, o := range c.Obs {
		if o.Status != Discharged || perRule[o.Ob+o.Rule] < 2 {
			perRule[o.Ob+o.Rule]++
			samples = append(samples, o)
		}
	}
	var pkgs []string
	if c.P != nil {
		for _, p := range c.P.Pkgs {
			pkgs = append(pkgs, strings.TrimPrefix(p.PkgPath, Mod+"/"))
		}
	}
	ruleList := []string{}
	for k, v := range c.Rules {
		ruleList = append(ruleList, fmt.Sprintf("%s: %d site(s)", k, v))
	}
	sort.Strings(ruleList)
	ev := map[string]any{
		"property_id": c.Prop,
		"tier":        c.Tier,
		"seed":        seed,
		"level":       "other",
		"coverage": map[string]any{
			"explanation":         c.Explain,
			"obligations":         len(c.Obs),
			"discharged":          nd,
			"known_findings":      nk,
			"evaluations":         len(c.Obs),
			"distinct_nontrivial": len(distinct),
			"rule":                "one obligation = one rule instance applied to one construct of /repo's current source (call site, store, function, switch, constant); distinct = distinct stable keys ob|rule|function|construct; all are non-trivial (each is a path/flow/table query over typed SSA or AST)",
			"samples":             samples,
			"all_obligations":     c.Obs,
			"rule_instances":      ruleList,
			"functions_analysed":  c.nfuncs(),
			"packages_loaded":     pkgs,
			"advisory_notes":      c.Notes,
			"checker_problems":    c.problems,
			"checker_cmd":         "bin/check " + c.Prop + " " + c.Tier,
			"trusted_base":        []string{"go/types type checker", "golang.org/x/tools/go/ssa v0.50.0 SSA construction", "go/packages loader with go1.26.8 go list"},
			"exhaustive":          false,
		},
		"assumptions": c.Assume,
		"wall_s":      time.Since(c.start).Seconds(),
		"violations":  nv,
	}
	b, _ := json.MarshalIndent(ev, "", " ")
	dir := filepath.Join(OutDir(), "evidence")
	os.MkdirAll(dir, 0o755)
	os.WriteFile(filepath.Join(dir, c.Prop+".json"), b, 0o644)
}

// PrintReplay prints the current status of the obligation stored in a replay
// file (re-evaluated on the current tree by the run that just happened).
func (c *Ctx) PrintReplay(path string) {
	b, err := os.ReadFile(path)
	if err != nil {
		fmt.Printf("replay: %v\n", err)
		return
	}
	var r struct {
		Obligation Obligation `json:"obligation"`
	}
	if json.Unmarshal(b, &r) != nil {
		fmt.Printf("replay: bad file %s\n", path)
		return
	}
	for _, o := range c.Obs {
		if o.Key == r.Obligation.Key {
			fmt.Printf("replay %s: now %s at %s: %s\n", o.Key, o.Status, o.Site, o.Detail)
			return
		}
	}
	fmt.Printf("replay %s: obligation no longer produced on this tree\n", r.Obligation.Key)
}
