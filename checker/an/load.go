// Package an is the analysis library of boxocheck: loading /repo's current
// working tree into typed ASTs and SSA, and the reusable rule primitives
// (dominance on condition edges, value provenance, lock state, tables).
//
// Nothing here executes code of /repo; every fact is derived from go/types and
// golang.org/x/tools/go/ssa over the sources as they are on disk now.
package an

import (
	"fmt"
	"go/ast"
	"go/token"
	"go/types"
	"os"
	"sort"
	"strings"

	"golang.org/x/tools/go/packages"
	"golang.org/x/tools/go/ssa"
	"golang.org/x/tools/go/ssa/ssautil"
)

const Mod = "github.com/ipfs/boxo"

// RepoDir is the tree analysed; overridable for self-tests on scratch copies.
func RepoDir() string {
	if d := os.Getenv("BOXO_REPO"); d != "" {
		return d
	}
	return "/repo"
}

type Prog struct {
	Fset  *token.FileSet
	Pkgs  []*packages.Package // root packages (syntax available)
	ByPth map[string]*packages.Package
	SSA   *ssa.Program
	// all source-level functions of root packages, including methods and
	// anonymous functions
	Funcs []*ssa.Function
	// package count, function count for evidence
	NPkgs, NFuncs int
	fnByObj       map[*types.Func]*ssa.Function
	encl          map[*ssa.Function]*ast.File
}

// Load type-checks the given package patterns (relative to the boxo module,
// e.g. "./blockstore") from source; dependencies come from export data.
func Load(patterns ...string) (*Prog, error) {
	cfg := &packages.Config{
		Mode:  packages.LoadSyntax | packages.NeedModule,
		Dir:   RepoDir(),
		Tests: false,
		Env:   append(os.Environ(), "GOWORK=off"),
	}
	pkgs, err := packages.Load(cfg, patterns...)
	if err != nil {
		return nil, fmt.Errorf("load: %w", err)
	}
	if len(pkgs) == 0 {
		return nil, fmt.Errorf("load: zero packages for %v", patterns)
	}
	var errs []string
	packages.Visit(pkgs, nil, func(p *packages.Package) {
		for _, e := range p.Errors {
			errs = append(errs, e.Error())
		}
	})
	if len(errs) > 0 {
		if len(errs) > 8 {
			errs = errs[:8]
		}
		return nil, fmt.Errorf("load: package errors: %s", strings.Join(errs, "; "))
	}
	p := &Prog{ByPth: map[string]*packages.Package{}, fnByObj: map[*types.Func]*ssa.Function{}}
	sort.Slice(pkgs, func(i, j int) bool { return pkgs[i].PkgPath < pkgs[j].PkgPath })
	for _, pk := range pkgs {
		if pk.Types == nil || pk.TypesInfo == nil || len(pk.Syntax) == 0 {
			return nil, fmt.Errorf("load: package %s has no syntax/types", pk.PkgPath)
		}
		p.ByPth[pk.PkgPath] = pk
	}
	p.Pkgs = pkgs
	p.Fset = pkgs[0].Fset
	prog, spkgs := ssautil.Packages(pkgs, ssa.InstantiateGenerics)
	p.SSA = prog
	for i, sp := range spkgs {
		if sp == nil {
			return nil, fmt.Errorf("load: no SSA for %s", pkgs[i].PkgPath)
		}
		sp.Build()
	}
	for i, sp := range spkgs {
		_ = i
		var add func(f *ssa.Function)
		add = func(f *ssa.Function) {
			if f == nil || f.Blocks == nil {
				return
			}
			p.Funcs = append(p.Funcs, f)
			if o, ok := f.Object().(*types.Func); ok && o != nil {
				p.fnByObj[o] = f
			}
			for _, a := range f.AnonFuncs {
				add(a)
			}
		}
		for _, m := range sp.Members {
			switch m := m.(type) {
			case *ssa.Function:
				add(m)
			case *ssa.Type:
				for _, t := range []types.Type{m.Type(), types.NewPointer(m.Type())} {
					ms := prog.MethodSets.MethodSet(t)
					for k := 0; k < ms.Len(); k++ {
						f := prog.MethodValue(ms.At(k))
						if f != nil && f.Pkg == sp && f.Synthetic == "" {
							if _, seen := p.fnByObj[f.Object().(*types.Func)]; !seen {
								add(f)
							}
						}
					}
				}
			}
		}
	}
	sort.Slice(p.Funcs, func(i, j int) bool { return p.Funcs[i].Pos() < p.Funcs[j].Pos() })
	p.NPkgs = len(pkgs)
	p.NFuncs = len(p.Funcs)
	return p, nil
}

// Pkg returns the loaded root package with the given path below the module
// ("blockstore", "bitswap/message").
func (p *Prog) Pkg(rel string) *packages.Package {
	return p.ByPth[Mod+"/"+rel]
}

// Func returns the SSA function for a package-level function or method.
// recv is the bare receiver type name ("" for functions).
func (p *Prog) Func(rel, recv, name string) *ssa.Function {
	pk := p.Pkg(rel)
	if pk == nil {
		return nil
	}
	if recv == "" {
		if o, ok := pk.Types.Scope().Lookup(name).(*types.Func); ok {
			return p.fnByObj[o]
		}
		return nil
	}
	tn, ok := pk.Types.Scope().Lookup(recv).(*types.TypeName)
	if !ok {
		return nil
	}
	named, ok := tn.Type().(*types.Named)
	if !ok {
		return nil
	}
	for i := 0; i < named.NumMethods(); i++ {
		if m := named.Method(i); m.Name() == name {
			return p.fnByObj[m]
		}
	}
	return nil
}

// FuncOf returns the SSA function of a *types.Func declared in a root package.
func (p *Prog) FuncOf(o *types.Func) *ssa.Function { return p.fnByObj[o.Origin()] }

// Named looks up a named type in a root package.
func (p *Prog) Named(rel, name string) *types.Named {
	pk := p.Pkg(rel)
	if pk == nil {
		return nil
	}
	tn, ok := pk.Types.Scope().Lookup(name).(*types.TypeName)
	if !ok {
		return nil
	}
	n, _ := tn.Type().(*types.Named)
	return n
}

// Field looks up a struct field object.
func (p *Prog) Field(rel, typ, field string) *types.Var {
	n := p.Named(rel, typ)
	if n == nil {
		return nil
	}
	st, ok := n.Underlying().(*types.Struct)
	if !ok {
		return nil
	}
	for i := 0; i < st.NumFields(); i++ {
		if st.Field(i).Name() == field {
			return st.Field(i)
		}
	}
	return nil
}

// Methods returns all SSA methods (with bodies) of a named type.
func (p *Prog) Methods(rel, typ string) []*ssa.Function {
	n := p.Named(rel, typ)
	if n == nil {
		return nil
	}
	var out []*ssa.Function
	for i := 0; i < n.NumMethods(); i++ {
		if f := p.fnByObj[n.Method(i)]; f != nil {
			out = append(out, f)
		}
	}
	return out
}

// PkgFuncs returns all source functions (incl. closures) of one package.
func (p *Prog) PkgFuncs(rel string) []*ssa.Function {
	var out []*ssa.Function
	path := Mod + "/" + rel
	for _, f := range p.Funcs {
		if f.Pkg != nil && f.Pkg.Pkg.Path() == path {
			out = append(out, f)
		} else if f.Pkg == nil && f.Parent() != nil {
			r := f
			for r.Parent() != nil {
				r = r.Parent()
			}
			if r.Pkg != nil && r.Pkg.Pkg.Path() == path {
				out = append(out, f)
			}
		}
	}
	return out
}

// Pos renders a position relative to the repo root.
func (p *Prog) Pos(pos token.Pos) string {
	if !pos.IsValid() {
		return "?"
	}
	ps := p.Fset.Position(pos)
	f := strings.TrimPrefix(ps.Filename, RepoDir()+"/")
	return fmt.Sprintf("%s:%d", f, ps.Line)
}

// FuncName is a stable, position-free name for reports and known-finding keys:
// "pkg/rel.(Recv).Name" or "pkg/rel.Name", closures get "$n" suffixes.
func FuncName(f *ssa.Function) string {
	if f == nil {
		return "<nil>"
	}
	if f.Parent() != nil {
		return FuncName(f.Parent()) + "$" + strings.TrimPrefix(f.Name(), f.Parent().Name()+"$")
	}
	pkg := ""
	if f.Pkg != nil {
		pkg = strings.TrimPrefix(strings.TrimPrefix(f.Pkg.Pkg.Path(), Mod), "/")
	}
	if recv := f.Signature.Recv(); recv != nil {
		t := recv.Type()
		if pt, ok := t.(*types.Pointer); ok {
			t = pt.Elem()
		}
		if n, ok := t.(*types.Named); ok {
			return pkg + "." + n.Obj().Name() + "." + f.Name()
		}
	}
	return pkg + "." + f.Name()
}

// WithClosures returns f followed by all functions nested in it.
func WithClosures(f *ssa.Function) []*ssa.Function {
	out := []*ssa.Function{f}
	for _, a := range f.AnonFuncs {
		out = append(out, WithClosures(a)...)
	}
	return out
}

// FileOf returns the AST file containing pos.
func (p *Prog) FileOf(pos token.Pos) (*packages.Package, *ast.File) {
	for _, pk := range p.Pkgs {
		for _, f := range pk.Syntax {
			if f.FileStart <= pos && pos <= f.FileEnd {
				return pk, f
			}
		}
	}
	return nil, nil
}

// FuncDecl returns the AST declaration of a package-level function/method.
func (p *Prog) FuncDecl(rel, recv, name string) (*packages.Package, *ast.FuncDecl) {
	pk := p.Pkg(rel)
	if pk == nil {
		return nil, nil
	}
	for _, f := range pk.Syntax {
		for _, d := range f.Decls {
			fd, ok := d.(*ast.FuncDecl)
			if !ok || fd.Name.Name != name {
				continue
			}
			r := ""
			if fd.Recv != nil && len(fd.Recv.List) > 0 {
				r = recvName(fd.Recv.List[0].Type)
			}
			if r == recv {
				return pk, fd
			}
		}
	}
	return pk, nil
}

func recvName(e ast.Expr) string {
	switch e := e.(type) {
	case *ast.StarExpr:
		return recvName(e.X)
	case *ast.Ident:
		return e.Name
	case *ast.IndexExpr:
		return recvName(e.X)
	case *ast.IndexListExpr:
		return recvName(e.X)
	}
	return ""
}
