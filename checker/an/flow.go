package an

import (
	"fmt"
	"go/token"
	"go/types"

	"golang.org/x/tools/go/ssa"
)

// FlowOpts configures the backward value-provenance walk.
type FlowOpts struct {
	// Through lets selected calls be transparent: it returns the operand
	// values the result derives from (e.g. the receiver of cid.Cid.Hash()).
	Through func(c *ssa.Call) ([]ssa.Value, bool)
	// NoCells: do not look through local cells / captured variables.
	NoCells bool
	// StopAt: treat matching values as roots (do not look through them).
	StopAt func(v ssa.Value) bool
}

// Roots walks backward from v through value-preserving operations and returns
// the producers it ends at. Phi nodes and cells with several stores contribute
// all their inputs, so "every root satisfies P" is a statement about all paths.
func Roots(v ssa.Value, o *FlowOpts) []ssa.Value {
	if o == nil {
		o = &FlowOpts{}
	}
	seen := map[ssa.Value]bool{}
	var roots []ssa.Value
	var walk func(v ssa.Value)
	walk = func(v ssa.Value) {
		if v == nil || seen[v] {
			return
		}
		seen[v] = true
		if o.StopAt != nil && o.StopAt(v) {
			roots = append(roots, v)
			return
		}
		switch x := v.(type) {
		case *ssa.ChangeType:
			walk(x.X)
		case *ssa.Convert:
			walk(x.X)
		case *ssa.MakeInterface:
			walk(x.X)
		case *ssa.ChangeInterface:
			walk(x.X)
		case *ssa.TypeAssert:
			walk(x.X)
		case *ssa.Slice:
			walk(x.X)
		case *ssa.Phi:
			for _, e := range x.Edges {
				walk(e)
			}
		case *ssa.Extract:
			if c, ok := x.Tuple.(*ssa.Call); ok && o.Through != nil {
				if ops, ok := o.Through(c); ok {
					for _, op := range ops {
						walk(op)
					}
					return
				}
			}
			if ta, ok := x.Tuple.(*ssa.TypeAssert); ok && x.Index == 0 {
				walk(ta.X)
				return
			}
			roots = append(roots, v)
		case *ssa.Call:
			if o.Through != nil {
				if ops, ok := o.Through(x); ok {
					for _, op := range ops {
						walk(op)
					}
					return
				}
			}
			roots = append(roots, v)
		case *ssa.UnOp:
			if x.Op != token.MUL {
				roots = append(roots, v)
				return
			}
			if o.NoCells {
				roots = append(roots, v)
				return
			}
			switch a := x.X.(type) {
			case *ssa.Alloc:
				n := 0
				for _, st := range storesTo(a) {
					n++
					walk(st.Val)
				}
				if n == 0 {
					roots = append(roots, v)
				}
			case *ssa.FreeVar:
				cell := bindingOf(a)
				if al, ok := cell.(*ssa.Alloc); ok {
					n := 0
					for _, st := range storesTo(al) {
						n++
						walk(st.Val)
					}
					if n == 0 {
						roots = append(roots, v)
					}
				} else {
					roots = append(roots, v)
				}
			default:
				roots = append(roots, v)
			}
		case *ssa.FreeVar:
			b := bindingOf(x)
			if b != nil {
				walk(b)
			} else {
				roots = append(roots, v)
			}
		default:
			roots = append(roots, v)
		}
	}
	walk(v)
	return roots
}

// storesTo lists all stores to a local cell, including stores made by
// closures that capture it.
func storesTo(a *ssa.Alloc) []*ssa.Store {
	var out []*ssa.Store
	seen := map[ssa.Value]bool{}
	var visit func(cell ssa.Value)
	visit = func(cell ssa.Value) {
		if seen[cell] {
			return
		}
		seen[cell] = true
		refs := cell.Referrers()
		if refs == nil {
			return
		}
		for _, r := range *refs {
			switch r := r.(type) {
			case *ssa.Store:
				if r.Addr == cell {
					out = append(out, r)
				}
			case *ssa.MakeClosure:
				fn := r.Fn.(*ssa.Function)
				for i, b := range r.Bindings {
					if b == cell && i < len(fn.FreeVars) {
						visit(fn.FreeVars[i])
					}
				}
			}
		}
	}
	visit(a)
	return out
}

// bindingOf resolves a free variable to the value bound by the (unique)
// MakeClosure of its function in the parent.
func bindingOf(fv *ssa.FreeVar) ssa.Value {
	fn := fv.Parent()
	par := fn.Parent()
	if par == nil {
		return nil
	}
	idx := -1
	for i, x := range fn.FreeVars {
		if x == fv {
			idx = i
		}
	}
	if idx < 0 {
		return nil
	}
	var res ssa.Value
	Instrs(par, func(in ssa.Instruction) {
		if mc, ok := in.(*ssa.MakeClosure); ok && mc.Fn == fn && idx < len(mc.Bindings) {
			res = mc.Bindings[idx]
		}
	})
	return res
}

// CellOf returns the root cell (Alloc in the outermost function) behind an
// address value that is an Alloc or a FreeVar chain; nil otherwise.
func CellOf(addr ssa.Value) *ssa.Alloc {
	for i := 0; i < 8; i++ {
		switch a := addr.(type) {
		case *ssa.Alloc:
			return a
		case *ssa.FreeVar:
			addr = bindingOf(a)
		default:
			return nil
		}
	}
	return nil
}

// AllRoots reports whether every root of v satisfies ok; the first failing
// root is returned for the report.
func AllRoots(v ssa.Value, o *FlowOpts, ok func(ssa.Value) bool) (bool, ssa.Value) {
	rs := Roots(v, o)
	if len(rs) == 0 {
		return false, v
	}
	for _, r := range rs {
		if !ok(r) {
			return false, r
		}
	}
	return true, nil
}

// IsCallTo reports whether v is the result (or an extracted result) of a call
// matching m, and returns that call.
func IsCallTo(v ssa.Value, ms ...Matcher) (*ssa.Call, bool) {
	if e, ok := v.(*ssa.Extract); ok {
		v = e.Tuple
	}
	c, ok := v.(*ssa.Call)
	if !ok {
		return nil, false
	}
	ci := Callee(c)
	for _, m := range ms {
		if m.Match(ci) {
			return c, true
		}
	}
	return nil, false
}

// PathOf renders a canonical access path for a value: parameters, free
// variables, fields and dereferences are spelled structurally so that two
// separate loads of x.f.g compare equal (go/ssa performs no CSE).
func PathOf(v ssa.Value) string {
	switch x := v.(type) {
	case *ssa.Parameter:
		return "p:" + x.Name()
	case *ssa.FreeVar:
		if b := bindingOf(x); b != nil {
			return PathOf(b)
		}
		return "fv:" + x.Name()
	case *ssa.Global:
		return "g:" + x.Pkg.Pkg.Path() + "." + x.Name()
	case *ssa.Alloc:
		return fmt.Sprintf("local:%s@%d", x.Comment, x.Pos())
	case *ssa.FieldAddr:
		f, _ := FieldOf(x)
		return PathOf(x.X) + "." + f.Name()
	case *ssa.Field:
		f, _ := FieldOf(x)
		return PathOf(x.X) + "." + f.Name()
	case *ssa.UnOp:
		if x.Op == token.MUL {
			if a, ok := x.X.(*ssa.Alloc); ok {
				// a local variable: if it has exactly one store, name the stored value
				sts := storesTo(a)
				if len(sts) == 1 {
					return PathOf(sts[0].Val)
				}
			}
			return PathOf(x.X)
		}
	case *ssa.ChangeType:
		return PathOf(x.X)
	case *ssa.MakeInterface:
		return PathOf(x.X)
	case *ssa.ChangeInterface:
		return PathOf(x.X)
	case *ssa.Const:
		return "const:" + x.String()
	case *ssa.IndexAddr:
		return PathOf(x.X) + "[" + PathOf(x.Index) + "]"
	case *ssa.Lookup:
		return PathOf(x.X) + "[" + PathOf(x.Index) + "]"
	}
	if v == nil {
		return "<nil>"
	}
	return fmt.Sprintf("%s@%s", v.Name(), fnShort(v.Parent()))
}

func fnShort(f *ssa.Function) string {
	if f == nil {
		return ""
	}
	return f.Name()
}

// Uses returns all instructions that use v or a value derived from it through
// value-preserving operations (forward slice, intra-procedural, following
// local cells and closures' captured cells).
func Uses(v ssa.Value) []ssa.Instruction {
	seenV := map[ssa.Value]bool{}
	seenI := map[ssa.Instruction]bool{}
	var out []ssa.Instruction
	var walk func(v ssa.Value)
	walk = func(v ssa.Value) {
		if v == nil || seenV[v] {
			return
		}
		seenV[v] = true
		refs := v.Referrers()
		if refs == nil {
			return
		}
		for _, r := range *refs {
			if !seenI[r] {
				seenI[r] = true
				out = append(out, r)
			}
			switch x := r.(type) {
			case *ssa.ChangeType, *ssa.Convert, *ssa.MakeInterface, *ssa.ChangeInterface, *ssa.Slice, *ssa.Phi:
				walk(x.(ssa.Value))
			case *ssa.TypeAssert:
				walk(x)
			case *ssa.Extract:
				walk(x)
			case *ssa.Store:
				if x.Val == v {
					if cell := CellOf(x.Addr); cell != nil {
						for _, l := range allLoads(cell) {
							walk(l)
						}
					}
				}
			}
		}
	}
	walk(v)
	return out
}

// allLoads lists loads of a cell in its function and in closures capturing it.
func allLoads(a *ssa.Alloc) []ssa.Value {
	var out []ssa.Value
	seen := map[ssa.Value]bool{}
	var visit func(cell ssa.Value)
	visit = func(cell ssa.Value) {
		if seen[cell] {
			return
		}
		seen[cell] = true
		refs := cell.Referrers()
		if refs == nil {
			return
		}
		for _, r := range *refs {
			switch r := r.(type) {
			case *ssa.UnOp:
				if r.Op == token.MUL && r.X == cell {
					out = append(out, r)
				}
			case *ssa.MakeClosure:
				fn := r.Fn.(*ssa.Function)
				for i, b := range r.Bindings {
					if b == cell && i < len(fn.FreeVars) {
						visit(fn.FreeVars[i])
					}
				}
			}
		}
	}
	visit(a)
	return out
}

// TypeIs reports whether t (after pointer deref) is the named type pkg.name.
func TypeIs(t types.Type, pkg, name string) bool {
	if p, ok := t.(*types.Pointer); ok {
		t = p.Elem()
	}
	n, ok := types.Unalias(t).(*types.Named)
	if !ok {
		return false
	}
	if n.Obj().Name() != name {
		return false
	}
	if n.Obj().Pkg() == nil {
		return pkg == ""
	}
	pp := n.Obj().Pkg().Path()
	return pp == pkg || pp == Mod+"/"+pkg
}
