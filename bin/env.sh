# sourced by every script: pinned offline Go environment
export PATH=/opt/veriftools/go1.26.8/bin:$PATH
export GOTOOLCHAIN=local GOFLAGS=-mod=mod GOPROXY=off GOSUMDB=off CGO_ENABLED=0
unset GOWORK
