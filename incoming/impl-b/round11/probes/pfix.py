D='ipld/unixfs/io/dagreader.go'; M='ipld/unixfs/mod/dagmodifier.go'; T='ipld/unixfs/importer/trickle/trickledag.go'
probes=[
('C09-p2','C09',D,1,'\t\tif n == len(out) {\n\t\t\t// Output buffer full, no need to keep traversing the DAG,','\t\tif n > 0 {\n\t\t\t// Output buffer full, no need to keep traversing the DAG,'),
('C09-p3','C09',D,1,'\tdr.offset += int64(n)\n\t// TODO: Should','\tdr.offset += int64(len(out))\n\t// TODO: Should'),
('C09-p6','C09',D,1,'\t\tleft := offset\n','\t\tleft := offset\n\t\tif offset == 0 {\n\t\t\treturn 0, nil\n\t\t}\n'),
('C09-p11','C09',D,1,'\t\t\treturn n, io.EOF\n','\t\t\treturn n, nil\n'),
('C09-p12','C09',D,1,'\t\tif n == len(out) {\n\t\t\treturn n, nil\n','\t\tif n > len(out) {\n\t\t\treturn n, nil\n'),
]
probes+=[
('C08-p1','C08',T,1,'last := fsn.NumChildren() - 1','last := fsn.NumChildren() - 2'),
('C08-p9','C08',T,1,'appendRec(ctx, lastChild, db, depth-1)','appendRec(ctx, lastChild, db, depth)'),
('C10-p10','C10',M,1,'\t// Read, it would keep serving the truncated bytes.\n\tdm.dropReader()\n','\t// Read, it would keep serving the truncated bytes.\n'),
('C10-p17','C10',M,1,'\t// would keep serving the old one.\n\tdm.dropReader()\n','\t// would keep serving the old one.\n'),
]
