BA='ipld/unixfs/importer/balanced/builder.go'; H='ipld/unixfs/importer/helpers/dagbuilder.go'; T='ipld/unixfs/importer/trickle/trickledag.go'
probes=[
('C06-p1b','C06','chunker/splitting.go',1,'return reallocChunk(full, n), nil','return reallocChunk(full, len(full)), nil'),
('C07-p1','C07',BA,1,'err = newRoot.AddChild(root, fileSize, db)','err = newRoot.AddChild(root, 0, db)'),
('C07-p2','C07',BA,1,'return filledNode, nodeFileSize, nil','return filledNode, childFileSize, nil'),
('C07-p3','C07',BA,1,'fillNodeRec(db, nil, depth-1)','fillNodeRec(db, nil, depth-2)'),
('C07-p4','C07',BA,1,'for node.NumChildren() < db.Maxlinks() && !db.Done() {','for node.NumChildren() <= db.Maxlinks() && !db.Done() {'),
('C07-p5','C07',H,1,'dataSize = uint64(len(fileData))','dataSize = uint64(cap(fileData))'),
('C07-p6','C07',H,1,'\tn.file.AddBlockSize(fileSize)\n\n\treturn db.Add(child)','\tn.file.AddBlockSize(fileSize)\n\n\treturn nil'),
('C07-p7','C07',H,1,'n.file.RemoveBlockSize(index)','n.file.RemoveBlockSize(0)'),
('C07-p8','C07',H,1,'\tn.dag.SetData(fileData)\n\n\treturn n.dag, nil','\t_ = fileData\n\n\treturn n.dag, nil'),
('C07-p9','C07',H,1,'\tif db.recvdErr != nil {\n\t\treturn false\n\t}\n\treturn db.nextData == nil','\tif db.recvdErr != nil {\n\t\treturn true\n\t}\n\treturn db.nextData == nil'),
('C07-p10','C07',H,1,'\tdb.nextData = nil // signal we\'ve consumed it\n','\n'),
('C07-p11','C07',T,1,'repeatIndex < depthRepeat && !db.Done()','repeatIndex <= depthRepeat && !db.Done()'),
('C07-p12','C07',BA,1,'\tif db.HasFileAttributes() {\n\t\terr = db.SetFileAttributes(root)\n\t\tif err != nil {\n\t\t\treturn nil, err\n\t\t}\n\t}\n\n\treturn root, db.Add(root)','\tif err := db.Add(root); err != nil {\n\t\treturn nil, err\n\t}\n\tif db.HasFileAttributes() {\n\t\terr = db.SetFileAttributes(root)\n\t\tif err != nil {\n\t\t\treturn nil, err\n\t\t}\n\t}\n\n\treturn root, nil'),
('C07-p13','C07',H,1,'child, childFileSize, err := db.NewLeafDataNode(ft.TRaw)','child, childFileSize, err := db.NewLeafDataNode(ft.TFile)'),
]
