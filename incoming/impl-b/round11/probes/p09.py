D='ipld/unixfs/io/dagreader.go'
probes=[
('C09-p1','C09',D,1,'n += dr.readNodeDataBuffer(out[n:])','n += dr.readNodeDataBuffer(out)'),
('C09-p2','C09',D,1,'\t\tif n == len(out) {\n\t\t\tdr.dagWalker.Pause()','\t\tif n > 0 {\n\t\t\tdr.dagWalker.Pause()'),
('C09-p3','C09',D,1,'\tdr.offset += int64(n)\n\n\treturn n\n','\tdr.offset += int64(len(out))\n\n\treturn n\n'),
('C09-p4','C09',D,1,'\t\twritten, err := dr.writeNodeDataBuffer(w)\n\t\tn += written\n','\t\t_, err := dr.writeNodeDataBuffer(w)\n'),
('C09-p5','C09',D,1,'\tif dr.currentNodeData != nil {\n\t\tn, err = dr.writeNodeDataBuffer(w)\n\t\tif err != nil {\n\t\t\treturn n, err\n\t\t}\n\t}\n',''),
('C09-p6','C09',D,1,'\t\tleft := offset\n\n','\t\tleft := offset\n\t\tif offset == 0 {\n\t\t\treturn 0, nil\n\t\t}\n\n'),
('C09-p7','C09',D,1,'\t\tdr.offset = offset\n\t\treturn dr.offset, nil','\t\tdr.offset = left\n\t\treturn dr.offset, nil'),
('C09-p8','C09',D,1,'return dr.Seek(int64(dr.Size())+offset, io.SeekStart)','return dr.Seek(int64(dr.Size())-offset, io.SeekStart)'),
('C09-p9','C09',D,1,'return dr.Seek(dr.offset+offset, io.SeekStart)','return dr.Seek(dr.offset+offset, io.SeekCurrent)'),
('C09-p10','C09',D,1,'func (dr *dagReader) resetPosition() {\n\tdr.currentNodeData = nil\n','func (dr *dagReader) resetPosition() {\n'),
('C09-p11','C09',D,1,'\t\tif errors.Is(err, ipld.EndOfDag) {\n\t\t\treturn n, io.EOF\n\t\t}\n\t\treturn n, err','\t\tif errors.Is(err, ipld.EndOfDag) {\n\t\t\treturn n, nil\n\t\t}\n\t\treturn n, err'),
('C09-p12','C09',D,1,'\t\tn = dr.readNodeDataBuffer(out)\n\n\t\tif n == len(out) {\n\t\t\treturn n, nil\n\t\t}\n','\t\tn = dr.readNodeDataBuffer(out)\n'),
]
