import subprocess,sys,os,json
W='/tmp/impl-b-r11'; WT='/tmp/impl-b-wt'
def sh(cmd):
    return subprocess.run('. /verif/bin/env.sh; '+cmd,shell=True,capture_output=True,text=True)
def reset():
    sh(f'git -C {WT} checkout -- . ; git -C {WT} clean -fdq')
def run(probes, only=None):
    for pid,prop,rel,occ,old,new in probes:
        if only and pid not in only: continue
        reset()
        f=os.path.join(WT,rel); s=open(f).read()
        if s.count(old)<occ or occ<1:
            print(f'## {pid} {prop} PATTERN-NOT-FOUND'); continue
        i=-1
        for _ in range(occ): i=s.index(old,i+1)
        s=s[:i]+new+s[i+len(old):]
        open(f,'w').write(s)
        b=sh(f'cd {WT} && go build ./{os.path.dirname(rel)}/')
        if b.returncode!=0:
            print(f'## {pid} {prop} BUILD-FAILED: {b.stderr.strip()[:300]}'); continue
        r=sh(f'cd {W}/checker && BOXO_REPO={WT} VERIF_DIR={W} VERIF_OUT=/tmp/impl-b-out ./boxocheck {prop} quick; echo rc=$?')
        lines=[l for l in r.stdout.splitlines() if ' violated ' in l or 'PROBLEM' in l or 'vacuity' in l or l.startswith('rc=')]
        rc=[l for l in lines if l.startswith('rc=')][0]
        keys=[l.strip().split(' at ')[0].replace('violated ','') for l in lines if ' violated ' in l]
        print(f'## {pid} {prop} {"CAUGHT" if rc!="rc=0" else "MISSED"} {rc} {keys} {[l[:160] for l in lines if "PROBLEM" in l or "vacuity" in l]}')
        sys.stdout.flush()
    reset()
if __name__=='__main__':
    mod=sys.argv[1]
    ns={}
    exec(open(mod).read(),ns)
    run(ns['probes'], set(sys.argv[2:]) or None)
