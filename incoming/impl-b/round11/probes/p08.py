T='ipld/unixfs/importer/trickle/trickledag.go'
probes=[
('C08-p1','C08',T,1,'last := numChildren - 1','last := numChildren - 2'),
('C08-p2','C08',T,1,'\tfsn.RemoveChild(last, db)\n',''),
('C08-p3','C08',T,1,'err = fsn.AddChild(filledNode, nchildSize, db)','err = fsn.AddChild(filledNode, lastChild.FileSize(), db)'),
('C08-p4','C08',T,1,'\tif depth == maxDepth {\n\t\treturn fsn, fsn.FileSize(), nil','\tif depth == maxDepth {\n\t\treturn fsn, 0, nil'),
('C08-p5','C08',T,1,'for i := depth; i < maxDepth && !db.Done(); i++ {','for i := depth; i <= maxDepth && !db.Done(); i++ {'),
('C08-p6','C08',T,1,'for i := depth; !db.Done(); i++ {','for i := depth; !db.Done(); i += 2 {'),
('C08-p7','C08',T,1,'repeatNumber = nonLeafChildren % depthRepeat','repeatNumber = nonLeafChildren % maxlinks'),
('C08-p8','C08',T,1,'if numChildren <= db.Maxlinks() {','if numChildren < db.Maxlinks() {'),
('C08-p9','C08',T,1,'appendRec(ctx, lastChild, db, depth)','appendRec(ctx, lastChild, db, depth+1)'),
('C08-p10','C08',T,1,'nonLeafChildren := n - maxlinks','nonLeafChildren := n - maxlinks + 1'),
('C08-p11','C08',T,1,'\tfsn.RemoveChild(last, db)\n\tfilledNode, err := newChild.Commit()','\tfilledNode, err := newChild.Commit()'),
]
