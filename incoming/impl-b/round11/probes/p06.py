S='chunker/splitting.go'; B='chunker/buzhash.go'; P='chunker/parse.go'; R='chunker/rabin.go'
probes=[
('C06-p1','C06',S,1,'return reallocChunk(full, n), nil','return full, nil'),
('C06-p2','C06',S,1,'copy(small, full)\n','copy(small, full[1:])\n'),
('C06-p3','C06',S,1,'if errors.Is(err, io.ErrUnexpectedEOF) {','if errors.Is(err, io.ErrUnexpectedEOF) || errors.Is(err, io.EOF) {'),
('C06-p4','C06',S,1,'size: uint32(size),','size: uint32(size >> 1),'),
('C06-p5','C06',B,1,'res := make([]byte, buffered)','res := make([]byte, n)'),
('C06-p6','C06',B,1,'\t\t\t\tcopy(res, b.buf)\n','\t\t\t\tcopy(res, b.buf[b.n:])\n'),
('C06-p7','C06',B,1,'max := b.n + n - 32 - 1','max := len(b.buf) - 32 - 1'),
('C06-p8','C06',B,1,'\tres := make([]byte, i)\n\tcopy(res, b.buf)\n','\tres := make([]byte, i)\n\tcopy(res, b.buf[1:])\n'),
('C06-p9','C06',P,1,'} else if max > ChunkSizeLimit {','} else if avg > ChunkSizeLimit {'),
('C06-p10','C06',R,1,'max := avgBlkSize + (avgBlkSize / 2)','max := avgBlkSize * 2'),
('C06-p11','C06',P,1,'} else if size <= 0 {','} else if size < 0 {'),
('C06-p12','C06',S,1,'\tif n == 0 {\n\t\tpool.Put(full)\n\t\treturn nil\n\t}\n','\tif n == 0 {\n\t\tpool.Put(full)\n\t\treturn full[:0]\n\t}\n'),
]
