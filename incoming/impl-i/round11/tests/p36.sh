W=/tmp/impl-i-r11; R=$W/reg.sh; E=bitswap/server/internal/decision/engine.go; L=bitswap/server/internal/decision/peer_ledger.go
$R C36 D "K1 DONT_HAVE for vanished block without request" $E "s=s.replace('''				if t.SendDontHave {
					msg.AddDontHave(c)
				}''','''				_ = t
				msg.AddDontHave(c)''')"
$R C36 D "K2 empty message without TasksDone" $E "s=s.replace('''		if msg.Empty() {
			e.peerRequestQueue.TasksDone(p, nextTasks...)
			continue''','''		if msg.Empty() {
			continue''')"
$R C36 D "K3 denied entries also accepted" $E "s=s.replace('''			denials = append(denials, et)
			continue
		}''','''			denials = append(denials, et)
		}''')"
$R C36 D "K4 sendDontHave guard or" $E "s=s.replace('if e.sendDontHaves && entry.SendDontHave {','if e.sendDontHaves || entry.SendDontHave {')"
$R C36 D "K5 cancel only dequeues, ledger kept" $E "s=s.replace('''		if e.peerLedger.CancelWant(p, c) {
			e.peerRequestQueue.Remove(c, p)
		}
	}

	e.lock.Unlock()''','''		e.peerRequestQueue.Remove(c, p)
	}

	e.lock.Unlock()''')"
$R C36 D "K8 phase1 admits lowest-priority newcomer" $E "s=s.replace('''			firstOver := overflow[0]
			overflow = overflow[1:]''','''			firstOver := overflow[len(overflow)-1]
			overflow = overflow[:len(overflow)-1]''')"
$R C36 D "K9 ledger bound allows limit+1" $L "s=s.replace('len(cids) == l.maxEntriesPerPeer {','len(cids) > l.maxEntriesPerPeer {')"
$R C36 D "K11 ClearPeerWantlist keeps cid index" $L "s=s.replace('''	for c := range cids {
		l.removePeerFromCid(p, c)
	}
''','')"
