W=/tmp/impl-i-r11; R=$W/reg.sh; M=bitswap/message/message.go
$R C34 D "A1 v1 payload Data from Cid bytes" $M "s=s.replace('Data:   b.RawData(),','Data:   b.Cid().Bytes(),')"
$R C34 D "A2 v1 presence type constant" $M "s=s.replace('			Cid:  c.Bytes(),\n			Type: t,','			Cid:  c.Bytes(),\n			Type: pb.Message_Have,').replace('for c, t := range m.blockPresences {\n		pbm.BlockPresences','for c := range m.blockPresences {\n		pbm.BlockPresences')"
$R C34 D "A3 decoder ignores presence type" $M "s=s.replace('m.AddBlockPresence(c, bi.Type)','m.AddBlockPresence(c, pb.Message_Have)')"
$R C34 D "A4 decoder full flag from presence of wantlist" $M "s=s.replace('m := New(pbm.Wantlist != nil && pbm.Wantlist.Full)','m := New(pbm.Wantlist != nil)')"
$R C34 D "A6 length prefix from buffer length" $M "s=s.replace('n := binary.PutUvarint(buf, uint64(size))','n := binary.PutUvarint(buf, uint64(len(buf)))')"
$R C34 D "A8 bad payload prefix skipped" $M "s=s.replace('''		pref, err := cid.PrefixFromBytes(b.GetPrefix())
		if err != nil {
			return nil, err
		}''','''		pref, err := cid.PrefixFromBytes(b.GetPrefix())
		if err != nil {
			continue
		}''')"
$R C34 D "A11 ToPB block = multihash" $M "s=s.replace('Block:        e.Cid.Bytes(),','Block:        e.Cid.Hash(),')"
$R C34 D "A12 decoder drops pendingBytes" $M "s=s.replace('	m.pendingBytes = pbm.PendingBytes\n\n	return m, nil','	return m, nil')"
