W=/tmp/impl-i-r11; R=$W/reg.sh; Q=bitswap/client/internal/messagequeue/messagequeue.go; G2=bitswap/client/wantlist/wantlist.go
$R C35 D "B3 peer entries sent as want-have" $Q "s=s.replace('msgSize += mq.msg.AddEntry(e.Cid, e.Priority, e.WantType, true)','msgSize += mq.msg.AddEntry(e.Cid, e.Priority, pb.Message_Wantlist_Have, true)')"
$R C35 D "B4 bcst marked with peer counter" $Q "s=s.replace('for i, e := range bcstEntries[:sentBcstEntries] {\n		if !mq.bcstWants.markSent(e)','for i, e := range bcstEntries[:min(sentPeerEntries, len(bcstEntries))] {\n		if !mq.bcstWants.markSent(e)')"
$R C35 D "B5 no-have filter removes from bcst list" $Q "s=s.replace('mq.peerWants.removeType(e.Cid, pb.Message_Wantlist_Have)','mq.bcstWants.removeType(e.Cid, pb.Message_Wantlist_Have)')"
$R C35 D "B6 AddCancels forgets peerWants.remove" $Q "s=s.replace('		mq.bcstWants.remove(c)\n		mq.peerWants.remove(c)\n','		mq.bcstWants.remove(c)\n')"
$R C35 D "B7 wasSentPeer probed after remove" $Q "s=s.replace('		wasSentPeer := mq.peerWants.sent.Has(c)\n','').replace('		mq.peerWants.remove(c)\n','		mq.peerWants.remove(c)\n		wasSentPeer := mq.peerWants.sent.Has(c)\n')"
$R C35 D "B9 recall.remove keeps pending" $Q "s=s.replace('func (r *recallWantlist) remove(c cid.Cid) {\n	r.pending.Remove(c)\n','func (r *recallWantlist) remove(c cid.Cid) {\n')"
$R C35 D "B11 Wantlist.Add never upgrades" $G2 "s=s.replace('if ok && (e.WantType == pb.Message_Wantlist_Block || wantType == pb.Message_Wantlist_Have) {','_ = e\n	if ok {')"
$R C35 D "B11b RemoveType ignores type" $G2 "s=s.replace('''	if e.WantType == pb.Message_Wantlist_Block && wantType == pb.Message_Wantlist_Have {
		return false
	}

	w.delete(c)''','''	_ = e
	w.delete(c)''')"
$R C35 D "B14 AddWants adds want-blocks as want-have" $Q "s=s.replace('mq.peerWants.add(c, mq.priority, pb.Message_Wantlist_Block)','mq.peerWants.add(c, mq.priority, pb.Message_Wantlist_Have)')"
$R C35 D "B4b bcst marked with peer counter (plain)" $Q "s=s.replace('for i, e := range bcstEntries[:sentBcstEntries] {\n		if !mq.bcstWants.markSent(e)','for i, e := range bcstEntries[:sentPeerEntries] {\n		if !mq.bcstWants.markSent(e)')"
