W=/tmp/impl-i-r11; R=$W/reg.sh
CL=bitswap/client/client.go; G=bitswap/client/internal/getter/getter.go; N=bitswap/client/internal/notifications/notifications.go; S=bitswap/client/internal/session/session.go; SM=bitswap/client/internal/sessionmanager/sessionmanager.go; SIM=bitswap/client/internal/sessioninterestmanager/sessioninterestmanager.go
$R C37 D "M1 handleReceive no CancelSessionWants" $S "s=s.replace('	s.sm.CancelSessionWants(s.id, wanted)\n','')"
$R C37 D "M2 SM.RemoveSession no cancelWants" $SM "s=s.replace('	sm.cancelWants(cancelKs)\n\n	sm.sessLk.Lock()','	_ = cancelKs\n\n	sm.sessLk.Lock()')"
$R C37 D "M3 SIM.RemoveSession reports nothing" $SIM "s=s.replace('			deletedKs = append(deletedKs, c)\n		}\n	}\n\n	return deletedKs\n}\n\n// RemoveSessionWants','			_ = c\n		}\n	}\n\n	return deletedKs\n}\n\n// RemoveSessionWants')"
$R C37 D "M4 SIM.RemoveSessionWants keeps session" $SIM "s=s.replace('			// Remove the session from the list of sessions that want the key\n			delete(sim.wants[c], ses)\n','')"
$R C37 D "M5 Subscribe topics from keys[1:]" $N "s=s.replace('toStrings(keys)...','toStrings(keys[1:])...')"
$R C37 D "M7 getter subscribes to a prefix of the keys" $G "s=s.replace('notif.Subscribe(ctx, keys...)','notif.Subscribe(ctx, keys[:len(keys)-1]...)')"
$R C37 D "M8 want callback enqueues opCancel" $S "s=s.replace('case s.incoming <- op{op: opWant, keys: keys}:','case s.incoming <- op{op: opCancel, keys: keys}:')"
$R C37 D "M11 wantBlocks no RecordSessionInterest" $S "s=s.replace('		s.sim.RecordSessionInterest(s.id, newks)\n','')"
