W=/tmp/impl-i-r10; R=$W/reg.sh
CL=bitswap/client/client.go; G=bitswap/client/internal/getter/getter.go; N=bitswap/client/internal/notifications/notifications.go; K=bitswap/client/internal/notifications/keys.go; S=bitswap/client/internal/session/session.go
export BASE=/verif/benign/C37-F/patch.diff
$R C37 S "F0 base" $S "s=s+'\n'"
$R C37 D "F1 handler without cancel in defer" $G "s=s.replace('		req.cancel(req.remaining.Keys())\n','')"
$R C37 D "F2 Keys evaluated at defer registration" $G "s=s.replace('''	defer func() {
		close(req.out)
		// Can't just defer this call on its own, arguments are resolved *when*
		// the defer is created.
		req.cancel(req.remaining.Keys())
	}()''','''	defer close(req.out)
	defer req.cancel(req.remaining.Keys())''')"
$R C37 D "F3 forward before remove" $G "s=s.replace('''			req.remaining.Remove(blk.Cid())
			select {
			case req.out <- blk:''','''			select {
			case req.out <- blk:
				req.remaining.Remove(blk.Cid())''')"
$R C37 D "F3b remove dropped" $G "s=s.replace('			req.remaining.Remove(blk.Cid())\n','')"
$R C37 D "F4 want before subscribe" $G "s=s.replace('''	// Use a PubSub notifier to listen for incoming blocks for each key
	req := blockRequest{''','''	want(ctx, keys)
	req := blockRequest{''').replace('''	// Send the want request for the keys to the network
	want(ctx, keys)
''','')"
$R C37 D "F5 no-op cancel in request" $G "s=s.replace('		cancel:    cwants,','		cancel:    func([]cid.Cid) {},')"
$R C37 D "F6 remaining not filled" $G "s=s.replace('''	for _, k := range keys {
		remaining.Add(k)
	}

	// Use a PubSub''','''	// Use a PubSub''')"
$R C37 D "F6b fresh set in request" $G "s=s.replace('		remaining: remaining,','		remaining: cid.NewSet(),')"
$R C37 D "F7 topics String()" $K "s=s.replace('keys[i].KeyString()','keys[i].String()')"
$R C37 D "F8 topics keys[0]" $K "s=s.replace('keys[i].KeyString()','keys[0].KeyString()')"
$R C37 D "F9 topics one too long" $K "s=s.replace('make([]string, len(keys))','make([]string, len(keys)+1)')"
$R C37 D "F10 topics loop from 1" $K "s=s.replace('for i := range keys {','for i := 1; i < len(keys); i++ {')"
$R C37 D "F10b topics conditional" $K "s=s.replace('		strs[i] = keys[i].KeyString()','		if keys[i].Version() == 1 {\n			strs[i] = keys[i].KeyString()\n		}')"
$R C37 S "F10c topics classic loop" $K "s=s.replace('for i := range keys {','for i := 0; i < len(keys); i++ {')"
$R C37 S "F10d topics range with elem" $K "s=s.replace('for i := range keys {','for i, k := range keys {').replace('keys[i].KeyString()','k.KeyString()')"
$R C37 D "F12 handler listens on other channel" $G "s=s.replace('		in:        notif.Subscribe(ctx, keys...),','		in:        make(chan blocks.Block),').replace('	want(ctx, keys)\n\n	go','	_ = notif.Subscribe(ctx, keys...)\n	want(ctx, keys)\n\n	go')"
$R C37 S "F13 request by pointer" $G "s=s.replace('req := blockRequest{','req := &blockRequest{').replace('req blockRequest)','req *blockRequest)')"
$R C37 S "F14 deferred method of request" $G "s=s.replace('''	defer func() {
		close(req.out)
		// Can't just defer this call on its own, arguments are resolved *when*
		// the defer is created.
		req.cancel(req.remaining.Keys())
	}()''','''	defer req.finish()''')+'''
func (req blockRequest) finish() {
	close(req.out)
	req.cancel(req.remaining.Keys())
}
'''"
$R C37 D "F15 handler replaces remaining" $G "s=s.replace('	ctxDone := ctx.Done()\n	sessDone := sessctx.Done()','	req.remaining = cid.NewSet()\n	ctxDone := ctx.Done()\n	sessDone := sessctx.Done()')"
$R C37 D "F16 request filled after go" $G "s=s.replace('		cancel:    cwants,\n','').replace('	go handleIncoming(ctx, sessctx, req)\n','	go handleIncoming(ctx, sessctx, req)\n	req.cancel = cwants\n')"
$R C37 D "F17 publish wrong topic in merged loop" $N "s=s.replace('		ps.wrapped.Pub(block, block.Cid().KeyString())','		ps.wrapped.Pub(block, block.Cid().String())')"
