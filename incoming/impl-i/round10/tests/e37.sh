W=/tmp/impl-i-r10; R=$W/reg.sh
CL=bitswap/client/client.go; G=bitswap/client/internal/getter/getter.go; N=bitswap/client/internal/notifications/notifications.go; K=bitswap/client/internal/notifications/keys.go; S=bitswap/client/internal/session/session.go
export BASE=/verif/benign/C37-E/patch.diff
$R C37 S "E0 base" $S "s=s+'\n'"
$R C37 D "E1 enqueueCancel sends opWant" $S "s=s.replace('case s.incoming <- op{op: opCancel, keys: keys}:','case s.incoming <- op{op: opWant, keys: keys}:')"
$R C37 D "E2 enqueueCancel drops keys" $S "s=s.replace('case s.incoming <- op{op: opCancel, keys: keys}:','case s.incoming <- op{op: opCancel}:')"
$R C37 D "E3 no-op cancel callback" $S "s=s.replace('s.enqueueWant, s.enqueueCancel)','s.enqueueWant, func([]cid.Cid) {})')"
$R C37 D "E4 relay without cancelSession" $CL "s=s.replace('''		close(out)
		cancelSession()
	}()

	ctxDone''','''		close(out)
	}()

	ctxDone''')"
$R C37 D "E5 relay cancels only on ctxDone" $CL "s=s.replace('''		close(out)
		cancelSession()
	}()

	ctxDone''','''		close(out)
	}()

	ctxDone''').replace('''		case <-ctxDone:
			return
		}
	}
}''','''		case <-ctxDone:
			cancelSession()
			return
		}
	}
}''')"
$R C37 D "E7 relay gets no-op cancel" $CL "s=s.replace('go relaySessionBlocks(ctx, blocksChan, out, cancelSession)','go relaySessionBlocks(ctx, blocksChan, out, func() {})')"
$R C37 S "E8 cancel callback closure forwarding to method" $S "s=s.replace('s.enqueueWant, s.enqueueCancel)','s.enqueueWant, func(ks []cid.Cid) { s.enqueueCancel(ks) })')"
$R C37 S "E9 method expression via local var" $S "s=s.replace('	return bsgetter.AsyncGetBlocks(ctx, s.ctx, keys, s.notif, s.enqueueWant, s.enqueueCancel)','	cancel := s.enqueueCancel\n	return bsgetter.AsyncGetBlocks(ctx, s.ctx, keys, s.notif, s.enqueueWant, cancel)')"
$R C37 D "E10 enqueueCancel sends other keys" $S "s=s.replace('case s.incoming <- op{op: opCancel, keys: keys}:','case s.incoming <- op{op: opCancel, keys: keys[:0]}:')"
$R C37 D "E11 swapped callbacks wrapper" $S "s=s.replace('s.enqueueWant, s.enqueueCancel)','s.enqueueWant, func(ks []cid.Cid) { s.enqueueWant(ctx, ks) })')"
