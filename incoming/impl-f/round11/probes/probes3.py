P='pinning/pinner/dspinner/pin.go'; X='pinning/pinner/dsindex/indexer.go'; R='provider/reprovider.go'; V='provider/provider.go'
PROBES=[
('C22','t1-direct-case-labelled-recursive',[(P,'''		if has {
			return linkDirect, true, nil
		}
		return "", false, nil
	case ipfspinner.Internal:''','''		if has {
			return linkRecursive, true, nil
		}
		return "", false, nil
	case ipfspinner.Internal:''')]),
('C22','t2-foundDirect-reads-recursive-index',[(P,'''	foundDirect, err := p.cidDIndex.HasAny(ctx, cidKey)''','''	foundDirect, err := p.cidRIndex.HasAny(ctx, cidKey)''')]),
('C22','t3-checkany-skips-direct-index',[(P,'''				// Check direct pins
				ids, err = p.cidDIndex.Search(ctx, cidKey)''','''				// Check direct pins
				ids, err = p.cidRIndex.Search(ctx, cidKey)''')]),
('C22','t4-indirect-filter-reads-direct-index',[(P,'''		// Check if recursively pinned
		ids, err := p.cidRIndex.Search(ctx, cidKey)''','''		// Check if recursively pinned
		ids, err := p.cidDIndex.Search(ctx, cidKey)''')]),
('C22','t5-traverse-walks-direct-index',[(P,'''	visited := cid.NewSet()
	err := p.cidRIndex.ForEach(ctx, "", func(key, value string) bool {
		// Check for context''','''	visited := cid.NewSet()
	err := p.cidDIndex.ForEach(ctx, "", func(key, value string) bool {
		// Check for context''')]),
('C23','u1-rebuild-name-repair-wrong-key',[(P,'''				if err = p.nameIndex.Add(ctx, pp.Name, pp.Id); err != nil {''','''				if err = p.nameIndex.Add(ctx, indexKey, pp.Id); err != nil {''')]),
('C23','u2-new-ignores-rebuild-error',[(P,'''		err = p.rebuildIndexes(ctx)
		if err != nil {
			return nil, fmt.Errorf("cannot rebuild indexes: %v", err)
		}''','''		err = p.rebuildIndexes(ctx)
		if err != nil {
			log.Errorf("cannot rebuild indexes: %v", err)
		}''')]),
('C23','u3-removepin-name-index-skipped-on-direct',[(P,'''	if pp.Name != "" {
		// Remove name index from datastore''','''	if pp.Name != "" && pp.Mode == ipfspinner.Recursive {
		// Remove name index from datastore''')]),
('C44','w1-short-batch-means-done',[(R,'''		if err := ctx.Err(); err != nil {
			return err
		}
		if err := s.ctx.Err(); err != nil {''','''		if uint(len(cids)) < batchSize {
			allCidsProcessed = true
		}
		if err := ctx.Err(); err != nil {
			return err
		}
		if err := s.ctx.Err(); err != nil {''')]),
('C44','w2-visit-result-gates-nothing-but-send-skipped',[(V,'''						case outCh <- c:
							if markVisited {''','''						case outCh <- c:
							if markVisited && ctx.Err() == nil {''')]),
('C24','v1-search-returns-keys',[(X,'''		values[i], err = decode(path.Base(ents[i].Key))''','''		values[i], err = decode(path.Base(path.Dir(ents[i].Key)))''')]),
('C24','v2-deletekey-prefix-not-encoded-twice-but-trimmed',[(X,'''	return x.deletePrefix(ctx, encode(key))''','''	return x.deletePrefix(ctx, encode(key)[:1])''')]),
]
