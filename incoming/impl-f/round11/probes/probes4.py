P='pinning/pinner/dspinner/pin.go'; X='pinning/pinner/dsindex/indexer.go'; R='provider/reprovider.go'; V='provider/provider.go'
PROBES=[
('C44','BENIGN-b4-len-lt-1',[(R,'''		if len(keys) == 0 {
			continue''','''		if len(keys) < 1 {
			continue''')]),
('C22','BENIGN-b5-unpin-per-kind-removal',[(P,'''	if has {
		if !recursive {
			return fmt.Errorf("%s is pinned recursively", c.String())
		}
	} else {
		has, err = p.cidDIndex.HasAny(ctx, cidKey)
		if err != nil {
			return err
		}
		if !has {
			return ipfspinner.ErrNotPinned
		}
	}

	removed, err := p.removePinsForCid(ctx, c, ipfspinner.Any)
	if err != nil {
		return err
	}''','''	var removed bool
	if has {
		if !recursive {
			return fmt.Errorf("%s is pinned recursively", c.String())
		}
		removed, err = p.removePinsForCid(ctx, c, ipfspinner.Recursive)
	} else {
		has, err = p.cidDIndex.HasAny(ctx, cidKey)
		if err != nil {
			return err
		}
		if !has {
			return ipfspinner.ErrNotPinned
		}
		removed, err = p.removePinsForCid(ctx, c, ipfspinner.Direct)
	}
	if err != nil {
		return err
	}''')]),
('C24','BENIGN-b6-search-plain-index-loop',[(X,'''	for i := range ents {
		values[i], err = decode(path.Base(ents[i].Key))''','''	for i := 0; i < len(ents); i++ {
		values[i], err = decode(path.Base(ents[i].Key))''')]),
('C24','BENIGN-b7-hasany-own-query',[(X,'''	var any bool
	err := x.ForEach(ctx, key, func(key, value string) bool {
		any = true
		return false
	})
	return any, err''','''	prefix := ""
	if key != "" {
		prefix = encode(key)
	}
	ents, err := x.queryPrefix(ctx, prefix)
	return len(ents) > 0, err''')]),
('C22','BENIGN-b8-label-switch',[(P,'''		if has {
			return linkRecursive, true, nil
		}
		has, err = p.cidDIndex.HasAny(ctx, cidKey)
		if err != nil {
			return "", false, err
		}
		if has {
			return linkDirect, true, nil
		}
	default:''','''		if !has {
			has, err = p.cidDIndex.HasAny(ctx, cidKey)
			if err != nil {
				return "", false, err
			}
			if has {
				return linkDirect, true, nil
			}
		} else {
			return linkRecursive, true, nil
		}
	default:''')]),
]
