P='pinning/pinner/dspinner/pin.go'; X='pinning/pinner/dsindex/indexer.go'; R='provider/reprovider.go'; V='provider/provider.go'
PROBES=[
('C22','p1-direct-over-recursive-allowed',[(P,'''	if found {
		return fmt.Errorf("%s already pinned recursively", c.String())
	}
''','''	if found {
		log.Debugf("%s already pinned recursively", c.String())
	}
''')]),
('C22','p2-unpin-recursive-check-inverted',[(P,'''		if !recursive {
			return fmt.Errorf("%s is pinned recursively", c.String())''','''		if recursive {
			return fmt.Errorf("%s is pinned recursively", c.String())''')]),
('C22','p3-any-direct-lookup-uses-recursive-index',[(P,'''		has, err = p.cidDIndex.HasAny(ctx, cidKey)
		if err != nil {
			return "", false, err
		}
		if has {
			return linkDirect, true, nil
		}
	default:''','''		has, err = p.cidRIndex.HasAny(ctx, cidKey)
		if err != nil {
			return "", false, err
		}
		if has {
			return linkDirect, true, nil
		}
	default:''')]),
('C22','p4-checkany-recursive-labelled-direct',[(P,'''				pin := ipfspinner.Pinned{Key: c, Mode: ipfspinner.Recursive}''','''				pin := ipfspinner.Pinned{Key: c, Mode: ipfspinner.Direct}''')]),
('C22','p5-checkPinsInIndex-swapped',[(P,'''	if mode == ipfspinner.Recursive {
		index = p.cidRIndex
	} else {
		index = p.cidDIndex
	}''','''	if mode == ipfspinner.Recursive {
		index = p.cidDIndex
	} else {
		index = p.cidRIndex
	}''')]),
('C22','p6-indirect-query-reports-recursive-root',[(P,'''		if has {
			return "", false, nil
		}
	case ipfspinner.Any:''','''		if has {
			return linkRecursive, true, nil
		}
	case ipfspinner.Any:''')]),
('C22','p7-direct-removal-only-when-fetching',[(P,'''	if foundDirect {
		_, err = p.removePinsForCid(ctx, c, ipfspinner.Direct)''','''	if foundDirect && fetch {
		_, err = p.removePinsForCid(ctx, c, ipfspinner.Direct)''')]),
('C22','p8-direct-add-before-replace',[(P,'''	found, err = p.cidDIndex.HasAny(ctx, cidKey)
	if err != nil {
		return err
	}
	if found {
		_, err = p.removePinsForCid(ctx, c, ipfspinner.Direct)
		if err != nil {
			return err
		}
	}

	_, err = p.addPin(ctx, c, ipfspinner.Direct, name)
	if err != nil {
		return err
	}
''','''	_, err = p.addPin(ctx, c, ipfspinner.Direct, name)
	if err != nil {
		return err
	}

	found, err = p.cidDIndex.HasAny(ctx, cidKey)
	if err != nil {
		return err
	}
	if found {
		_, err = p.removePinsForCid(ctx, c, ipfspinner.Direct)
		if err != nil {
			return err
		}
	}
''')]),
('C22','p9-any-removal-drops-direct-ids',[(P,'''		if len(dIds) != 0 {
			ids = append(ids, dIds...)
		}''','''		if len(dIds) != 0 && len(ids) != 0 {
			ids = append(ids, dIds...)
		}''')]),
('C22','p10-unpin-removes-recursive-only',[(P,'''	removed, err := p.removePinsForCid(ctx, c, ipfspinner.Any)''','''	removed, err := p.removePinsForCid(ctx, c, ipfspinner.Recursive)''')]),
('C23','q1-record-delete-before-name-index',[(P,'''	if pp.Name != "" {
		// Remove name index from datastore
		err = p.nameIndex.Delete(ctx, pp.Name, pp.Id)
		if err != nil {
			return err
		}
	}

	// The pin is removed last so that an incomplete remove is detected by a
	// pin that has a missing index.
	err = p.dstore.Delete(ctx, pp.dsKey())
	if err != nil {
		return err
	}
''','''	// The pin is removed last so that an incomplete remove is detected by a
	// pin that has a missing index.
	err = p.dstore.Delete(ctx, pp.dsKey())
	if err != nil {
		return err
	}

	if pp.Name != "" {
		// Remove name index from datastore
		err = p.nameIndex.Delete(ctx, pp.Name, pp.Id)
		if err != nil {
			return err
		}
	}
''')]),
('C23','q2-setdirty-after-put',[(P,'''	p.setDirty(ctx)

	// Store the pin
	err = p.dstore.Put(ctx, pp.dsKey(), pinData)
	if err != nil {
		return "", err
	}
''','''	// Store the pin
	err = p.dstore.Put(ctx, pp.dsKey(), pinData)
	if err != nil {
		return "", err
	}
	p.setDirty(ctx)
''')]),
('C23','q3-setclean-before-sync',[(P,'''	if err := p.dstore.Sync(ctx, ds.NewKey(basePath)); err != nil {
		return fmt.Errorf("cannot sync pin state: %v", err)
	}
	p.setClean(ctx)
	return nil''','''	p.setClean(ctx)
	if err := p.dstore.Sync(ctx, ds.NewKey(basePath)); err != nil {
		return fmt.Errorf("cannot sync pin state: %v", err)
	}
	return nil''')]),
('C23','q4-setdirty-guard-inverted',[(P,'''	if !wasClean {
		return // do not save; was already dirty''','''	if wasClean {
		return // do not save; was already dirty''')]),
('C23','q5-dirty-flag-not-synced',[(P,'''	err = p.dstore.Sync(ctx, dirtyKey)
	if err != nil {
		log.Errorf("failed to sync pin dirty flag: %s", err)
	}
''','''	_ = err
''')]),
('C23','q6-new-rebuilds-on-clean-only',[(P,'''	if data[0] == 1 {
		p.dirty = 1
''','''	if data[0] == 0 {
		p.dirty = 1
''')]),
('C23','q7-rebuild-adds-to-name-index',[(P,'''				if err = indexer.Add(ctx, indexKey, pp.Id); err != nil {''','''				if err = p.nameIndex.Add(ctx, indexKey, pp.Id); err != nil {''')]),
('C23','q8-rebuild-missing-check-inverted',[(P,'''		var repaired bool
		if !ok {''','''		var repaired bool
		if ok {''')]),
('C23','q9-dangling-repair-without-setdirty',[(P,'''			if errors.Is(err, ds.ErrNotFound) {
				p.setDirty(ctx)
''','''			if errors.Is(err, ds.ErrNotFound) {
''')]),
('C23','q10-direct-index-not-removed',[(P,'''	if pp.Mode == ipfspinner.Recursive {
		err = p.cidRIndex.Delete(ctx, pp.Cid.KeyString(), pp.Id)
	} else {
		err = p.cidDIndex.Delete(ctx, pp.Cid.KeyString(), pp.Id)
	}
	if err != nil {
		return err
	}

	if pp.Name''','''	if pp.Mode == ipfspinner.Recursive {
		err = p.cidRIndex.Delete(ctx, pp.Cid.KeyString(), pp.Id)
	}
	if err != nil {
		return err
	}

	if pp.Name''')]),
('C23','q11-index-before-record',[(P,'''	// Store the pin
	err = p.dstore.Put(ctx, pp.dsKey(), pinData)
	if err != nil {
		return "", err
	}

	// Store CID index
	switch mode {
	case ipfspinner.Recursive:
		err = p.cidRIndex.Add(ctx, c.KeyString(), pp.Id)
	case ipfspinner.Direct:
		err = p.cidDIndex.Add(ctx, c.KeyString(), pp.Id)
	default:
		panic("pin mode must be recursive or direct")
	}
	if err != nil {
		return "", fmt.Errorf("could not add pin cid index: %v", err)
	}
''','''	// Store CID index
	switch mode {
	case ipfspinner.Recursive:
		err = p.cidRIndex.Add(ctx, c.KeyString(), pp.Id)
	case ipfspinner.Direct:
		err = p.cidDIndex.Add(ctx, c.KeyString(), pp.Id)
	default:
		panic("pin mode must be recursive or direct")
	}
	if err != nil {
		return "", fmt.Errorf("could not add pin cid index: %v", err)
	}

	// Store the pin
	err = p.dstore.Put(ctx, pp.dsKey(), pinData)
	if err != nil {
		return "", err
	}
''')]),
]
