P='pinning/pinner/dspinner/pin.go'; X='pinning/pinner/dsindex/indexer.go'; R='provider/reprovider.go'; V='provider/provider.go'
PROBES=[
('C22','BENIGN-b10-append-unconditional',[(P,'''		if len(dIds) != 0 {
			ids = append(ids, dIds...)
		}''','''		ids = append(ids, dIds...)''')]),
('C44','BENIGN-b12-dedup-positive-form',[(V,'''						if visited.Has(c) {
							continue
						}

						select {
						case <-ctx.Done():
							return nil
						case outCh <- c:
							if markVisited {
								_ = visited.Visit(c)
							}
						}''','''						if !visited.Has(c) {
							select {
							case <-ctx.Done():
								return nil
							case outCh <- c:
								if markVisited {
									_ = visited.Visit(c)
								}
							}
						}''')]),
('C23','BENIGN-b13-rebuild-early-continue',[(P,'''		var repaired bool
		if !ok {
			// Do not rebuild if index has an old value with leading slash
			ok, err = indexer.HasValue(ctx, indexKey, "/"+pp.Id)
			if err != nil {
				return err
			}
			if !ok {''','''		var repaired bool
		if !ok {
			// Do not rebuild if index has an old value with leading slash
			legacy, err := indexer.HasValue(ctx, indexKey, "/"+pp.Id)
			if err != nil {
				return err
			}
			if !legacy {''')]),
]
