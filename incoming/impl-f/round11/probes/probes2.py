P='pinning/pinner/dspinner/pin.go'; X='pinning/pinner/dsindex/indexer.go'; R='provider/reprovider.go'; V='provider/provider.go'
PROBES=[
('C24','r1-search-skips-first',[(X,'''	for i := range ents {
		values[i], err = decode(path.Base(ents[i].Key))''','''	for i := 1; i < len(ents); i++ {
		values[i], err = decode(path.Base(ents[i].Key))''')]),
('C24','r2-deleteprefix-skips-first',[(X,'''	for i := range ents {
		err = x.dstore.Delete(ctx, ds.NewKey(ents[i].Key))''','''	for i := 1; i < len(ents); i++ {
		err = x.dstore.Delete(ctx, ds.NewKey(ents[i].Key))''')]),
('C24','r3-hasany-double-encode',[(X,'''	err := x.ForEach(ctx, key, func(key, value string) bool {
		any = true''','''	err := x.ForEach(ctx, encode(key), func(key, value string) bool {
		any = true''')]),
('C24','r4-foreach-empty-guard-lost',[(X,'''	if key != "" {
		key = encode(key)
	}
''','''	key = encode(key)
''')]),
('C24','r5-foreach-stop-inverted',[(X,'''		if !fn(decIdx, decKey) {
			return nil''','''		if fn(decIdx, decKey) {
			return nil''')]),
('C24','r6-add-concatenated-key',[(X,'''	dsKey := ds.NewKey(encode(key)).ChildString(encode(value))
	return x.dstore.Put''','''	dsKey := ds.NewKey(encode(key) + encode(value))
	return x.dstore.Put''')]),
('C24','r7-deleteprefix-deletes-base',[(X,'''		err = x.dstore.Delete(ctx, ds.NewKey(ents[i].Key))''','''		err = x.dstore.Delete(ctx, ds.NewKey(path.Base(ents[i].Key)))''')]),
('C24','r8-hasany-ignores-key',[(X,'''	err := x.ForEach(ctx, key, func(key, value string) bool {
		any = true''','''	err := x.ForEach(ctx, "", func(key, value string) bool {
		any = true''')]),
('C24','r9-deleteall-encoded-empty',[(X,'''	return x.deletePrefix(ctx, "")''','''	return x.deletePrefix(ctx, encode(""))''')]),
('C24','r10-hasany-never-set',[(X,'''		any = true
		return false''','''		any = value == ""
		return false''')]),
('C44','s1-allowlist-inverted',[(R,'''			if err := verifcid.ValidateCid(s.allowlist, c); err != nil {
				log.Errorf("insecure hash in reprovider, %s (%s)", c, err)
				continue''','''			if err := verifcid.ValidateCid(s.allowlist, c); err == nil {
				log.Errorf("insecure hash in reprovider, %s (%s)", c, err)
				continue''')]),
('C44','s2-append-before-validation',[(R,'''			if err := verifcid.ValidateCid(s.allowlist, c); err != nil {
				log.Errorf("insecure hash in reprovider, %s (%s)", c, err)
				continue
			}
			keys = append(keys, c.Hash())
			delete(cids, c)''','''			keys = append(keys, c.Hash())
			if err := verifcid.ValidateCid(s.allowlist, c); err != nil {
				log.Errorf("insecure hash in reprovider, %s (%s)", c, err)
				continue
			}
			delete(cids, c)''')]),
('C44','s3-throughput-compare-inverted',[(R,'''s.throughputMinimumProvides < batchSize {''','''s.throughputMinimumProvides > batchSize {''')]),
('C44','s4-min-instead-of-max',[(R,'''	batchSize = max(batchSize, 1)''','''	batchSize = min(batchSize, 1)''')]),
('C44','s5-fallback-skips-first-key',[(R,'''	for _, k := range keys {
		log.Debugf("reprovider: providing %s", k)''','''	for _, k := range keys[1:] {
		log.Debugf("reprovider: providing %s", k)''')]),
('C44','s6-providemany-drops-last',[(R,'''		return many.ProvideMany(ctx, keys)''','''		return many.ProvideMany(ctx, keys[:len(keys)-1])''')]),
('C44','s7-single-key-batch-skipped',[(R,'''		if len(keys) == 0 {
			continue''','''		if len(keys) <= 1 {
			continue''')]),
('C44','s8-dedup-only-when-marking',[(V,'''						if visited.Has(c) {
							continue''','''						if markVisited && visited.Has(c) {
							continue''')]),
('C44','s9-last-is-len-minus-2',[(V,'''			last := len(streams) - 1''','''			last := len(streams) - 2''')]),
('C44','s10-duplicate-ends-stream',[(V,'''						if visited.Has(c) {
							continue''','''						if visited.Has(c) {
							return nil''')]),
('C44','s11-validate-other-cid',[(R,'''			if err := verifcid.ValidateCid(s.allowlist, c); err != nil {''','''			if err := verifcid.ValidateCid(s.allowlist, cid.NewCidV1(cid.Raw, c.Hash())); err != nil {''')]),
('C44','s12-fallback-stops-after-first',[(R,'''		if err := r.Provide(ctx, cid.NewCidV1(cid.Raw, k), true); err != nil {
			return err
		}
	}
	return nil''','''		if err := r.Provide(ctx, cid.NewCidV1(cid.Raw, k), true); err != nil {
			return err
		}
		break
	}
	return nil''')]),
]
