#!/usr/bin/env python3
import subprocess, sys, os, importlib.util
W = '/tmp/impl-f-r12'; R = '/tmp/impl-f-wt'
env = dict(os.environ, BOXO_REPO=R, VERIF_DIR=W, VERIF_OUT='/tmp/impl-f-out')
def sh(cmd, cwd=R):
    return subprocess.run(cmd, shell=True, cwd=cwd, env=env, capture_output=True, text=True)
spec = importlib.util.spec_from_file_location('probes', sys.argv[1]); m = importlib.util.module_from_spec(spec); spec.loader.exec_module(m)
for pr in m.PROBES:
    prop, name, edits = pr
    sh('git checkout -- . && git clean -fdq')
    bad = None
    for (f, old, new) in edits:
        if f == 'PATCH':
            if sh('git apply ' + old).returncode != 0: bad = 'patch failed'
            continue
        p = os.path.join(R, f); s = open(p).read()
        if s.count(old) != 1: bad = 'pattern occurs %d times in %s' % (s.count(old), f); break
        open(p, 'w').write(s.replace(old, new))
    if bad: print('PROBE %s %s: BAD-PATTERN %s' % (prop, name, bad)); continue
    b = sh('go build ./pinning/pinner/... ./provider/')
    if b.returncode != 0: print('PROBE %s %s: NO-COMPILE %s' % (prop, name, b.stderr[:400].replace('\n', ' | '))); continue
    r = sh('./boxocheck %s quick' % prop, cwd=W + '/checker')
    v = [l for l in r.stdout.splitlines() if l.startswith('  violated') or l.startswith('CHECKER-PROBLEM')]
    print('PROBE %s %s: exit=%d' % (prop, name, r.returncode))
    for l in v[:4]: print('      ' + l[:170])
    sys.stdout.flush()
sh('git checkout -- . && git clean -fdq')
