P='pinning/pinner/dspinner/pin.go'
PROBES=[
('C22','SEED-r6',[('PATCH','/verif/seeded/C22-r6-pin-skips-fetch-when-already-recursive/patch.diff','')]),
('C22','m1-fetch-error-ignored',[(P,'''		err := merkledag.FetchGraph(ctx, c, p.dserv, opts...)
		p.lock.Lock()
		if err != nil {
			return err
		}''','''		err := merkledag.FetchGraph(ctx, c, p.dserv, opts...)
		p.lock.Lock()
		if err != nil {
			log.Errorf("fetch failed: %s", err)
		}''')]),
('C22','m2-fetch-only-with-provider',[(P,'''	if fetch {
		// temporary unlock''','''	if fetch && p.pinnedProvider != nil {
		// temporary unlock''')]),
('C22','m3-pin-passes-false',[(P,'''		return p.doPinRecursive(ctx, node.Cid(), true, name)''','''		return p.doPinRecursive(ctx, node.Cid(), false, name)''')]),
('C22','m4-direct-found-skips-fetch',[(P,'''	p.lock.Lock()
	defer p.lock.Unlock()

	if fetch {
		// temporary unlock''','''	p.lock.Lock()
	defer p.lock.Unlock()

	if d, _ := p.cidDIndex.HasAny(ctx, cidKey); d {
		fetch = false
	}
	if fetch {
		// temporary unlock''')]),
('C22','BENIGN-n1-fetch-wrapper',[(P,'''		err := merkledag.FetchGraph(ctx, c, p.dserv, opts...)
		p.lock.Lock()
		if err != nil {
			return err
		}''','''		err := p.fetchAll(ctx, c, opts)
		p.lock.Lock()
		if err != nil {
			return err
		}'''),(P,'''func (p *pinner) doPinDirect(''','''func (p *pinner) fetchAll(ctx context.Context, c cid.Cid, opts []merkledag.WalkOption) error {
	if err := merkledag.FetchGraph(ctx, c, p.dserv, opts...); err != nil {
		return fmt.Errorf("fetch: %w", err)
	}
	return nil
}

func (p *pinner) doPinDirect(''')]),
('C22','BENIGN-n2-negated-flag',[(P,'''func (p *pinner) doPinRecursive(ctx context.Context, c cid.Cid, fetch bool, name string) error {
	cidKey := c.KeyString()

	p.lock.Lock()
	defer p.lock.Unlock()

	if fetch {''','''func (p *pinner) doPinRecursive(ctx context.Context, c cid.Cid, fetch bool, name string) error {
	cidKey := c.KeyString()

	p.lock.Lock()
	defer p.lock.Unlock()

	if !fetch {
		log.Debugf("not fetching %s", c)
	} else {'''),]),
]
