package props

import (
	"fmt"
	"go/ast"
	"go/constant"
	"go/token"
	"go/types"
	"sort"
	"strings"

	"golang.org/x/tools/go/ssa"

	"verif/checker/an"
)

func init() {
	register("C22", Prop{
		Pkgs: []string{"./pinning/pinner/dspinner"},
		Explain: "Decided (structural necessary conditions of 'queries follow the pin model; a failed call changes nothing'): " +
			"O1 mutation-after-validation (R-DOM): in every function of dspinner, once the pin set was written (primitive record/index write or call of a local function that may write) no external fallible step whose error aborts the function can follow; external = dispatch through an injected dependency other than the pin datastore/indexes (DAG service and its Sync, context), or a function of another package / function value taking a context (FetchGraph, DiffEnumerate); local callees are summarised (mayWrite, mayFailExternally) so helper extraction is transparent; reads of the pinner's own datastore and pure decoders are not steps (datastore-fault class); the recovery pass is exempt; " +
			"O2 lock discipline (R-GUARD): every index access and every call of a caller-holds helper happens with p.lock held in the required mode (write for anything that writes pins or the dirty counters, read for index queries) on all paths, including after the unlock/relock windows of doPinRecursive and Update; p.lock is never re-acquired while held; every return leaves exactly the deferred unlock pending; exported methods never rely on a caller's lock; " +
			"O3 mode switches (R-EXH): every switch over pinner.Mode either has a default arm that rejects or acts (else-arm of a selection), or covers every declared Mode constant, or switches on a parameter of an unexported function whose every call site passes a covered constant; " +
			"O4 indirect excludes recursive roots (R-SIB): every traversal of the recursive pins' DAGs on behalf of an Indirect query is guarded by a negative recursive-root lookup of the queried CID - inline (isPinnedWithType) on the lookup's false edge, batch (traverseIndirectPins) at every toCheck.Add in every caller; " +
			"O5 lifecycle pairing (R-PAIR): every successful begin() is followed on all paths by defer cleanup() (or by a goroutine that defers it), and every Pinner interface method except Close begins (directly or by delegating); " +
			"O6 one pin per CID, recursive supersedes direct (R-DOM): every addPin(c, Direct) is reachable only where the recursive index was found empty for c, and only after the direct index was found empty or the old direct pins are removed (before or after); every addPin(c, Recursive) likewise for both indexes; " +
			"O7 Unpin contract (R-DOM): pins are removed only where a recursive or direct pin was found, and a recursive pin only when recursive==true; " +
			"O8 name provenance (R-FLOW): the name given to a record-adding call in an operation is the operation's own name parameter or the Name of a pin loaded from the datastore (re-pinning replaces the name, Update keeps it). " +
			"O9 index identity (R-TABLE): the recursive, direct and name index fields are each created by dsindex.New on the pinner's datastore with pairwise different key variables; " +
			"O10 batch indirect bookkeeping (R-PAIR): in the batch traversal a CID found in the to-check set is removed from it on every path (otherwise it is reported both as indirect and as not pinned). " +
			"O11 same-CID coupling (R-FLOW): a removal that runs only on the 'found' edge of an index lookup targets the looked-up CID and index kind; no removal of the mode just added for the same CID follows an addPin unless it is given the new pin's id; the CID whose graph was fetched / diffed (FetchGraph, DiffEnumerate target) is the CID that gets the recursive pin; the CIDs handed on by Pin derive from its node argument; a name kept from a loaded pin comes from a lookup in the index of the added mode whose non-empty edge guards the add. " +
			"O12 query labels (R-DOM/R-TABLE): an answer labelled recursive/direct (Pinned{Mode:K}, or a (label,true) return with the label variable initialised from ModeToString(K)) lies on the found edge of a lookup in the index of that kind and not on the path of a test mode==K' for another concrete K'; an index chosen by a test on the mode parameter is the index of that mode; O13 (R-FLOW): in a removal loop over pin ids every Search of the recursive/direct index feeds the id slice (a merge drops its hits only where it returned none); O7 also: Unpin's removal mode is Any or a constant K reached only where a K pin was found. " +
			"O14 fetch-before-pin (R-DOM): in the function that fetches the graph of the CID it pins (merkledag.FetchGraph, or a local wrapper that succeeds only after it), every pin-set write and every success return is reached only through the nil-error edge of that fetch or through the false edge of the boolean PARAMETER that guards the fetch (the non-fetching explicit-mode API) - a reassigned flag or an index lookup is no bypass; the entry point taking a node passes the constant true for that parameter. " +
			"NOT decided: equivalence with the pin model on all histories, partial failures inside the primitive mutators and of the final Sync (datastore faults), what other goroutines do inside the unlock windows.",
		Assume:    []string{"unexported fields and methods of pinner are only reachable from package dspinner", "callbacks passed to Indexer.ForEach / merkledag.Walk run synchronously in the calling goroutine"},
		Technique: "role-based call classification + SSA path rules (R-DOM), forward lock-state dataflow (R-GUARD), typed-AST switch tables (R-EXH), sibling guards (R-SIB), pairing (R-PAIR)",
		Run:       runC22,
	})
}

const (
	c22Pkg    = "pinning/pinner/dspinner"
	c22Pin    = "pinning/pinner"
	c22IdxPkg = an.Mod + "/pinning/pinner/dsindex"
	c22DsPkg  = "github.com/ipfs/go-datastore"
	c22CidPkg = "github.com/ipfs/go-cid"
)

// ---------------------------------------------------------------- shared pinner model (also used by C23)

type c22Model struct {
	c   *an.Ctx
	p   *an.Prog
	fns []*ssa.Function
	// role sets
	prim                  map[*ssa.Function]bool // directly writes pin records / indexes
	mut                   map[*ssa.Function]bool // reaches a primitive write through static calls
	adds                  map[*ssa.Function]bool // (transitively) Puts a pin record
	removes               map[*ssa.Function]bool // (transitively) Deletes a pin record
	commit                map[*ssa.Function]bool // (transitively) calls Datastore.Sync and is not mut
	markers               map[*ssa.Function]bool // Put(dirtyKey, 1)
	cleaner               map[*ssa.Function]bool // Put(dirtyKey, 0)
	cleans                map[*ssa.Function]bool // (transitively) calls a cleaner
	flagWrites            map[*ssa.Function][]c22FlagWrite
	modes                 map[string]int64 // Mode constant name -> value
	fLock, fDirty, fClean *types.Var
}

func c22IsIndexerCall(ci an.CallInfo, names ...string) bool {
	if !ci.Invoke || ci.Pkg != c22IdxPkg || ci.Recv != "Indexer" {
		return false
	}
	for _, n := range names {
		if ci.Name == n {
			return true
		}
	}
	return len(names) == 0
}

func c22IsDstoreCall(ci an.CallInfo, names ...string) bool {
	if !ci.Invoke || !strings.HasPrefix(ci.Pkg, c22DsPkg) {
		return false
	}
	for _, n := range names {
		if ci.Name == n {
			return true
		}
	}
	return len(names) == 0
}

// c22IsDirtyKey: v is a load of the package variable holding the dirty-flag key.
func c22IsDirtyKey(v ssa.Value) bool {
	for _, r := range an.Roots(v, nil) {
		u, ok := r.(*ssa.UnOp)
		if !ok || u.Op != token.MUL {
			return false
		}
		g, ok := u.X.(*ssa.Global)
		if !ok || g.Pkg == nil || strings.TrimPrefix(g.Pkg.Pkg.Path(), an.Mod+"/") != c22Pkg || !an.TypeIs(g.Type().(*types.Pointer).Elem(), c22DsPkg, "Key") {
			return false // the flag key is the package-level datastore key of dspinner
		}
	}
	return true
}

// c22ByteLit: v is []byte{k} (a one-element literal); returns k.
func c22ByteLit(v ssa.Value) (int64, bool) {
	sl, ok := v.(*ssa.Slice)
	if !ok {
		return 0, false
	}
	arr, ok := sl.X.(*ssa.Alloc)
	if !ok {
		return 0, false
	}
	var val int64
	n := 0
	for _, r := range *arr.Referrers() {
		ia, ok := r.(*ssa.IndexAddr)
		if !ok {
			continue
		}
		for _, r2 := range *ia.Referrers() {
			if st, ok := r2.(*ssa.Store); ok && st.Addr == ia {
				k, ok := an.ConstOf(st.Val)
				if !ok {
					return 0, false
				}
				val, _ = constant.Int64Val(k)
				n++
			}
		}
	}
	return val, n == 1
}

// c22FlagWrite is one write of the persisted dirty flag in a function.
type c22FlagWrite struct {
	site   ssa.CallInstruction // the Put, or the call of the local helper that Puts
	val    int64
	direct bool
	synced bool // helper form: a nil result of the helper implies Put and Sync succeeded
}

func c22IsDirtyPut(call ssa.CallInstruction) bool {
	if !c22IsDstoreCall(an.Callee(call), "Put") {
		return false
	}
	a := an.Args(call)
	return len(a) == 3 && c22IsDirtyKey(a[1])
}

func c22IsDirtySync(call ssa.CallInstruction) bool {
	if !c22IsDstoreCall(an.Callee(call), "Sync") {
		return false
	}
	a := an.Args(call)
	return len(a) >= 2 && c22IsDirtyKey(a[1])
}

// c22ByteLitParam: v is []byte{p} with p a parameter; returns p.
func c22ByteLitParam(v ssa.Value) *ssa.Parameter {
	sl, ok := v.(*ssa.Slice)
	if !ok {
		return nil
	}
	arr, ok := sl.X.(*ssa.Alloc)
	if !ok {
		return nil
	}
	var out *ssa.Parameter
	n := 0
	for _, r := range *arr.Referrers() {
		if ia, ok := r.(*ssa.IndexAddr); ok {
			for _, r2 := range *ia.Referrers() {
				if st, ok := r2.(*ssa.Store); ok && st.Addr == ia {
					n++
					out, _ = st.Val.(*ssa.Parameter)
				}
			}
		}
	}
	if n != 1 {
		return nil
	}
	return out
}

// c22PutSynced: in helper h, a nil error result implies that put succeeded and
// that Sync(dirtyKey) ran after it and succeeded.
func c22PutSynced(h *ssa.Function, put ssa.CallInstruction) bool {
	var syncs []ssa.CallInstruction
	for _, s := range an.AllCalls(h) {
		if c22IsDirtySync(s) && an.OnNilEdgeOf(h, put, s) {
			syncs = append(syncs, s)
		}
	}
	n := 0
	for _, r := range an.Returns(h) {
		k := len(r.Results)
		if k == 0 {
			return false
		}
		rv := c22RetVal(r, k-1)
		if !an.IsErrorType(rv.Type()) {
			return false
		}
		if nn := an.NilEdges(h, []ssa.Value{rv}, false); len(nn) > 0 && an.GuardedBy(h, nil, r, nn) {
			continue // this return always carries a non-nil error
		}
		n++
		ok := false
		for _, s := range syncs {
			if res := an.ErrResult(s); len(res) > 0 && res[0] == rv {
				ok = true // returns the Sync's own error
			}
			if an.IsNilConst(rv) && an.OnNilEdgeOf(h, s, r) {
				ok = true
			}
		}
		if !ok {
			return false
		}
	}
	return n > 0
}

// c22PrimWrite: call writes a pin record or an index entry.
func c22PrimWrite(call ssa.CallInstruction) (kind string, ok bool) {
	ci := an.Callee(call)
	if c22IsIndexerCall(ci, "Add") {
		return "index-add", true
	}
	if c22IsIndexerCall(ci, "Delete", "DeleteKey", "DeleteAll") {
		return "index-del", true
	}
	if c22IsDstoreCall(ci, "Put", "Delete") {
		args := an.Args(call)
		if len(args) >= 2 && c22IsDirtyKey(args[1]) {
			return "", false
		}
		if ci.Name == "Put" {
			return "record-put", true
		}
		return "record-del", true
	}
	return "", false
}

// c22Roles holds the anchors of the analysed tree, found by role (types,
// signatures, how values are used), not by identifier.
type c22Roles struct {
	pinnerT  string                // struct implementing pinner.Pinner
	pinT     *types.Named          // the pin record type (has a cid.Cid and a pinner.Mode field)
	fID      *types.Var            // its id field (the value stored in the indexes)
	fName    *types.Var            // its other string field (the pin name)
	fDstore  *types.Var            // pinner's datastore field
	idxKind  map[*types.Var]string // Indexer fields of pinner -> "R", "D", "N"
	idxField map[string]*types.Var
}

var c22R c22Roles

func c22StructFields(n *types.Named) []*types.Var {
	st, ok := n.Underlying().(*types.Struct)
	if !ok {
		return nil
	}
	var out []*types.Var
	for i := 0; i < st.NumFields(); i++ {
		out = append(out, st.Field(i))
	}
	return out
}

// c22RecvField: the struct field a method call is made on (x.f.M(..)).
func c22RecvField(call ssa.CallInstruction) *types.Var {
	recv := an.Recv(call)
	u, ok := recv.(*ssa.UnOp)
	if !ok || u.Op != token.MUL {
		return nil
	}
	f, _ := an.FieldOf(u.X)
	return f
}

func (m *c22Model) discoverRoles() bool {
	c, p := m.c, m.p
	c22R = c22Roles{idxKind: map[*types.Var]string{}, idxField: map[string]*types.Var{}}
	pk := p.Pkg(c22Pkg)
	if pk == nil {
		return false
	}
	var iface *types.Interface
	if pp := pk.Imports[an.Mod+"/"+c22Pin]; pp != nil && pp.Types != nil {
		if tn, ok := pp.Types.Scope().Lookup("Pinner").(*types.TypeName); ok {
			iface, _ = tn.Type().Underlying().(*types.Interface)
		}
	}
	sc := pk.Types.Scope()
	for _, n := range sc.Names() {
		tn, ok := sc.Lookup(n).(*types.TypeName)
		if !ok || tn.IsAlias() {
			continue
		}
		nt, ok := tn.Type().(*types.Named)
		if !ok {
			continue
		}
		if _, isStruct := nt.Underlying().(*types.Struct); !isStruct {
			continue
		}
		if iface != nil && types.Implements(types.NewPointer(nt), iface) && c22R.pinnerT == "" {
			c22R.pinnerT = n
		}
		hasCid, hasMode := false, false
		for _, f := range c22StructFields(nt) {
			if an.TypeIs(f.Type(), c22CidPkg, "Cid") {
				hasCid = true
			}
			if an.TypeIs(f.Type(), c22Pin, "Mode") {
				hasMode = true
			}
		}
		if hasCid && hasMode && c22R.pinT == nil {
			c22R.pinT = nt
		}
	}
	if !c.Need(c22R.pinnerT != "" && c22R.pinT != nil, "dspinner: the struct implementing Pinner and the pin record struct") {
		return false
	}
	pn := p.Named(c22Pkg, c22R.pinnerT)
	var idxFields []*types.Var
	for _, f := range c22StructFields(pn) {
		switch {
		case an.TypeIs(f.Type(), "sync", "RWMutex"):
			m.fLock = f
		case an.TypeIs(f.Type(), c22DsPkg, "Datastore") || an.TypeIs(f.Type(), c22DsPkg, "Batching"):
			c22R.fDstore = f
		case an.TypeIs(f.Type(), c22IdxPkg, "Indexer"):
			idxFields = append(idxFields, f)
		}
	}
	// id field of the pin: the field whose value is stored in the indexes
	for _, fn := range m.fns {
		for _, call := range an.AllCalls(fn) {
			if !c22IsIndexerCall(an.Callee(call), "Add") {
				continue
			}
			a := an.Args(call)
			for _, r := range an.Roots(a[len(a)-1], nil) {
				if u, ok := r.(*ssa.UnOp); ok && u.Op == token.MUL {
					if f, base := an.FieldOf(u.X); f != nil && an.TypeIs(base.Type(), c22Pkg, c22R.pinT.Obj().Name()) {
						c22R.fID = f
					}
				}
			}
		}
	}
	if c22R.fID == nil {
		// fallback: the string field read by the pin method that builds the record key
		for _, fn := range m.fns {
			if fn.Signature.Recv() == nil || !an.TypeIs(fn.Signature.Recv().Type(), c22Pkg, c22R.pinT.Obj().Name()) {
				continue
			}
			if rs := fn.Signature.Results(); rs.Len() != 1 || !an.TypeIs(rs.At(0).Type(), c22DsPkg, "Key") {
				continue
			}
			an.Instrs(fn, func(in ssa.Instruction) {
				if u, ok := in.(*ssa.UnOp); ok && u.Op == token.MUL {
					if f, _ := an.FieldOf(u.X); f != nil && c22IsStringT(f.Type()) {
						c22R.fID = f
					}
				}
			})
		}
	}
	for _, f := range c22StructFields(c22R.pinT) {
		if b, ok := f.Type().Underlying().(*types.Basic); ok && b.Kind() == types.String && f != c22R.fID {
			c22R.fName = f
		}
	}
	// index kinds: an Add/Delete on the field guarded by `mode == Recursive`
	// makes it the recursive index, guarded by `mode == Direct` (or the else
	// branch of the Recursive test) the direct index; the remaining one is the
	// name index
	modeEdges := func(fn *ssa.Function, k int64, want bool) an.EdgeSet {
		return an.CondEdges(fn, func(atom ssa.Value) (bool, bool) {
			b, ok := atom.(*ssa.BinOp)
			if !ok || (b.Op != token.EQL && b.Op != token.NEQ) || !an.TypeIs(b.X.Type(), c22Pin, "Mode") {
				return false, false
			}
			kc, ok := an.ConstOf(b.Y)
			if !ok {
				return false, false
			}
			if v, _ := constant.Int64Val(kc); v != k {
				return false, false
			}
			eqOnTrue := b.Op == token.EQL
			if want {
				return eqOnTrue, !eqOnTrue
			}
			return !eqOnTrue, eqOnTrue
		})
	}
	rec, dir := m.modes["Recursive"], m.modes["Direct"]
	votes := map[*types.Var]map[string]int{}
	for _, fn := range m.fns {
		isR, isD, notR := modeEdges(fn, rec, true), modeEdges(fn, dir, true), modeEdges(fn, rec, false)
		for _, call := range an.AllCalls(fn) {
			if !c22IsIndexerCall(an.Callee(call), "Add", "Delete", "DeleteKey", "HasAny", "Search") {
				continue
			}
			f := c22RecvField(call)
			if f == nil {
				continue
			}
			if votes[f] == nil {
				votes[f] = map[string]int{}
			}
			switch {
			case len(isR) > 0 && an.GuardedBy(fn, nil, call, isR):
				votes[f]["R"]++
			case len(isD) > 0 && an.GuardedBy(fn, nil, call, isD):
				votes[f]["D"]++
			case len(notR) > 0 && an.GuardedBy(fn, nil, call, notR):
				votes[f]["notR"]++
			}
		}
	}
	for _, f := range idxFields {
		v := votes[f]
		switch {
		case v["R"] > 0 && v["D"] == 0:
			c22R.idxKind[f] = "R"
		case v["D"] > 0 && v["R"] == 0:
			c22R.idxKind[f] = "D"
		}
	}
	for _, f := range idxFields {
		if c22R.idxKind[f] == "" {
			c22R.idxKind[f] = "N"
		}
	}
	nR, nD, nN := 0, 0, 0
	for f, k := range c22R.idxKind {
		c22R.idxField[k] = f
		switch k {
		case "R":
			nR++
		case "D":
			nD++
		default:
			nN++
		}
	}
	return c.Need(m.fLock != nil && c22R.fDstore != nil && c22R.fID != nil && nR == 1 && nD == 1 && nN == 1,
		fmt.Sprintf("dspinner roles: RWMutex field, datastore field, pin id field, exactly one recursive/direct/name index field (found R=%d D=%d N=%d)", nR, nD, nN))
}

func c22Build(c *an.Ctx) *c22Model {
	p := c.P
	m := &c22Model{c: c, p: p, fns: p.PkgFuncs(c22Pkg),
		prim: map[*ssa.Function]bool{}, mut: map[*ssa.Function]bool{}, adds: map[*ssa.Function]bool{}, removes: map[*ssa.Function]bool{},
		commit: map[*ssa.Function]bool{}, markers: map[*ssa.Function]bool{}, cleaner: map[*ssa.Function]bool{}, cleans: map[*ssa.Function]bool{}, modes: map[string]int64{}}
	if !c.Need(len(m.fns) > 0, "dspinner package") {
		return nil
	}
	if pk := p.Pkg(c22Pkg); pk != nil {
		if pp := pk.Imports[an.Mod+"/"+c22Pin]; pp != nil && pp.Types != nil {
			sc := pp.Types.Scope()
			for _, n := range sc.Names() {
				if k, ok := sc.Lookup(n).(*types.Const); ok && an.TypeIs(k.Type(), c22Pin, "Mode") {
					v, _ := constant.Int64Val(k.Val())
					m.modes[n] = v
				}
			}
		}
	}
	if !c.Need(len(m.modes) >= 6, "pinner.Mode constants") {
		return nil
	}
	if !m.discoverRoles() {
		return nil
	}
	syncs := map[*ssa.Function]bool{}
	for _, fn := range m.fns {
		for _, call := range an.AllCalls(fn) {
			if k, ok := c22PrimWrite(call); ok {
				m.prim[fn] = true
				if k == "record-put" {
					m.adds[fn] = true
				}
				if k == "record-del" {
					m.removes[fn] = true
				}
			}
			ci := an.Callee(call)
			if c22IsDstoreCall(ci, "Sync") {
				syncs[fn] = true
			}
		}
	}
	// dirty-flag writes: Put(dirtyKey, []byte{k}) directly, or through a local
	// helper that Puts []byte{param} and is called with a constant
	m.flagWrites = map[*ssa.Function][]c22FlagWrite{}
	for _, fn := range m.fns {
		for _, call := range an.AllCalls(fn) {
			if _, plain := call.(*ssa.Call); !plain {
				continue
			}
			if c22IsDirtyPut(call) {
				if k, ok := c22ByteLit(an.Args(call)[2]); ok {
					m.flagWrites[fn] = append(m.flagWrites[fn], c22FlagWrite{site: call, val: k, direct: true})
				}
				continue
			}
			h := c22Local(an.Callee(call))
			if h == nil || h == fn {
				continue
			}
			for _, put := range an.AllCalls(h) {
				if !c22IsDirtyPut(put) {
					continue
				}
				prm := c22ByteLitParam(an.Args(put)[2])
				if prm == nil || prm.Parent() != h {
					continue
				}
				pi := -1
				for i, q := range h.Params {
					if q == prm {
						pi = i
					}
				}
				if k, ok := an.ConstOf(call.Common().Args[pi]); ok && k.Kind() == constant.Int {
					v, _ := constant.Int64Val(k)
					m.flagWrites[fn] = append(m.flagWrites[fn], c22FlagWrite{site: call, val: v, synced: c22PutSynced(h, put)})
				}
			}
		}
		for _, fw := range m.flagWrites[fn] {
			if fw.val == 0 {
				m.cleaner[fn] = true
			} else {
				m.markers[fn] = true
			}
		}
	}
	// the dirty / clean counters: the field the marker increments, and the field
	// the cleaner sets from it
	for fn := range m.markers {
		an.Instrs(fn, func(in ssa.Instruction) {
			st, ok := in.(*ssa.Store)
			if !ok {
				return
			}
			f, _ := an.FieldOf(st.Addr)
			if b, ok := st.Val.(*ssa.BinOp); ok && f != nil && b.Op == token.ADD {
				if u, ok := b.X.(*ssa.UnOp); ok && u.Op == token.MUL {
					if g, _ := an.FieldOf(u.X); g == f {
						m.fDirty = f
					}
				}
			}
		})
	}
	for fn := range m.cleaner {
		an.Instrs(fn, func(in ssa.Instruction) {
			st, ok := in.(*ssa.Store)
			if !ok {
				return
			}
			f, _ := an.FieldOf(st.Addr)
			if u, ok := st.Val.(*ssa.UnOp); ok && f != nil && u.Op == token.MUL {
				if g, _ := an.FieldOf(u.X); g != nil && g == m.fDirty && f != m.fDirty {
					m.fClean = f
				}
			}
		})
	}
	if m.fClean == nil && m.fDirty != nil {
		// fallback: the counter the dirty counter is compared with anywhere in the package
		for _, fn := range m.fns {
			an.Instrs(fn, func(in ssa.Instruction) {
				b, ok := in.(*ssa.BinOp)
				if !ok || (b.Op != token.EQL && b.Op != token.NEQ) {
					return
				}
				fld := func(v ssa.Value) *types.Var {
					if u, ok := v.(*ssa.UnOp); ok && u.Op == token.MUL {
						f, _ := an.FieldOf(u.X)
						return f
					}
					return nil
				}
				fx, fy := fld(b.X), fld(b.Y)
				if fx == m.fDirty && fy != nil && fy != m.fDirty {
					m.fClean = fy
				} else if fy == m.fDirty && fx != nil && fx != m.fDirty {
					m.fClean = fx
				}
			})
		}
	}
	if !c.Need(m.fDirty != nil && m.fClean != nil, "pinner's dirty counter (incremented by the flag marker) and clean counter (set from it by the cleaner)") {
		return nil
	}
	closeOver := func(base map[*ssa.Function]bool) map[*ssa.Function]bool {
		out := map[*ssa.Function]bool{}
		for f := range base {
			out[f] = true
		}
		for changed := true; changed; {
			changed = false
			for _, fn := range m.fns {
				if out[fn] {
					continue
				}
				for _, call := range an.AllCalls(fn) {
					if g := an.Callee(call).Static; g != nil && out[g] {
						out[fn] = true
						changed = true
						break
					}
				}
			}
		}
		return out
	}
	m.mut = closeOver(m.prim)
	m.adds = closeOver(m.adds)
	m.removes = closeOver(m.removes)
	m.cleans = closeOver(m.cleaner)
	for f := range closeOver(syncs) {
		if !m.mut[f] {
			m.commit[f] = true
		}
	}
	c22Cur = m
	c.Min("pinner primitive mutators (role: direct record/index writes)", len(m.prim), 3)
	c.Min("pinner dirty-flag markers", len(m.markers), 1)
	c.Min("pinner dirty-flag cleaners", len(m.cleaner), 1)
	return m
}

func (m *c22Model) names(set map[*ssa.Function]bool) string {
	var ns []string
	for f := range set {
		ns = append(ns, f.Name())
	}
	sort.Strings(ns)
	return strings.Join(ns, ",")
}

// c22RetVal resolves the i-th result of r; with deferred calls go/ssa spills
// results into a cell stored right before `rundefers`.
func c22RetVal(r *ssa.Return, i int) ssa.Value {
	v := r.Results[i]
	u, ok := v.(*ssa.UnOp)
	if !ok || u.Op != token.MUL {
		return v
	}
	cell, ok := u.X.(*ssa.Alloc)
	if !ok {
		return v
	}
	var last ssa.Value
	for _, in := range r.Block().Instrs {
		if in == ssa.Instruction(u) {
			break
		}
		if st, ok := in.(*ssa.Store); ok && st.Addr == cell {
			last = st.Val
		}
	}
	if last != nil {
		return last
	}
	return v
}

// c22ErrVals: the error result of call plus phis it feeds.
func c22ErrVals(call ssa.CallInstruction) []ssa.Value {
	errs := an.ErrResult(call)
	seen := map[ssa.Value]bool{}
	var out []ssa.Value
	var add func(v ssa.Value)
	add = func(v ssa.Value) {
		if seen[v] {
			return
		}
		seen[v] = true
		out = append(out, v)
		if refs := v.Referrers(); refs != nil {
			for _, r := range *refs {
				if phi, ok := r.(*ssa.Phi); ok {
					add(phi)
				}
			}
		}
	}
	for _, e := range errs {
		add(e)
	}
	return out
}

// c22ErrAborts: the error of call makes fn return a non-nil error (returned
// directly, or an error return reachable only through its non-nil edge).
func c22ErrAborts(fn *ssa.Function, call ssa.CallInstruction) bool {
	errs := c22ErrVals(call)
	if len(errs) == 0 {
		return false
	}
	nn := an.NilEdges(fn, errs, false)
	for _, r := range an.Returns(fn) {
		n := len(r.Results)
		if n == 0 {
			continue
		}
		rv := c22RetVal(r, n-1)
		if !an.IsErrorType(rv.Type()) || an.IsNilConst(rv) {
			continue
		}
		for _, e := range errs {
			if rv == e {
				return true
			}
		}
		if len(nn) > 0 && an.Reaches(fn, call, r, nil, nil) && !an.Reaches(fn, call, r, nn, nil) {
			return true
		}
	}
	return false
}

// c22CallName: the callee as written in the source (for report details only).
func c22CallName(call ssa.CallInstruction) string {
	ci := an.Callee(call)
	if ci.Invoke {
		pth := an.PathOf(an.Recv(call))
		if strings.Contains(pth, "@") { // a local/phi: name it by its static type
			return ci.Recv + "." + ci.Name
		}
		return c44Short(pth) + "." + ci.Name
	}
	if ci.Fn == nil && ci.Static == nil {
		return "func-value"
	}
	return ci.Name
}

// c22CallLabel names a call by the ROLE of its callee, for obligation keys:
// keys must not change when an unexported function, method, field or type of
// the package is renamed. Index fields are named by kind, the pin datastore as
// "datastore", local functions by what they do (adder, remover, marker, ...);
// exported and foreign callees keep their (API) names.
func c22CallLabel(call ssa.CallInstruction) string {
	ci := an.Callee(call)
	if ci.Invoke {
		switch {
		case c22IsIndexerCall(ci):
			names := map[string]string{"R": "recursiveIndex", "D": "directIndex", "N": "nameIndex"}
			if k := names[c22IndexKind(call)]; k != "" {
				return k + "." + ci.Name
			}
			return "Indexer." + ci.Name
		case c22IsDstoreCall(ci):
			return "datastore." + ci.Name
		}
		if ast.IsExported(ci.Recv) {
			return ci.Recv + "." + ci.Name
		}
		return "dep." + ci.Name
	}
	if ci.Fn == nil && ci.Static == nil {
		return "func-value"
	}
	g := c22Local(ci)
	if g == nil {
		return ci.Name // foreign function: API name
	}
	if m := c22Cur; m != nil {
		isRead := false
		if rs := g.Signature.Results(); rs.Len() == 2 && c22R.pinT != nil && an.TypeIs(rs.At(0).Type(), c22Pkg, c22R.pinT.Obj().Name()) && an.IsErrorType(rs.At(1).Type()) {
			isRead = true
		}
		switch {
		case m.markers[g]:
			return "marker"
		case m.cleaner[g]:
			return "cleaner"
		case m.adds[g] && m.removes[g]:
			return "replacer"
		case m.adds[g]:
			return "adder"
		case m.removes[g]:
			return "remover"
		case m.mut[g]:
			return "indexWriter"
		case m.cleans[g] || m.commit[g]:
			return "committer"
		case isRead:
			return "recordReader"
		}
	}
	if g.Parent() == nil && ast.IsExported(g.Name()) {
		return g.Name()
	}
	return "helper"
}

func (m *c22Model) modeName(v ssa.Value) string {
	k, ok := an.ConstOf(v)
	if !ok {
		return "?"
	}
	n, _ := constant.Int64Val(k)
	for name, val := range m.modes {
		if val == n {
			return name
		}
	}
	return "?"
}

// c22CidArg / c22ModeArg: first argument of type cid.Cid / pinner.Mode.
func c22CidArg(call ssa.CallInstruction) ssa.Value {
	for _, a := range an.Args(call) {
		if an.TypeIs(a.Type(), c22CidPkg, "Cid") {
			return a
		}
	}
	return nil
}

func c22ModeArg(call ssa.CallInstruction) ssa.Value {
	for _, a := range an.Args(call) {
		if an.TypeIs(a.Type(), c22Pin, "Mode") {
			return a
		}
	}
	return nil
}

// c22IndexKind: "R", "D", "N" for calls on the recursive / direct / name
// index field of the pinner ("" when the receiver is not a plain field load).
func c22IndexKind(call ssa.CallInstruction) string {
	if f := c22RecvField(call); f != nil {
		return c22R.idxKind[f]
	}
	return ""
}

// c22KeyOf: v is c.KeyString() for the given cid value.
func c22KeyOf(v, cidv ssa.Value) bool {
	for _, r := range an.Roots(v, nil) {
		call, ok := an.IsCallTo(r, an.M(c22CidPkg, "Cid", "KeyString"))
		if !ok || !an.SameObj(an.Recv(call), cidv) {
			return false
		}
	}
	return true
}

// c22LookupEdges: edges on which the index of the given kind is known to hold
// (found=true) / not to hold (found=false) an entry for cidv.
func c22LookupEdges(fn *ssa.Function, kind string, cidv ssa.Value, found bool) an.EdgeSet {
	out := an.EdgeSet{}
	for _, call := range an.AllCalls(fn) {
		ci := an.Callee(call)
		if !c22IsIndexerCall(ci, "HasAny", "Search") || c22IndexKind(call) != kind {
			continue
		}
		args := an.Args(call)
		if len(args) < 2 || (cidv != nil && !c22KeyOf(args[1], cidv)) {
			continue
		}
		res := an.Result(call, 0)
		if ci.Name == "HasAny" {
			out = out.Union(an.BoolEdges(fn, res, found))
			continue
		}
		out = out.Union(c22LenEdges(fn, res, found))
	}
	return out
}

// c22LenEdges: edges on which len(v) > 0 is `nonEmpty`.
func c22LenEdges(fn *ssa.Function, vs []ssa.Value, nonEmpty bool) an.EdgeSet {
	al := an.Aliases(vs...)
	return an.CondEdges(fn, func(atom ssa.Value) (bool, bool) {
		b, ok := atom.(*ssa.BinOp)
		if !ok {
			return false, false
		}
		isLen := func(x ssa.Value) bool {
			cl, ok := x.(*ssa.Call)
			return ok && an.Callee(cl).Builtin == "len" && al[cl.Call.Args[0]]
		}
		kOf := func(x ssa.Value) (int64, bool) {
			k, ok := an.ConstOf(x)
			if !ok || k.Kind() != constant.Int {
				return 0, false
			}
			n, ok := constant.Int64Val(k)
			return n, ok
		}
		neOnTrue, okc := false, false
		if isLen(b.X) {
			if k, ok := kOf(b.Y); ok && k >= 1 && (b.Op == token.EQL || b.Op == token.NEQ) {
				// len(v) == k with k >= 1: non-empty on the equal edge, nothing known on the other
				if !nonEmpty {
					return false, false
				}
				return b.Op == token.EQL, b.Op == token.NEQ
			}
		}
		if isLen(b.X) {
			if k, ok := kOf(b.Y); ok {
				switch {
				case (b.Op == token.GTR || b.Op == token.NEQ) && k == 0, b.Op == token.GEQ && k == 1:
					neOnTrue, okc = true, true
				case b.Op == token.EQL && k == 0, b.Op == token.LSS && k == 1, b.Op == token.LEQ && k == 0:
					neOnTrue, okc = false, true
				}
			}
		} else if isLen(b.Y) {
			if k, ok := kOf(b.X); ok {
				switch {
				case (b.Op == token.LSS || b.Op == token.NEQ) && k == 0:
					neOnTrue, okc = true, true
				case b.Op == token.EQL && k == 0:
					neOnTrue, okc = false, true
				}
			}
		}
		if !okc {
			return false, false
		}
		if nonEmpty {
			return neOnTrue, !neOnTrue
		}
		return !neOnTrue, neOnTrue
	})
}

// c22Implementers lists (as pkg.Type) every concrete named type of the loaded
// root packages whose value or pointer method set implements iface.
func c22Implementers(p *an.Prog, iface *types.Interface) []string {
	var out []string
	for _, pk := range p.Pkgs {
		sc := pk.Types.Scope()
		for _, n := range sc.Names() {
			tn, ok := sc.Lookup(n).(*types.TypeName)
			if !ok || tn.IsAlias() {
				continue
			}
			nt, ok := tn.Type().(*types.Named)
			if !ok || nt.TypeParams().Len() > 0 {
				continue
			}
			if _, isIface := nt.Underlying().(*types.Interface); isIface {
				continue
			}
			if types.Implements(nt, iface) || types.Implements(types.NewPointer(nt), iface) {
				out = append(out, strings.TrimPrefix(pk.PkgPath, an.Mod+"/")+"."+n)
			}
		}
	}
	sort.Strings(out)
	return out
}

// c22SweepImplementers (thorough tier): the analysed type must be the only
// implementation of the interface in the module; another one is not covered
// by the obligations and is reported as a checker problem (never a violation).
func c22SweepImplementers(c *an.Ctx, ob string, iface *types.Named, analysed ...string) {
	if c.Tier != "thorough" || iface == nil {
		return
	}
	it, ok := iface.Underlying().(*types.Interface)
	if !ok {
		return
	}
	known := map[string]bool{}
	for _, a := range analysed {
		known[a] = true
	}
	impls := c22Implementers(c.P, it)
	c.Note("%s module-wide implementers of %s: %s", ob, iface.Obj().Name(), strings.Join(impls, ", "))
	n := 0
	for _, im := range impls {
		if known[im] {
			n++
			continue
		}
		c.Problem("%s: %s also implements %s.%s but is not analysed by this check", ob, im, iface.Obj().Pkg().Name(), iface.Obj().Name())
	}
	c.Min(ob+" analysed implementers of "+iface.Obj().Name(), n, 1)
}

// ---------------------------------------------------------------- guard facts through helpers

// c22Atom is one alternative of a guard: an index fact about a CID (kind R/D,
// want = entry found) given either as the cid.Cid value or as its key string,
// or a boolean value that must equal want (kind "flag").
type c22Atom struct {
	kind  string
	want  bool
	val   ssa.Value
	isKey bool
}

func c22SameVal(a, b ssa.Value) bool {
	if a == nil || b == nil {
		return a == b
	}
	if a == b || an.SameObj(a, b) {
		return true
	}
	ra, rb := an.Roots(a, nil), an.Roots(b, nil)
	return len(ra) == 1 && len(rb) == 1 && ra[0] == rb[0]
}

// keyMatches: the key argument of an index lookup (in fn) denotes the atom's CID.
func (a c22Atom) keyMatches(fn *ssa.Function, key ssa.Value) bool {
	if a.val == nil {
		return true
	}
	if a.isKey {
		return c22SameVal(key, a.val)
	}
	return c22CidKeyPair(fn, key, a.val, 0)
}

// model of the current run (for relations that need the call sites of a function)
var c22Cur *c22Model

// c22CidKeyPair: in fn, key is the key string of cid: key == cid.KeyString(),
// or both are parameters of fn and the relation holds at every static call site.
func c22CidKeyPair(fn *ssa.Function, key, cidv ssa.Value, depth int) bool {
	if c22KeyOf(key, cidv) {
		return true
	}
	kp, ok1 := key.(*ssa.Parameter)
	cp, ok2 := cidv.(*ssa.Parameter)
	if !ok1 || !ok2 || fn == nil || kp.Parent() != fn || cp.Parent() != fn || c22Cur == nil || depth > 2 {
		return false
	}
	ki, ci := c44ParamIndex(kp), c44ParamIndex(cp)
	n := 0
	for _, g := range c22Cur.fns {
		for _, call := range an.AllCalls(g) {
			if an.Callee(call).Static != fn {
				continue
			}
			n++
			if !c22CidKeyPair(g, call.Common().Args[ki], call.Common().Args[ci], depth+1) {
				return false
			}
		}
	}
	return n > 0
}

func c22Local(ci an.CallInfo) *ssa.Function {
	g := ci.Static
	if g == nil || g.Blocks == nil || g.Pkg == nil || strings.TrimPrefix(g.Pkg.Pkg.Path(), an.Mod+"/") != c22Pkg {
		return nil
	}
	return g
}

// mapAtom translates an atom of the caller to the callee's parameters at call site s.
func c22MapAtom(a c22Atom, s ssa.CallInstruction, h *ssa.Function) (c22Atom, bool) {
	args := s.Common().Args
	for i, arg := range args {
		if i >= len(h.Params) {
			break
		}
		switch {
		case a.val != nil && c22SameVal(arg, a.val):
			return c22Atom{a.kind, a.want, h.Params[i], a.isKey}, true
		case a.kind != "flag" && !a.isKey && a.val != nil && c22IsStringT(arg.Type()) && c22KeyOf(arg, a.val):
			return c22Atom{a.kind, a.want, h.Params[i], true}, true
		}
	}
	return c22Atom{}, false
}

func c22IsStringT(t types.Type) bool {
	b, ok := t.Underlying().(*types.Basic)
	return ok && b.Kind() == types.String
}

// lookupWrapper: result 0 of h is (on every return) false or the result of
// Indexer.HasAny on the index `kind` for the key denoted by parameter pi.
func (m *c22Model) lookupWrapper(h *ssa.Function, kind string, pi int, isKey bool, depth int) bool {
	if depth > 2 || h.Signature.Results().Len() == 0 {
		return false
	}
	if b, ok := h.Signature.Results().At(0).Type().Underlying().(*types.Basic); !ok || b.Kind() != types.Bool {
		return false
	}
	atom := c22Atom{kind, true, h.Params[pi], isKey}
	n := 0
	for _, r := range an.Returns(h) {
		for _, root := range an.Roots(c22RetVal(r, 0), nil) {
			if k, ok := an.ConstOf(root); ok && k.Kind() == constant.Bool && !constant.BoolVal(k) {
				continue
			}
			e, ok := root.(*ssa.Extract)
			if !ok || e.Index != 0 {
				return false
			}
			call, ok := e.Tuple.(*ssa.Call)
			if !ok {
				return false
			}
			ci := an.Callee(call)
			if c22IsIndexerCall(ci, "HasAny") && c22IndexKind(call) == kind && atom.keyMatches(h, an.Args(call)[1]) {
				n++
				continue
			}
			if g := c22Local(ci); g != nil && g != h {
				if sub, ok := c22MapAtom(atom, call, g); ok {
					pj := -1
					for j, q := range g.Params {
						if q == sub.val {
							pj = j
						}
					}
					if pj >= 0 && m.lookupWrapper(g, kind, pj, sub.isKey, depth+1) {
						n++
						continue
					}
				}
			}
			return false
		}
	}
	return n > 0
}

// guardEdges: edges of fn on which at least one of the atoms is known to hold:
// direct index lookups and flag tests, lookups through local wrapper functions,
// and the nil-error edge of local validators all of whose nil returns lie
// behind such edges.
func (m *c22Model) guardEdges(fn *ssa.Function, atoms []c22Atom, depth int) an.EdgeSet {
	out := an.EdgeSet{}
	for _, a := range atoms {
		if a.kind == "flag" {
			out = out.Union(an.BoolEdges(fn, []ssa.Value{a.val}, a.want))
			continue
		}
		for _, call := range an.AllCalls(fn) {
			ci := an.Callee(call)
			if c22IsIndexerCall(ci, "HasAny", "Search") && c22IndexKind(call) == a.kind {
				args := an.Args(call)
				if len(args) < 2 || !a.keyMatches(fn, args[1]) {
					continue
				}
				res := an.Result(call, 0)
				if ci.Name == "HasAny" {
					out = out.Union(an.BoolEdges(fn, res, a.want))
				} else {
					out = out.Union(c22LenEdges(fn, res, a.want))
				}
				continue
			}
			if h := c22Local(ci); h != nil && h != fn && depth < 3 {
				if sub, ok := c22MapAtom(a, call, h); ok {
					pj := -1
					for j, q := range h.Params {
						if q == sub.val {
							pj = j
						}
					}
					if pj >= 0 && m.lookupWrapper(h, a.kind, pj, sub.isKey, 0) {
						out = out.Union(an.BoolEdges(fn, an.Result(call, 0), a.want))
					}
				}
			}
		}
	}
	if depth >= 3 {
		return out
	}
	// validators
	for _, call := range an.AllCalls(fn) {
		h := c22Local(an.Callee(call))
		if h == nil || h == fn {
			continue
		}
		errs := an.ErrResult(call)
		if len(errs) == 0 {
			continue
		}
		var sub []c22Atom
		for _, a := range atoms {
			if b, ok := c22MapAtom(a, call, h); ok {
				sub = append(sub, b)
			}
		}
		if len(sub) == 0 {
			continue
		}
		he := m.guardEdges(h, sub, depth+1)
		if len(he) == 0 {
			continue
		}
		all, n := true, 0
		for _, r := range an.Returns(h) {
			k := len(r.Results)
			if k == 0 || !an.IsNilConst(c22RetVal(r, k-1)) {
				continue
			}
			n++
			if !an.GuardedBy(h, nil, r, he) {
				all = false
			}
		}
		if all && n > 0 {
			out = out.Union(an.NilEdges(fn, errs, true))
		}
	}
	return out
}

// guardedDeep: every execution reaching site has crossed a guard edge, in fn
// itself or - when the atoms are about fn's parameters - at every static call
// site of fn (transitively).
func (m *c22Model) guardedDeep(fn *ssa.Function, site ssa.Instruction, atoms []c22Atom, blocked map[ssa.Instruction]bool, depth int) bool {
	edges := m.guardEdges(fn, atoms, 0)
	if (len(edges) > 0 || len(blocked) > 0) && !an.Reaches(fn, nil, site, edges, blocked) {
		return true
	}
	if depth > 2 {
		return false
	}
	// lift to the callers
	n := 0
	for _, g := range m.fns {
		for _, call := range an.AllCalls(g) {
			if an.Callee(call).Static != fn {
				continue
			}
			if _, plain := call.(*ssa.Call); !plain {
				return false
			}
			n++
			var sub []c22Atom
			for _, a := range atoms {
				pi := -1
				for i, q := range fn.Params {
					if a.val != nil && ssa.Value(q) == a.val {
						pi = i
					}
				}
				if pi < 0 {
					// a key string computed from a parameter inside fn
					if a.kind != "flag" && a.isKey {
						for i, q := range fn.Params {
							if c22KeyOf(a.val, q) {
								sub = append(sub, c22Atom{a.kind, a.want, call.Common().Args[i], false})
							}
						}
					}
					continue
				}
				sub = append(sub, c22Atom{a.kind, a.want, call.Common().Args[pi], a.isKey})
			}
			if len(sub) != len(atoms) || !m.guardedDeep(g, call, sub, nil, depth+1) {
				return false
			}
		}
	}
	return n > 0
}

// ---------------------------------------------------------------- C22

func runC22(c *an.Ctx) {
	m := c22Build(c)
	if m == nil {
		return
	}
	c22Cur = m
	c.Note("roles: primitive mutators={%s}; mutating={%s}; commit={%s}", m.names(m.prim), m.names(m.mut), m.names(m.commit))
	c22O1(m)
	c22O2(m)
	c22O3(m)
	c22O4(m)
	c22O5(m)
	c22O6(m)
	c22O7(m)
	c22O8(m)
	c22O9(m)
	c22O10(m)
	c22O11(m)
	c22O12(m)
	c22O13(m)
	c22O14(m)
	c22SweepImplementers(c, "O5", m.p.Named(c22Pin, "Pinner"), c22Pkg+".pinner")
}

// c22External: call is a step that can fail for reasons outside the pinner's
// own persistent state: a dispatch through an injected dependency other than
// the pin datastore/indexes (DAG service, its Sync, providers, a context), a
// call of a function value taking a context, or a call of a function of
// another package that takes a context (fetches, diffs). Pure decoders,
// error constructors and reads/writes of the pin datastore are not: their
// failure is the datastore-fault class that also breaks the mutators themselves.
func c22External(call ssa.CallInstruction) bool {
	if len(an.ErrResult(call)) == 0 && call.Common().Signature().Results().Len() > 0 {
		// only error-returning calls can abort
		if !an.IsErrorType(call.Common().Signature().Results().At(call.Common().Signature().Results().Len() - 1).Type()) {
			return false
		}
	}
	ci := an.Callee(call)
	if ci.Pkg == "fmt" || ci.Pkg == "errors" || ci.Builtin != "" {
		return false
	}
	if c22IsIndexerCall(ci) || c22IsDstoreCall(ci) {
		return false
	}
	if ci.Invoke {
		return true
	}
	takesCtx := false
	ps := call.Common().Signature().Params()
	for i := 0; i < ps.Len(); i++ {
		if an.TypeIs(ps.At(i).Type(), "context", "Context") {
			takesCtx = true
		}
	}
	if ci.Static != nil && ci.Static.Pkg != nil && strings.TrimPrefix(ci.Static.Pkg.Pkg.Path(), an.Mod+"/") == c22Pkg {
		return false // package-local: summarised
	}
	return takesCtx
}

// O1: inside any function of the package, once the pin set has been written
// (a primitive write, or a call of a local function that may write) no
// external fallible step whose error aborts the function may follow. Local
// callees are summarised (mayWrite / mayFailExternally), so extracting or
// inlining helpers does not change the verdict.
func c22O1(m *c22Model) {
	c := m.c
	local := func(call ssa.CallInstruction) *ssa.Function {
		g := an.Callee(call).Static
		if g == nil || g.Pkg == nil || strings.TrimPrefix(g.Pkg.Pkg.Path(), an.Mod+"/") != c22Pkg {
			return nil
		}
		return g
	}
	plain := func(call ssa.CallInstruction) bool { _, ok := call.(*ssa.Call); return ok }
	extFail := map[*ssa.Function]bool{}
	isF := func(fn *ssa.Function, call ssa.CallInstruction) bool {
		if !plain(call) || len(an.ErrResult(call)) == 0 {
			return false
		}
		if g := local(call); g != nil {
			return extFail[g] && c22ErrAborts(fn, call)
		}
		return c22External(call) && c22ErrAborts(fn, call)
	}
	for changed := true; changed; {
		changed = false
		for _, fn := range m.fns {
			if extFail[fn] || fn.Parent() != nil {
				continue
			}
			for _, call := range an.AllCalls(fn) {
				if isF(fn, call) {
					extFail[fn] = true
					changed = true
					break
				}
			}
		}
	}
	nF, nSites := 0, 0
	for _, fn := range m.fns {
		if rec, _ := c23IsRecovery(m, fn); rec {
			continue // the recovery pass repairs indexes, it does not change the pin model
		}
		name := an.FuncName(fn)
		var ws, fs []ssa.CallInstruction
		for _, call := range an.AllCalls(fn) {
			if !plain(call) {
				continue
			}
			if _, ok := c22PrimWrite(call); ok {
				ws = append(ws, call)
			} else if g := local(call); g != nil && m.mut[g] {
				ws = append(ws, call)
			}
			if isF(fn, call) {
				fs = append(fs, call)
			}
		}
		nF += len(fs)
		if len(fs) == 0 {
			continue
		}
		for _, w := range ws {
			nSites++
			label := c22CallLabel(w)
			if mv := c22ModeArg(w); mv != nil {
				label += "(" + m.modeName(mv) + ")"
			}
			clean := true
			for _, f := range fs {
				if an.Reaches(fn, w, f, nil, nil) {
					clean = false
					c.Bad("O1", "R-DOM", name, label+"-then-"+c22CallLabel(f), f.Pos(),
						"the pin set is changed by "+label+" ("+m.p.Pos(w.Pos())+") before the external fallible step "+c22CallLabel(f)+" whose error aborts the operation: a failed call (missing block, cancelled fetch, failed DAG sync) leaves pin queries changed")
				}
			}
			if clean {
				c.OK("O1", "R-DOM", name, label+"-then-no-external-step", w.Pos(), "every external fallible step of this function precedes the write")
			}
		}
	}
	c.Note("O1 functions that may fail externally: %s", m.names(extFail))
	c.Min("O1 external fallible steps", nF, 5)
	c.Min("O1 write sites in functions with external steps", nSites, 6)
}

// c22LockSum summarises a local helper that operates p.lock on behalf of its
// caller: it must be entered with the lock in mode entry and returns with it in
// mode final (e.g. an unlock-fetch-relock window: entry = final = write).
type c22LockSum struct {
	entry, final int
	balanced     bool
}

// O2: lock discipline.
func c22O2(m *c22Model) {
	c := m.c
	isLockOp := func(call ssa.CallInstruction) (an.LockOp, bool) {
		ops := an.SyncModel(call)
		if len(ops) != 1 {
			return an.LockOp{}, false
		}
		f, _ := an.FieldOf(an.Recv(call))
		if f != m.fLock {
			return an.LockOp{}, false
		}
		return ops[0], true
	}
	callers := map[*ssa.Function]int{}
	for _, fn := range m.fns {
		for _, call := range an.AllCalls(fn) {
			if g := c22Local(an.Callee(call)); g != nil && g != fn {
				callers[g]++
			}
		}
	}
	sums := map[*ssa.Function]*c22LockSum{}
	lockSuffix := "." + m.fLock.Name()
	model := func(call ssa.CallInstruction) []an.LockOp {
		if op, ok := isLockOp(call); ok {
			return []an.LockOp{op}
		}
		if g := c22Local(an.Callee(call)); g != nil {
			if su := sums[g]; su != nil && su.balanced && su.final != su.entry {
				recv := an.Recv(call)
				if recv == nil {
					return nil
				}
				path := an.PathOf(recv) + lockSuffix
				if su.final == an.LNone {
					return []an.LockOp{{Path: path, Mode: su.entry, Acquire: false}}
				}
				return []an.LockOp{{Path: path, Mode: su.final, Acquire: true}}
			}
		}
		return nil
	}
	hasOps := func(fn *ssa.Function) bool {
		for _, call := range an.AllCalls(fn) {
			if len(model(call)) > 0 {
				return true
			}
		}
		return false
	}
	lockPathOf := func(fn *ssa.Function) string {
		for _, call := range an.AllCalls(fn) {
			if ops := model(call); len(ops) > 0 {
				return ops[0].Path
			}
		}
		return ""
	}
	// lock operations registered by one defer instruction
	deferOps := func(d *ssa.Defer) []an.LockOp {
		out := model(d)
		if mc, ok := d.Call.Value.(*ssa.MakeClosure); ok {
			if g, ok := mc.Fn.(*ssa.Function); ok {
				for _, c2 := range an.AllCalls(g) {
					out = append(out, model(c2)...)
				}
			}
		}
		return out
	}
	// state of p.lock after the deferred calls of return r have run
	type exitState struct {
		must, may int
		mixed     bool
	}
	exitOf := func(fn *ssa.Function, must, may *an.LockFacts, path string, r *ssa.Return) exitState {
		es := exitState{must: must.AtExit[r][path], may: may.AtExit[r][path]}
		var ds []*ssa.Defer
		an.Instrs(fn, func(in ssa.Instruction) {
			if d, ok := in.(*ssa.Defer); ok && len(deferOps(d)) > 0 {
				ds = append(ds, d)
			}
		})
		// deferred calls run in reverse order of registration
		for i := len(ds) - 1; i >= 0; i-- {
			d := ds[i]
			all := an.MustPrecede(fn, r, []ssa.Instruction{d})
			some := an.Reaches(fn, d, r, nil, nil)
			if some && !all {
				es.mixed = true
			}
			if !all {
				continue
			}
			for _, op := range deferOps(d) {
				if op.Path != path {
					continue
				}
				if op.Acquire {
					if es.may != an.LNone {
						es.mixed = true // deferred acquire of a lock that may still be held
					}
					es.must, es.may = op.Mode, op.Mode
				} else {
					if es.must == an.LNone {
						es.mixed = true // deferred release of a lock that is not held on some path
					}
					es.must, es.may = an.LNone, an.LNone
				}
			}
		}
		return es
	}
	entryState := func(path string, mode int) an.LockState {
		if mode == an.LNone {
			return nil
		}
		return an.LockState{path: mode}
	}
	// summaries of helpers (unexported, called from the package) by fixpoint
	for round := 0; round < 4; round++ {
		changed := false
		for _, fn := range m.fns {
			if fn.Parent() != nil || callers[fn] == 0 || ast.IsExported(fn.Name()) || !hasOps(fn) {
				continue
			}
			path := lockPathOf(fn)
			entry := an.LNone
			// released before acquired => the caller's lock is assumed
			may0 := an.Locks(fn, model, nil, false)
			for _, call := range an.AllCalls(fn) {
				if _, isDefer := call.(*ssa.Defer); isDefer {
					continue
				}
				for _, op := range model(call) {
					if !op.Acquire && op.Path == path && may0.Held(call, path) == an.LNone && op.Mode > entry {
						entry = op.Mode
					}
				}
			}
			must := an.Locks(fn, model, entryState(path, entry), true)
			may := an.Locks(fn, model, entryState(path, entry), false)
			su := &c22LockSum{entry: entry, final: -1, balanced: true}
			for _, r := range an.Returns(fn) {
				if _, reachable := must.Before[r]; !reachable {
					continue
				}
				es := exitOf(fn, must, may, path, r)
				if es.mixed || es.must != es.may || (su.final >= 0 && su.final != es.must) {
					su.balanced = false
				}
				su.final = es.must
			}
			if su.final < 0 {
				su.final, su.balanced = entry, false
			}
			if old := sums[fn]; old == nil || *old != *su {
				sums[fn] = su
				changed = true
			}
		}
		if !changed {
			break
		}
	}
	acquires := map[*ssa.Function]bool{}
	for _, fn := range m.fns {
		acquires[fn] = hasOps(fn)
	}
	// direct requirement of one instruction
	direct := func(in ssa.Instruction) (int, string) {
		switch x := in.(type) {
		case ssa.CallInstruction:
			ci := an.Callee(x)
			if _, ok := c22PrimWrite(x); ok {
				return an.LWrite, c22CallLabel(x)
			}
			if c22IsDstoreCall(ci, "Put", "Delete", "Sync") { // dirty flag maintenance
				return an.LWrite, c22CallLabel(x)
			}
			if c22IsIndexerCall(ci, "HasAny", "HasValue", "Search", "ForEach") {
				return an.LRead, c22CallLabel(x)
			}
		case *ssa.Store:
			if f, _ := an.FieldOf(x.Addr); f == m.fDirty || f == m.fClean {
				return an.LWrite, "store " + f.Name()
			}
		}
		return an.LNone, ""
	}
	// need of non-acquiring functions (caller holds)
	need := map[*ssa.Function]int{}
	for changed := true; changed; {
		changed = false
		for _, fn := range m.fns {
			if acquires[fn] {
				continue
			}
			n := need[fn]
			an.Instrs(fn, func(in ssa.Instruction) {
				if d, _ := direct(in); d > n {
					n = d
				}
				if call, ok := in.(ssa.CallInstruction); ok {
					if g := an.Callee(call).Static; g != nil && !acquires[g] && need[g] > n {
						n = need[g]
					}
					if g := c22Local(an.Callee(call)); g != nil && sums[g] != nil && sums[g].entry > n {
						n = sums[g].entry
					}
				}
				if mc, ok := in.(*ssa.MakeClosure); ok {
					if g := mc.Fn.(*ssa.Function); !acquires[g] && need[g] > n {
						n = need[g]
					}
				}
			})
			if n != need[fn] {
				need[fn] = n
				changed = true
			}
		}
	}
	modeStr := map[int]string{an.LNone: "not held", an.LRead: "read-held", an.LWrite: "write-held"}
	nAcq, nSites := 0, 0
	for _, fn := range m.fns {
		name := an.FuncName(fn)
		if !acquires[fn] {
			// exported methods / goroutines must not depend on a caller's lock
			if need[fn] > an.LNone && fn.Parent() == nil && ast.IsExported(fn.Name()) {
				fresh := false
				if fn.Signature.Recv() == nil { // constructor working on a fresh object
					fresh = true
				}
				c.Check(fresh, "O2", "R-GUARD", name, "exported-op-takes-lock", fn.Pos(), "constructor: object not shared yet",
					"exported "+fn.Name()+" reads or writes pin state but never takes p.lock")
			}
			continue
		}
		nAcq++
		su := sums[fn]
		entry := an.LNone
		if su != nil {
			entry = su.entry
		}
		lockPath := lockPathOf(fn)
		must := an.Locks(fn, model, entryState(lockPath, entry), true)
		may := an.Locks(fn, model, entryState(lockPath, entry), false)
		for _, call := range an.AllCalls(fn) {
			if _, isDefer := call.(*ssa.Defer); isDefer {
				continue
			}
			for _, op := range model(call) {
				if op.Path != lockPath {
					continue
				}
				if op.Acquire {
					c.Check(may.Held(call, op.Path) == an.LNone, "O2", "R-LOCKORD", name, "no-reacquire:"+c22CallLabel(call), call.Pos(),
						"p.lock is not held when it is acquired", "p.lock is acquired while it may already be held by this goroutine (sync.RWMutex is not re-entrant): deadlock")
				} else if su == nil {
					c.Check(must.Held(call, op.Path) != an.LNone, "O2", "R-LOCKORD", name, "release-held:"+c22CallLabel(call), call.Pos(),
						"p.lock is held when it is released", "p.lock is released on a path on which this function does not hold it (and no caller is known to): unlock of an unlocked mutex is fatal")
				}
			}
		}
		check := func(in ssa.Instruction, req int, what string) {
			nSites++
			got := must.Held(in, lockPath)
			c.Check(got >= req, "O2", "R-GUARD", name, what+"@"+modeStr[req], in.Pos(),
				what+" runs with p.lock "+modeStr[got], what+" needs p.lock "+modeStr[req]+" but on some path it is "+modeStr[got]+" (e.g. inside an unlock window or after a missing relock): pin state is read/written unsynchronised")
		}
		an.Instrs(fn, func(in ssa.Instruction) {
			if _, isDefer := in.(*ssa.Defer); isDefer {
				return
			}
			if d, what := direct(in); d > an.LNone {
				check(in, d, what)
			}
			if call, ok := in.(ssa.CallInstruction); ok {
				g := c22Local(an.Callee(call))
				if g != nil && !acquires[g] && need[g] > an.LNone {
					if recv := an.Recv(call); recv != nil && an.IsFresh(recv) {
						return
					}
					check(in, need[g], g.Name())
				}
				if g != nil && g != fn && sums[g] != nil && sums[g].entry > an.LNone {
					check(in, sums[g].entry, g.Name())
				}
			}
			if mc, ok := in.(*ssa.MakeClosure); ok {
				if g := mc.Fn.(*ssa.Function); !acquires[g] && need[g] > an.LNone {
					isGo := false
					for _, r := range *mc.Referrers() {
						if _, ok := r.(*ssa.Go); ok {
							isGo = true
						}
					}
					if isGo {
						c.Bad("O2", "R-GUARD", name, "goroutine-without-lock:"+g.Name(), in.Pos(), "a goroutine started here touches pin state without taking p.lock itself")
					} else {
						check(in, need[g], "closure "+g.Name())
					}
				}
			}
		})
		// balance at returns: after the deferred calls registered on the way have
		// run, the lock is back in the state the function was entered with (a
		// helper may instead hand a held lock to its caller, consistently)
		want := entry
		if su != nil && su.balanced {
			want = su.final
		}
		for _, r := range an.Returns(fn) {
			if _, reachable := must.Before[r]; !reachable {
				continue
			}
			es := exitOf(fn, must, may, lockPath, r)
			c.Check(!es.mixed && es.must == want && es.may == want, "O2", "R-GUARD", name, "lock-balanced-at-return", r.Pos(),
				"after its deferred calls p.lock is "+modeStr[want]+" at this return, as on entry / as on every other return",
				fmt.Sprintf("at this return, after the deferred calls registered on the way, p.lock is %s on all paths / %s on some path but %s is expected: unlock of an unlocked mutex (fatal), a leaked lock, or a helper that hands back the lock in different states", modeStr[es.must], modeStr[es.may], modeStr[want]))
		}
	}
	c.Min("O2 functions operating p.lock", nAcq, 8)
	c.Min("O2 guarded accesses / caller-holds calls", nSites, 25)
}

// O3: switches over pinner.Mode.
func c22O3(m *c22Model) {
	c := m.c
	pk := m.p.Pkg(c22Pkg)
	if !c.Need(pk != nil, "package dspinner syntax") {
		return
	}
	all := map[int64]string{}
	for n, v := range m.modes {
		all[v] = n
	}
	nSw := 0
	for _, file := range pk.Syntax {
		for _, d := range file.Decls {
			fd, ok := d.(*ast.FuncDecl)
			if !ok || fd.Body == nil {
				continue
			}
			recv := ""
			if fd.Recv != nil && len(fd.Recv.List) > 0 {
				if se, ok := fd.Recv.List[0].Type.(*ast.StarExpr); ok {
					if id, ok := se.X.(*ast.Ident); ok {
						recv = id.Name
					}
				} else if id, ok := fd.Recv.List[0].Type.(*ast.Ident); ok {
					recv = id.Name
				}
			}
			ord := 0
			ast.Inspect(fd.Body, func(n ast.Node) bool {
				sw, ok := n.(*ast.SwitchStmt)
				if !ok || sw.Tag == nil {
					return true
				}
				tv, ok := pk.TypesInfo.Types[sw.Tag]
				if !ok || !an.TypeIs(tv.Type, c22Pin, "Mode") {
					return true
				}
				nSw++
				ord++
				fname := c22Pkg + "." + fd.Name.Name
				if recv != "" {
					fname = c22Pkg + "." + recv + "." + fd.Name.Name
				}
				construct := fmt.Sprintf("switch-Mode#%d", ord)
				covered := map[int64]bool{}
				var def *ast.CaseClause
				for _, s := range sw.Body.List {
					cc := s.(*ast.CaseClause)
					if cc.List == nil {
						def = cc
					}
					for _, e := range cc.List {
						if v := pk.TypesInfo.Types[e].Value; v != nil {
							k, _ := constant.Int64Val(v)
							covered[k] = true
						}
					}
				}
				var missing []string
				for v, n := range all {
					if !covered[v] {
						missing = append(missing, n)
					}
				}
				sort.Strings(missing)
				switch {
				case def != nil && c22Rejects(pk.TypesInfo, def):
					c.OK("O3", "R-EXH", fname, construct, sw.Pos(), "default clause rejects unknown modes")
				case len(missing) == 0:
					c.OK("O3", "R-EXH", fname, construct, sw.Pos(), "all Mode constants covered")
				case def != nil && len(def.Body) > 0:
					// a default arm that acts is the 'else' of an if/else selection
					// (e.g. Recursive vs everything else): no mode is silently ignored
					c.OK("O3", "R-EXH", fname, construct, sw.Pos(), "default arm handles every other mode (else-arm of a selection)")
				default:
					// parameter of an unexported function: all call sites pass covered constants
					ok, why := c22SwitchCallers(m, pk.TypesInfo, fd, recv, sw, covered)
					c.Check(ok, "O3", "R-EXH", fname, construct, sw.Pos(), "no default, but every caller passes a covered constant",
						"switch over pinner.Mode without rejecting default does not cover {"+strings.Join(missing, ",")+"} and "+why+": such a mode silently does nothing / falls through")
				}
				return true
			})
		}
	}
	c.Min("O3 switches over pinner.Mode", nSw, 5)
}

func c22Rejects(info *types.Info, cc *ast.CaseClause) bool {
	if len(cc.Body) == 0 {
		return false
	}
	switch s := cc.Body[len(cc.Body)-1].(type) {
	case *ast.ReturnStmt:
		if len(s.Results) == 0 {
			return false
		}
		last := s.Results[len(s.Results)-1]
		tv := info.Types[last]
		return tv.Type != nil && an.IsErrorType(tv.Type) && !tv.IsNil()
	case *ast.ExprStmt:
		if call, ok := s.X.(*ast.CallExpr); ok {
			if id, ok := call.Fun.(*ast.Ident); ok && id.Name == "panic" {
				_, isBuiltin := info.Uses[id].(*types.Builtin)
				return isBuiltin
			}
		}
	}
	return false
}

func c22SwitchCallers(m *c22Model, info *types.Info, fd *ast.FuncDecl, recv string, sw *ast.SwitchStmt, covered map[int64]bool) (bool, string) {
	id, ok := sw.Tag.(*ast.Ident)
	if !ok {
		return false, "the tag is not a plain parameter"
	}
	if ast.IsExported(fd.Name.Name) {
		return false, "the function is exported"
	}
	obj := info.Uses[id]
	fn := m.p.Func(c22Pkg, recv, fd.Name.Name)
	if fn == nil {
		return false, "function not found in SSA"
	}
	pi := -1
	for i, prm := range fn.Params {
		if prm.Object() == obj {
			pi = i
		}
	}
	if pi < 0 {
		return false, "the tag is not a parameter"
	}
	return c22ModeArgsCovered(m, fn, pi, covered, 0)
}

// c22ModeArgsCovered: every static call site of fn passes, at parameter pi, a
// covered constant - or forwards a parameter of an unexported function whose
// own call sites do (wrappers).
func c22ModeArgsCovered(m *c22Model, fn *ssa.Function, pi int, covered map[int64]bool, depth int) (bool, string) {
	if depth > 3 {
		return false, "mode is forwarded through too many wrappers"
	}
	n := 0
	for _, g := range m.fns {
		for _, call := range an.AllCalls(g) {
			if an.Callee(call).Static != fn {
				continue
			}
			n++
			arg := call.Common().Args[pi]
			if prm, isPrm := arg.(*ssa.Parameter); isPrm && g.Parent() == nil && !ast.IsExported(g.Name()) {
				gi := -1
				for i, q := range g.Params {
					if q == prm {
						gi = i
					}
				}
				if ok, why := c22ModeArgsCovered(m, g, gi, covered, depth+1); !ok {
					return false, why
				}
				continue
			}
			k, ok := an.ConstOf(arg)
			if !ok {
				return false, "caller " + g.Name() + " passes a non-constant mode"
			}
			v, _ := constant.Int64Val(k)
			if !covered[v] {
				return false, "caller " + g.Name() + " passes the uncovered mode " + m.modeName(arg)
			}
		}
	}
	if n == 0 {
		return false, "no caller found"
	}
	return true, ""
}

// O4: indirect traversals exclude recursive roots.
func c22O4(m *c22Model) {
	c := m.c
	walks := func(g *ssa.Function) bool {
		for _, f := range an.WithClosures(g) {
			for _, call := range an.AllCalls(f) {
				ci := an.Callee(call)
				if (ci.Pkg == "github.com/ipfs/go-ipld-format" && ci.Name == "GetLinks") || (strings.HasSuffix(ci.Pkg, "ipld/merkledag") && ci.Name == "Walk") {
					return true
				}
				if ci.Static != nil && ci.Static.Pkg == g.Pkg && ci.Static != g && ci.Static.Parent() == nil {
					for _, c2 := range an.AllCalls(ci.Static) {
						ci2 := an.Callee(c2)
						if ci2.Pkg == "github.com/ipfs/go-ipld-format" && ci2.Name == "GetLinks" {
							return true
						}
					}
				}
			}
		}
		return false
	}
	nTrav := 0
	for _, fn := range m.fns {
		for _, call := range an.AllCalls(fn) {
			if !c22IsIndexerCall(an.Callee(call), "ForEach") || c22IndexKind(call) != "R" {
				continue
			}
			args := an.Args(call)
			mc, ok := args[len(args)-1].(*ssa.MakeClosure)
			if !ok || !walks(mc.Fn.(*ssa.Function)) {
				continue
			}
			nTrav++
			name := an.FuncName(fn)
			// batch form: a *cid.Set parameter holds the CIDs to look for
			var setPrm *ssa.Parameter
			for _, prm := range fn.Params {
				if an.TypeIs(prm.Type(), c22CidPkg, "Set") {
					setPrm = prm
				}
			}
			if setPrm == nil {
				var q ssa.Value // the queried CID: a cid.Cid parameter
				for _, prm := range fn.Params {
					if an.TypeIs(prm.Type(), c22CidPkg, "Cid") {
						q = prm
					}
				}
				c.Check(m.guardedDeep(fn, call, []c22Atom{{"R", false, q, false}}, nil, 0), "O4", "R-SIB", name, "indirect-traversal<=not-a-recursive-root", call.Pos(),
					"the DAG traversal for an Indirect answer is only reached where the CID is not itself a recursive root",
					"the traversal of recursive pins' DAGs is reachable without a negative recursive-root lookup of the queried CID (mode Indirect): a recursively pinned root that is also a child of another recursive pin is reported as indirect, unlike checkIndirectPins")
				continue
			}
			pi := -1
			for i, prm := range fn.Params {
				if prm == setPrm {
					pi = i
				}
			}
			nCallers := 0
			for _, g := range m.fns {
				for _, cs := range an.AllCalls(g) {
					if an.Callee(cs).Static != fn {
						continue
					}
					nCallers++
					setv := cs.Common().Args[pi]
					gname := an.FuncName(g)
					nAdd := 0
					for _, add := range an.Calls(g, an.M(c22CidPkg, "Set", "Add")) {
						if !an.SameObj(an.Recv(add), setv) {
							continue
						}
						nAdd++
						c.Check(m.guardedDeep(g, add, []c22Atom{{"R", false, an.Args(add)[0], false}}, nil, 0), "O4", "R-SIB", gname, "toCheck.Add<=not-a-recursive-root", add.Pos(),
							"a CID is queued for the indirect traversal only where the recursive index has no entry for it",
							"a CID is queued for the indirect traversal without a negative recursive-root lookup: recursive roots are reported as indirect")
					}
					if nAdd == 0 {
						c.Note("O4: the set handed to the batch traversal by %s is not filled in that function; its recursive-root filter is not analysed", gname)
					}
				}
			}
			c.Min("O4 callers of the batch indirect traversal", nCallers, 2)
		}
	}
	c.Min("O4 indirect traversals", nTrav, 2)
}

// O5: begin()/cleanup pairing.
func c22O5(m *c22Model) {
	c := m.c
	// the admission function: returns (context.Context, func(), error)
	var begin *ssa.Function
	for _, f := range m.fns {
		rs := f.Signature.Results()
		if f.Parent() == nil && rs.Len() == 3 && an.TypeIs(rs.At(0).Type(), "context", "Context") && an.IsErrorType(rs.At(2).Type()) {
			if _, isFn := rs.At(1).Type().Underlying().(*types.Signature); isFn {
				begin = f
			}
		}
	}
	if !c.Need(begin != nil, "the admission function returning (context.Context, func(), error)") {
		return
	}
	begins := map[*ssa.Function]bool{}
	nB := 0
	for _, fn := range m.fns {
		for _, call := range an.AllCalls(fn) {
			if an.Callee(call).Static != begin {
				continue
			}
			nB++
			begins[fn] = true
			name := an.FuncName(fn)
			cl := an.Result(call, 1)
			al := an.Aliases(cl...)
			done := map[ssa.Instruction]bool{}
			an.Instrs(fn, func(in ssa.Instruction) {
				switch x := in.(type) {
				case *ssa.Defer:
					if al[x.Call.Value] {
						done[in] = true
					}
				case *ssa.Go:
					if mc, ok := x.Call.Value.(*ssa.MakeClosure); ok {
						g := mc.Fn.(*ssa.Function)
						for _, d := range an.AllCalls(g) {
							df, ok := d.(*ssa.Defer)
							if !ok {
								continue
							}
							for _, r := range an.Roots(df.Call.Value, nil) {
								if al[r] {
									done[in] = true
								}
							}
						}
					}
				}
			})
			cut := an.NilEdges(fn, an.ErrResult(call), false)
			leak := an.ReachesAnyReturn(fn, call, cut, done)
			c.Check(len(cut) > 0 && leak == nil, "O5", "R-PAIR", name, "begin=>defer-cleanup", call.Pos(),
				"after a successful begin() every path defers cleanup (or starts the goroutine that does)",
				"a path from a successful begin() reaches a return without deferring cleanup(): Close() waits forever and the derived context leaks")
		}
	}
	c.Min("O5 begin() calls", nB, 8)
	// interface coverage
	var iface *types.Interface
	if pk := m.p.Pkg(c22Pkg); pk != nil {
		if pp := pk.Imports[an.Mod+"/"+c22Pin]; pp != nil {
			if tn, ok := pp.Types.Scope().Lookup("Pinner").(*types.TypeName); ok {
				iface, _ = tn.Type().Underlying().(*types.Interface)
			}
		}
	}
	if !c.Need(iface != nil, "pinner.Pinner interface") {
		return
	}
	var reach func(fn *ssa.Function, depth int) bool
	reach = func(fn *ssa.Function, depth int) bool {
		if begins[fn] {
			return true
		}
		if depth > 2 {
			return false
		}
		for _, call := range an.AllCalls(fn) {
			if g := an.Callee(call).Static; g != nil && g.Pkg == fn.Pkg && g != fn && reach(g, depth+1) {
				return true
			}
		}
		return false
	}
	for i := 0; i < iface.NumMethods(); i++ {
		mn := iface.Method(i).Name()
		if mn == "Close" {
			continue
		}
		fn := m.p.Func(c22Pkg, c22R.pinnerT, mn)
		if !c.Need(fn != nil, "pinner."+mn) {
			continue
		}
		c.Check(reach(fn, 0), "O5", "R-PAIR", an.FuncName(fn), "operation-begins", fn.Pos(), "the operation is admitted through begin()",
			"Pinner method "+mn+" never calls begin(): it runs after Close and is not waited for")
	}
}

// O6: uniqueness / recursive supersedes direct.
func c22O6(m *c22Model) {
	c := m.c
	rec, dir, anyM := m.modes["Recursive"], m.modes["Direct"], m.modes["Any"]
	nAdd := 0
	for _, fn := range m.fns {
		name := an.FuncName(fn)
		for _, add := range an.AllCalls(fn) {
			g := an.Callee(add).Static
			if g == nil || g == fn || !m.adds[g] || m.removes[g] {
				continue // record adders: store a pin record, never delete one
			}
			cidv, mv := c22CidArg(add), c22ModeArg(add)
			if cidv == nil || mv == nil {
				continue
			}
			k, ok := an.ConstOf(mv)
			if !ok {
				c.Problem("O6: %s passes a non-constant mode to %s at %s", name, g.Name(), m.p.Pos(add.Pos()))
				continue
			}
			mode, _ := constant.Int64Val(k)
			nAdd++
			removals := func(kind int64) map[ssa.Instruction]bool {
				out := map[ssa.Instruction]bool{}
				for _, rm := range an.AllCalls(fn) {
					h := an.Callee(rm).Static
					if h == nil || !m.removes[h] {
						continue
					}
					if rc := c22CidArg(rm); rc == nil || !an.SameObj(rc, cidv) {
						continue
					}
					if rmv := c22ModeArg(rm); rmv != nil {
						if rk, ok := an.ConstOf(rmv); ok {
							v, _ := constant.Int64Val(rk)
							if v == kind || v == anyM {
								out[rm] = true
							}
						}
					}
				}
				return out
			}
			for _, kk := range []struct {
				kind  string
				mval  int64
				allow bool // removal of that kind is an acceptable alternative
			}{{"R", rec, mode == rec}, {"D", dir, true}} {
				notFound := m.guardEdges(fn, []c22Atom{{kk.kind, false, cidv, false}}, 0)
				var rm map[ssa.Instruction]bool
				if kk.allow {
					rm = removals(kk.mval)
				}
				pre := !an.Reaches(fn, nil, add, notFound, rm) || m.guardedDeep(fn, add, []c22Atom{{kk.kind, false, cidv, false}}, rm, 0)
				post := false
				if !pre && len(rm) > 0 {
					post = true
					cut := notFound.Union(an.NilEdges(fn, an.ErrResult(add), false))
					for _, r := range an.Returns(fn) {
						if c22MayBeSuccess(fn, r) && an.Reaches(fn, add, r, cut, rm) {
							post = false
						}
					}
				}
				label := m.modeName(mv)
				what := map[string]string{"R": "recursive", "D": "direct"}[kk.kind]
				bad := "a " + label + " pin can be added for a CID that still has a " + what + " pin"
				if kk.kind == "R" && mode == dir {
					bad += ": direct would coexist with (or replace) recursive, but recursive supersedes direct"
				} else if kk.kind == "D" && mode == rec {
					bad += ": the CID is then listed and reported both as direct and as recursive, although recursive supersedes direct (Pin removes the direct pin in this situation)"
				} else {
					bad += ": re-pinning does not replace the old pin/name, two pins exist for one CID"
				}
				c.Check(pre || post, "O6", "R-DOM", name, fmt.Sprintf("%s(%s)<=no-%s-pin", g.Name(), label, what), add.Pos(),
					"the "+label+" pin is added only where no "+what+" pin exists for the CID or it is removed", bad)
			}
		}
	}
	c.Min("O6 addPin call sites in operations", nAdd, 3)
}

// O7: Unpin contract.
func c22O7(m *c22Model) {
	c := m.c
	fn := m.p.Func(c22Pkg, c22R.pinnerT, "Unpin")
	if !c.Need(fn != nil, "pinner.Unpin") {
		return
	}
	name := an.FuncName(fn)
	var recFlag ssa.Value
	for _, prm := range fn.Params {
		if b, ok := prm.Type().Underlying().(*types.Basic); ok && b.Kind() == types.Bool {
			recFlag = prm
		}
	}
	if !c.Need(recFlag != nil, "Unpin's recursive parameter") {
		return
	}
	n := 0
	for _, rm := range an.AllCalls(fn) {
		h := an.Callee(rm).Static
		if h == nil || !m.removes[h] {
			continue
		}
		n++
		cidv := c22CidArg(rm)
		found := []c22Atom{{"R", true, cidv, false}, {"D", true, cidv, false}}
		recOK := []c22Atom{{"R", false, cidv, false}, {"flag", true, recFlag, false}}
		c.Check(m.guardedDeep(fn, rm, found, nil, 0), "O7", "R-DOM", name, "remove<=pin-found", rm.Pos(),
			"pins are removed only where a recursive or a direct pin was found", "Unpin can reach the removal although neither index holds the CID: ErrNotPinned is not reported / indirect pins are 'unpinned'")
		c.Check(m.guardedDeep(fn, rm, recOK, nil, 0), "O7", "R-DOM", name, "remove-recursive<=recursive-flag", rm.Pos(),
			"a recursive pin is removed only when recursive==true", "Unpin(c, recursive=false) can remove a recursive pin")
		// the removal covers whichever pin was found: mode Any, or a constant
		// mode K reached only where a pin of kind K was found
		if mv := c22ModeArg(rm); mv != nil {
			mn := m.modeName(mv)
			covers := mn == "Any"
			if k := map[string]string{"Recursive": "R", "Direct": "D"}[mn]; k != "" {
				covers = m.guardedDeep(fn, rm, []c22Atom{{k, true, cidv, false}}, nil, 0)
			}
			c.Check(covers, "O7", "R-DOM", name, "remove-mode-covers-found-pin", rm.Pos(),
				"the removal's mode covers the kind of pin that was found", "Unpin removes with mode "+mn+" although it is reached after a pin of another kind was found: that pin stays, Unpin reports success")
		}
	}
	c.Min("O7 removals in Unpin", n, 1)
}

// O8: the pin name stored is the caller's name or the name of the replaced pin.
// The "name parameter" of a function is found by role: the parameter that
// flows into the Name field of a freshly built pin (directly, through the pin
// constructor, or through the name parameter of a local callee).
func c22O8(m *c22Model) {
	c := m.c
	nameParam := map[*ssa.Function]int{}
	flowsToName := func(fn *ssa.Function, v ssa.Value) bool {
		// stored into the name field of a pin object in fn
		if refs := v.Referrers(); refs != nil {
			for _, r := range *refs {
				if st, ok := r.(*ssa.Store); ok && st.Val == v {
					if f, _ := an.FieldOf(st.Addr); f != nil && f == c22R.fName {
						return true
					}
				}
				if call, ok := r.(ssa.CallInstruction); ok {
					if g := c22Local(an.Callee(call)); g != nil {
						if pi, ok := nameParam[g]; ok && pi < len(call.Common().Args) && call.Common().Args[pi] == v {
							return true
						}
					}
				}
			}
		}
		return false
	}
	for changed := true; changed; {
		changed = false
		for _, fn := range m.fns {
			if _, done := nameParam[fn]; done || fn.Parent() != nil {
				continue
			}
			for i, prm := range fn.Params {
				if c22IsStringT(prm.Type()) && flowsToName(fn, prm) {
					nameParam[fn] = i
					changed = true
				}
			}
		}
	}
	n := 0
	for _, fn := range m.fns {
		for _, call := range an.AllCalls(fn) {
			g := c22Local(an.Callee(call))
			if g == nil || !m.adds[g] {
				continue
			}
			idx, ok := nameParam[g]
			if !ok || idx >= len(call.Common().Args) {
				continue
			}
			n++
			okv, from := true, ""
			for _, r := range an.Roots(call.Common().Args[idx], nil) {
				switch x := r.(type) {
				case *ssa.Parameter:
					from = "parameter " + x.Name()
					continue
				case *ssa.UnOp:
					if f, base := an.FieldOf(x.X); x.Op == token.MUL && f != nil && f == c22R.fName && c23FromStore(base) {
						from = "name of the loaded pin"
						continue
					}
				}
				okv, from = false, an.PathOf(r)
			}
			c.Check(okv, "O8", "R-FLOW", an.FuncName(fn), g.Name()+".name<=caller-name", call.Pos(),
				"the stored pin name is the "+from, "the name stored with the pin is "+from+", neither the operation's name parameter nor the name of the pin being replaced: re-pinning does not replace the name / Update loses it")
		}
	}
	c.Min("O8 named record-adding calls", n, 4)
}

// O9: the three indexes are distinct namespaces of the pinner's datastore.
func c22O9(m *c22Model) {
	c := m.c
	seen := map[string]string{}
	n := 0
	for _, kind := range []string{"R", "D", "N"} {
		fld := c22R.idxField[kind]
		if !c.Need(fld != nil, "pinner index field "+kind) {
			continue
		}
		fname := map[string]string{"R": "recursive-index", "D": "direct-index", "N": "name-index"}[kind]
		for _, fn := range m.fns {
			for _, st := range an.FieldStores(fn, fld) {
				n++
				name := an.FuncName(fn)
				nw, ok := an.IsCallTo(st.Val, an.M(c22IdxPkg, "", "New"))
				if !ok {
					c.Bad("O9", "R-TABLE", name, fname+"=dsindex.New", st.Pos(), "pinner."+fname+" is not created by dsindex.New here: "+an.PathOf(st.Val))
					continue
				}
				keyVar := ""
				if nk, ok := an.IsCallTo(nw.Call.Args[1], an.M(c22DsPkg, "", "NewKey")); ok {
					keyVar = an.PathOf(nk.Call.Args[0])
				} else {
					keyVar = an.PathOf(nw.Call.Args[1])
				}
				other, dup := seen[keyVar]
				seen[keyVar] = fname
				// same datastore as the pin records
				sameDs := false
				if fd := c22R.fDstore; fd != nil {
					for _, ds := range an.FieldStores(fn, fd) {
						if an.SameObj(ds.Val, nw.Call.Args[0]) {
							sameDs = true
						}
					}
				}
				c.Check(!dup && sameDs && strings.HasPrefix(keyVar, "g:"), "O9", "R-TABLE", name, fname+"=dsindex.New(dstore, own-key)", st.Pos(),
					"own namespace "+c44Short(keyVar)+" on the pinner's datastore",
					fmt.Sprintf("pinner.%s is created on key %s (shared with %s: %v, pinner's datastore: %v): two indexes share one namespace, recursive and direct (or name) entries are mixed and every mode query is wrong", fname, c44Short(keyVar), other, dup, sameDs))
			}
		}
	}
	c.Min("O9 index field initialisations", n, 3)
}

// O10: batch indirect traversal removes what it found from the to-check set.
func c22O10(m *c22Model) {
	c := m.c
	n := 0
	for _, top := range m.fns {
		if top.Parent() != nil {
			continue
		}
		var setPrm *ssa.Parameter
		for _, prm := range top.Params {
			if an.TypeIs(prm.Type(), c22CidPkg, "Set") {
				setPrm = prm
			}
		}
		if setPrm == nil {
			continue
		}
		isSet := func(v ssa.Value) bool {
			if v == ssa.Value(setPrm) {
				return true
			}
			u, ok := v.(*ssa.UnOp)
			if !ok || u.Op != token.MUL {
				return false
			}
			cell := an.CellOf(u.X) // the parameter spilled to a cell captured by (nested) closures
			if cell == nil {
				return false
			}
			n := 0
			for _, r := range *cell.Referrers() {
				if st, ok := r.(*ssa.Store); ok && st.Addr == ssa.Value(cell) {
					if st.Val != ssa.Value(setPrm) {
						return false
					}
					n++
				}
			}
			return n == 1
		}
		for _, fn := range an.WithClosures(top) {
			for _, has := range an.Calls(fn, an.M(c22CidPkg, "Set", "Has")) {
				if !isSet(an.Recv(has)) {
					continue
				}
				n++
				cv := an.Args(has)[0]
				rm := map[ssa.Instruction]bool{}
				for _, r := range an.Calls(fn, an.M(c22CidPkg, "Set", "Remove")) {
					if isSet(an.Recv(r)) && an.Args(r)[0] == cv {
						rm[r] = true
					}
				}
				ok := len(rm) > 0
				for e := range an.BoolEdges(fn, an.Result(has, 0), true) {
					for _, ret := range an.Returns(fn) {
						if c22ReachFromBlock(e.From.Succs[e.Succ], ret, rm) {
							ok = false
						}
					}
				}
				c.Check(ok, "O10", "R-PAIR", an.FuncName(fn), "toCheck.Has=>toCheck.Remove", has.Pos(),
					"a CID found during the traversal is taken out of the to-check set", "a CID found in the to-check set is not removed from it on every path: it is reported as indirect and, by the 'anything left is not pinned' sweep, also as not pinned")
			}
		}
	}
	c.Min("O10 to-check lookups in the batch traversal", n, 1)
}

// c22ReachFromBlock: starting at the first instruction of b, can target be
// executed without executing a blocked instruction?
func c22ReachFromBlock(b *ssa.BasicBlock, target ssa.Instruction, blocked map[ssa.Instruction]bool) bool {
	seen := map[*ssa.BasicBlock]bool{}
	var walk func(x *ssa.BasicBlock) bool
	walk = func(x *ssa.BasicBlock) bool {
		if seen[x] {
			return false
		}
		seen[x] = true
		for _, in := range x.Instrs {
			if in == target {
				return true
			}
			if blocked[in] {
				return false
			}
		}
		for _, s := range x.Succs {
			if walk(s) {
				return true
			}
		}
		return false
	}
	return walk(b)
}

// c22MayBeSuccess: return r can carry a nil error (it is not a return that
// always yields a non-nil error).
func c22MayBeSuccess(fn *ssa.Function, r *ssa.Return) bool {
	n := len(r.Results)
	if n == 0 {
		return true
	}
	rv := c22RetVal(r, n-1)
	if !an.IsErrorType(rv.Type()) || an.IsNilConst(rv) {
		return true
	}
	if call, ok := rv.(*ssa.Call); ok {
		if ci := an.Callee(call); ci.Pkg == "fmt" || ci.Pkg == "errors" {
			return false
		}
	}
	if g, ok := rv.(*ssa.UnOp); ok && g.Op == token.MUL {
		if _, isGlobal := g.X.(*ssa.Global); isGlobal {
			return false // a package-level error value (ErrNotPinned ...)
		}
	}
	if nn := an.NilEdges(fn, []ssa.Value{rv}, false); len(nn) > 0 && an.GuardedBy(fn, nil, r, nn) {
		return false
	}
	return true
}

// c22Lookup is one index lookup in a function: its kind, the CID it is keyed
// by (as a key-string value or a cid value) and the edges on which it found
// an entry.
type c22Lookup struct {
	call  ssa.CallInstruction
	kind  string
	key   ssa.Value // key argument (string) or cid argument of a wrapper
	isKey bool
	found an.EdgeSet
}

// lookups enumerates the index lookups of fn: Indexer.HasAny/Search on the
// recursive or direct index, and calls of local lookup wrappers.
func (m *c22Model) lookups(fn *ssa.Function) []c22Lookup {
	var out []c22Lookup
	for _, call := range an.AllCalls(fn) {
		ci := an.Callee(call)
		if c22IsIndexerCall(ci, "HasAny", "Search") {
			k := c22IndexKind(call)
			if k != "R" && k != "D" {
				continue
			}
			args := an.Args(call)
			if len(args) < 2 {
				continue
			}
			res := an.Result(call, 0)
			lk := c22Lookup{call: call, kind: k, key: args[1], isKey: true}
			if ci.Name == "HasAny" {
				lk.found = an.BoolEdges(fn, res, true)
			} else {
				lk.found = c22LenEdges(fn, res, true)
			}
			out = append(out, lk)
			continue
		}
		if h := c22Local(ci); h != nil && h != fn {
			for pi, prm := range h.Params {
				if pi >= len(call.Common().Args) {
					break
				}
				isKey := c22IsStringT(prm.Type())
				if !isKey && !an.TypeIs(prm.Type(), c22CidPkg, "Cid") {
					continue
				}
				for _, k := range []string{"R", "D"} {
					if m.lookupWrapper(h, k, pi, isKey, 0) {
						out = append(out, c22Lookup{call: call, kind: k, key: call.Common().Args[pi], isKey: isKey, found: an.BoolEdges(fn, an.Result(call, 0), true)})
					}
				}
			}
		}
	}
	return out
}

// c22KeyDesc names the CID a lookup is keyed by (for reports).
func c22KeyDesc(lk c22Lookup) string {
	if lk.isKey {
		for _, r := range an.Roots(lk.key, nil) {
			if call, ok := an.IsCallTo(r, an.M(c22CidPkg, "Cid", "KeyString")); ok {
				return c44Short(an.PathOf(an.Recv(call)))
			}
		}
	}
	return c44Short(an.PathOf(lk.key))
}

// keyedBy: the lookup is keyed by the CID cidv.
func (lk c22Lookup) keyedBy(cidv ssa.Value) bool {
	if lk.isKey {
		return c22CidKeyPair(lk.call.Parent(), lk.key, cidv, 0)
	}
	return c22SameVal(lk.key, cidv)
}

// O11: same-CID coupling of lookups, removals, fetches and adds.
func c22O11(m *c22Model) {
	c := m.c
	rec, dir, anyM := m.modes["Recursive"], m.modes["Direct"], m.modes["Any"]
	kindOf := func(mode int64) string {
		switch mode {
		case rec:
			return "R"
		case dir:
			return "D"
		}
		return ""
	}
	nGuarded, nAfter, nFetch, nNode, nName := 0, 0, 0, 0, 0
	for _, fn := range m.fns {
		name := an.FuncName(fn)
		lks := m.lookups(fn)
		var rms, adds []ssa.CallInstruction
		for _, call := range an.AllCalls(fn) {
			if _, plain := call.(*ssa.Call); !plain {
				continue
			}
			g := c22Local(an.Callee(call))
			if g == nil || g == fn || c22CidArg(call) == nil {
				continue
			}
			if m.removes[g] && !m.adds[g] {
				rms = append(rms, call)
			}
			if m.adds[g] && !m.removes[g] {
				adds = append(adds, call)
			}
		}
		// (a) a removal conditioned on a lookup removes what was looked up
		for _, rm := range rms {
			x := c22CidArg(rm)
			rk := ""
			if mv := c22ModeArg(rm); mv != nil {
				if k, ok := an.ConstOf(mv); ok {
					v, _ := constant.Int64Val(k)
					rk = kindOf(v)
					if v == anyM {
						rk = "*"
					}
				}
			}
			for _, lk := range lks {
				if len(lk.found) == 0 || !an.GuardedBy(fn, nil, rm, lk.found) {
					continue
				}
				// a precondition of the whole operation (every successful return lies
				// behind the same edge) does not single out this removal
				conditional := false
				for _, r := range an.Returns(fn) {
					if c22MayBeSuccess(fn, r) && an.Reaches(fn, nil, r, lk.found, nil) {
						conditional = true
					}
				}
				if !conditional {
					continue
				}
				nGuarded++
				sameCid := lk.keyedBy(x)
				sameKind := rk == "" || rk == "*" || rk == lk.kind
				label := c22CallLabel(rm)
				if mv := c22ModeArg(rm); mv != nil {
					label += "(" + m.modeName(mv) + ")"
				}
				why := ""
				if !sameCid {
					why = "the lookup is keyed by another CID (" + c22KeyDesc(lk) + ") than the one whose pins are removed (" + c44Short(an.PathOf(x)) + ")"
				} else if !sameKind {
					why = "the lookup is made in the other index than the one the removal targets"
				}
				c.Check(sameCid && sameKind, "O11", "R-FLOW", name, label+"<=found("+c22CallLabel(lk.call)+")-same-cid", rm.Pos(),
					"the removal that runs only where "+c22CallLabel(lk.call)+" found an entry targets the looked-up CID and index",
					"pins are removed on the 'found' edge of "+c22CallLabel(lk.call)+" but "+why+": the pin that should be superseded/replaced stays (the CID ends up with both a direct and a recursive pin) or an unrelated pin is dropped")
			}
		}
		// (b) the pin just added is not removed again
		for _, add := range adds {
			x, mv := c22CidArg(add), c22ModeArg(add)
			if mv == nil {
				continue
			}
			k, ok := an.ConstOf(mv)
			if !ok {
				continue
			}
			mode, _ := constant.Int64Val(k)
			newID := an.Result(add, 0)
			for _, rm := range rms {
				if !c22SameVal(c22CidArg(rm), x) || !an.Reaches(fn, add, rm, nil, nil) {
					continue
				}
				rmv := c22ModeArg(rm)
				if rmv == nil {
					continue
				}
				rk, ok := an.ConstOf(rmv)
				if !ok {
					continue
				}
				v, _ := constant.Int64Val(rk)
				if v != mode && v != anyM {
					continue
				}
				nAfter++
				keeps := false
				for _, a := range rm.Common().Args {
					for _, id := range newID {
						if a == id {
							keeps = true
						}
					}
				}
				c.Check(keeps, "O11", "R-FLOW", name, c22CallLabel(rm)+"("+m.modeName(rmv)+")-after-"+c22CallLabel(add)+"-keeps-new-pin", rm.Pos(),
					"the removal after the add is told which pin to keep", "after "+c22CallLabel(add)+"("+m.modeName(mv)+") the pins of the same CID and mode are removed again without exempting the new pin: the operation leaves the CID unpinned")
			}
		}
		// (c) the fetched / diffed graph is the one that gets pinned
		for _, call := range an.AllCalls(fn) {
			ci := an.Callee(call)
			if ci.Static == nil || c22Local(ci) != nil {
				continue
			}
			var target ssa.Value
			switch {
			case strings.HasSuffix(ci.Pkg, "ipld/merkledag") && ci.Name == "FetchGraph":
				target = c22CidArg(call)
			case strings.HasSuffix(ci.Pkg, "dagutils") && ci.Name == "DiffEnumerate":
				for _, a := range an.Args(call) { // the last cid argument is the new root
					if an.TypeIs(a.Type(), c22CidPkg, "Cid") {
						target = a
					}
				}
			}
			if target == nil {
				continue
			}
			okT := m.fetchTargetPinned(fn, call, target, 0)
			nFetch++
			c.Check(okT, "O11", "R-FLOW", name, ci.Name+"-target=pinned-cid", call.Pos(),
				"the CID whose graph is fetched is the one that is pinned recursively afterwards",
				"the graph fetched by "+ci.Name+" is not the graph of the CID that gets the recursive pin (wrong variable / swapped arguments): a recursive pin is recorded for a DAG that may not be local")
		}
		// (d) operations taking a node pin that node's CID
		for _, prm := range fn.Params {
			if !an.TypeIs(prm.Type(), "github.com/ipfs/go-ipld-format", "Node") {
				continue
			}
			for _, call := range an.AllCalls(fn) {
				g := c22Local(an.Callee(call))
				if g == nil || !m.mut[g] {
					continue
				}
				x := c22CidArg(call)
				if x == nil {
					continue
				}
				nNode++
				okN := false
				for _, r := range an.Roots(x, nil) {
					if cc, ok := r.(*ssa.Call); ok && an.Callee(cc).Name == "Cid" && an.Recv(cc) == ssa.Value(prm) {
						okN = true
					} else {
						okN = false
						break
					}
				}
				c.Check(okN, "O11", "R-FLOW", name, c22CallLabel(call)+".cid=node.Cid()", call.Pos(),
					"the CID pinned is the CID of the node that was added", "the CID handed to "+c22CallLabel(call)+" is not the CID of the node argument: another object is pinned than the one stored")
			}
		}
		// (e) a name kept from a loaded pin: looked up in the index of the added
		// mode, and the add happens only where that lookup found something
		for _, add := range adds {
			g := c22Local(an.Callee(add))
			mv := c22ModeArg(add)
			if g == nil || mv == nil {
				continue
			}
			k, ok := an.ConstOf(mv)
			if !ok {
				continue
			}
			mode, _ := constant.Int64Val(k)
			for _, a := range add.Common().Args {
				u, ok := a.(*ssa.UnOp)
				if !ok || u.Op != token.MUL {
					continue
				}
				f, base := an.FieldOf(u.X)
				if f == nil || f != c22R.fName || !c23FromStore(base) {
					continue
				}
				// the id the pin was loaded by
				var idArg ssa.Value
				for _, r := range an.Roots(base, nil) {
					if e, ok := r.(*ssa.Extract); ok {
						if lc, ok := e.Tuple.(*ssa.Call); ok {
							for _, la := range lc.Call.Args {
								if c22IsStringT(la.Type()) {
									idArg = la
								}
							}
						}
					}
				}
				if idArg == nil {
					continue
				}
				nName++
				okS, why := m.nameSource(fn, add, idArg, kindOf(mode), 0)
				c.Check(okS, "O11", "R-FLOW", name, c22CallLabel(add)+".name<=pin-found-in-same-mode-index", add.Pos(),
					"the kept name belongs to a pin found in the index of the added mode", "the name stored with the new pin is taken from a loaded pin, but "+why+": the wrong name (or the name of a pin of another mode) is carried over")
			}
		}
	}
	c.Min("O11 removals conditioned on a lookup", nGuarded, 4)
	c.Min("O11 fetch/diff targets", nFetch, 2)
	c.Min("O11 node-taking operations", nNode, 2)
	c.Note("O11 sites: guarded removals=%d, removals after an add=%d, fetch targets=%d, node cids=%d, kept names=%d", nGuarded, nAfter, nFetch, nNode, nName)
}

// fetchTargetPinned: after the fetch call (in fn, or in the callers when the
// fetch sits in a helper whose parameter is the target) a recursive pin is
// added for the same CID on some path.
func (m *c22Model) fetchTargetPinned(fn *ssa.Function, at ssa.Instruction, target ssa.Value, depth int) bool {
	for _, add := range an.AllCalls(fn) {
		if at != nil && !an.Reaches(fn, at, add, nil, nil) {
			continue
		}
		if m.pinsRecursively(add, target, depth) {
			return true
		}
	}
	if depth > 2 {
		return false
	}
	prm, ok := target.(*ssa.Parameter)
	if !ok || prm.Parent() != fn || at == nil {
		return false
	}
	pi := c44ParamIndex(prm)
	n := 0
	for _, g := range m.fns {
		for _, call := range an.AllCalls(g) {
			if an.Callee(call).Static != fn {
				continue
			}
			n++
			if !m.fetchTargetPinned(g, call, call.Common().Args[pi], depth+1) {
				return false
			}
		}
	}
	return n > 0
}

// pinsRecursively: the call stores a recursive pin record for target: a record
// adder called with mode Recursive and that CID, or a local function that does
// so for the parameter target is passed as.
func (m *c22Model) pinsRecursively(call ssa.CallInstruction, target ssa.Value, depth int) bool {
	g := c22Local(an.Callee(call))
	if g == nil || !m.adds[g] || depth > 3 {
		return false
	}
	if !m.removes[g] { // a record adder
		if mv := c22ModeArg(call); mv != nil {
			if k, ok := an.ConstOf(mv); ok {
				if v, _ := constant.Int64Val(k); v != m.modes["Recursive"] {
					return false
				}
			}
		}
		x := c22CidArg(call)
		return x != nil && c22SameVal(x, target)
	}
	for i, a := range call.Common().Args {
		if i >= len(g.Params) || !c22SameVal(a, target) {
			continue
		}
		for _, inner := range an.AllCalls(g) {
			if m.pinsRecursively(inner, g.Params[i], depth+1) {
				return true
			}
		}
	}
	return false
}

// nameSource: the id a pin was loaded by comes from a Search in the index of
// the given kind, and `site` (the add, or the call leading to it) is reachable
// only where that Search found something. An id that is a parameter is followed
// to every static call site.
func (m *c22Model) nameSource(fn *ssa.Function, site ssa.Instruction, idArg ssa.Value, kind string, depth int) (bool, string) {
	why := "the id of the loaded pin does not come from an index Search"
	for _, lk := range m.lookups(fn) {
		if an.Callee(lk.call).Name != "Search" {
			continue
		}
		from := false
		for _, r := range an.Roots(idArg, nil) {
			if lu, ok := r.(*ssa.UnOp); ok && lu.Op == token.MUL {
				if ia, ok := lu.X.(*ssa.IndexAddr); ok {
					for _, res := range an.Result(lk.call, 0) {
						if ia.X == res {
							from = true
						}
					}
				}
			}
		}
		if !from {
			continue
		}
		switch {
		case lk.kind != kind:
			why = "the name is taken from a pin found in the other index than the mode being added"
		case !an.GuardedBy(fn, nil, site, lk.found):
			why = "the add is reachable although that lookup found nothing"
		default:
			return true, ""
		}
	}
	prm, ok := idArg.(*ssa.Parameter)
	if !ok || prm.Parent() != fn || depth > 2 {
		return false, why
	}
	pi := c44ParamIndex(prm)
	n := 0
	for _, g := range m.fns {
		for _, call := range an.AllCalls(g) {
			if an.Callee(call).Static != fn {
				continue
			}
			n++
			if ok, w := m.nameSource(g, call, call.Common().Args[pi], kind, depth+1); !ok {
				return false, w
			}
		}
	}
	if n == 0 {
		return false, why
	}
	return true, ""
}

// O12: query answers are coupled with the index they come from. A positive
// answer labelled Recursive (Direct) - a Pinned value built with that constant
// mode, or a (label, true) return - lies on the found edge of a lookup in the
// recursive (direct) index; it is not given under a test `mode == K` for another
// concrete K; and an index selected by a test on the mode parameter is the
// index of that mode.
func c22O12(m *c22Model) {
	c := m.c
	kindOf := map[int64]string{m.modes["Recursive"]: "R", m.modes["Direct"]: "D"}
	label := map[string]string{"recursive": "R", "direct": "D"}
	what := map[string]string{"R": "recursive", "D": "direct"}
	nLab, nSel := 0, 0
	// label variables by role: package variables initialised from
	// pinner.ModeToString(Recursive|Direct)
	labelVar := map[*ssa.Global]string{}
	for _, fn := range m.p.PkgFuncs(c22Pkg) {
		an.Instrs(fn, func(in ssa.Instruction) {
			st, ok := in.(*ssa.Store)
			if !ok {
				return
			}
			g, ok := st.Addr.(*ssa.Global)
			if !ok {
				return
			}
			for _, r := range an.Roots(st.Val, nil) {
				v := r
				if e, ok := v.(*ssa.Extract); ok {
					v = e.Tuple
				}
				call, ok := an.IsCallTo(v, an.M(c22Pin, "", "ModeToString"))
				if !ok || len(call.Call.Args) == 0 {
					continue
				}
				if kc, ok := an.ConstOf(call.Call.Args[0]); ok && kc.Kind() == constant.Int {
					n, _ := constant.Int64Val(kc)
					if k := kindOf[n]; k != "" {
						labelVar[g] = k
					}
				}
			}
		})
	}
	labelOf := func(v ssa.Value) string {
		if lv, ok := an.ConstOf(v); ok && lv.Kind() == constant.String {
			return label[constant.StringVal(lv)]
		}
		if ld, ok := v.(*ssa.UnOp); ok && ld.Op == token.MUL {
			if g, ok := ld.X.(*ssa.Global); ok {
				return labelVar[g]
			}
		}
		return ""
	}
	for _, fn := range m.fns {
		name := an.FuncName(fn)
		lks := m.lookups(fn)
		found := map[string]an.EdgeSet{"R": {}, "D": {}}
		for _, lk := range lks {
			found[lk.kind] = found[lk.kind].Union(lk.found)
		}
		var modePrm *ssa.Parameter
		for _, prm := range fn.Params {
			if an.TypeIs(prm.Type(), c22Pin, "Mode") {
				modePrm = prm
			}
		}
		// edges on which the mode parameter equals a concrete constant
		modeIs := func(k int64, want bool) an.EdgeSet {
			if modePrm == nil {
				return an.EdgeSet{}
			}
			return an.CondEdges(fn, func(atom ssa.Value) (bool, bool) {
				b, ok := atom.(*ssa.BinOp)
				if !ok || (b.Op != token.EQL && b.Op != token.NEQ) {
					return false, false
				}
				var kv ssa.Value
				if b.X == ssa.Value(modePrm) {
					kv = b.Y
				} else if b.Y == ssa.Value(modePrm) {
					kv = b.X
				}
				kc, isK := an.ConstOf(kv)
				if kv == nil || !isK || kc.Kind() != constant.Int {
					return false, false
				}
				if n, _ := constant.Int64Val(kc); n != k {
					return false, false
				}
				eq := b.Op == token.EQL
				return eq == want, eq != want
			})
		}
		check := func(site ssa.Instruction, k string, form string) {
			if len(lks) == 0 {
				return // no index lookup in this function: the label is decided by a caller
			}
			nLab++
			ok := len(found[k]) > 0 && an.GuardedBy(fn, nil, site, found[k])
			c.Check(ok, "O12", "R-DOM", name, form+"("+what[k]+")<=found-in-"+what[k]+"-index", site.Pos(),
				"the answer '"+what[k]+"' is given only where the "+what[k]+" index holds the CID",
				"a pin is reported as "+what[k]+" without a hit in the "+what[k]+" index on the way: queries disagree with the pin model (recursive/direct mixed up)")
			// not under a test for another concrete mode
			for mn, mv := range m.modes {
				if mn == "Any" || kindOf[mv] == k {
					continue
				}
				if es := modeIs(mv, true); len(es) > 0 && an.GuardedBy(fn, nil, site, es) {
					c.Bad("O12", "R-DOM", name, form+"("+what[k]+")-not-under-mode=="+mn, site.Pos(),
						"the answer '"+what[k]+"' is given on the path taken when the caller asked for mode "+mn+": a mode-specific query answers with a pin of another mode")
				}
			}
		}
		// (a) Pinned{Mode: K}
		an.Instrs(fn, func(in ssa.Instruction) {
			st, ok := in.(*ssa.Store)
			if !ok {
				return
			}
			f, base := an.FieldOf(st.Addr)
			if f == nil || !an.TypeIs(f.Type(), c22Pin, "Mode") || !an.TypeIs(base.Type(), c22Pin, "Pinned") {
				return
			}
			kc, isK := an.ConstOf(st.Val)
			if !isK || kc.Kind() != constant.Int {
				return
			}
			n, _ := constant.Int64Val(kc)
			if k := kindOf[n]; k != "" {
				check(st, k, "Pinned")
			}
		})
		// (b) return (label, true, ..)
		for _, r := range an.Returns(fn) {
			if len(r.Results) < 2 {
				continue
			}
			bv, okB := an.ConstOf(c22RetVal(r, 1))
			if !okB || bv.Kind() != constant.Bool || !constant.BoolVal(bv) {
				continue
			}
			if k := labelOf(c22RetVal(r, 0)); k != "" {
				check(r, k, "answer")
			}
		}
		// (c) an index selected by a test on the mode parameter
		if modePrm == nil {
			continue
		}
		for _, b := range fn.Blocks {
			for _, in := range b.Instrs {
				phi, ok := in.(*ssa.Phi)
				if !ok {
					break
				}
				if !an.TypeIs(phi.Type(), c22IdxPkg, "Indexer") {
					continue
				}
				kinds := make([]string, len(phi.Edges))
				all := true
				for i, e := range phi.Edges {
					if ld, ok := e.(*ssa.UnOp); ok && ld.Op == token.MUL {
						if f, _ := an.FieldOf(ld.X); f != nil {
							kinds[i] = c22R.idxKind[f]
						}
					}
					if kinds[i] != "R" && kinds[i] != "D" {
						all = false
					}
				}
				if !all {
					continue
				}
				nSel++
				okSel := true
				for i, k := range kinds {
					own, other := m.modes["Recursive"], m.modes["Direct"]
					if k == "D" {
						own, other = other, own
					}
					if !c44PhiEdgeGuarded(phi, i, modeIs(own, true)) && !c44PhiEdgeGuarded(phi, i, modeIs(other, false)) {
						okSel = false
					}
				}
				c.Check(okSel, "O12", "R-TABLE", name, "index-selected-by-mode", phi.Pos(),
					"the recursive index is selected where mode is Recursive, the direct index where it is Direct (or not Recursive)",
					"the index selected under a test on the mode parameter is not the index of that mode: Recursive queries read the direct index or vice versa")
			}
		}
	}
	c.Min("O12 labelled answers", nLab, 4)
	c.Min("O12 indexes selected by mode", nSel, 1)
}

// O13: a removal loop covers every pin id it looked up. In a function that
// removes pin records in a loop over a slice of ids, every Search of the
// recursive / direct index made by that function feeds the slice: where one
// merge input carries the hits of a Search and another does not, the latter is
// taken only where that Search returned nothing (or is not reached after it).
func c22O13(m *c22Model) {
	c := m.c
	n := 0
	for _, fn := range m.fns {
		if !m.removes[fn] && !m.prim[fn] {
			continue
		}
		// the id slice walked by an induction variable
		var ids ssa.Value
		an.Instrs(fn, func(in ssa.Instruction) {
			ia, ok := in.(*ssa.IndexAddr)
			if !ok || !c44Induction(ia.Index) {
				return
			}
			if sl, ok := ia.X.Type().Underlying().(*types.Slice); ok && c22IsStringT(sl.Elem()) {
				ids = ia.X
			}
		})
		if ids == nil {
			continue
		}
		searches := map[ssa.CallInstruction]bool{}
		for _, call := range an.AllCalls(fn) {
			if c22IsIndexerCall(an.Callee(call), "Search") {
				if k := c22IndexKind(call); k == "R" || k == "D" {
					searches[call] = true
				}
			}
		}
		if len(searches) == 0 {
			continue
		}
		var phis []*ssa.Phi
		memo := map[ssa.Value]map[ssa.CallInstruction]bool{}
		var srcs func(v ssa.Value, depth int) map[ssa.CallInstruction]bool
		srcs = func(v ssa.Value, depth int) map[ssa.CallInstruction]bool {
			if r, ok := memo[v]; ok {
				return r
			}
			out := map[ssa.CallInstruction]bool{}
			memo[v] = out
			if depth > 12 {
				return out
			}
			switch x := v.(type) {
			case *ssa.Phi:
				phis = append(phis, x)
				for _, e := range x.Edges {
					for k := range srcs(e, depth+1) {
						out[k] = true
					}
				}
			case *ssa.Extract:
				if call, ok := x.Tuple.(*ssa.Call); ok && searches[call] && x.Index == 0 {
					out[call] = true
				}
			case *ssa.Call:
				if an.Callee(x).Builtin == "append" {
					for _, a := range x.Call.Args {
						for k := range srcs(a, depth+1) {
							out[k] = true
						}
					}
				}
			}
			return out
		}
		all := srcs(ids, 0)
		if len(all) == 0 {
			continue
		}
		name := an.FuncName(fn)
		for sc := range searches {
			n++
			why := ""
			if !all[sc] {
				why = "its hits never reach the slice of ids that is removed"
			}
			res := an.Result(sc, 0)
			empty := c22LenEdges(fn, res, false)
			for _, phi := range phis {
				carries := false
				for _, e := range phi.Edges {
					if srcs(e, 0)[sc] {
						carries = true
					}
				}
				if !carries {
					continue
				}
				for i, e := range phi.Edges {
					if srcs(e, 0)[sc] {
						continue
					}
					pred := phi.Block().Preds[i]
					if len(pred.Instrs) == 0 || !an.Reaches(fn, sc, pred.Instrs[len(pred.Instrs)-1], nil, nil) {
						continue // this input is not taken after the search
					}
					if errs := an.ErrResult(sc); len(errs) > 0 && c44PhiEdgeGuarded(phi, i, an.NilEdges(fn, errs, false)) {
						continue
					}
					if !c44PhiEdgeGuarded(phi, i, empty) {
						why = "a merge takes the id slice without these hits on a path where the search may have returned some"
					}
				}
			}
			c.Check(why == "", "O13", "R-FLOW", name, c22CallLabel(sc)+"=>ids-removed", sc.Pos(),
				"every id found by this search is in the slice whose pins are removed", "the ids found by "+c22CallLabel(sc)+" are not all removed ("+why+"): the pin stays although the removal reports success")
		}
	}
	c.Min("O13 searches feeding a removal loop", n, 2)
}

// O14: a fetching recursive pin passes through a successful fetch. In the
// function that calls merkledag.FetchGraph (or a local wrapper that returns
// success only after a successful FetchGraph) every pin-set write and every
// success return is reached only across the nil-error edge of the fetch, or
// across the false edge of a boolean parameter that guards the fetch (the
// caller asked not to fetch: explicit-mode API). The flag must be the parameter
// itself: a reassigned flag (e.g. cleared after an index lookup) is no bypass.
// The entry point that takes a node passes the constant true for that parameter.
func c22O14(m *c22Model) {
	c := m.c
	isFetch := func(call ssa.CallInstruction) bool {
		ci := an.Callee(call)
		return ci.Static != nil && c22Local(ci) == nil && strings.HasSuffix(ci.Pkg, "ipld/merkledag") && ci.Name == "FetchGraph"
	}
	okEdgesOf := func(fn *ssa.Function, isF func(ssa.CallInstruction) bool) (an.EdgeSet, []ssa.CallInstruction) {
		es := an.EdgeSet{}
		var calls []ssa.CallInstruction
		for _, call := range an.AllCalls(fn) {
			if !isF(call) {
				continue
			}
			if _, plain := call.(*ssa.Call); !plain {
				continue
			}
			calls = append(calls, call)
			if errs := an.ErrResult(call); len(errs) > 0 {
				es = es.Union(an.NilEdges(fn, errs, true))
			}
		}
		return es, calls
	}
	// local wrappers: write nothing, succeed only after a successful fetch
	wrapper := map[*ssa.Function]bool{}
	for _, h := range m.fns {
		if h.Parent() != nil || m.mut[h] || m.prim[h] {
			continue
		}
		es, calls := okEdgesOf(h, isFetch)
		if len(calls) == 0 {
			continue
		}
		all, n := true, 0
		for _, r := range an.Returns(h) {
			if !c22MayBeSuccess(h, r) {
				continue
			}
			n++
			if an.GuardedBy(h, nil, r, es) {
				continue
			}
			// `return FetchGraph(..)`: the returned error is the fetch's own
			passes := false
			if k := len(r.Results); k > 0 {
				rv := c22RetVal(r, k-1)
				for _, fc := range calls {
					for _, ev := range an.ErrResult(fc) {
						if ev == rv {
							passes = true
						}
					}
				}
			}
			if !passes {
				all = false
			}
		}
		if all && n > 0 {
			wrapper[h] = true
		}
	}
	isFetchOrWrapper := func(call ssa.CallInstruction) bool {
		if isFetch(call) {
			return true
		}
		h := c22Local(an.Callee(call))
		return h != nil && wrapper[h]
	}
	nF := 0
	flagOf := map[*ssa.Function][]int{} // fetching function -> indexes of the parameters guarding the fetch
	for _, fn := range m.fns {
		if wrapper[fn] || fn.Parent() != nil {
			continue
		}
		fetched, calls := okEdgesOf(fn, isFetchOrWrapper)
		if len(calls) == 0 {
			continue
		}
		name := an.FuncName(fn)
		// boolean parameters that guard every fetch call
		skip := an.EdgeSet{}
		for pi, prm := range fn.Params {
			b, ok := prm.Type().Underlying().(*types.Basic)
			if !ok || b.Kind() != types.Bool {
				continue
			}
			on := an.BoolEdges(fn, []ssa.Value{prm}, true)
			guards := len(on) > 0
			for _, fc := range calls {
				if !an.GuardedBy(fn, nil, fc, on) {
					guards = false
				}
			}
			if guards {
				skip = skip.Union(an.BoolEdges(fn, []ssa.Value{prm}, false))
				flagOf[fn] = append(flagOf[fn], pi)
			}
		}
		pass := fetched.Union(skip)
		check := func(site ssa.Instruction, what string) {
			nF++
			c.Check(len(fetched) > 0 && an.GuardedBy(fn, nil, site, pass), "O14", "R-DOM", name, what+"<=fetch-ok|no-fetch-requested", site.Pos(),
				"reached only after a successful fetch of the graph, or when the caller's flag parameter said not to fetch",
				"this point is reachable although the fetch was requested and neither ran nor succeeded (the fetch is bypassed by something other than the caller's flag, e.g. an index lookup or a reassigned flag): a recursive pin is written / success is returned for a graph that may not be local, where the call should fail and change nothing")
		}
		for _, call := range an.AllCalls(fn) {
			if _, isPrim := c22PrimWrite(call); isPrim {
				check(call, c22CallLabel(call))
				continue
			}
			if h := c22Local(an.Callee(call)); h != nil && m.mut[h] {
				check(call, c22CallLabel(call))
			}
		}
		for _, r := range an.Returns(fn) {
			if c22MayBeSuccess(fn, r) {
				check(r, "success-return")
			}
		}
	}
	// the entry point that takes a node asks for the fetch
	nE := 0
	for _, fn := range m.fns {
		hasNode := false
		for _, prm := range fn.Params {
			if an.TypeIs(prm.Type(), "github.com/ipfs/go-ipld-format", "Node") {
				hasNode = true
			}
		}
		if !hasNode {
			continue
		}
		for _, call := range an.AllCalls(fn) {
			g := c22Local(an.Callee(call))
			if g == nil || len(flagOf[g]) == 0 {
				continue
			}
			for _, pi := range flagOf[g] {
				if pi >= len(call.Common().Args) {
					continue
				}
				nE++
				k, isK := an.ConstOf(call.Common().Args[pi])
				c.Check(isK && k.Kind() == constant.Bool && constant.BoolVal(k), "O14", "R-TABLE", an.FuncName(fn), c22CallLabel(call)+".fetch=true", call.Pos(),
					"the operation that is given a node asks for the graph to be fetched", "the operation that is given a node does not pass the constant true for the parameter that guards the fetch: the graph is pinned recursively without being fetched")
			}
		}
	}
	c.Min("O14 points behind the fetch", nF, 2)
	c.Min("O14 fetch requests by the node-taking entry point", nE, 1)
}
