package props

import (
	"fmt"
	"go/token"
	"go/types"
	"strings"

	"golang.org/x/tools/go/ssa"

	"verif/checker/an"
)

func init() {
	register("C43", Prop{
		Pkgs: []string{"./routing/http/types/iter"},
		Explain: "Decided (structural necessary conditions of 'Map/Filter/Limit/slice/JSON iterators are the list operations, no over-read, Close cascades'): " +
			"O1 every struct type with declared Next/Val/Close that holds a field of an Iter-shaped interface type (quick: package iter; thorough: whole module, e.g. client.measuringIter) calls Close on that inner iterator on every path of its Close; " +
			"O2 LimitIter.Next reaches the inner Next only on edges where limit<=0 or count<limit (whatever the syntactic form of the test), increments count by exactly 1 only where the inner Next returned true and on every such path before returning true, returns false after the inner call only where it returned false; LimitIter.Val forwards the inner Val; " +
			"O3 wrappers with a 'done' flag (MapIter, FilterIter) call the inner Next only where done is false and record the inner false in done on every path; they return true only where the inner Next returned true and false (after the inner call) only where it returned false (a filter must skip, not stop, on a rejected value); " +
			"O4 FilterIter returns true only on the true edge of its predicate applied to the value just read from the inner Val() and stored in the field Val() returns; MapIter stores f(inner.Val()) into the field Val() returns on every path to 'return true'; " +
			"O5 SliceIter: constructor start index and the order increment/read in Next agree ((-1, increment first) or (0, read first)), increment by exactly 1, element read guarded by index<len; " +
			"O6 JSONIter: Decode only where done is false, io.EOF ends the iteration (return false, done set), a decode error sets done, Close sets done and closes the reader when it is an io.Closer. " +
			"NOT decided: value-level list equalities (runtime values), behaviour of json.Decoder, goroutine safety.",
		Assume:    []string{"inner iterators honour the Iter contract (Val is only meaningful after Next returned true)", "function-typed fields f are only called, never reassigned after construction"},
		Technique: "SSA path rules: sibling sweep over Iter implementers (R-SIB), normalised comparison on guarding edges (R-CMP), edge dominance (R-DOM), value provenance (R-FLOW), constructor/step constant agreement (R-CONST)",
		Run:       runC43,
	})
}

const c43Pkg = "routing/http/types/iter"

// c43IterIface reports whether t is an interface type offering Next/Val/Close
// (the shape of iter.Iter, whatever its instantiation).
func c43IterIface(t types.Type) bool {
	if _, ok := t.Underlying().(*types.Interface); !ok {
		return false
	}
	ms := types.NewMethodSet(t)
	has := func(name string) bool {
		for i := 0; i < ms.Len(); i++ {
			if ms.At(i).Obj().Name() == name {
				return true
			}
		}
		return false
	}
	return has("Next") && has("Val") && has("Close")
}

type c43Type struct {
	named            *types.Named
	next, val, close *ssa.Function
	inner            []string // fields of Iter-shaped interface type
	bools, ints      []string
	funcs            []string
}

func c43Discover(c *an.Ctx, rel string) []c43Type {
	var out []c43Type
	for _, n := range c.P.NamedTypes(rel) {
		st, ok := n.Underlying().(*types.Struct)
		if !ok {
			continue
		}
		t := c43Type{named: n, next: c.P.MethodG(n, "Next"), val: c.P.MethodG(n, "Val"), close: c.P.MethodG(n, "Close")}
		if t.next == nil || t.val == nil || t.close == nil {
			continue
		}
		if r := t.next.Signature.Results(); r.Len() != 1 || !types.Identical(r.At(0).Type(), types.Typ[types.Bool]) {
			continue
		}
		if r := t.close.Signature.Results(); r.Len() != 1 || !an.IsErrorType(r.At(0).Type()) {
			continue
		}
		for i := 0; i < st.NumFields(); i++ {
			f := st.Field(i)
			switch u := f.Type().Underlying().(type) {
			case *types.Interface:
				if c43IterIface(f.Type()) {
					t.inner = append(t.inner, f.Name())
				}
			case *types.Basic:
				if u.Kind() == types.Bool {
					t.bools = append(t.bools, f.Name())
				} else if u.Info()&types.IsInteger != 0 {
					t.ints = append(t.ints, f.Name())
				}
			case *types.Signature:
				t.funcs = append(t.funcs, f.Name())
			}
		}
		out = append(out, t)
	}
	return out
}

// c43InnerCalls: invoke calls of method `name` on the inner iterator field
// `field` of the receiver of fn.
func c43InnerCalls(fn *ssa.Function, field, name string) []ssa.CallInstruction {
	if len(fn.Params) == 0 {
		return nil
	}
	recv := fn.Params[0]
	var out []ssa.CallInstruction
	for _, call := range an.AllCalls(fn) {
		cc := call.Common()
		if !cc.IsInvoke() || cc.Method.Name() != name {
			continue
		}
		if an.LoadOfField(cc.Value, recv, field) {
			out = append(out, call)
		}
	}
	return out
}

// c43ClosesInner: on every path to a normal return, fn calls Close on the
// inner iterator field of its receiver (directly, deferred, or through a
// method of the same receiver that does so).
func c43ClosesInner(c *an.Ctx, fn *ssa.Function, field string, depth int) bool {
	if len(fn.Params) == 0 {
		return false
	}
	recv := fn.Params[0]
	set := an.AsInstrs(c43InnerCalls(fn, field, "Close"))
	if depth > 0 {
		for _, call := range an.AllCalls(fn) {
			ci := an.Callee(call)
			g := ci.Static
			if g != nil && g.Origin() != nil {
				g = g.Origin() // generic method: analyse the origin body
			}
			if g == nil || g == fn || len(g.Blocks) == 0 {
				continue
			}
			if r := an.Recv(call); r != nil && an.SameObj(r, recv) && c43ClosesInner(c, g, field, depth-1) {
				set = append(set, call)
			}
		}
	}
	if len(set) == 0 {
		return false
	}
	rets := an.Returns(fn)
	if len(rets) == 0 {
		return false
	}
	for _, r := range rets {
		if !an.MustPrecede(fn, r, set) {
			return false
		}
	}
	return true
}

func c43TypeName(t c43Type) string {
	pk := strings.TrimPrefix(strings.TrimPrefix(t.named.Obj().Pkg().Path(), an.Mod), "/")
	return pk + "." + t.named.Obj().Name()
}

// c43InnerEdges computes the CFG edges of fn on which the inner Next() call is
// known to have returned true / false: direct tests of the call's result, and
// tests of a bool field D of the receiver when every store to D in fn is
// `D = !result` (the done-flag idiom) and the load is dominated by that store.
func c43InnerEdges(fn *ssa.Function, call ssa.CallInstruction, doneField string) (tr, fa an.EdgeSet) {
	res := an.CallValue(call)
	tr = an.BoolEdges(fn, []ssa.Value{res}, true)
	fa = an.BoolEdges(fn, []ssa.Value{res}, false)
	if doneField == "" || len(fn.Params) == 0 {
		return
	}
	recv := fn.Params[0]
	sts := an.StoresToFieldNamed(fn, recv, doneField)
	if len(sts) == 0 {
		return
	}
	al := an.Aliases(res)
	var negStores []*ssa.Store
	for _, st := range sts {
		u, ok := st.Val.(*ssa.UnOp)
		if !ok || u.Op != token.NOT || !al[u.X] {
			return // another kind of store to the flag: do not trust loads of it
		}
		negStores = append(negStores, st)
	}
	var loads []ssa.Value
	for _, l := range an.LoadsOfFieldNamed(fn, recv, doneField) {
		li, ok := l.(ssa.Instruction)
		if !ok {
			continue
		}
		for _, st := range negStores {
			if an.Dominates(st, li) {
				loads = append(loads, l)
				break
			}
		}
	}
	if len(loads) > 0 {
		tr = tr.Union(an.BoolEdges(fn, loads, false))
	}
	// every store to the flag in fn is `!result`, so the flag being true on any
	// load (also one at a loop head, before this iteration's call) means an
	// inner Next() returned false
	fa = fa.Union(an.BoolEdges(fn, an.LoadsOfFieldNamed(fn, recv, doneField), true))
	return
}

func c43IsConstBool(v ssa.Value, want bool) bool {
	k, ok := an.ConstOf(v)
	if !ok {
		return false
	}
	if want {
		return k.String() == "true"
	}
	return k.String() == "false"
}

func runC43(c *an.Ctx) {
	p := c.P
	if !c.Need(p.Pkg(c43Pkg) != nil, "package "+c43Pkg) {
		return
	}
	rel := c43Pkg
	if c.Tier == "thorough" {
		rel = ""
	}
	all := c43Discover(c, rel)
	byName := map[string]c43Type{}
	for _, t := range all {
		if t.named.Obj().Pkg().Path() == an.Mod+"/"+c43Pkg {
			byName[t.named.Obj().Name()] = t
		}
	}

	// ---- O1: Close cascades
	nO1 := 0
	for _, t := range all {
		for _, f := range t.inner {
			nO1++
			ok := c43ClosesInner(c, t.close, f, 1)
			c.Check(ok, "O1", "R-SIB", an.FuncName(t.close), "Close=>"+f+".Close", t.close.Pos(),
				"Close() calls Close on the inner iterator "+f+" on every path",
				"Close() of "+c43TypeName(t)+" does not close the inner iterator "+f+" on every path: closing the composed iterator leaks the underlying one (HTTP body, goroutines)")
		}
	}
	c.Min("O1 wrapper types with an inner Iter field", nO1, 3)

	// ---- wrappers of package iter: common yield discipline (O2/O3)
	nWrap := 0
	for _, t := range all {
		if t.named.Obj().Pkg().Path() != an.Mod+"/"+c43Pkg || len(t.inner) != 1 {
			continue
		}
		nWrap++
		fn := t.next
		name := an.FuncName(fn)
		recv := fn.Params[0]
		calls := c43InnerCalls(fn, t.inner[0], "Next")
		if len(calls) != 1 || an.CallValue(calls[0]) == nil {
			c.Problem("%s: expected exactly one call of the inner Next(), found %d", name, len(calls))
			continue
		}
		call := calls[0]
		// the done flag: a bool field stored in Next
		done := ""
		for _, b := range t.bools {
			if len(an.StoresToFieldNamed(fn, recv, b)) > 0 {
				if done != "" {
					c.Problem("%s: two bool fields stored in Next (%s, %s): done-flag role ambiguous", name, done, b)
				}
				done = b
			}
		}
		tr, fa := c43InnerEdges(fn, call, done)
		if len(tr) == 0 || len(fa) == 0 {
			c.Problem("%s: cannot identify the edges on which the inner Next() returned true/false", name)
			continue
		}
		isLimit := len(t.ints) > 0
		ob := "O3"
		if isLimit {
			ob = "O2"
		}
		for _, r := range an.Returns(fn) {
			if len(r.Results) != 1 {
				continue
			}
			v := r.Results[0]
			after := an.Reaches(fn, call, r, nil, nil)
			switch {
			case c43IsConstBool(v, false):
				if !after {
					continue // early exit before touching the inner iterator
				}
				ok := !an.Reaches(fn, call, r, fa, nil)
				c.Check(ok, ob, "R-DOM", name, "return-false<=inner-false", r.Pos(),
					"after the inner Next() the iterator reports exhaustion only where the inner one did",
					"Next() can return false although the inner Next() returned true: the sequence is cut short (e.g. a filter that stops at the first rejected value instead of skipping it)")
			default:
				// may return true
				okDom := !an.Reaches(fn, nil, r, nil, map[ssa.Instruction]bool{call.(ssa.Instruction): true})
				okEdge := c43IsConstBool(v, true) && !an.Reaches(fn, call, r, tr, nil)
				if !c43IsConstBool(v, true) {
					// `return ok` style: the returned value must be the inner result itself
					okEdge = an.Aliases(an.CallValue(call))[v]
				}
				c.Check(okDom && okEdge, ob, "R-DOM", name, "return-true<=inner-true", r.Pos(),
					"Next() returns true only where the inner Next() returned true",
					"Next() can return true without the inner Next() having returned true: a value is yielded that the underlying sequence does not contain (stale/duplicate element)")
			}
		}
		if done != "" {
			// inner Next only where done == false
			dl := an.LoadsOfFieldNamed(fn, recv, done)
			guard := an.BoolEdges(fn, dl, false)
			c.Check(an.GuardedBy(fn, nil, call.(ssa.Instruction), guard), "O3", "R-DOM", name, "inner-Next<=!"+done, call.Pos(),
				"inner Next() is only called where "+done+" is false",
				"inner Next() is called although "+done+" is set: the wrapper reads the underlying iterator after it reported exhaustion")
			// the inner false is recorded on every path
			blocked := map[ssa.Instruction]bool{}
			al := an.Aliases(an.CallValue(call))
			for _, st := range an.StoresToFieldNamed(fn, recv, done) {
				if u, ok := st.Val.(*ssa.UnOp); ok && u.Op == token.NOT && al[u.X] {
					blocked[st] = true
				} else if c43IsConstBool(st.Val, true) && !an.Reaches(fn, call, st, fa, nil) {
					blocked[st] = true
				}
			}
			okRec := true
			for _, r := range an.Returns(fn) {
				// paths on which the inner call returned false: cut the true edges
				if an.Reaches(fn, call, r, tr, blocked) {
					okRec = false
				}
			}
			c.Check(okRec, "O3", "R-POST", name, "inner-false=>"+done, call.Pos(),
				"exhaustion of the inner iterator is recorded in "+done+" on every path",
				"the inner Next() can return false without "+done+" being set: a later Next() reads the exhausted underlying iterator again")
		}
	}
	c.Min("wrapper types of package iter (Limit, Filter, Map)", nWrap, 3)

	// ---- O2: LimitIter
	if t, ok := byName["LimitIter"]; c.Need(ok && len(t.inner) == 1, "iter.LimitIter with one inner Iter field") {
		c43Limit(c, t)
	}
	// ---- O4: Filter / Map value discipline
	nO4 := 0
	for _, t := range all {
		if t.named.Obj().Pkg().Path() != an.Mod+"/"+c43Pkg || len(t.inner) != 1 || len(t.funcs) != 1 {
			continue
		}
		nO4++
		c43FuncWrapper(c, t)
	}
	c.Min("O4 wrapper types with a function field (Filter, Map)", nO4, 2)

	// ---- O5: SliceIter
	if t, ok := byName["SliceIter"]; c.Need(ok, "iter.SliceIter") {
		c43Slice(c, t)
	}
	// ---- O6: JSONIter
	if t, ok := byName["JSONIter"]; c.Need(ok, "iter.JSONIter") {
		c43JSON(c, t)
	}
}

func c43Limit(c *an.Ctx, t c43Type) {
	fn := t.next
	name := an.FuncName(fn)
	recv := fn.Params[0]
	calls := c43InnerCalls(fn, t.inner[0], "Next")
	if len(calls) != 1 {
		return // reported above
	}
	call := calls[0]
	// roles: count = int field stored in Next, limit = int field not stored in
	// Next but compared in it
	var count, limit string
	for _, f := range t.ints {
		if len(an.StoresToFieldNamed(fn, recv, f)) > 0 {
			if count != "" {
				c.Problem("%s: two int fields stored in Next: counter role ambiguous", name)
			}
			count = f
		}
	}
	if count == "" {
		c.Bad("O2", "R-POST", name, "inner-true=>count++", fn.Pos(), "no integer field of LimitIter is advanced in Next(): yielded values are not counted, the limit is never enforced")
		return
	}
	for _, f := range t.ints {
		if f != count {
			if limit != "" {
				c.Problem("%s: two int fields never stored in Next: limit role ambiguous", name)
			}
			limit = f
		}
	}
	if !c.Need(limit != "", "LimitIter limit field (by role: integer field not stored in Next)") {
		return
	}
	isCount := func(v ssa.Value) bool { return an.LoadOfField(v, recv, count) }
	isLimit := func(v ssa.Value) bool { return an.LoadOfField(v, recv, limit) }
	// edges on which "limit <= 0" or "count < limit" holds
	guard := an.GRelEdges(fn, func(r an.GRel) bool {
		a, b, op := r.A, r.B, r.Op
		if _, ok := an.IntConst(a); ok {
			a, b, op = b, a, an.SwapRel(op)
		}
		if isLimit(a) {
			if k, ok := an.IntConst(b); ok {
				switch op {
				case token.LEQ, token.EQL:
					return k <= 0
				case token.LSS:
					return k <= 1
				}
				return false
			}
		}
		if isLimit(a) && isCount(b) {
			a, b, op = b, a, an.SwapRel(op)
		}
		if isCount(a) && isLimit(b) {
			return op == token.LSS || op == token.NEQ
		}
		return false
	})
	c.Check(an.GuardedBy(fn, nil, call.(ssa.Instruction), guard), "O2", "R-CMP", name, "inner-Next<=(limit<=0||count<limit)", call.Pos(),
		"the inner Next() is reached only where "+limit+"<=0 or "+count+"<"+limit,
		"the inner Next() is reachable with "+limit+">0 and "+count+">="+limit+": LimitIter consumes an element of the underlying iterator beyond the limit (over-read) or yields more than limit values")
	// an early `return false` (before the inner call) only where limit>0 and count>=limit
	limPos := an.GRelEdges(fn, func(r an.GRel) bool {
		a, b, op := r.A, r.B, r.Op
		if _, ok := an.IntConst(a); ok {
			a, b, op = b, a, an.SwapRel(op)
		}
		if k, ok := an.IntConst(b); ok && isLimit(a) {
			return (op == token.GTR && k >= 0) || (op == token.GEQ && k >= 1)
		}
		return false
	})
	cntGe := an.GRelEdges(fn, func(r an.GRel) bool {
		a, b, op := r.A, r.B, r.Op
		if isLimit(a) && isCount(b) {
			a, b, op = b, a, an.SwapRel(op)
		}
		return isCount(a) && isLimit(b) && (op == token.GEQ || op == token.EQL || op == token.GTR)
	})
	for _, r := range an.Returns(fn) {
		if len(r.Results) == 1 && c43IsConstBool(r.Results[0], false) && !an.Reaches(fn, call, r, nil, nil) {
			ok := an.GuardedBy(fn, nil, r, limPos) && an.GuardedBy(fn, nil, r, cntGe)
			c.Check(ok, "O2", "R-CMP", name, "early-false<=(limit>0&&count>=limit)", r.Pos(),
				"Next() stops before consulting the inner iterator only where "+limit+">0 and "+count+">="+limit,
				"Next() can return false without consulting the inner iterator although "+limit+"<=0 (documented: no limit) or "+count+"<"+limit+": fewer values than the limit are yielded")
		}
	}
	// count++ exactly by one, only where the inner Next returned true
	tr, fa := c43InnerEdges(fn, call, "")
	sts := an.StoresToFieldNamed(fn, recv, count)
	blocked := map[ssa.Instruction]bool{}
	for _, st := range sts {
		okStep := false
		if b, ok := st.Val.(*ssa.BinOp); ok && b.Op == token.ADD {
			if k, ok := an.IntConst(b.Y); ok && k == 1 && isCount(b.X) {
				okStep = true
			} else if k, ok := an.IntConst(b.X); ok && k == 1 && isCount(b.Y) {
				okStep = true
			}
		}
		c.Check(okStep, "O2", "R-CONST", name, count+"+=1", st.Pos(), "the counter advances by exactly one per yielded value",
			"the counter is not advanced by exactly 1: the number of yielded values differs from the limit")
		okEdge := an.Reaches(fn, call, st, nil, nil) && !an.Reaches(fn, call, st, tr, nil) && !an.Reaches(fn, nil, st, nil, map[ssa.Instruction]bool{call.(ssa.Instruction): true})
		c.Check(okEdge, "O2", "R-DOM", name, count+"++<=inner-true", st.Pos(), "the counter advances only where the inner Next() returned true",
			"the counter advances although the inner Next() did not return true: fewer than limit values are yielded")
		if okStep {
			blocked[st] = true
		}
	}
	c.Min("O2 stores to the LimitIter counter", len(sts), 1)
	// every path on which the inner Next returned true and Next returns passes count++
	ok := true
	for _, r := range an.Returns(fn) {
		if an.Reaches(fn, call, r, fa, blocked) {
			ok = false
		}
	}
	c.Check(ok, "O2", "R-POST", name, "inner-true=>"+count+"++", call.Pos(), "every value taken from the inner iterator is counted",
		"a path returns after the inner Next() returned true without advancing the counter: more than limit values can be yielded")
	// Val forwards the inner Val
	okVal := false
	rets := an.Returns(t.val)
	if len(rets) > 0 {
		okVal = true
		for _, r := range rets {
			good := false
			if len(r.Results) == 1 {
				for _, vc := range c43InnerCalls(t.val, t.inner[0], "Val") {
					if an.CallValue(vc) != nil && an.Aliases(an.CallValue(vc))[r.Results[0]] {
						good = true
					}
				}
			}
			okVal = okVal && good
		}
	}
	c.Check(okVal, "O2", "R-FLOW", an.FuncName(t.val), "Val=inner.Val", t.val.Pos(), "Val() returns the inner iterator's current value",
		"LimitIter.Val() does not return the inner iterator's Val(): the limited sequence is not a prefix of the underlying one")
}

// c43ValField: the receiver field whose load Val() returns ("" if none).
func c43ValField(t c43Type) string {
	if len(t.val.Params) == 0 {
		return ""
	}
	recv := t.val.Params[0]
	name := ""
	for _, r := range an.Returns(t.val) {
		if len(r.Results) != 1 {
			return ""
		}
		found := ""
		for _, root := range an.Roots(r.Results[0], nil) {
			u, ok := root.(*ssa.UnOp)
			if !ok || u.Op != token.MUL {
				return ""
			}
			n, b := an.FieldName(u.X)
			if n == "" || !an.SameObj(b, recv) {
				return ""
			}
			found = n
		}
		if name != "" && found != name {
			return ""
		}
		name = found
	}
	return name
}

func c43FuncWrapper(c *an.Ctx, t c43Type) {
	fn := t.next
	name := an.FuncName(fn)
	recv := fn.Params[0]
	calls := c43InnerCalls(fn, t.inner[0], "Next")
	if len(calls) != 1 {
		return
	}
	call := calls[0]
	vf := c43ValField(t)
	if !c.Need(vf != "", "field returned by "+an.FuncName(t.val)) {
		return
	}
	ff := t.funcs[0]
	// calls through the function field
	var fcalls []*ssa.Call
	for _, cl := range an.AllCalls(fn) {
		if cv := an.CallValue(cl); cv != nil && !cv.Call.IsInvoke() && an.LoadOfField(cv.Call.Value, recv, ff) {
			fcalls = append(fcalls, cv)
		}
	}
	if !c.Need(len(fcalls) == 1, fmt.Sprintf("exactly one call through %s.%s in Next (found %d)", t.named.Obj().Name(), ff, len(fcalls))) {
		return
	}
	fc := fcalls[0]
	innerVal := func(v ssa.Value) bool {
		for _, vc := range c43InnerCalls(fn, t.inner[0], "Val") {
			if cv := an.CallValue(vc); cv != nil && an.Aliases(cv)[v] {
				// the Val() read must follow the successful Next()
				return an.Reaches(fn, call, cv, nil, nil) && !an.Reaches(fn, nil, cv, nil, map[ssa.Instruction]bool{call.(ssa.Instruction): true})
			}
		}
		return false
	}
	sts := an.StoresToFieldNamed(fn, recv, vf)
	isPredicate := false
	if r := fc.Call.Signature().Results(); r.Len() == 1 && types.Identical(r.At(0).Type().Underlying(), types.Typ[types.Bool]) {
		isPredicate = true
	}
	blocked := map[ssa.Instruction]bool{}
	if isPredicate {
		// Filter: val = inner.Val(); yield only where f(val) is true
		for _, st := range sts {
			ok := innerVal(st.Val)
			c.Check(ok, "O4", "R-FLOW", name, vf+"=inner.Val", st.Pos(), "the yielded value is the inner iterator's current value",
				"the value stored for Val() is not the inner iterator's Val() read after its Next(): Filter yields values that are not elements of the underlying sequence")
			if ok {
				blocked[st] = true
			}
		}
		// predicate argument: the stored value (load of the field after the store) or the same inner Val()
		arg := fc.Call.Args
		okArg := len(arg) == 1 && (innerVal(arg[0]) || (an.LoadOfField(arg[0], recv, vf) && len(sts) > 0 && func() bool {
			for _, st := range sts {
				if blocked[st] && an.Dominates(st, fc) {
					return true
				}
			}
			return false
		}()))
		c.Check(okArg, "O4", "R-FLOW", name, ff+"(arg)=current", fc.Pos(), "the predicate is applied to the value that will be yielded",
			"the predicate is not applied to the value just read from the inner iterator: elements are kept or dropped according to another element")
		ptrue := an.BoolEdges(fn, []ssa.Value{fc}, true)
		for _, r := range an.Returns(fn) {
			if len(r.Results) == 1 && !c43IsConstBool(r.Results[0], false) {
				ok := c43IsConstBool(r.Results[0], true) && !an.Reaches(fn, fc, r, ptrue, nil) && an.Dominates(fc, r)
				c.Check(ok, "O4", "R-DOM", name, "return-true<="+ff+"-true", r.Pos(), "a value is yielded only where the predicate returned true",
					"Next() returns true on a path where the predicate did not return true: Filter yields rejected values (or the test is inverted)")
				ok2 := !an.Reaches(fn, call, r, nil, blocked)
				c.Check(ok2, "O4", "R-POST", name, "return-true<="+vf+"-store", r.Pos(), "the yielded value is stored before returning true",
					"Next() returns true without storing the current value: Val() yields a stale element")
			}
		}
	} else {
		// Map: val = f(inner.Val())
		okArg := len(fc.Call.Args) == 1 && innerVal(fc.Call.Args[0])
		c.Check(okArg, "O4", "R-FLOW", name, ff+"(arg)=inner.Val", fc.Pos(), "the mapping function is applied to the inner iterator's current value",
			"the mapping function is not applied to the inner Val() read after the successful Next(): Map yields images of the wrong elements")
		for _, st := range sts {
			ok := an.Aliases(fc)[st.Val]
			c.Check(ok, "O4", "R-FLOW", name, vf+"="+ff+"(..)", st.Pos(), "the yielded value is the image of the current element",
				"the value stored for Val() is not the result of the mapping function")
			if ok {
				blocked[st] = true
			}
		}
		for _, r := range an.Returns(fn) {
			if len(r.Results) == 1 && !c43IsConstBool(r.Results[0], false) {
				ok := !an.Reaches(fn, call, r, nil, blocked)
				c.Check(ok, "O4", "R-POST", name, "return-true<="+vf+"-store", r.Pos(), "the mapped value is stored before returning true",
					"Next() returns true without storing f(inner.Val()): Val() yields a stale element")
			}
		}
	}
	c.Min("O4 stores to "+t.named.Obj().Name()+"."+vf, len(sts), 1)
}

func c43Slice(c *an.Ctx, t c43Type) {
	fn := t.next
	name := an.FuncName(fn)
	recv := fn.Params[0]
	if !c.Need(len(t.ints) == 1, "SliceIter has one integer index field") {
		return
	}
	idx := t.ints[0]
	// the slice field: the field indexed in Next
	var reads []*ssa.IndexAddr
	an.Instrs(fn, func(in ssa.Instruction) {
		if ia, ok := in.(*ssa.IndexAddr); ok {
			if u, ok := ia.X.(*ssa.UnOp); ok && u.Op == token.MUL {
				if n, b := an.FieldName(u.X); n != "" && an.SameObj(b, recv) {
					reads = append(reads, ia)
				}
			}
		}
	})
	if !c.Need(len(reads) == 1, "one element read of the slice field in SliceIter.Next") {
		return
	}
	rd := reads[0]
	sliceField, _ := an.FieldName(rd.X.(*ssa.UnOp).X)
	okIdx := an.LoadOfField(rd.Index, recv, idx)
	c.Check(okIdx, "O5", "R-FLOW", name, "read["+idx+"]", rd.Pos(), "the element read is Slice[i]", "the element read is not indexed by the iterator's own index field")
	// guard: idx < len(slice)
	isIdx := func(v ssa.Value) bool { return an.LoadOfField(v, recv, idx) }
	isLen := func(v ssa.Value) bool {
		call, ok := v.(*ssa.Call)
		if !ok {
			return false
		}
		if b, ok := call.Call.Value.(*ssa.Builtin); !ok || b.Name() != "len" || len(call.Call.Args) != 1 {
			return false
		}
		return an.LoadOfField(call.Call.Args[0], recv, sliceField)
	}
	guard := an.GRelEdges(fn, func(r an.GRel) bool {
		a, b, op := r.A, r.B, r.Op
		if isLen(a) && isIdx(b) {
			a, b, op = b, a, an.SwapRel(op)
		}
		return isIdx(a) && isLen(b) && op == token.LSS
	})
	c.Check(an.GuardedBy(fn, nil, rd, guard), "O5", "R-CMP", name, "read<=i<len", rd.Pos(), "the element read is guarded by i < len(Slice)",
		"the element read is not guarded by i < len(Slice): Next() panics or skips the end test")
	// step: i = i + 1
	sts := an.StoresToFieldNamed(fn, recv, idx)
	if !c.Need(len(sts) == 1, "one store to the index in SliceIter.Next") {
		return
	}
	st := sts[0]
	okStep := false
	if b, ok := st.Val.(*ssa.BinOp); ok && b.Op == token.ADD {
		if k, ok := an.IntConst(b.Y); ok && k == 1 && isIdx(b.X) {
			okStep = true
		}
	}
	c.Check(okStep, "O5", "R-CONST", name, idx+"+=1", st.Pos(), "the index advances by exactly one", "the index does not advance by exactly 1: elements are skipped or repeated")
	// constructor start value agrees with the order of increment and read
	incFirst := an.Dominates(st, rd)
	readFirst := an.Dominates(rd, st)
	nCtor := 0
	for _, f := range p43Ctors(c, t) {
		for _, cst := range an.StoresToFieldNamed(f, nil, idx) {
			_, base := an.FieldName(cst.Addr)
			if !an.IsFresh(base) {
				continue
			}
			nCtor++
			k, isK := an.IntConst(cst.Val)
			ok := isK && ((incFirst && k == -1) || (readFirst && !incFirst && k == 0))
			c.Check(ok, "O5", "R-CONST", an.FuncName(f), idx+"-start", cst.Pos(),
				"start index agrees with the increment/read order of Next",
				fmt.Sprintf("start index %v with increment-before-read=%v: the first element is skipped or index -1 is read", cst.Val, incFirst))
		}
	}
	if nCtor == 0 {
		// zero value start: only correct with read-before-increment
		c.Check(readFirst && !incFirst, "O5", "R-CONST", name, idx+"-start-zero", fn.Pos(), "zero start index with read-before-increment",
			"no constructor sets the start index (zero value) but Next increments before reading: the first element is skipped")
	}
}

// p43Ctors: package-level functions of package iter that allocate a value of t.
func p43Ctors(c *an.Ctx, t c43Type) []*ssa.Function {
	var out []*ssa.Function
	for _, f := range c.P.PkgFuncs(c43Pkg) {
		found := false
		an.Instrs(f, func(in ssa.Instruction) {
			if a, ok := in.(*ssa.Alloc); ok {
				if n, ok := types.Unalias(a.Type().(*types.Pointer).Elem()).(*types.Named); ok && n.Origin() == t.named.Origin() {
					found = true
				}
			}
		})
		if found {
			out = append(out, f)
		}
	}
	return out
}

func c43JSON(c *an.Ctx, t c43Type) {
	fn := t.next
	name := an.FuncName(fn)
	recv := fn.Params[0]
	if !c.Need(len(t.bools) == 1, "JSONIter has one bool (done) field") {
		return
	}
	done := t.bools[0]
	dec := an.Calls(fn, an.M("encoding/json", "Decoder", "Decode"))
	if !c.Need(len(dec) == 1 && an.CallValue(dec[0]) != nil, "one json.Decoder.Decode call in JSONIter.Next") {
		return
	}
	d := dec[0]
	dl := an.LoadsOfFieldNamed(fn, recv, done)
	c.Check(an.GuardedBy(fn, nil, d.(ssa.Instruction), an.BoolEdges(fn, dl, false)), "O6", "R-DOM", name, "Decode<=!"+done, d.Pos(),
		"Decode is only called where done is false", "Decode is called although the iterator is done/closed: values are read past the end or after Close")
	errs := an.ErrResult(d)
	// the destination of Decode is a fresh zero value of this call (encoding/json merges into a
	// non-zero destination: absent fields keep old values, slices/maps/pointers are reused), never
	// storage that survives between calls (a receiver field, a captured variable)
	{
		dst := an.Args(d)[0]
		okFresh := true
		why := ""
		var cells []*ssa.Alloc
		for _, r := range an.Roots(dst, nil) {
			a, ok := r.(*ssa.Alloc)
			if !ok || a.Parent() != fn {
				okFresh = false
				why = "decodes into " + an.PathOf(r)
				continue
			}
			cells = append(cells, a)
			for _, ref := range *a.Referrers() {
				if st, ok := ref.(*ssa.Store); ok && st.Addr == ssa.Value(a) && an.Reaches(fn, st, d.(ssa.Instruction), nil, nil) {
					okFresh = false
					why = "the destination is written before Decode"
				}
			}
		}
		c.Check(okFresh && len(cells) > 0, "O6", "R-FLOW", name, "Decode(&fresh-zero-value)", d.Pos(),
			"every Next decodes into a fresh zero value",
			"Decode's destination is not a fresh per-call zero value ("+why+"): encoding/json merges into the previous element, so a value that omits a field inherits it from an earlier one and previously yielded slices/maps/pointers are overwritten — the yielded list differs from the element-wise decode")
		// the yielded value is that destination, read after Decode
		if okFresh {
			nVal := 0
			okVal := true
			an.Instrs(fn, func(in ssa.Instruction) {
				st, ok := in.(*ssa.Store)
				if !ok {
					return
				}
				n, _ := an.FieldName(st.Addr)
				if n != "Val" {
					return
				}
				nVal++
				u, ok := st.Val.(*ssa.UnOp)
				good := false
				if ok && u.Op == token.MUL {
					for _, a := range cells {
						if u.X == ssa.Value(a) && an.Dominates(d.(ssa.Instruction), u) {
							good = true
						}
					}
				}
				okVal = okVal && good
			})
			c.Check(okVal && nVal > 0, "O6", "R-FLOW", name, "res.Val=decoded", d.Pos(), "the yielded value is the freshly decoded one",
				"the value stored for Val() is not the destination of this call's Decode (read after it): stale or foreign values are yielded")
		}
	}
	// values that hold the Decode error: the result itself and loads of a location it was stored to
	var errHolders []ssa.Value
	errHolders = append(errHolders, errs...)
	an.Instrs(fn, func(in ssa.Instruction) {
		if st, ok := in.(*ssa.Store); ok && an.Aliases(errs...)[st.Val] {
			pth := an.PathOf(st.Addr)
			an.Instrs(fn, func(in2 ssa.Instruction) {
				if u, ok := in2.(*ssa.UnOp); ok && u.Op == token.MUL && an.PathOf(u.X) == pth && an.Dominates(st, u) {
					errHolders = append(errHolders, u)
				}
			})
		}
	})
	// EOF edges
	eofT := an.CallEdges(fn, an.M("errors", "", "Is"), 0, func(v ssa.Value) bool { return an.Aliases(errHolders...)[v] }, true)
	var doneTrue []ssa.Instruction
	for _, st := range an.StoresToFieldNamed(fn, recv, done) {
		if c43IsConstBool(st.Val, true) {
			doneTrue = append(doneTrue, st)
		}
	}
	blocked := map[ssa.Instruction]bool{}
	for _, s := range doneTrue {
		blocked[s] = true
	}
	nEOF := 0
	for _, r := range an.Returns(fn) {
		if len(r.Results) != 1 || !an.Reaches(fn, d, r, nil, nil) {
			continue
		}
		if c43IsConstBool(r.Results[0], false) {
			nEOF++
			ok := len(eofT) > 0 && !an.Reaches(fn, d, r, eofT, nil)
			c.Check(ok, "O6", "R-DOM", name, "return-false<=EOF", r.Pos(), "after Decode the iteration ends only on io.EOF",
				"Next() returns false after Decode on a path where the error is not io.EOF: a decodable value or a decode error is swallowed")
			ok2 := !an.Reaches(fn, d, r, nil, blocked)
			c.Check(ok2, "O6", "R-POST", name, "EOF=>"+done, r.Pos(), "end of input is recorded in done", "end of input is not recorded in done: Decode is called again after EOF")
		}
	}
	c.Min("O6 end-of-input returns in JSONIter.Next", nEOF, 1)
	// a decode error (non-nil) sets done before returning true: walk only the
	// paths on which the error is not known to be nil
	var errLoads []ssa.Value
	an.Instrs(fn, func(in ssa.Instruction) {
		if st, ok := in.(*ssa.Store); ok && an.Aliases(errs...)[st.Val] {
			pth := an.PathOf(st.Addr)
			an.Instrs(fn, func(in2 ssa.Instruction) {
				if u, ok := in2.(*ssa.UnOp); ok && u.Op == token.MUL && an.PathOf(u.X) == pth && an.Dominates(st, u) {
					errLoads = append(errLoads, u)
				}
			})
		}
	})
	isNil := an.NilEdges(fn, errs, true).Union(an.NilEdges(fn, errLoads, true))
	okErr := true
	for _, r := range an.Returns(fn) {
		if len(r.Results) == 1 && !c43IsConstBool(r.Results[0], false) && an.Reaches(fn, d, r, isNil.Union(eofT), blocked) {
			okErr = false
		}
	}
	c.Check(okErr, "O6", "R-POST", name, "err=>"+done, d.Pos(), "a decode error stops the iteration (done set)",
		"Next() can return true after a decode error without setting done: the iterator keeps decoding a broken stream and can yield garbage or loop forever")
	// Close: done = true on every path and the reader is closed when it is an io.Closer
	cl := t.close
	crecv := cl.Params[0]
	var cDone []ssa.Instruction
	for _, st := range an.StoresToFieldNamed(cl, crecv, done) {
		if c43IsConstBool(st.Val, true) {
			cDone = append(cDone, st)
		}
	}
	okD := len(cDone) > 0
	for _, r := range an.Returns(cl) {
		okD = okD && an.MustPrecede(cl, r, cDone)
	}
	c.Check(okD, "O6", "R-POST", an.FuncName(cl), "Close=>"+done, cl.Pos(), "Close marks the iterator done on every path",
		"JSONIter.Close does not set done on every path: Next() after Close decodes from a closed reader")
	// reader closed: a TypeAssert of a receiver field to an interface with Close, and a Close call on it guarded by ok
	var closeCalls []ssa.Instruction
	okEdges := an.EdgeSet{}
	for _, call := range an.AllCalls(cl) {
		cc := call.Common()
		if !cc.IsInvoke() || cc.Method.Name() != "Close" {
			continue
		}
		for _, root := range an.Roots(cc.Value, nil) {
			ex, ok := root.(*ssa.Extract)
			var ta *ssa.TypeAssert
			if ok {
				ta, _ = ex.Tuple.(*ssa.TypeAssert)
			} else {
				ta, _ = root.(*ssa.TypeAssert)
			}
			_ = ta
		}
		// provenance: the receiver of Close derives from a load of a receiver field (through the type assertion)
		fromField := false
		for _, root := range an.Roots(cc.Value, nil) {
			if u, ok := root.(*ssa.UnOp); ok && u.Op == token.MUL {
				if n, b := an.FieldName(u.X); n != "" && an.SameObj(b, crecv) {
					fromField = true
				}
			}
		}
		if fromField {
			closeCalls = append(closeCalls, call)
		}
	}
	an.Instrs(cl, func(in ssa.Instruction) {
		if ta, ok := in.(*ssa.TypeAssert); ok && ta.CommaOk {
			for _, ref := range *ta.Referrers() {
				if ex, ok := ref.(*ssa.Extract); ok && ex.Index == 1 {
					okEdges = okEdges.Union(an.BoolEdges(cl, []ssa.Value{ex}, false))
				}
			}
		}
	})
	okC := len(closeCalls) > 0
	for _, r := range an.Returns(cl) {
		// a return may skip the Close only along the "not a Closer" edge
		bl := map[ssa.Instruction]bool{}
		for _, x := range closeCalls {
			bl[x] = true
		}
		if an.Reaches(cl, nil, r, okEdges, bl) {
			okC = false
		}
	}
	c.Check(okC, "O6", "R-POST", an.FuncName(cl), "Close=>Reader.Close", cl.Pos(), "Close closes the reader whenever it is an io.Closer",
		"JSONIter.Close can return without closing a reader that is an io.Closer: the HTTP response body leaks")
}
