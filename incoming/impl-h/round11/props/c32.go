package props

import (
	"fmt"
	"go/ast"
	"go/constant"
	"go/token"
	"go/types"
	"sort"
	"strings"

	"golang.org/x/tools/go/ssa"

	"verif/checker/an"
)

func init() {
	register("C32", Prop{
		Pkgs: []string{"./gateway"},
		Explain: "Decided (structural necessary conditions of 'subdomain/DNSLink mapping preserves content identity, labels fit 63 characters'): " +
			"O1 InlineDNSLink and toDNSLabel return a label with a nil error only on the edge where len(that label) <= dnsLabelMaxLength, and dnsLabelMaxLength == 63; " +
			"O2 in toSubdomainURL and toDNSLabel every cid.NewCidV1 rebuilds the CID from the Hash() of the very CID that was decoded/passed in (multihash preserved), with codec = its Type() or the libp2p-key constant; the redirect URL is url.Parse(Sprintf(\"http://%s.%s.%s/\", rootID, ns, hostname)) with ns = path segment 1 and hostname the parameter; RawQuery is copied from the request URL, Path is set to path segment 3 (the remainder) where it is non-empty, a store to RawFragment is accompanied by a store to Fragment (net/url ignores RawFragment when Fragment is empty), and the function returns u.String() of that URL; " +
			"O3 the namespace predicates: the constants accepted by isPeerIDNamespace are a subset of those accepted by isSubdomainNamespace, and both directions (path->subdomain in toSubdomainURL, host->path in knownSubdomainDetails) use isSubdomainNamespace; " +
			"O4 one effective host: a handler that honours X-Forwarded-Host uses the Request.Host field only to compute the effective host (every other host-dependent decision must use the merged value); " +
			"O5 host->path rewriting in the hostname handler: every store to r.URL.Path is a concatenation that ends with the original r.URL.Path (remainder preserved) and whose prefix is built, in this order, from '/', the namespace and the root id returned by knownSubdomainDetails for the effective host (root id possibly through UninlineDNSLink of that same root id), or from '/ipns/' and stripPort(effective host). " +
			"NOT decided: Inline/Uninline are mutually inverse string transducers (runtime), DNS validity of names, percent-encoding of the remainder by net/url.",
		Assume:    []string{"go-cid NewCidV1/Hash/StringOfBase are faithful", "net/url.URL.String renders RawQuery verbatim and Fragment only when Fragment != \"\""},
		Technique: "SSA rules: normalised comparison on the returning edge (R-CMP/R-DOM), value provenance (R-FLOW), coupled store (R-PAIR), constant tables from typed AST (R-TABLE), single-source taint for the effective host (R-TAINT)",
		Run:       runC32,
	})
}

const c32Cid = "github.com/ipfs/go-cid"

// ---------------------------------------------------------------- roles (unexported identifiers by what they are)

type c32Roles struct {
	tsu     *ssa.Function // path -> subdomain URL: (…string…, *http.Request, …, IPFSBackend) -> (string, error)
	label   *ssa.Function // CID label: (string, cid.Cid) -> (string, error)
	details *ssa.Function // host -> (*PublicGateway, string, string, string, bool)
	hasDNS  *ssa.Function // (…, IPFSBackend, string) -> bool, invokes IPFSBackend.GetDNSLinkRecord
	strip   *ssa.Function // (string) -> string using net.SplitHostPort
	subNS   *ssa.Function // (string) -> bool constant table consulted by `details`
	peerNS  *ssa.Function // the other (string) -> bool constant table consulted by tsu
}

var c32R *c32Roles

func c32Resolve(c *an.Ctx) *c32Roles {
	R := &c32Roles{}
	isBool := func(t types.Type) bool { return types.Identical(t.Underlying(), types.Typ[types.Bool]) }
	var preds, labels []*ssa.Function
	for _, f := range c.P.PkgFuncs(c30Gw) {
		if f.Parent() != nil {
			continue
		}
		sig := f.Signature
		var ps []types.Type
		for i := 0; i < sig.Params().Len(); i++ {
			ps = append(ps, sig.Params().At(i).Type())
		}
		rs := sig.Results()
		has := func(pkg, name string, ptr bool) bool {
			for _, t := range ps {
				if ptr {
					if pt, ok := t.(*types.Pointer); ok && an.TypeIs(pt.Elem(), pkg, name) {
						return true
					}
				} else if _, isPtr := t.(*types.Pointer); !isPtr && an.TypeIs(t, pkg, name) {
					return true
				}
			}
			return false
		}
		nStr := 0
		for _, t := range ps {
			if c30IsString(t) {
				nStr++
			}
		}
		switch {
		case sig.Recv() == nil && rs.Len() == 2 && c30IsString(rs.At(0).Type()) && an.IsErrorType(rs.At(1).Type()) && has("net/http", "Request", true) && has(c30Gw, "IPFSBackend", false):
			R.tsu = f
		case sig.Recv() == nil && rs.Len() == 2 && c30IsString(rs.At(0).Type()) && an.IsErrorType(rs.At(1).Type()) && len(ps) == 2 && c30IsString(ps[0]) && an.TypeIs(ps[1], c32Cid, "Cid"):
			labels = append(labels, f)
		case rs.Len() == 5 && isBool(rs.At(4).Type()) && c30IsString(rs.At(1).Type()) && c30IsString(rs.At(2).Type()) && c30IsString(rs.At(3).Type()):
			if pt, ok := rs.At(0).Type().(*types.Pointer); ok && an.TypeIs(pt.Elem(), c30Gw, "PublicGateway") {
				R.details = f
			}
		case sig.Recv() == nil && rs.Len() == 1 && isBool(rs.At(0).Type()) && has(c30Gw, "IPFSBackend", false) && nStr >= 1:
			for _, cl := range an.AllCalls(f) {
				if cc := cl.Common(); cc.IsInvoke() && cc.Method.Name() == "GetDNSLinkRecord" {
					R.hasDNS = f
				}
			}
		case sig.Recv() == nil && rs.Len() == 1 && c30IsString(rs.At(0).Type()) && len(ps) == 1 && c30IsString(ps[0]):
			if len(an.Calls(f, an.M("net", "", "SplitHostPort"))) > 0 {
				R.strip = f
			}
		case sig.Recv() == nil && rs.Len() == 1 && isBool(rs.At(0).Type()) && len(ps) == 1 && c30IsString(ps[0]):
			if _, ok := c32AcceptedConsts(c, f.Name()); ok {
				preds = append(preds, f)
			}
		}
	}
	calls := func(f, g *ssa.Function) bool {
		if f == nil {
			return false
		}
		for _, h := range c31WithCallees(f) {
			if len(an.Calls(h, c30M(g))) > 0 {
				return true
			}
		}
		return false
	}
	// several functions may share the label signature (a wrapper that prepares the CID and then
	// asks for the label): the label function is the innermost one, which calls no other candidate
	var inner []*ssa.Function
	for _, f := range labels {
		callsOther := false
		for _, g := range labels {
			if g != f && calls(f, g) {
				callsOther = true
			}
		}
		if !callsOther {
			inner = append(inner, f)
		}
	}
	if len(inner) > 1 {
		// ... and it is the one that measures a string (len compared with a constant, in it or in a predicate it calls)
		var measuring []*ssa.Function
		for _, f := range inner {
			found := false
			for _, g := range c31WithCallees(f) {
				an.Instrs(g, func(in ssa.Instruction) {
					b, ok := in.(*ssa.BinOp)
					if !ok {
						return
					}
					for _, pr := range [][2]ssa.Value{{b.X, b.Y}, {b.Y, b.X}} {
						call, isCall := pr[0].(*ssa.Call)
						if _, isK := an.IntConst(pr[1]); !isK || !isCall {
							continue
						}
						if bi, ok := call.Call.Value.(*ssa.Builtin); ok && bi.Name() == "len" && c30IsString(call.Call.Args[0].Type()) {
							found = true
						}
					}
				})
			}
			if found {
				measuring = append(measuring, f)
			}
		}
		if len(measuring) == 1 {
			inner = measuring
		}
	}
	if len(inner) == 1 {
		R.label = inner[0]
	} else if len(inner) > 1 {
		c.Problem("package gateway: %d functions (string, cid.Cid) -> (string, error) that do not call each other: the CID label role is ambiguous", len(inner))
	}
	for _, pf := range preds {
		if calls(R.details, pf) {
			R.subNS = pf
		}
	}
	for _, pf := range preds {
		if pf != R.subNS && calls(R.tsu, pf) {
			R.peerNS = pf
		}
	}
	c32R = R
	return R
}

func runC32(c *an.Ctx) {
	p := c.P
	if !c.Need(p.Pkg(c30Gw) != nil, "package gateway") {
		return
	}
	R := c32Resolve(c)
	if !c.Need(R.tsu != nil && R.label != nil && R.details != nil && R.hasDNS != nil && R.strip != nil && R.subNS != nil && R.peerNS != nil,
		"roles in package gateway: path->subdomain-URL function, CID label function, host->(gateway,ns,rootID) function, DNSLink-record predicate, port stripper, the two namespace tables") {
		return
	}
	c32Labels(c)
	c32Codec(c)
	c32Subdomain(c)
	c32Namespaces(c)
	c32EffectiveHost(c)
	c32HostToPath(c)
}

// ---------------------------------------------------------------- O1

func c32Labels(c *an.Ctx) {
	p := c.P
	// the label limit: every bound a label length is compared with must amount to "<= 63"; it is read off
	// the comparisons (normalised), not from a named constant
	bounds := map[int64]bool{}
	var boundPos token.Pos
	n := 0
	for _, fn := range []*ssa.Function{p.Func(c30Gw, "", "InlineDNSLink"), c32R.label} {
		if !c.Need(fn != nil, "gateway.InlineDNSLink and the CID label function") {
			continue
		}
		name := an.FuncName(fn)
		for _, r := range an.Returns(fn) {
			if len(r.Results) != 2 || !an.IsNilConst(r.Results[1]) {
				continue
			}
			v := r.Results[0]
			if k, ok := an.ConstOf(v); ok && k.Kind() == constant.String && constant.StringVal(k) == "" {
				continue
			}
			n++
			roots := map[ssa.Value]bool{}
			for _, x := range an.Roots(v, nil) {
				roots[x] = true
			}
			sameAsLabel := func(x ssa.Value) bool {
				rs := an.Roots(x, nil)
				if len(rs) == 0 {
					return false
				}
				for _, y := range rs {
					if !roots[y] {
						return false
					}
				}
				return true
			}
			fits := an.GRelEdges(fn, func(rel an.GRel) bool {
				a, b, op := rel.A, rel.B, rel.Op
				if _, ok := an.IntConst(a); ok {
					a, b, op = b, a, an.SwapRel(op)
				}
				k, ok := an.IntConst(b)
				call, ok2 := a.(*ssa.Call)
				if !ok || !ok2 {
					return false
				}
				if bi, ok := call.Call.Value.(*ssa.Builtin); !ok || bi.Name() != "len" || !sameAsLabel(call.Call.Args[0]) {
					return false
				}
				switch op {
				case token.LEQ:
					bounds[k], boundPos = true, call.Pos()
				case token.LSS:
					bounds[k-1], boundPos = true, call.Pos()
				}
				return (op == token.LEQ && k <= 63) || (op == token.LSS && k <= 64) || (op == token.EQL && k <= 63)
			})
			// the same test behind a package-local predicate: g(x) is true only where len(x) <= 63
			for _, cl := range an.AllCalls(fn) {
				cv := an.CallValue(cl)
				g := an.Callee(cl).Static
				if cv == nil || g == nil || g == fn || len(g.Blocks) == 0 || g.Pkg != fn.Pkg || len(g.Params) != 1 || len(cv.Call.Args) != 1 || !sameAsLabel(cv.Call.Args[0]) {
					continue
				}
				if rs := g.Signature.Results(); rs.Len() != 1 || !types.Identical(rs.At(0).Type().Underlying(), types.Typ[types.Bool]) {
					continue
				}
				if c32TrueImpliesFits(g, func(k int64, p token.Pos) { bounds[k], boundPos = true, p }) {
					fits = fits.Union(an.BoolEdges(fn, []ssa.Value{cv}, true))
				}
			}
			ok := len(fits) > 0 && an.GuardedBy(fn, nil, r, fits)
			c.Check(ok, "O1", "R-CMP", name, "return-label<=len<=63", r.Pos(),
				"the label is returned only where its own length was tested <= 63",
				"a label is returned with a nil error on a path where len(label) <= 63 was not established for that very label: the produced host name can contain a DNS label longer than 63 characters")
		}
	}
	c.Min("O1 successful label returns (InlineDNSLink, toDNSLabel)", n, 2)
	var bs []string
	okB := len(bounds) > 0
	for b := range bounds {
		bs = append(bs, fmt.Sprint(b))
		okB = okB && b == 63
	}
	sort.Strings(bs)
	c.Check(okB, "O1", "R-CONST", "gateway", "label-length-bound==63", boundPos, "label lengths are compared with the DNS limit 63 (RFC 1034)",
		fmt.Sprintf("label lengths are compared with the bound(s) %v instead of 63: produced labels can exceed the DNS label limit, or valid 63-character labels are refused", bs))
}

// c32IsRebuild: v is the result of cid.NewCidV1 (checked by the NewCidV1 obligations), directly or
// through a package-local function that returns such a result on every path.
func c32IsRebuild(v ssa.Value, depth int) bool {
	rs := an.Roots(v, nil)
	if len(rs) == 0 {
		return false
	}
	for _, r := range rs {
		call, ok := r.(*ssa.Call)
		if !ok {
			return false
		}
		if an.M(c32Cid, "", "NewCidV1").Match(an.Callee(call)) {
			continue
		}
		g := an.Callee(call).Static
		if g == nil || len(g.Blocks) == 0 || depth >= 2 || !strings.HasPrefix(an.Callee(call).Pkg, an.Mod+"/") {
			return false
		}
		rets := an.Returns(g)
		if len(rets) == 0 {
			return false
		}
		for _, ret := range rets {
			if len(ret.Results) != 1 || !c32IsRebuild(ret.Results[0], depth+1) {
				return false
			}
		}
	}
	return true
}

// c32TrueImpliesFits: the one-parameter predicate g returns true only where len(param) <= 63.
func c32TrueImpliesFits(g *ssa.Function, bound func(int64, token.Pos)) bool {
	prm := g.Params[0]
	isFit := func(v ssa.Value, want bool) bool {
		b, ok := v.(*ssa.BinOp)
		if !ok {
			return false
		}
		a, y, op := b.X, b.Y, b.Op
		if _, isK := an.IntConst(a); isK {
			a, y, op = y, a, an.SwapRel(op)
		}
		k, isK := an.IntConst(y)
		call, isCall := a.(*ssa.Call)
		if !isK || !isCall {
			return false
		}
		if bi, ok := call.Call.Value.(*ssa.Builtin); !ok || bi.Name() != "len" {
			return false
		}
		for _, r := range an.Roots(call.Call.Args[0], nil) {
			if r != ssa.Value(prm) {
				return false
			}
		}
		if bound != nil {
			switch {
			case want && op == token.LEQ, !want && op == token.GTR:
				bound(k, call.Pos())
			case want && op == token.LSS, !want && op == token.GEQ:
				bound(k-1, call.Pos())
			}
		}
		if want {
			return (op == token.LEQ && k <= 63) || (op == token.LSS && k <= 64)
		}
		return (op == token.GTR && k <= 63) || (op == token.GEQ && k <= 64)
	}
	fitEdges := an.GRelEdges(g, func(r an.GRel) bool {
		return isFit(&ssa.BinOp{Op: r.Op, X: r.A, Y: r.B}, true)
	})
	rets := an.Returns(g)
	if len(rets) == 0 {
		return false
	}
	for _, r := range rets {
		v := r.Results[0]
		switch {
		case c43IsConstBool(v, false):
		case c43IsConstBool(v, true):
			if len(fitEdges) == 0 || !an.GuardedBy(g, nil, r, fitEdges) {
				return false
			}
		case isFit(v, true):
		default:
			if u, ok := v.(*ssa.UnOp); ok && u.Op == token.NOT && isFit(u.X, false) {
				continue
			}
			return false
		}
	}
	return true
}

// ---------------------------------------------------------------- O2

func c32FieldLoadOf(v ssa.Value, typPkg, typ, field string) (base ssa.Value, ok bool) {
	u, isU := v.(*ssa.UnOp)
	if !isU || u.Op != token.MUL {
		return nil, false
	}
	f, b := an.FieldOf(u.X)
	if f == nil || f.Name() != field || !an.TypeIs(an.FieldBaseType(u.X), typPkg, typ) {
		return nil, false
	}
	return b, true
}

func c32Subdomain(c *an.Ctx) {
	_ = c.P
	fn := c32R.tsu
	if !c.Need(fn != nil, "gateway.toSubdomainURL") {
		return
	}
	name := an.FuncName(fn)
	// --- CID rebuild
	nCid := 0
	var cidFns []*ssa.Function
	seenCidFn := map[*ssa.Function]bool{}
	for _, g0 := range []*ssa.Function{fn, c32R.label} {
		if g0 == nil {
			continue
		}
		for _, g := range c31WithCallees(g0) { // the rebuild may live in a package-local helper
			if !seenCidFn[g] {
				seenCidFn[g] = true
				cidFns = append(cidFns, g)
			}
		}
	}
	for _, g := range cidFns {
		for _, cl := range an.Calls(g, an.M(c32Cid, "", "NewCidV1")) {
			nCid++
			args := cl.Common().Args
			h, okH := an.IsCallTo(args[1], an.M(c32Cid, "Cid", "Hash"))
			var src ssa.Value
			okSrc := false
			if okH {
				src = an.Recv(h)
				okSrc = true
				for _, r := range an.Roots(src, nil) {
					_, isParam := r.(*ssa.Parameter)
					_, isDecode := an.IsCallTo(r, an.M(c32Cid, "", "Decode"))
					if !isParam && !isDecode {
						okSrc = false
					}
				}
			}
			// inside a rebuild helper (cid, codec parameters): judge the codec at the helper's call sites
			if okH && okSrc {
				if sp, ok := src.(*ssa.Parameter); ok && sp.Parent() == g {
					allParam := true
					var cp *ssa.Parameter
					for _, r := range an.Roots(args[0], nil) {
						q, ok := r.(*ssa.Parameter)
						if !ok || q.Parent() != g {
							allParam = false
						} else {
							cp = q
						}
					}
					if allParam && cp != nil {
						si, ci := -1, -1
						for i, q := range g.Params {
							if q == sp {
								si = i
							}
							if q == cp {
								ci = i
							}
						}
						okSites, nSites := true, 0
						for _, cf := range cidFns {
							for _, cs := range an.AllCalls(cf) {
								if an.Callee(cs).Static != g || si >= len(cs.Common().Args) || ci >= len(cs.Common().Args) {
									continue
								}
								nSites++
								cidArg, codecArg := cs.Common().Args[si], cs.Common().Args[ci]
								for _, r := range an.Roots(codecArg, nil) {
									if t, ok := an.IsCallTo(r, an.M(c32Cid, "Cid", "Type")); ok {
										same := false
										for _, a := range an.Roots(an.Recv(t), nil) {
											for _, b := range an.Roots(cidArg, nil) {
												same = same || a == b
											}
										}
										okSites = okSites && same
										continue
									}
									if k, ok := an.ConstOf(r); ok {
										if v, ok := constant.Uint64Val(k); ok && v == 0x72 {
											continue
										}
									}
									okSites = false
								}
							}
						}
						c.Check(okSites && nSites > 0, "O2", "R-FLOW", an.FuncName(g), "NewCidV1(codec,_)", cl.Pos(),
							"at every call of the rebuild helper the codec is the same CID's Type() or libp2p-key",
							"a call of the CID rebuild helper passes a codec that is neither the Type() of the CID it rebuilds nor libp2p-key (0x72)")
						c.OK("O2", "R-FLOW", an.FuncName(g), "NewCidV1(_, original.Hash())", cl.Pos(), "the rebuilt CID carries the multihash of the helper's CID parameter")
						continue
					}
				}
			}
			c.Check(okH && okSrc, "O2", "R-FLOW", an.FuncName(g), "NewCidV1(_, original.Hash())", cl.Pos(),
				"the rebuilt CID carries the multihash of the decoded/original CID",
				"cid.NewCidV1 is not given Hash() of the decoded/original CID: the subdomain names different content than the request ("+an.PathOf(args[1])+")")
			// codec: Type() of the same CID, or the libp2p-key constant
			okCodec := true
			for _, r := range an.Roots(args[0], nil) {
				if t, ok := an.IsCallTo(r, an.M(c32Cid, "Cid", "Type")); ok {
					if okH && !an.SameObj(an.Recv(t), src) && an.Recv(t) != src {
						same := false
						for _, a := range an.Roots(an.Recv(t), nil) {
							for _, b := range an.Roots(src, nil) {
								if a == b {
									same = true
								}
							}
						}
						okCodec = okCodec && same
					}
					continue
				}
				if k, ok := an.ConstOf(r); ok {
					if v, ok := constant.Uint64Val(k); ok && v == 0x72 {
						continue
					}
				}
				okCodec = false
			}
			c.Check(okCodec, "O2", "R-FLOW", an.FuncName(g), "NewCidV1(codec,_)", cl.Pos(),
				"the codec is the original CID's Type() or libp2p-key",
				"cid.NewCidV1 gets a codec that is neither the original CID's Type() nor libp2p-key (0x72)")
		}
	}
	c.Min("O2 cid.NewCidV1 rebuilds", nCid, 1)

	// --- URL assembly
	var reqP, hostP, pathP *ssa.Parameter
	for _, q := range fn.Params {
		switch {
		case an.TypeIs(q.Type(), "net/http", "Request"):
			reqP = q
		}
	}
	var strParams []*ssa.Parameter
	for _, q := range fn.Params {
		if b, ok := q.Type().Underlying().(*types.Basic); ok && b.Kind() == types.String {
			strParams = append(strParams, q)
		}
	}
	// the path split: in the function itself or in a package-local function it calls
	local := c31WithCallees(fn)
	inL := map[*ssa.Function]bool{}
	for _, g := range local {
		inL[g] = true
	}
	var splits []ssa.CallInstruction
	var sfn *ssa.Function
	for _, g := range local {
		if ss := an.Calls(g, an.M("strings", "", "SplitN")); len(ss) > 0 {
			splits = append(splits, ss...)
			sfn = g
		}
	}
	if !c.Need(reqP != nil && len(strParams) == 2 && len(splits) == 1 && an.CallValue(splits[0]) != nil, "path->subdomain-URL function (two string parameters, *http.Request) with one strings.SplitN in it or in a package-local function it calls") {
		return
	}
	split := an.CallValue(splits[0])
	// res: the roots of v, with parameters of package-local functions replaced by the arguments at
	// their call sites and results of the split function replaced by what it returns
	var resD func(v ssa.Value, depth int) []ssa.Value
	resD = func(v ssa.Value, depth int) []ssa.Value {
		var out []ssa.Value
		for _, r := range an.Roots(v, nil) {
			if prm, ok := r.(*ssa.Parameter); ok && prm.Parent() != fn && inL[prm.Parent()] && depth < 5 {
				g := prm.Parent()
				n := 0
				for i, q := range g.Params {
					if q != prm {
						continue
					}
					for _, m := range local {
						for _, cl := range an.AllCalls(m) {
							if an.Callee(cl).Static == g && i < len(cl.Common().Args) {
								n++
								out = append(out, resD(cl.Common().Args[i], depth+1)...)
							}
						}
					}
				}
				if n > 0 {
					continue
				}
			}
			if sfn != fn && depth < 5 {
				call, k := (*ssa.Call)(nil), 0
				switch x := r.(type) {
				case *ssa.Call:
					call = x
				case *ssa.Extract:
					call, _ = x.Tuple.(*ssa.Call)
					k = x.Index
				}
				if call != nil && an.Callee(call).Static == sfn {
					for _, ret := range an.Returns(sfn) {
						if k < len(ret.Results) {
							out = append(out, resD(ret.Results[k], depth+1)...)
						}
					}
					continue
				}
			}
			out = append(out, r)
		}
		return out
	}
	res := func(v ssa.Value) []ssa.Value { return resD(v, 0) }
	for _, q := range strParams {
		isPath := false
		for _, r := range res(split.Call.Args[0]) {
			isPath = r == ssa.Value(q)
		}
		if isPath {
			pathP = q
		} else {
			hostP = q
		}
	}
	sep, okSep := an.ConstOf(split.Call.Args[1])
	cnt, okCnt := an.IntConst(split.Call.Args[2])
	if !c.Need(pathP != nil && hostP != nil && okSep && okCnt && constant.StringVal(sep) == "/" && cnt == 4, "parts := strings.SplitN(path, \"/\", 4)") {
		return
	}
	// the function that assembles the redirect URL: toSubdomainURL itself or the package-local
	// function it delegates to (found by role: it contains the url.Parse call); values that are
	// parameters of that function are traced to the arguments of its call in toSubdomainURL
	afn, acall := fn, (*ssa.Call)(nil)
	if len(an.Calls(fn, an.M("net/url", "", "Parse"))) == 0 {
		for _, cl := range an.AllCalls(fn) {
			g := an.Callee(cl).Static
			if cv := an.CallValue(cl); cv != nil && g != nil && g != fn && len(g.Blocks) > 0 && g.Pkg == fn.Pkg && len(an.Calls(g, an.M("net/url", "", "Parse"))) > 0 {
				afn, acall = g, cv
			}
		}
	}

	seg := func(v ssa.Value) int64 {
		// v is a load of parts[k] (possibly through phis): returns k or -1
		k := int64(-1)
		for _, r := range res(v) {
			u, ok := r.(*ssa.UnOp)
			if !ok || u.Op != token.MUL {
				if cst, ok := an.ConstOf(r); ok && cst.Kind() == constant.String && constant.StringVal(cst) == "" {
					continue // zero value of `rest` when the path has no remainder
				}
				return -1
			}
			ia, ok := u.X.(*ssa.IndexAddr)
			if !ok || ia.X != ssa.Value(split) {
				return -1
			}
			i, ok := an.IntConst(ia.Index)
			if !ok || (k >= 0 && k != i) {
				return -1
			}
			k = i
		}
		return k
	}
	parses := an.Calls(afn, an.M("net/url", "", "Parse"))
	if !c.Need(len(parses) == 1, "one url.Parse in toSubdomainURL or in the package-local function it delegates the URL assembly to") {
		return
	}
	up := an.CallValue(parses[0])
	uRes := an.Result(up, 0)
	isU := func(v ssa.Value) bool {
		for _, r := range an.Roots(v, nil) {
			ok := false
			for _, x := range uRes {
				if r == x {
					ok = true
				}
			}
			if !ok {
				return false
			}
		}
		return true
	}
	// Sprintf format and arguments
	okFmt := false
	detail := "url.Parse argument is not fmt.Sprintf(\"http://%s.%s.%s/\", rootID, ns, hostname)"
	if sp, ok := an.IsCallTo(up.Call.Args[0], an.M("fmt", "", "Sprintf")); ok {
		if k, ok := an.ConstOf(sp.Call.Args[0]); ok && constant.StringVal(k) == "http://%s.%s.%s/" {
			// variadic slice: stores into the backing array
			var elems [3]ssa.Value
			if sl, ok := sp.Call.Args[1].(*ssa.Slice); ok {
				if arr, ok := sl.X.(*ssa.Alloc); ok {
					for _, ref := range *arr.Referrers() {
						ia, ok := ref.(*ssa.IndexAddr)
						if !ok {
							continue
						}
						i, ok := an.IntConst(ia.Index)
						if !ok || i < 0 || i > 2 {
							continue
						}
						for _, r2 := range *ia.Referrers() {
							if st, ok := r2.(*ssa.Store); ok {
								elems[i] = st.Val
							}
						}
					}
				}
			}
			unwrap := func(v ssa.Value) ssa.Value {
				if mi, ok := v.(*ssa.MakeInterface); ok {
					return mi.X
				}
				return v
			}
			if elems[0] != nil && elems[1] != nil && elems[2] != nil {
				nsOK := seg(unwrap(elems[1])) == 1
				hostOK := true
				for _, hr := range res(unwrap(elems[2])) {
					hostOK = hostOK && hr == ssa.Value(hostP)
				}
				okFmt = nsOK && hostOK
				detail = fmt.Sprintf("redirect host is not <rootID>.<ns = path segment 1>.<hostname parameter>: nsOK=%v hostOK=%v — the redirect points to another namespace or gateway host", nsOK, hostOK)
				// the label: every source of rootID names the content of path segment 2
				var bad []string
				isSeg2 := func(v ssa.Value) bool { return seg(v) == 2 }
				var fromSeg2 func(v ssa.Value, depth int) bool
				fromSeg2 = func(v ssa.Value, depth int) bool {
					if depth > 6 {
						return false
					}
					for _, r := range res(v) {
						switch {
						case isSeg2(r):
						case c30IsEmptyStr(r): // the zero value where the path has no such segment
						default:
							call, ok := r.(*ssa.Call)
							if ex, isEx := r.(*ssa.Extract); isEx {
								call, ok = ex.Tuple.(*ssa.Call)
							}
							if !ok {
								return false
							}
							ci := an.Callee(call)
							switch {
							case ci.Static == c32R.label:
								// (string of the rebuilt CID, rebuilt CID): the rebuilt CID is checked by the NewCidV1 obligations
								if !c32IsRebuild(call.Call.Args[1], 0) {
									return false
								}
								// the label function hands its string argument back when it fits: that string must name the same content
								if !fromSeg2(call.Call.Args[0], depth+1) {
									return false
								}
							case ci.Name == "InlineDNSLink" && ci.Pkg == an.Mod+"/"+c30Gw:
								if !fromSeg2(call.Call.Args[0], depth+1) {
									return false
								}
							case ci.Name == "UninlineDNSLink" && ci.Pkg == an.Mod+"/"+c30Gw:
								if !fromSeg2(call.Call.Args[0], depth+1) {
									return false
								}
							case ci.Name == "String" && ci.Recv == "Cid":
								tc, ok := an.IsCallTo(an.Recv(call), an.M("github.com/libp2p/go-libp2p/core/peer", "", "ToCid"))
								if !ok {
									return false
								}
								dc, ok := an.IsCallTo(tc.Call.Args[0], an.M("github.com/libp2p/go-libp2p/core/peer", "", "Decode"))
								if !ok || !fromSeg2(dc.Call.Args[0], depth+1) {
									return false
								}
							case ci.Name == "StringOfBase" && ci.Recv == "Cid":
								if !c32IsRebuild(an.Recv(call), 0) {
									return false
								}
							case ci.Static != nil && inL[ci.Static] && ci.Static != fn && len(ci.Static.Blocks) > 0:
								// a package-local function that produces the label: each label it returns derives the same way
								k := 0
								if ex, isEx := r.(*ssa.Extract); isEx {
									k = ex.Index
								}
								n := 0
								for _, ret := range an.Returns(ci.Static) {
									if k >= len(ret.Results) {
										return false
									}
									last := ret.Results[len(ret.Results)-1]
									if an.IsErrorType(last.Type()) && !an.IsNilConst(last) && c30IsEmptyStr(ret.Results[k]) {
										continue // error return: no label
									}
									n++
									if !fromSeg2(ret.Results[k], depth+1) {
										return false
									}
								}
								if n == 0 {
									return false
								}
							default:
								return false
							}
						}
					}
					return true
				}
				if !fromSeg2(unwrap(elems[0]), 0) {
					bad = append(bad, an.PathOf(unwrap(elems[0])))
				}
				c.Check(len(bad) == 0, "O2", "R-FLOW", name, "label<-path-segment-2", up.Pos(),
					"the subdomain label derives from the root id of the request path (rebuilt CID, inlined/un-inlined DNSLink name, or PeerID as CID)",
					"the subdomain label of the redirect does not derive from path segment 2 through the CID rebuild, InlineDNSLink/UninlineDNSLink or peer.ToCid(peer.Decode(..)): the redirect names other content than the request")
			}
		}
	}
	c.Check(okFmt, "O2", "R-FLOW", name, "url=http://rootID.ns.hostname/", up.Pos(), "the redirect URL is assembled as rootID.ns.hostname with ns from the path and hostname from the caller", detail)

	// stores into the parsed URL
	var stRawQ, stPath, stRawFrag, stFrag []*ssa.Store
	an.Instrs(afn, func(in ssa.Instruction) {
		st, ok := in.(*ssa.Store)
		if !ok {
			return
		}
		f, b := an.FieldOf(st.Addr)
		if f == nil || !an.TypeIs(an.FieldBaseType(st.Addr), "net/url", "URL") || !isU(b) {
			return
		}
		switch f.Name() {
		case "RawQuery":
			stRawQ = append(stRawQ, st)
		case "Path":
			stPath = append(stPath, st)
		case "RawFragment":
			stRawFrag = append(stRawFrag, st)
		case "Fragment":
			stFrag = append(stFrag, st)
		}
	})
	fromReqURL := func(v ssa.Value, field string) bool {
		// a value snapshotted into a field of a non-escaping local struct (single store that
		// dominates the read) is the stored value
		for i := 0; i < 3; i++ {
			u, ok := v.(*ssa.UnOp)
			if !ok || u.Op != token.MUL {
				break
			}
			fa, ok := u.X.(*ssa.FieldAddr)
			if !ok {
				break
			}
			a, ok := fa.X.(*ssa.Alloc)
			if !ok {
				break
			}
			f, _ := an.FieldOf(fa)
			sts, okSt := c42LocalFieldStores(a, f)
			if !okSt || len(sts) != 1 || !an.Dominates(sts[0], u) {
				break
			}
			v = sts[0].Val
		}
		b, ok := c32FieldLoadOf(v, "net/url", "URL", field)
		if !ok {
			return false
		}
		rs := res(b)
		if len(rs) == 0 {
			return false
		}
		for _, x := range rs {
			rb, ok := c32FieldLoadOf(x, "net/http", "Request", "URL")
			if !ok {
				return false
			}
			rr := res(rb)
			if len(rr) == 0 {
				return false
			}
			for _, y := range rr {
				if y != ssa.Value(reqP) {
					return false
				}
			}
		}
		return true
	}
	// success returns: u.String()
	var succ []*ssa.Return
	for _, r := range an.Returns(afn) {
		if len(r.Results) != 2 || !an.IsNilConst(r.Results[1]) {
			continue
		}
		if k, ok := an.ConstOf(r.Results[0]); ok && k.Kind() == constant.String {
			continue // "", nil : no redirect
		}
		succ = append(succ, r)
		sc, ok := an.IsCallTo(r.Results[0], an.M("net/url", "URL", "String"))
		c.Check(ok && isU(an.Recv(sc)), "O2", "R-FLOW", name, "return=u.String()", r.Pos(), "the redirect is the rendering of the assembled URL",
			"toSubdomainURL returns something other than String() of the URL it assembled")
	}
	c.Min("O2 redirect-producing returns of toSubdomainURL", len(succ), 1)
	okQ := len(stRawQ) > 0
	for _, st := range stRawQ {
		okQ = okQ && fromReqURL(st.Val, "RawQuery")
	}
	for _, r := range succ {
		okQ = okQ && an.MustPrecede(afn, r, an.AsInstrs(stRawQ))
	}
	c.Check(okQ, "O2", "R-FLOW", name, "u.RawQuery=r.URL.RawQuery", fn.Pos(), "the query string is copied verbatim on every redirect",
		"the redirect URL does not get RawQuery = r.URL.RawQuery on every path: query parameters are lost or altered by the redirect")
	// Path = remainder (segment 3) wherever the remainder is non-empty
	okP := len(stPath) > 0
	for _, st := range stPath {
		okP = okP && seg(st.Val) == 3
	}
	if okP {
		// a redirect may skip the store only along the edge where rest == ""
		var restVals []ssa.Value
		for _, st := range stPath {
			restVals = append(restVals, st.Val)
		}
		al := an.Aliases(restVals...)
		empty := an.CondEdges(afn, func(atom ssa.Value) (bool, bool) {
			b, ok := atom.(*ssa.BinOp)
			if !ok || (b.Op != token.EQL && b.Op != token.NEQ) {
				return false, false
			}
			if !(al[b.X] && c30IsEmptyStr(b.Y)) && !(al[b.Y] && c30IsEmptyStr(b.X)) {
				return false, false
			}
			eq := b.Op == token.EQL
			return eq, !eq
		})
		empty = empty.Union(an.GRelEdges(afn, func(rel an.GRel) bool {
			a, b, op := rel.A, rel.B, rel.Op
			if _, ok := an.IntConst(a); ok {
				a, b, op = b, a, an.SwapRel(op)
			}
			k, ok := an.IntConst(b)
			call, ok2 := a.(*ssa.Call)
			if !ok || !ok2 {
				return false
			}
			if bi, ok := call.Call.Value.(*ssa.Builtin); !ok || bi.Name() != "len" || !al[call.Call.Args[0]] {
				return false
			}
			return (op == token.EQL && k == 0) || (op == token.LEQ && k == 0) || (op == token.LSS && k == 1)
		}))
		blocked := map[ssa.Instruction]bool{}
		for _, st := range stPath {
			blocked[st] = true
		}
		for _, r := range succ {
			if an.Reaches(afn, up, r, empty, blocked) {
				okP = false
			}
		}
	}
	c.Check(okP, "O2", "R-FLOW", name, "u.Path=rest", fn.Pos(), "the path remainder (segment 3 of the split path) becomes the redirect path whenever it is non-empty",
		"the redirect URL's Path is not the remainder of the request path (parts[3]) on every path with a non-empty remainder: the redirect drops or replaces the sub-path")
	// RawFragment => Fragment
	for _, st := range stRawFrag {
		ok := an.Around(afn, st, an.AsInstrs(stFrag))
		okVal := fromReqURL(st.Val, "RawFragment")
		c.Check(ok && okVal, "O2", "R-PAIR", name, "u.RawFragment=>u.Fragment", st.Pos(), "RawFragment is set together with Fragment",
			"u.RawFragment is stored without u.Fragment: net/url renders a fragment only when Fragment != \"\" (RawFragment is just an encoding hint), so the request's fragment is silently dropped from the redirect URL")
	}
	for _, st := range stFrag {
		c.Check(fromReqURL(st.Val, "Fragment"), "O2", "R-FLOW", name, "u.Fragment=r.URL.Fragment", st.Pos(), "Fragment copied from the request URL", "u.Fragment is not r.URL.Fragment")
	}
	if acall != nil {
		// toSubdomainURL hands the assembled URL on unchanged
		okFwd := false
		r0 := an.Result(acall, 0)
		for _, r := range an.Returns(fn) {
			if len(r.Results) == 2 && len(r0) > 0 && an.Aliases(r0...)[r.Results[0]] {
				okFwd = true
			}
		}
		c.Check(okFwd, "O2", "R-FLOW", name, "return=assembled-URL", acall.Pos(), "the assembled URL is returned unchanged",
			"toSubdomainURL does not return the URL assembled by "+an.FuncName(afn))
	}
}

// ---------------------------------------------------------------- O3

// c32AcceptedConsts: for `func f(s string) bool { switch s { case K...: return true; default: return false } }`
// returns the constants for which it returns true (typed AST).
func c32AcceptedConsts(c *an.Ctx, fname string) ([]string, bool) {
	pk, fd := c.P.FuncDecl(c30Gw, "", fname)
	if fd == nil || fd.Body == nil || fd.Type.Params == nil || len(fd.Type.Params.List) != 1 || len(fd.Type.Params.List[0].Names) != 1 {
		return nil, false
	}
	param := pk.TypesInfo.Defs[fd.Type.Params.List[0].Names[0]]
	var out []string
	okShape := true
	n := 0
	for _, stmt := range fd.Body.List {
		sw, ok := stmt.(*ast.SwitchStmt)
		if !ok {
			okShape = false
			continue
		}
		n++
		id, ok := sw.Tag.(*ast.Ident)
		if !ok || pk.TypesInfo.Uses[id] != param || sw.Init != nil {
			okShape = false
			continue
		}
		for _, cc := range sw.Body.List {
			cl := cc.(*ast.CaseClause)
			ret := false
			known := false
			if len(cl.Body) >= 1 {
				if rs, ok := cl.Body[len(cl.Body)-1].(*ast.ReturnStmt); ok && len(rs.Results) == 1 {
					if tv, ok := pk.TypesInfo.Types[rs.Results[0]]; ok && tv.Value != nil && tv.Value.Kind() == constant.Bool {
						ret, known = constant.BoolVal(tv.Value), true
					}
				}
			}
			if !known {
				okShape = false
				continue
			}
			if cl.List == nil {
				if ret {
					okShape = false // default: return true — not a finite table
				}
				continue
			}
			for _, e := range cl.List {
				tv, ok := pk.TypesInfo.Types[e]
				if !ok || tv.Value == nil || tv.Value.Kind() != constant.String {
					okShape = false
					continue
				}
				if ret {
					out = append(out, constant.StringVal(tv.Value))
				}
			}
		}
	}
	sort.Strings(out)
	return out, okShape && n == 1
}

func c32Namespaces(c *an.Ctx) {
	_ = c.P
	fs, fp := c32R.subNS, c32R.peerNS
	sub, ok1 := c32AcceptedConsts(c, fs.Name())
	peer, ok2 := c32AcceptedConsts(c, fp.Name())
	if !c.Need(fs != nil && fp != nil, "gateway.isSubdomainNamespace / isPeerIDNamespace") {
		return
	}
	if !ok1 || !ok2 {
		c.Problem("namespace predicates are not a single switch over the parameter with constant cases returning a boolean constant: R-TABLE undecided")
		return
	}
	inSub := map[string]bool{}
	for _, s := range sub {
		inSub[s] = true
	}
	var extra []string
	for _, s := range peer {
		if !inSub[s] {
			extra = append(extra, s)
		}
	}
	c.Check(len(extra) == 0 && len(peer) > 0, "O3", "R-TABLE", an.FuncName(fp), "peerID-namespaces⊆subdomain-namespaces", fp.Pos(),
		fmt.Sprintf("peer-id namespaces %v are all subdomain namespaces %v", peer, sub),
		fmt.Sprintf("isPeerIDNamespace accepts %v which isSubdomainNamespace does not (%v): PeerID normalisation runs for a namespace that is never mapped to a subdomain, or a namespace is mapped without its normalisation", extra, sub))
	has := func(xs []string, s string) bool {
		for _, x := range xs {
			if x == s {
				return true
			}
		}
		return false
	}
	c.Check(has(sub, "ipfs") && has(sub, "ipns") && has(peer, "ipns") && !has(peer, "ipfs"), "O3", "R-TABLE", an.FuncName(fs), "namespaces{ipfs,ipns}", fs.Pos(),
		"ipfs and ipns are subdomain namespaces; ipns (not ipfs) is a PeerID namespace",
		fmt.Sprintf("namespace tables changed: subdomain=%v peerID=%v — /ipfs/ or /ipns/ content is no longer mapped, or /ipfs/ CIDs get their codec rewritten to libp2p-key", sub, peer))
	// both directions consult the same predicate
	for _, g := range []*ssa.Function{c32R.tsu, c32R.details} {
		n := 0
		for _, h := range c31WithCallees(g) {
			n += len(an.Calls(h, c30M(fs)))
		}
		c.Check(n > 0, "O3", "R-SIB", an.FuncName(g), "uses-subdomain-namespace-table", g.Pos(), "namespace acceptance goes through the subdomain-namespace table",
			"this direction of the mapping no longer consults isSubdomainNamespace: path->subdomain and subdomain->path accept different namespaces")
	}
}

// ---------------------------------------------------------------- O4

func c32EffectiveHost(c *an.Ctx) {
	n := 0
	for _, fn := range c.P.PkgFuncs(c30Gw) {
		var xfh []ssa.Value
		for _, cl := range an.AllCalls(fn) {
			if c30ReqHeaderRead(cl, "X-Forwarded-Host") {
				if v := an.CallValue(cl); v != nil {
					xfh = append(xfh, v)
				}
			}
		}
		if len(xfh) == 0 {
			continue
		}
		name := an.FuncName(fn)
		xal := an.Aliases(xfh...)
		// the merged value(s): phis (or cells) fed by the X-Forwarded-Host value
		merged := map[ssa.Value]bool{}
		for v := range xal {
			if refs := v.Referrers(); refs != nil {
				for _, r := range *refs {
					if ph, ok := r.(*ssa.Phi); ok {
						merged[ph] = true
					}
				}
			}
		}
		// a phi is acceptable when it is the merge itself, or when it only
		// feeds (through further phis) such a merge: host := r.Host; if ctx
		// value {host = h}; if xHost != "" {host = xHost}
		var okPhi func(ph *ssa.Phi, depth int) bool
		okPhi = func(ph *ssa.Phi, depth int) bool {
			if merged[ph] {
				return true
			}
			if depth > 6 || ph.Referrers() == nil || len(*ph.Referrers()) == 0 {
				return false
			}
			for _, r := range *ph.Referrers() {
				if _, ok := r.(*ssa.DebugRef); ok {
					continue
				}
				q, ok := r.(*ssa.Phi)
				if !ok || !okPhi(q, depth+1) {
					return false
				}
			}
			return true
		}
		var direct []string
		pos := fn.Pos()
		nHost := 0
		an.Instrs(fn, func(in ssa.Instruction) {
			u, ok := in.(*ssa.UnOp)
			if !ok || u.Op != token.MUL {
				return
			}
			f, _ := an.FieldOf(u.X)
			if f == nil || f.Name() != "Host" || !an.TypeIs(an.FieldBaseType(u.X), "net/http", "Request") {
				return
			}
			nHost++
			for _, r := range *u.Referrers() {
				if ph, ok := r.(*ssa.Phi); ok && okPhi(ph, 0) {
					continue
				}
				if _, ok := r.(*ssa.DebugRef); ok {
					continue
				}
				what := "used"
				if cl, ok := r.(ssa.CallInstruction); ok {
					what = "passed to " + an.Callee(cl).String()
				}
				direct = append(direct, what)
				pos = r.Pos()
			}
		})
		n++
		sort.Strings(direct)
		c.Check(len(direct) == 0 && nHost > 0, "O4", "R-TAINT", name, "Request.Host→effective-host-only", pos,
			"r.Host only feeds the effective host (merged with X-Forwarded-Host)",
			"r.Host is "+strings.Join(direct, ", ")+" although the handler honours X-Forwarded-Host: behind a reverse proxy the decision is taken on the proxy's internal host, e.g. a subdomain request for an already canonical CID is redirected to itself forever")
	}
	c.Min("O4 handlers honouring X-Forwarded-Host", n, 1)
}

// ---------------------------------------------------------------- O5

func c32ConcatLeaves(v ssa.Value) []ssa.Value {
	if b, ok := v.(*ssa.BinOp); ok && b.Op == token.ADD {
		if bt, ok := b.Type().Underlying().(*types.Basic); ok && bt.Info()&types.IsString != 0 {
			return append(c32ConcatLeaves(b.X), c32ConcatLeaves(b.Y)...)
		}
	}
	return []ssa.Value{v}
}

func c32HostToPath(c *an.Ctx) {
	p := c.P
	outer := p.Func(c30Gw, "", "NewHostnameHandler")
	if !c.Need(outer != nil, "gateway.NewHostnameHandler") {
		return
	}
	n := 0
	for _, fn := range an.WithClosures(outer) {
		name := an.FuncName(fn)
		// effective host values: phis merging Request.Host and X-Forwarded-Host
		effective := func(v ssa.Value) bool {
			for _, r := range an.Roots(v, nil) {
				if cl, ok := r.(*ssa.Call); ok && c30ReqHeaderRead(cl, "X-Forwarded-Host") {
					continue
				}
				if _, ok := c32FieldLoadOf(r, "net/http", "Request", "Host"); ok {
					continue
				}
				return false
			}
			return true
		}
		an.Instrs(fn, func(in ssa.Instruction) {
			st, ok := in.(*ssa.Store)
			if !ok {
				return
			}
			f, b := an.FieldOf(st.Addr)
			if f == nil || f.Name() != "Path" || !an.TypeIs(an.FieldBaseType(st.Addr), "net/url", "URL") {
				return
			}
			if _, ok := c32FieldLoadOf(b, "net/http", "Request", "URL"); !ok {
				return
			}
			n++
			leaves := c32ConcatLeaves(st.Val)
			last := leaves[len(leaves)-1]
			okTail := false
			if lb, ok := c32FieldLoadOf(last, "net/url", "URL", "Path"); ok {
				if _, ok := c32FieldLoadOf(lb, "net/http", "Request", "URL"); ok {
					okTail = true
				}
			}
			c.Check(okTail, "O5", "R-FLOW", name, "URL.Path=prefix+URL.Path", st.Pos(), "the rewritten path ends with the original request path",
				"the path rewrite does not end with the original r.URL.Path: the remainder of the request is dropped or replaced when mapping the host back to a content path")
			// prefix leaves, expanding phis of prefixes (pathPrefix variable)
			var problems []string
			// frame: the function a prefix value lives in; parameters of a package-local helper are
			// traced to the arguments of the call that led into it
			type frame struct {
				fn   *ssa.Function
				call *ssa.Call // call in up.fn that entered fn (nil for the handler itself)
				up   *frame
			}
			var rootsIn func(fr *frame, v ssa.Value, depth int) []ssa.Value
			rootsIn = func(fr *frame, v ssa.Value, depth int) []ssa.Value {
				var out []ssa.Value
				for _, r := range an.Roots(v, nil) {
					if prm, ok := r.(*ssa.Parameter); ok && fr.call != nil && prm.Parent() == fr.fn && depth < 4 {
						for k, q := range fr.fn.Params {
							if q == prm && k < len(fr.call.Call.Args) {
								out = append(out, rootsIn(fr.up, fr.call.Call.Args[k], depth+1)...)
							}
						}
						continue
					}
					out = append(out, r)
				}
				return out
			}
			detailsIdx := func(fr *frame, x ssa.Value) int {
				idx := -1
				rs := rootsIn(fr, x, 0)
				if len(rs) == 0 {
					return -1
				}
				for _, r := range rs {
					ex, ok := r.(*ssa.Extract)
					if !ok {
						return -1
					}
					cl, ok := ex.Tuple.(*ssa.Call)
					if !ok || an.Callee(cl).Static != c32R.details {
						return -1
					}
					if a := an.Args(cl); len(a) != 1 || !effective(a[0]) {
						return -1
					}
					if idx >= 0 && idx != ex.Index {
						return -1
					}
					idx = ex.Index
				}
				return idx
			}
			var check func(fr *frame, v ssa.Value, depth int, guarded func(set an.EdgeSet) bool)
			check = func(fr *frame, v ssa.Value, depth int, guarded func(set an.EdgeSet) bool) {
				if depth > 6 {
					problems = append(problems, "prefix too deep")
					return
				}
				if ph, ok := v.(*ssa.Phi); ok {
					for i, e := range ph.Edges {
						i := i
						check(fr, e, depth+1, func(set an.EdgeSet) bool { return an.PhiEdgeGuarded(fr.fn, ph, i, set) })
					}
					return
				}
				// a helper parameter: continue with the argument, in the caller's frame
				if prm, ok := v.(*ssa.Parameter); ok && fr.call != nil && prm.Parent() == fr.fn {
					for k, q := range fr.fn.Params {
						if q == prm && k < len(fr.call.Call.Args) {
							up, call := fr.up, fr.call
							check(up, call.Call.Args[k], depth+1, func(set an.EdgeSet) bool { return len(set) > 0 && an.GuardedBy(up.fn, nil, call, set) })
						}
					}
					return
				}
				// the prefix computed by a package-local helper: every value it can return
				if call, ok := v.(*ssa.Call); ok {
					g := an.Callee(call).Static
					if g != nil && g != fr.fn && len(g.Blocks) > 0 && g.Pkg == outer.Pkg && g != c32R.strip && g.Name() != "UninlineDNSLink" {
						nf := &frame{fn: g, call: call, up: fr}
						for _, ret := range an.Returns(g) {
							ret := ret
							if len(ret.Results) == 1 {
								check(nf, ret.Results[0], depth+1, func(set an.EdgeSet) bool { return len(set) > 0 && an.GuardedBy(g, nil, ret, set) })
							}
						}
						return
					}
				}
				ls := c32ConcatLeaves(v)
				// expected shapes: "/" ns "/" rootID   |  "/ipns/" X
				var dyn []ssa.Value
				var consts []string
				for _, l := range ls {
					if k, ok := an.ConstOf(l); ok && k.Kind() == constant.String {
						consts = append(consts, constant.StringVal(k))
					} else {
						dyn = append(dyn, l)
					}
				}
				switch {
				case len(dyn) == 2 && len(consts) == 2 && consts[0] == "/" && consts[1] == "/":
					if detailsIdx(fr, dyn[0]) != 2 || detailsIdx(fr, dyn[1]) != 3 {
						problems = append(problems, "prefix is not \"/\"+ns+\"/\"+rootID of knownSubdomainDetails(effective host)")
					}
				case len(dyn) == 1 && len(consts) == 1 && consts[0] == "/ipns/":
					x := dyn[0]
					if cl, ok := an.IsCallTo(x, c30M(c32R.strip)); ok {
						okEff := true
						for _, r := range rootsIn(fr, cl.Call.Args[0], 0) {
							okEff = okEff && effective(r)
						}
						if !okEff {
							problems = append(problems, "DNSLink prefix is not built from the effective host")
						}
					} else if cl, ok := an.IsCallTo(x, an.M(c30Gw, "", "UninlineDNSLink")); ok {
						if detailsIdx(fr, cl.Call.Args[0]) != 3 {
							problems = append(problems, "un-inlined DNSLink name is not derived from the subdomain's root id")
						} else {
							// the un-inlined name replaces the label only where it has a DNSLink record itself,
							// or where the label as written has none
							fq := an.Aliases(cl)
							set := an.CallEdges(fr.fn, c30M(c32R.hasDNS), c32HostArgIdx(), func(v ssa.Value) bool { return fq[v] }, true).Union(
								an.CallEdges(fr.fn, c30M(c32R.hasDNS), c32HostArgIdx(), func(v ssa.Value) bool { return detailsIdx(fr, v) == 3 }, false))
							if !guarded(set) {
								problems = append(problems, "the un-inlined DNSLink name is used on a path where neither hasDNSLinkRecord(un-inlined name) is true nor hasDNSLinkRecord(label as written) is false: a label that is itself a DNSLink name is served as a different name")
							}
						}
					} else {
						problems = append(problems, "\"/ipns/\" prefix followed by an unrecognised name: "+an.PathOf(x))
					}
				default:
					problems = append(problems, fmt.Sprintf("unrecognised prefix shape (consts %q, %d dynamic parts)", consts, len(dyn)))
				}
			}
			root := &frame{fn: fn}
			if okTail {
				pre := leaves[:len(leaves)-1]
				top := func(set an.EdgeSet) bool { return len(set) > 0 && an.GuardedBy(fn, nil, st, set) }
				if len(pre) == 1 {
					check(root, pre[0], 0, top)
				} else {
					// rebuild: the prefix is a concatenation whose leaves are pre
					// (st.Val = ((a+b)+c)+tail) : check the left operand of the outermost ADD
					if b, ok := st.Val.(*ssa.BinOp); ok {
						check(root, b.X, 0, top)
					}
				}
			}
			sort.Strings(problems)
			{
				var uniq []string
				for i, x := range problems {
					if i == 0 || x != problems[i-1] {
						uniq = append(uniq, x)
					}
				}
				problems = uniq
			}
			c.Check(len(problems) == 0, "O5", "R-FLOW", name, "URL.Path-prefix", st.Pos(), "the path prefix names the namespace and root id (or DNSLink name) extracted from the effective host",
				"host→path rewrite: "+strings.Join(problems, "; ")+" — the content path served differs from the one the host names")
		})
	}
	c.Min("O5 stores to r.URL.Path in the hostname handler", n, 1)
}

// c32HostArgIdx: index of the host-name (string) parameter of the DNSLink-record predicate.
func c32HostArgIdx() int {
	idx := 0
	for i, q := range c32R.hasDNS.Params {
		if c30IsString(q.Type()) {
			idx = i
		}
	}
	return idx
}

// ---------------------------------------------------------------- O1 (codec)

// c32Codec: the byte-wise DNSLink inlining and its inverse, read off the SSA as a table
// "which bytes are appended under which comparisons of the current byte":
//
//	InlineDNSLink:   '-' -> "--", '.' -> "-", other -> itself
//	UninlineDNSLink: "--" -> '-' (and the second dash is skipped), '-' -> '.', other -> itself
//
// so that Uninline(Inline(x)) == x. Only the byte-loop shape is judged (an implementation
// through strings.ReplaceAll/Replacer has no such appends and is left to its own constants).
func c32Codec(c *an.Ctx) {
	type want struct {
		fn    string
		table map[string]string
	}
	for _, w := range []want{
		{"InlineDNSLink", map[string]string{"-": "--", ".": "-", "": "*"}},
		{"UninlineDNSLink", map[string]string{"--": "-+skip", "-": ".", "": "*"}},
	} {
		fn := c.P.Func(c30Gw, "", w.fn)
		if fn == nil {
			continue
		}
		// byte comparisons with a constant
		type cmp struct {
			k     string
			edges an.EdgeSet
		}
		var cmps []cmp
		an.Instrs(fn, func(in ssa.Instruction) {
			b, ok := in.(*ssa.BinOp)
			if !ok || (b.Op != token.EQL && b.Op != token.NEQ) {
				return
			}
			for _, pr := range [][2]ssa.Value{{b.X, b.Y}, {b.Y, b.X}} {
				bt, isB := pr[0].Type().Underlying().(*types.Basic)
				kv, isK := an.ConstOf(pr[1])
				if !isB || bt.Kind() != types.Uint8 || !isK {
					continue
				}
				if v, ok := constant.Int64Val(constant.ToInt(kv)); ok {
					cmps = append(cmps, cmp{string(rune(v)), an.BoolEdges(fn, []ssa.Value{b}, b.Op == token.EQL)})
				}
			}
		})
		got := map[string]string{}
		n := 0
		for _, cl := range an.AllCalls(fn) {
			cv := an.CallValue(cl)
			if cv == nil {
				continue
			}
			if bi, ok := cv.Call.Value.(*ssa.Builtin); !ok || bi.Name() != "append" || len(cv.Call.Args) != 2 {
				continue
			}
			sl, ok := cv.Call.Args[1].(*ssa.Slice)
			if !ok {
				continue
			}
			arr, ok := sl.X.(*ssa.Alloc)
			if !ok {
				continue
			}
			at, ok := arr.Type().(*types.Pointer).Elem().Underlying().(*types.Array)
			if !ok {
				continue
			}
			elems := make([]string, at.Len())
			for _, ref := range *arr.Referrers() {
				ia, ok := ref.(*ssa.IndexAddr)
				if !ok {
					continue
				}
				i, ok := an.IntConst(ia.Index)
				if !ok || i < 0 || i >= at.Len() {
					continue
				}
				for _, r2 := range *ia.Referrers() {
					if st, ok := r2.(*ssa.Store); ok {
						if kv, isK := an.ConstOf(st.Val); isK {
							if v, ok := constant.Int64Val(constant.ToInt(kv)); ok {
								elems[i] = string(rune(v))
							}
						} else {
							elems[i] = "*"
						}
					}
				}
			}
			guard := ""
			for _, cm := range cmps {
				if len(cm.edges) > 0 && an.GuardedBy(fn, nil, cv, cm.edges) {
					guard += cm.k
				}
			}
			val := strings.Join(elems, "")
			if guard == "--" {
				// the second dash is consumed: an index increment of its own on this path
				skip := false
				an.Instrs(fn, func(in ssa.Instruction) {
					b, ok := in.(*ssa.BinOp)
					if !ok || b.Op != token.ADD {
						return
					}
					if k, ok := an.IntConst(b.Y); !ok || k != 1 {
						return
					}
					if _, isPhi := b.X.(*ssa.Phi); !isPhi {
						return
					}
					all := true
					for _, cm := range cmps {
						if cm.k == "-" && !(len(cm.edges) > 0 && an.GuardedBy(fn, nil, b, cm.edges)) {
							all = false
						}
					}
					// used as the new index (flows into a phi), not only as a look-ahead subscript
					for _, ref := range *b.Referrers() {
						if _, isPhi := ref.(*ssa.Phi); isPhi && all {
							skip = true
						}
					}
				})
				if skip {
					val += "+skip"
				}
			}
			n++
			if old, dup := got[guard]; dup && old != val {
				val = old + "|" + val
			}
			got[guard] = val
		}
		if n < 2 || len(cmps) == 0 {
			c.Note("C32 O1: %s is not a byte loop with per-byte appends; its mapping is not judged", w.fn)
			continue
		}
		// other shapes (extra cases, a flag-driven skip) are not judged
		foreign := false
		for k := range got {
			if _, ok := w.table[k]; !ok {
				foreign = true
			}
		}
		an.Instrs(fn, func(in ssa.Instruction) {
			if ph, ok := in.(*ssa.Phi); ok {
				if bt, ok := ph.Type().Underlying().(*types.Basic); ok && bt.Kind() == types.Bool {
					foreign = true
				}
			}
		})
		if foreign {
			c.Note("C32 O1: %s has a shape other than one append per byte class; its mapping is not judged", w.fn)
			continue
		}
		var diffs []string
		for k, v := range w.table {
			if got[k] != v {
				diffs = append(diffs, fmt.Sprintf("under %q appends %q (want %q)", k, got[k], v))
			}
		}
		for k, v := range got {
			if _, ok := w.table[k]; !ok {
				diffs = append(diffs, fmt.Sprintf("unexpected case %q -> %q", k, v))
			}
		}
		sort.Strings(diffs)
		c.Check(len(diffs) == 0, "O1", "R-TABLE", "gateway."+w.fn, "byte-mapping-table", fn.Pos(),
			"the per-byte mapping is the DNSLink inlining table ('-'<->\"--\", '.'<->'-', other bytes unchanged)",
			"the per-byte mapping of "+w.fn+" differs from the DNSLink inlining table ("+strings.Join(diffs, "; ")+"; '*' = the current byte): an inlined label no longer decodes back to the original FQDN, or contains a dot")
	}
}
